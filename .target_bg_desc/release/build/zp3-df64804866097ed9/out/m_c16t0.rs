use asn1rs::prelude::*;

#[asn(transparent, tag(APPLICATION(9)))]

#[derive(Default, Debug, Clone, PartialEq, Hash)]
pub struct Tapp9(#[asn(integer(0..3))] pub u8);

impl Tapp9 {
    pub const fn value_min() -> u8 {
        0
    }

    pub const fn value_max() -> u8 {
        3
    }
}

impl Tapp9 {
    pub const fn new(value: u8) -> Self {
        Self(value)
    }
}

impl ::core::ops::Deref for Tapp9 {
    type Target = u8;

    fn deref(&self) -> &u8 {
        &self.0
    }
}

impl ::core::ops::DerefMut for Tapp9 {
    fn deref_mut(&mut self) -> &mut u8 {
        &mut self.0
    }
}

impl ::core::convert::From<u8> for Tapp9 {
    fn from(value: u8) -> Self {
        Self(value)
    }
}

impl ::core::convert::From<Tapp9> for u8 {
    fn from(value: Tapp9) -> Self {
        value.0
    }
}

#[asn(sequence)]

#[derive(Default, Debug, Clone, PartialEq, Hash)]
pub struct Tsq {
    #[asn(boolean)] pub z: bool,
}

impl Tsq {
}

#[asn(choice)]

#[derive(Debug, Clone, PartialEq, Hash)]
pub enum Tcho {
    #[asn(boolean, tag(4))] M(bool),
    #[asn(integer(0..7), tag(1))] N(u8),
}

impl Tcho {
    pub fn variants() -> [Self; 2] {
        [
        Tcho::M(Default::default()),
        Tcho::N(Default::default()),
        ]
    }

    pub fn value_index(&self) -> usize {
        match self {
            Tcho::M(_) => 0,
            Tcho::N(_) => 1,
        }
    }

    pub const fn n_min() -> u8 {
        0
    }

    pub const fn n_max() -> u8 {
        7
    }
}

impl Default for Tcho {
    fn default() -> Tcho {
        Tcho::M(Default::default())
    }
}

#[asn(choice, extensible_after(N))]

#[derive(Debug, Clone, PartialEq, Hash)]
pub enum Tchox {
    #[asn(boolean, tag(PRIVATE(1)))] M(bool),
    #[asn(integer(0..7), tag(PRIVATE(3)))] N(u8),
    #[asn(null, tag(APPLICATION(2)))] O(Null),
}

impl Tchox {
    pub fn variants() -> [Self; 3] {
        [
        Tchox::M(Default::default()),
        Tchox::N(Default::default()),
        Tchox::O(Default::default()),
        ]
    }

    pub fn value_index(&self) -> usize {
        match self {
            Tchox::M(_) => 0,
            Tchox::N(_) => 1,
            Tchox::O(_) => 2,
        }
    }

    pub const fn n_min() -> u8 {
        0
    }

    pub const fn n_max() -> u8 {
        7
    }
}

impl Default for Tchox {
    fn default() -> Tchox {
        Tchox::M(Default::default())
    }
}

#[asn(set)]

#[derive(Default, Debug, Clone, PartialEq, Hash)]
pub struct Tst {
    #[asn(boolean)] pub z: bool,
}

impl Tst {
}

#[asn(set)]

#[derive(Default, Debug, Clone, PartialEq, Hash)]
pub struct Ttp0p1p2 {
    #[asn(integer(0..7), tag(UNIVERSAL(30)))] pub x: u8,
    #[asn(optional(integer(0..15)), tag(APPLICATION(1)))] pub a: Option<u8>,
    #[asn(integer(0..31), tag(3))] pub c3: u8,
}

impl Ttp0p1p2 {
    pub const fn x_min() -> u8 {
        0
    }

    pub const fn x_max() -> u8 {
        7
    }

    pub const fn a_min() -> u8 {
        0
    }

    pub const fn a_max() -> u8 {
        15
    }

    pub const fn c3_min() -> u8 {
        0
    }

    pub const fn c3_max() -> u8 {
        31
    }
}

#[asn(set)]

#[derive(Default, Debug, Clone, PartialEq, Hash)]
pub struct Ttp0p1p3 {
    #[asn(integer(0..7), tag(UNIVERSAL(30)))] pub x: u8,
    #[asn(optional(integer(0..15)), tag(APPLICATION(1)))] pub a: Option<u8>,
    #[asn(optional(integer(0..63)), tag(0))] pub c0: Option<u8>,
}

impl Ttp0p1p3 {
    pub const fn x_min() -> u8 {
        0
    }

    pub const fn x_max() -> u8 {
        7
    }

    pub const fn a_min() -> u8 {
        0
    }

    pub const fn a_max() -> u8 {
        15
    }

    pub const fn c0_min() -> u8 {
        0
    }

    pub const fn c0_max() -> u8 {
        63
    }
}

#[asn(set)]

#[derive(Default, Debug, Clone, PartialEq, Hash)]
pub struct Ttp0p1p4 {
    #[asn(integer(0..7), tag(UNIVERSAL(30)))] pub x: u8,
    #[asn(optional(integer(0..15)), tag(APPLICATION(1)))] pub a: Option<u8>,
    #[asn(integer(0..127), tag(PRIVATE(2)))] pub p: u8,
}

impl Ttp0p1p4 {
    pub const fn x_min() -> u8 {
        0
    }

    pub const fn x_max() -> u8 {
        7
    }

    pub const fn a_min() -> u8 {
        0
    }

    pub const fn a_max() -> u8 {
        15
    }

    pub const fn p_min() -> u8 {
        0
    }

    pub const fn p_max() -> u8 {
        127
    }
}

#[asn(set)]

#[derive(Default, Debug, Clone, PartialEq, Hash)]
pub struct Ttp0p1p5 {
    #[asn(integer(0..7), tag(UNIVERSAL(30)))] pub x: u8,
    #[asn(optional(integer(0..15)), tag(APPLICATION(1)))] pub a: Option<u8>,
    #[asn(optional(boolean))] pub b: Option<bool>,
}

impl Ttp0p1p5 {
    pub const fn x_min() -> u8 {
        0
    }

    pub const fn x_max() -> u8 {
        7
    }

    pub const fn a_min() -> u8 {
        0
    }

    pub const fn a_max() -> u8 {
        15
    }
}

#[asn(set)]

#[derive(Default, Debug, Clone, PartialEq, Hash)]
pub struct Ttp0p1p6 {
    #[asn(integer(0..7), tag(UNIVERSAL(30)))] pub x: u8,
    #[asn(optional(integer(0..15)), tag(APPLICATION(1)))] pub a: Option<u8>,
    #[asn(integer(0..255))] pub i: u8,
}

impl Ttp0p1p6 {
    pub const fn x_min() -> u8 {
        0
    }

    pub const fn x_max() -> u8 {
        7
    }

    pub const fn a_min() -> u8 {
        0
    }

    pub const fn a_max() -> u8 {
        15
    }

    pub const fn i_min() -> u8 {
        0
    }

    pub const fn i_max() -> u8 {
        255
    }
}

#[asn(set)]

#[derive(Default, Debug, Clone, PartialEq, Hash)]
pub struct Ttp0p1p7 {
    #[asn(integer(0..7), tag(UNIVERSAL(30)))] pub x: u8,
    #[asn(optional(integer(0..15)), tag(APPLICATION(1)))] pub a: Option<u8>,
    #[asn(optional(complex(Tapp9, tag(APPLICATION(9)))))] pub ra: Option<Tapp9>,
}

impl Ttp0p1p7 {
    pub const fn x_min() -> u8 {
        0
    }

    pub const fn x_max() -> u8 {
        7
    }

    pub const fn a_min() -> u8 {
        0
    }

    pub const fn a_max() -> u8 {
        15
    }
}

#[asn(set)]

#[derive(Default, Debug, Clone, PartialEq, Hash)]
pub struct Ttp0p1p8 {
    #[asn(integer(0..7), tag(UNIVERSAL(30)))] pub x: u8,
    #[asn(optional(integer(0..15)), tag(APPLICATION(1)))] pub a: Option<u8>,
    #[asn(complex(Tsq, tag(UNIVERSAL(16))))] pub rs: Tsq,
}

impl Ttp0p1p8 {
    pub const fn x_min() -> u8 {
        0
    }

    pub const fn x_max() -> u8 {
        7
    }

    pub const fn a_min() -> u8 {
        0
    }

    pub const fn a_max() -> u8 {
        15
    }
}

#[asn(set)]

#[derive(Default, Debug, Clone, PartialEq, Hash)]
pub struct Ttp0p1p9 {
    #[asn(integer(0..7), tag(UNIVERSAL(30)))] pub x: u8,
    #[asn(optional(integer(0..15)), tag(APPLICATION(1)))] pub a: Option<u8>,
    #[asn(optional(complex(Tcho, tag(1))))] pub rc: Option<Tcho>,
}

impl Ttp0p1p9 {
    pub const fn x_min() -> u8 {
        0
    }

    pub const fn x_max() -> u8 {
        7
    }

    pub const fn a_min() -> u8 {
        0
    }

    pub const fn a_max() -> u8 {
        15
    }
}

#[asn(set)]

#[derive(Default, Debug, Clone, PartialEq, Hash)]
pub struct Ttp0p1p10 {
    #[asn(integer(0..7), tag(UNIVERSAL(30)))] pub x: u8,
    #[asn(optional(integer(0..15)), tag(APPLICATION(1)))] pub a: Option<u8>,
    #[asn(complex(Tst, tag(UNIVERSAL(17))))] pub rt: Tst,
}

impl Ttp0p1p10 {
    pub const fn x_min() -> u8 {
        0
    }

    pub const fn x_max() -> u8 {
        7
    }

    pub const fn a_min() -> u8 {
        0
    }

    pub const fn a_max() -> u8 {
        15
    }
}

#[asn(set)]

#[derive(Default, Debug, Clone, PartialEq, Hash)]
pub struct Ttp0p1p11 {
    #[asn(integer(0..7), tag(UNIVERSAL(30)))] pub x: u8,
    #[asn(optional(integer(0..15)), tag(APPLICATION(1)))] pub a: Option<u8>,
    #[asn(optional(sequence_of(size(0..3), boolean)))] pub so: Option<Vec<bool>>,
}

impl Ttp0p1p11 {
    pub const fn x_min() -> u8 {
        0
    }

    pub const fn x_max() -> u8 {
        7
    }

    pub const fn a_min() -> u8 {
        0
    }

    pub const fn a_max() -> u8 {
        15
    }
}

#[asn(set)]

#[derive(Default, Debug, Clone, PartialEq, Hash)]
pub struct Ttp0p1p12 {
    #[asn(integer(0..7), tag(UNIVERSAL(30)))] pub x: u8,
    #[asn(optional(integer(0..15)), tag(APPLICATION(1)))] pub a: Option<u8>,
    #[asn(set_of(size(0..2), boolean))] pub st: Vec<bool>,
}

impl Ttp0p1p12 {
    pub const fn x_min() -> u8 {
        0
    }

    pub const fn x_max() -> u8 {
        7
    }

    pub const fn a_min() -> u8 {
        0
    }

    pub const fn a_max() -> u8 {
        15
    }
}

#[asn(set)]

#[derive(Default, Debug, Clone, PartialEq, Hash)]
pub struct Ttp0p1p13 {
    #[asn(integer(0..7), tag(UNIVERSAL(30)))] pub x: u8,
    #[asn(optional(integer(0..15)), tag(APPLICATION(1)))] pub a: Option<u8>,
    #[asn(optional(complex(Tchox, tag(PRIVATE(1)))))] pub rx: Option<Tchox>,
}

impl Ttp0p1p13 {
    pub const fn x_min() -> u8 {
        0
    }

    pub const fn x_max() -> u8 {
        7
    }

    pub const fn a_min() -> u8 {
        0
    }

    pub const fn a_max() -> u8 {
        15
    }
}

#[asn(set)]

#[derive(Default, Debug, Clone, PartialEq, Hash)]
pub struct Ttp0p1p14 {
    #[asn(integer(0..7), tag(UNIVERSAL(30)))] pub x: u8,
    #[asn(optional(integer(0..15)), tag(APPLICATION(1)))] pub a: Option<u8>,
    #[asn(integer(0..1), tag(UNIVERSAL(2)))] pub u2: u8,
}

impl Ttp0p1p14 {
    pub const fn x_min() -> u8 {
        0
    }

    pub const fn x_max() -> u8 {
        7
    }

    pub const fn a_min() -> u8 {
        0
    }

    pub const fn a_max() -> u8 {
        15
    }

    pub const fn u2_min() -> u8 {
        0
    }

    pub const fn u2_max() -> u8 {
        1
    }
}

#[asn(sequence, tag(APPLICATION(5)))]

#[derive(Default, Debug, Clone, PartialEq, Hash)]
pub struct Ttp0p1p15Is {
    #[asn(integer(0..3))] pub v: u8,
}

impl Ttp0p1p15Is {
    pub const fn v_min() -> u8 {
        0
    }

    pub const fn v_max() -> u8 {
        3
    }
}

#[asn(set)]

#[derive(Default, Debug, Clone, PartialEq, Hash)]
pub struct Ttp0p1p15 {
    #[asn(integer(0..7), tag(UNIVERSAL(30)))] pub x: u8,
    #[asn(optional(integer(0..15)), tag(APPLICATION(1)))] pub a: Option<u8>,
    #[asn(optional(complex(Ttp0p1p15Is, tag(APPLICATION(5)))), tag(APPLICATION(5)))] pub is: Option<Ttp0p1p15Is>,
}

impl Ttp0p1p15 {
    pub const fn x_min() -> u8 {
        0
    }

    pub const fn x_max() -> u8 {
        7
    }

    pub const fn a_min() -> u8 {
        0
    }

    pub const fn a_max() -> u8 {
        15
    }
}

#[asn(set)]

#[derive(Default, Debug, Clone, PartialEq, Hash)]
pub struct Ttp0p2p1 {
    #[asn(integer(0..7), tag(UNIVERSAL(30)))] pub x: u8,
    #[asn(integer(0..31), tag(3))] pub c3: u8,
    #[asn(optional(integer(0..15)), tag(APPLICATION(1)))] pub a: Option<u8>,
}

impl Ttp0p2p1 {
    pub const fn x_min() -> u8 {
        0
    }

    pub const fn x_max() -> u8 {
        7
    }

    pub const fn c3_min() -> u8 {
        0
    }

    pub const fn c3_max() -> u8 {
        31
    }

    pub const fn a_min() -> u8 {
        0
    }

    pub const fn a_max() -> u8 {
        15
    }
}

#[asn(set)]

#[derive(Default, Debug, Clone, PartialEq, Hash)]
pub struct Ttp0p2p3 {
    #[asn(integer(0..7), tag(UNIVERSAL(30)))] pub x: u8,
    #[asn(integer(0..31), tag(3))] pub c3: u8,
    #[asn(optional(integer(0..63)), tag(0))] pub c0: Option<u8>,
}

impl Ttp0p2p3 {
    pub const fn x_min() -> u8 {
        0
    }

    pub const fn x_max() -> u8 {
        7
    }

    pub const fn c3_min() -> u8 {
        0
    }

    pub const fn c3_max() -> u8 {
        31
    }

    pub const fn c0_min() -> u8 {
        0
    }

    pub const fn c0_max() -> u8 {
        63
    }
}

#[asn(set)]

#[derive(Default, Debug, Clone, PartialEq, Hash)]
pub struct Ttp0p2p4 {
    #[asn(integer(0..7), tag(UNIVERSAL(30)))] pub x: u8,
    #[asn(integer(0..31), tag(3))] pub c3: u8,
    #[asn(integer(0..127), tag(PRIVATE(2)))] pub p: u8,
}

impl Ttp0p2p4 {
    pub const fn x_min() -> u8 {
        0
    }

    pub const fn x_max() -> u8 {
        7
    }

    pub const fn c3_min() -> u8 {
        0
    }

    pub const fn c3_max() -> u8 {
        31
    }

    pub const fn p_min() -> u8 {
        0
    }

    pub const fn p_max() -> u8 {
        127
    }
}

#[asn(set)]

#[derive(Default, Debug, Clone, PartialEq, Hash)]
pub struct Ttp0p2p5 {
    #[asn(integer(0..7), tag(UNIVERSAL(30)))] pub x: u8,
    #[asn(integer(0..31), tag(3))] pub c3: u8,
    #[asn(optional(boolean))] pub b: Option<bool>,
}

impl Ttp0p2p5 {
    pub const fn x_min() -> u8 {
        0
    }

    pub const fn x_max() -> u8 {
        7
    }

    pub const fn c3_min() -> u8 {
        0
    }

    pub const fn c3_max() -> u8 {
        31
    }
}

#[asn(set)]

#[derive(Default, Debug, Clone, PartialEq, Hash)]
pub struct Ttp0p2p6 {
    #[asn(integer(0..7), tag(UNIVERSAL(30)))] pub x: u8,
    #[asn(integer(0..31), tag(3))] pub c3: u8,
    #[asn(integer(0..255))] pub i: u8,
}

impl Ttp0p2p6 {
    pub const fn x_min() -> u8 {
        0
    }

    pub const fn x_max() -> u8 {
        7
    }

    pub const fn c3_min() -> u8 {
        0
    }

    pub const fn c3_max() -> u8 {
        31
    }

    pub const fn i_min() -> u8 {
        0
    }

    pub const fn i_max() -> u8 {
        255
    }
}

#[asn(set)]

#[derive(Default, Debug, Clone, PartialEq, Hash)]
pub struct Ttp0p2p7 {
    #[asn(integer(0..7), tag(UNIVERSAL(30)))] pub x: u8,
    #[asn(integer(0..31), tag(3))] pub c3: u8,
    #[asn(optional(complex(Tapp9, tag(APPLICATION(9)))))] pub ra: Option<Tapp9>,
}

impl Ttp0p2p7 {
    pub const fn x_min() -> u8 {
        0
    }

    pub const fn x_max() -> u8 {
        7
    }

    pub const fn c3_min() -> u8 {
        0
    }

    pub const fn c3_max() -> u8 {
        31
    }
}

#[asn(set)]

#[derive(Default, Debug, Clone, PartialEq, Hash)]
pub struct Ttp0p2p8 {
    #[asn(integer(0..7), tag(UNIVERSAL(30)))] pub x: u8,
    #[asn(integer(0..31), tag(3))] pub c3: u8,
    #[asn(complex(Tsq, tag(UNIVERSAL(16))))] pub rs: Tsq,
}

impl Ttp0p2p8 {
    pub const fn x_min() -> u8 {
        0
    }

    pub const fn x_max() -> u8 {
        7
    }

    pub const fn c3_min() -> u8 {
        0
    }

    pub const fn c3_max() -> u8 {
        31
    }
}

#[asn(set)]

#[derive(Default, Debug, Clone, PartialEq, Hash)]
pub struct Ttp0p2p9 {
    #[asn(integer(0..7), tag(UNIVERSAL(30)))] pub x: u8,
    #[asn(integer(0..31), tag(3))] pub c3: u8,
    #[asn(optional(complex(Tcho, tag(1))))] pub rc: Option<Tcho>,
}

impl Ttp0p2p9 {
    pub const fn x_min() -> u8 {
        0
    }

    pub const fn x_max() -> u8 {
        7
    }

    pub const fn c3_min() -> u8 {
        0
    }

    pub const fn c3_max() -> u8 {
        31
    }
}

#[asn(set)]

#[derive(Default, Debug, Clone, PartialEq, Hash)]
pub struct Ttp0p2p10 {
    #[asn(integer(0..7), tag(UNIVERSAL(30)))] pub x: u8,
    #[asn(integer(0..31), tag(3))] pub c3: u8,
    #[asn(complex(Tst, tag(UNIVERSAL(17))))] pub rt: Tst,
}

impl Ttp0p2p10 {
    pub const fn x_min() -> u8 {
        0
    }

    pub const fn x_max() -> u8 {
        7
    }

    pub const fn c3_min() -> u8 {
        0
    }

    pub const fn c3_max() -> u8 {
        31
    }
}

#[asn(set)]

#[derive(Default, Debug, Clone, PartialEq, Hash)]
pub struct Ttp0p2p11 {
    #[asn(integer(0..7), tag(UNIVERSAL(30)))] pub x: u8,
    #[asn(integer(0..31), tag(3))] pub c3: u8,
    #[asn(optional(sequence_of(size(0..3), boolean)))] pub so: Option<Vec<bool>>,
}

impl Ttp0p2p11 {
    pub const fn x_min() -> u8 {
        0
    }

    pub const fn x_max() -> u8 {
        7
    }

    pub const fn c3_min() -> u8 {
        0
    }

    pub const fn c3_max() -> u8 {
        31
    }
}

#[asn(set)]

#[derive(Default, Debug, Clone, PartialEq, Hash)]
pub struct Ttp0p2p12 {
    #[asn(integer(0..7), tag(UNIVERSAL(30)))] pub x: u8,
    #[asn(integer(0..31), tag(3))] pub c3: u8,
    #[asn(set_of(size(0..2), boolean))] pub st: Vec<bool>,
}

impl Ttp0p2p12 {
    pub const fn x_min() -> u8 {
        0
    }

    pub const fn x_max() -> u8 {
        7
    }

    pub const fn c3_min() -> u8 {
        0
    }

    pub const fn c3_max() -> u8 {
        31
    }
}

#[asn(set)]

#[derive(Default, Debug, Clone, PartialEq, Hash)]
pub struct Ttp0p2p13 {
    #[asn(integer(0..7), tag(UNIVERSAL(30)))] pub x: u8,
    #[asn(integer(0..31), tag(3))] pub c3: u8,
    #[asn(optional(complex(Tchox, tag(PRIVATE(1)))))] pub rx: Option<Tchox>,
}

impl Ttp0p2p13 {
    pub const fn x_min() -> u8 {
        0
    }

    pub const fn x_max() -> u8 {
        7
    }

    pub const fn c3_min() -> u8 {
        0
    }

    pub const fn c3_max() -> u8 {
        31
    }
}

#[asn(set)]

#[derive(Default, Debug, Clone, PartialEq, Hash)]
pub struct Ttp0p2p14 {
    #[asn(integer(0..7), tag(UNIVERSAL(30)))] pub x: u8,
    #[asn(integer(0..31), tag(3))] pub c3: u8,
    #[asn(integer(0..1), tag(UNIVERSAL(2)))] pub u2: u8,
}

impl Ttp0p2p14 {
    pub const fn x_min() -> u8 {
        0
    }

    pub const fn x_max() -> u8 {
        7
    }

    pub const fn c3_min() -> u8 {
        0
    }

    pub const fn c3_max() -> u8 {
        31
    }

    pub const fn u2_min() -> u8 {
        0
    }

    pub const fn u2_max() -> u8 {
        1
    }
}

#[asn(sequence, tag(APPLICATION(5)))]

#[derive(Default, Debug, Clone, PartialEq, Hash)]
pub struct Ttp0p2p15Is {
    #[asn(integer(0..3))] pub v: u8,
}

impl Ttp0p2p15Is {
    pub const fn v_min() -> u8 {
        0
    }

    pub const fn v_max() -> u8 {
        3
    }
}

#[asn(set)]

#[derive(Default, Debug, Clone, PartialEq, Hash)]
pub struct Ttp0p2p15 {
    #[asn(integer(0..7), tag(UNIVERSAL(30)))] pub x: u8,
    #[asn(integer(0..31), tag(3))] pub c3: u8,
    #[asn(optional(complex(Ttp0p2p15Is, tag(APPLICATION(5)))), tag(APPLICATION(5)))] pub is: Option<Ttp0p2p15Is>,
}

impl Ttp0p2p15 {
    pub const fn x_min() -> u8 {
        0
    }

    pub const fn x_max() -> u8 {
        7
    }

    pub const fn c3_min() -> u8 {
        0
    }

    pub const fn c3_max() -> u8 {
        31
    }
}

#[asn(set)]

#[derive(Default, Debug, Clone, PartialEq, Hash)]
pub struct Ttp0p3p1 {
    #[asn(integer(0..7), tag(UNIVERSAL(30)))] pub x: u8,
    #[asn(optional(integer(0..63)), tag(0))] pub c0: Option<u8>,
    #[asn(optional(integer(0..15)), tag(APPLICATION(1)))] pub a: Option<u8>,
}

impl Ttp0p3p1 {
    pub const fn x_min() -> u8 {
        0
    }

    pub const fn x_max() -> u8 {
        7
    }

    pub const fn c0_min() -> u8 {
        0
    }

    pub const fn c0_max() -> u8 {
        63
    }

    pub const fn a_min() -> u8 {
        0
    }

    pub const fn a_max() -> u8 {
        15
    }
}

#[asn(set)]

#[derive(Default, Debug, Clone, PartialEq, Hash)]
pub struct Ttp0p3p2 {
    #[asn(integer(0..7), tag(UNIVERSAL(30)))] pub x: u8,
    #[asn(optional(integer(0..63)), tag(0))] pub c0: Option<u8>,
    #[asn(integer(0..31), tag(3))] pub c3: u8,
}

impl Ttp0p3p2 {
    pub const fn x_min() -> u8 {
        0
    }

    pub const fn x_max() -> u8 {
        7
    }

    pub const fn c0_min() -> u8 {
        0
    }

    pub const fn c0_max() -> u8 {
        63
    }

    pub const fn c3_min() -> u8 {
        0
    }

    pub const fn c3_max() -> u8 {
        31
    }
}

#[asn(set)]

#[derive(Default, Debug, Clone, PartialEq, Hash)]
pub struct Ttp0p3p4 {
    #[asn(integer(0..7), tag(UNIVERSAL(30)))] pub x: u8,
    #[asn(optional(integer(0..63)), tag(0))] pub c0: Option<u8>,
    #[asn(integer(0..127), tag(PRIVATE(2)))] pub p: u8,
}

impl Ttp0p3p4 {
    pub const fn x_min() -> u8 {
        0
    }

    pub const fn x_max() -> u8 {
        7
    }

    pub const fn c0_min() -> u8 {
        0
    }

    pub const fn c0_max() -> u8 {
        63
    }

    pub const fn p_min() -> u8 {
        0
    }

    pub const fn p_max() -> u8 {
        127
    }
}

#[asn(set)]

#[derive(Default, Debug, Clone, PartialEq, Hash)]
pub struct Ttp0p3p5 {
    #[asn(integer(0..7), tag(UNIVERSAL(30)))] pub x: u8,
    #[asn(optional(integer(0..63)), tag(0))] pub c0: Option<u8>,
    #[asn(optional(boolean))] pub b: Option<bool>,
}

impl Ttp0p3p5 {
    pub const fn x_min() -> u8 {
        0
    }

    pub const fn x_max() -> u8 {
        7
    }

    pub const fn c0_min() -> u8 {
        0
    }

    pub const fn c0_max() -> u8 {
        63
    }
}

#[asn(set)]

#[derive(Default, Debug, Clone, PartialEq, Hash)]
pub struct Ttp0p3p6 {
    #[asn(integer(0..7), tag(UNIVERSAL(30)))] pub x: u8,
    #[asn(optional(integer(0..63)), tag(0))] pub c0: Option<u8>,
    #[asn(integer(0..255))] pub i: u8,
}

impl Ttp0p3p6 {
    pub const fn x_min() -> u8 {
        0
    }

    pub const fn x_max() -> u8 {
        7
    }

    pub const fn c0_min() -> u8 {
        0
    }

    pub const fn c0_max() -> u8 {
        63
    }

    pub const fn i_min() -> u8 {
        0
    }

    pub const fn i_max() -> u8 {
        255
    }
}

#[asn(set)]

#[derive(Default, Debug, Clone, PartialEq, Hash)]
pub struct Ttp0p3p7 {
    #[asn(integer(0..7), tag(UNIVERSAL(30)))] pub x: u8,
    #[asn(optional(integer(0..63)), tag(0))] pub c0: Option<u8>,
    #[asn(optional(complex(Tapp9, tag(APPLICATION(9)))))] pub ra: Option<Tapp9>,
}

impl Ttp0p3p7 {
    pub const fn x_min() -> u8 {
        0
    }

    pub const fn x_max() -> u8 {
        7
    }

    pub const fn c0_min() -> u8 {
        0
    }

    pub const fn c0_max() -> u8 {
        63
    }
}

#[asn(set)]

#[derive(Default, Debug, Clone, PartialEq, Hash)]
pub struct Ttp0p3p8 {
    #[asn(integer(0..7), tag(UNIVERSAL(30)))] pub x: u8,
    #[asn(optional(integer(0..63)), tag(0))] pub c0: Option<u8>,
    #[asn(complex(Tsq, tag(UNIVERSAL(16))))] pub rs: Tsq,
}

impl Ttp0p3p8 {
    pub const fn x_min() -> u8 {
        0
    }

    pub const fn x_max() -> u8 {
        7
    }

    pub const fn c0_min() -> u8 {
        0
    }

    pub const fn c0_max() -> u8 {
        63
    }
}

#[asn(set)]

#[derive(Default, Debug, Clone, PartialEq, Hash)]
pub struct Ttp0p3p9 {
    #[asn(integer(0..7), tag(UNIVERSAL(30)))] pub x: u8,
    #[asn(optional(integer(0..63)), tag(0))] pub c0: Option<u8>,
    #[asn(optional(complex(Tcho, tag(1))))] pub rc: Option<Tcho>,
}

impl Ttp0p3p9 {
    pub const fn x_min() -> u8 {
        0
    }

    pub const fn x_max() -> u8 {
        7
    }

    pub const fn c0_min() -> u8 {
        0
    }

    pub const fn c0_max() -> u8 {
        63
    }
}

#[asn(set)]

#[derive(Default, Debug, Clone, PartialEq, Hash)]
pub struct Ttp0p3p10 {
    #[asn(integer(0..7), tag(UNIVERSAL(30)))] pub x: u8,
    #[asn(optional(integer(0..63)), tag(0))] pub c0: Option<u8>,
    #[asn(complex(Tst, tag(UNIVERSAL(17))))] pub rt: Tst,
}

impl Ttp0p3p10 {
    pub const fn x_min() -> u8 {
        0
    }

    pub const fn x_max() -> u8 {
        7
    }

    pub const fn c0_min() -> u8 {
        0
    }

    pub const fn c0_max() -> u8 {
        63
    }
}

#[asn(set)]

#[derive(Default, Debug, Clone, PartialEq, Hash)]
pub struct Ttp0p3p11 {
    #[asn(integer(0..7), tag(UNIVERSAL(30)))] pub x: u8,
    #[asn(optional(integer(0..63)), tag(0))] pub c0: Option<u8>,
    #[asn(optional(sequence_of(size(0..3), boolean)))] pub so: Option<Vec<bool>>,
}

impl Ttp0p3p11 {
    pub const fn x_min() -> u8 {
        0
    }

    pub const fn x_max() -> u8 {
        7
    }

    pub const fn c0_min() -> u8 {
        0
    }

    pub const fn c0_max() -> u8 {
        63
    }
}

#[asn(set)]

#[derive(Default, Debug, Clone, PartialEq, Hash)]
pub struct Ttp0p3p12 {
    #[asn(integer(0..7), tag(UNIVERSAL(30)))] pub x: u8,
    #[asn(optional(integer(0..63)), tag(0))] pub c0: Option<u8>,
    #[asn(set_of(size(0..2), boolean))] pub st: Vec<bool>,
}

impl Ttp0p3p12 {
    pub const fn x_min() -> u8 {
        0
    }

    pub const fn x_max() -> u8 {
        7
    }

    pub const fn c0_min() -> u8 {
        0
    }

    pub const fn c0_max() -> u8 {
        63
    }
}

#[asn(set)]

#[derive(Default, Debug, Clone, PartialEq, Hash)]
pub struct Ttp0p3p13 {
    #[asn(integer(0..7), tag(UNIVERSAL(30)))] pub x: u8,
    #[asn(optional(integer(0..63)), tag(0))] pub c0: Option<u8>,
    #[asn(optional(complex(Tchox, tag(PRIVATE(1)))))] pub rx: Option<Tchox>,
}

impl Ttp0p3p13 {
    pub const fn x_min() -> u8 {
        0
    }

    pub const fn x_max() -> u8 {
        7
    }

    pub const fn c0_min() -> u8 {
        0
    }

    pub const fn c0_max() -> u8 {
        63
    }
}

#[asn(set)]

#[derive(Default, Debug, Clone, PartialEq, Hash)]
pub struct Ttp0p3p14 {
    #[asn(integer(0..7), tag(UNIVERSAL(30)))] pub x: u8,
    #[asn(optional(integer(0..63)), tag(0))] pub c0: Option<u8>,
    #[asn(integer(0..1), tag(UNIVERSAL(2)))] pub u2: u8,
}

impl Ttp0p3p14 {
    pub const fn x_min() -> u8 {
        0
    }

    pub const fn x_max() -> u8 {
        7
    }

    pub const fn c0_min() -> u8 {
        0
    }

    pub const fn c0_max() -> u8 {
        63
    }

    pub const fn u2_min() -> u8 {
        0
    }

    pub const fn u2_max() -> u8 {
        1
    }
}

#[asn(sequence, tag(APPLICATION(5)))]

#[derive(Default, Debug, Clone, PartialEq, Hash)]
pub struct Ttp0p3p15Is {
    #[asn(integer(0..3))] pub v: u8,
}

impl Ttp0p3p15Is {
    pub const fn v_min() -> u8 {
        0
    }

    pub const fn v_max() -> u8 {
        3
    }
}

#[asn(set)]

#[derive(Default, Debug, Clone, PartialEq, Hash)]
pub struct Ttp0p3p15 {
    #[asn(integer(0..7), tag(UNIVERSAL(30)))] pub x: u8,
    #[asn(optional(integer(0..63)), tag(0))] pub c0: Option<u8>,
    #[asn(optional(complex(Ttp0p3p15Is, tag(APPLICATION(5)))), tag(APPLICATION(5)))] pub is: Option<Ttp0p3p15Is>,
}

impl Ttp0p3p15 {
    pub const fn x_min() -> u8 {
        0
    }

    pub const fn x_max() -> u8 {
        7
    }

    pub const fn c0_min() -> u8 {
        0
    }

    pub const fn c0_max() -> u8 {
        63
    }
}

#[asn(set)]

#[derive(Default, Debug, Clone, PartialEq, Hash)]
pub struct Ttp0p4p1 {
    #[asn(integer(0..7), tag(UNIVERSAL(30)))] pub x: u8,
    #[asn(integer(0..127), tag(PRIVATE(2)))] pub p: u8,
    #[asn(optional(integer(0..15)), tag(APPLICATION(1)))] pub a: Option<u8>,
}

impl Ttp0p4p1 {
    pub const fn x_min() -> u8 {
        0
    }

    pub const fn x_max() -> u8 {
        7
    }

    pub const fn p_min() -> u8 {
        0
    }

    pub const fn p_max() -> u8 {
        127
    }

    pub const fn a_min() -> u8 {
        0
    }

    pub const fn a_max() -> u8 {
        15
    }
}

#[asn(set)]

#[derive(Default, Debug, Clone, PartialEq, Hash)]
pub struct Ttp0p4p2 {
    #[asn(integer(0..7), tag(UNIVERSAL(30)))] pub x: u8,
    #[asn(integer(0..127), tag(PRIVATE(2)))] pub p: u8,
    #[asn(integer(0..31), tag(3))] pub c3: u8,
}

impl Ttp0p4p2 {
    pub const fn x_min() -> u8 {
        0
    }

    pub const fn x_max() -> u8 {
        7
    }

    pub const fn p_min() -> u8 {
        0
    }

    pub const fn p_max() -> u8 {
        127
    }

    pub const fn c3_min() -> u8 {
        0
    }

    pub const fn c3_max() -> u8 {
        31
    }
}

#[asn(set)]

#[derive(Default, Debug, Clone, PartialEq, Hash)]
pub struct Ttp0p4p3 {
    #[asn(integer(0..7), tag(UNIVERSAL(30)))] pub x: u8,
    #[asn(integer(0..127), tag(PRIVATE(2)))] pub p: u8,
    #[asn(optional(integer(0..63)), tag(0))] pub c0: Option<u8>,
}

impl Ttp0p4p3 {
    pub const fn x_min() -> u8 {
        0
    }

    pub const fn x_max() -> u8 {
        7
    }

    pub const fn p_min() -> u8 {
        0
    }

    pub const fn p_max() -> u8 {
        127
    }

    pub const fn c0_min() -> u8 {
        0
    }

    pub const fn c0_max() -> u8 {
        63
    }
}

#[asn(set)]

#[derive(Default, Debug, Clone, PartialEq, Hash)]
pub struct Ttp0p4p5 {
    #[asn(integer(0..7), tag(UNIVERSAL(30)))] pub x: u8,
    #[asn(integer(0..127), tag(PRIVATE(2)))] pub p: u8,
    #[asn(optional(boolean))] pub b: Option<bool>,
}

impl Ttp0p4p5 {
    pub const fn x_min() -> u8 {
        0
    }

    pub const fn x_max() -> u8 {
        7
    }

    pub const fn p_min() -> u8 {
        0
    }

    pub const fn p_max() -> u8 {
        127
    }
}

#[asn(set)]

#[derive(Default, Debug, Clone, PartialEq, Hash)]
pub struct Ttp0p4p6 {
    #[asn(integer(0..7), tag(UNIVERSAL(30)))] pub x: u8,
    #[asn(integer(0..127), tag(PRIVATE(2)))] pub p: u8,
    #[asn(integer(0..255))] pub i: u8,
}

impl Ttp0p4p6 {
    pub const fn x_min() -> u8 {
        0
    }

    pub const fn x_max() -> u8 {
        7
    }

    pub const fn p_min() -> u8 {
        0
    }

    pub const fn p_max() -> u8 {
        127
    }

    pub const fn i_min() -> u8 {
        0
    }

    pub const fn i_max() -> u8 {
        255
    }
}

#[asn(set)]

#[derive(Default, Debug, Clone, PartialEq, Hash)]
pub struct Ttp0p4p7 {
    #[asn(integer(0..7), tag(UNIVERSAL(30)))] pub x: u8,
    #[asn(integer(0..127), tag(PRIVATE(2)))] pub p: u8,
    #[asn(optional(complex(Tapp9, tag(APPLICATION(9)))))] pub ra: Option<Tapp9>,
}

impl Ttp0p4p7 {
    pub const fn x_min() -> u8 {
        0
    }

    pub const fn x_max() -> u8 {
        7
    }

    pub const fn p_min() -> u8 {
        0
    }

    pub const fn p_max() -> u8 {
        127
    }
}

#[asn(set)]

#[derive(Default, Debug, Clone, PartialEq, Hash)]
pub struct Ttp0p4p8 {
    #[asn(integer(0..7), tag(UNIVERSAL(30)))] pub x: u8,
    #[asn(integer(0..127), tag(PRIVATE(2)))] pub p: u8,
    #[asn(complex(Tsq, tag(UNIVERSAL(16))))] pub rs: Tsq,
}

impl Ttp0p4p8 {
    pub const fn x_min() -> u8 {
        0
    }

    pub const fn x_max() -> u8 {
        7
    }

    pub const fn p_min() -> u8 {
        0
    }

    pub const fn p_max() -> u8 {
        127
    }
}

#[asn(set)]

#[derive(Default, Debug, Clone, PartialEq, Hash)]
pub struct Ttp0p4p9 {
    #[asn(integer(0..7), tag(UNIVERSAL(30)))] pub x: u8,
    #[asn(integer(0..127), tag(PRIVATE(2)))] pub p: u8,
    #[asn(optional(complex(Tcho, tag(1))))] pub rc: Option<Tcho>,
}

impl Ttp0p4p9 {
    pub const fn x_min() -> u8 {
        0
    }

    pub const fn x_max() -> u8 {
        7
    }

    pub const fn p_min() -> u8 {
        0
    }

    pub const fn p_max() -> u8 {
        127
    }
}

#[asn(set)]

#[derive(Default, Debug, Clone, PartialEq, Hash)]
pub struct Ttp0p4p10 {
    #[asn(integer(0..7), tag(UNIVERSAL(30)))] pub x: u8,
    #[asn(integer(0..127), tag(PRIVATE(2)))] pub p: u8,
    #[asn(complex(Tst, tag(UNIVERSAL(17))))] pub rt: Tst,
}

impl Ttp0p4p10 {
    pub const fn x_min() -> u8 {
        0
    }

    pub const fn x_max() -> u8 {
        7
    }

    pub const fn p_min() -> u8 {
        0
    }

    pub const fn p_max() -> u8 {
        127
    }
}

#[asn(set)]

#[derive(Default, Debug, Clone, PartialEq, Hash)]
pub struct Ttp0p4p11 {
    #[asn(integer(0..7), tag(UNIVERSAL(30)))] pub x: u8,
    #[asn(integer(0..127), tag(PRIVATE(2)))] pub p: u8,
    #[asn(optional(sequence_of(size(0..3), boolean)))] pub so: Option<Vec<bool>>,
}

impl Ttp0p4p11 {
    pub const fn x_min() -> u8 {
        0
    }

    pub const fn x_max() -> u8 {
        7
    }

    pub const fn p_min() -> u8 {
        0
    }

    pub const fn p_max() -> u8 {
        127
    }
}

#[asn(set)]

#[derive(Default, Debug, Clone, PartialEq, Hash)]
pub struct Ttp0p4p12 {
    #[asn(integer(0..7), tag(UNIVERSAL(30)))] pub x: u8,
    #[asn(integer(0..127), tag(PRIVATE(2)))] pub p: u8,
    #[asn(set_of(size(0..2), boolean))] pub st: Vec<bool>,
}

impl Ttp0p4p12 {
    pub const fn x_min() -> u8 {
        0
    }

    pub const fn x_max() -> u8 {
        7
    }

    pub const fn p_min() -> u8 {
        0
    }

    pub const fn p_max() -> u8 {
        127
    }
}

#[asn(set)]

#[derive(Default, Debug, Clone, PartialEq, Hash)]
pub struct Ttp0p4p13 {
    #[asn(integer(0..7), tag(UNIVERSAL(30)))] pub x: u8,
    #[asn(integer(0..127), tag(PRIVATE(2)))] pub p: u8,
    #[asn(optional(complex(Tchox, tag(PRIVATE(1)))))] pub rx: Option<Tchox>,
}

impl Ttp0p4p13 {
    pub const fn x_min() -> u8 {
        0
    }

    pub const fn x_max() -> u8 {
        7
    }

    pub const fn p_min() -> u8 {
        0
    }

    pub const fn p_max() -> u8 {
        127
    }
}

#[asn(set)]

#[derive(Default, Debug, Clone, PartialEq, Hash)]
pub struct Ttp0p4p14 {
    #[asn(integer(0..7), tag(UNIVERSAL(30)))] pub x: u8,
    #[asn(integer(0..127), tag(PRIVATE(2)))] pub p: u8,
    #[asn(integer(0..1), tag(UNIVERSAL(2)))] pub u2: u8,
}

impl Ttp0p4p14 {
    pub const fn x_min() -> u8 {
        0
    }

    pub const fn x_max() -> u8 {
        7
    }

    pub const fn p_min() -> u8 {
        0
    }

    pub const fn p_max() -> u8 {
        127
    }

    pub const fn u2_min() -> u8 {
        0
    }

    pub const fn u2_max() -> u8 {
        1
    }
}

#[asn(sequence, tag(APPLICATION(5)))]

#[derive(Default, Debug, Clone, PartialEq, Hash)]
pub struct Ttp0p4p15Is {
    #[asn(integer(0..3))] pub v: u8,
}

impl Ttp0p4p15Is {
    pub const fn v_min() -> u8 {
        0
    }

    pub const fn v_max() -> u8 {
        3
    }
}

#[asn(set)]

#[derive(Default, Debug, Clone, PartialEq, Hash)]
pub struct Ttp0p4p15 {
    #[asn(integer(0..7), tag(UNIVERSAL(30)))] pub x: u8,
    #[asn(integer(0..127), tag(PRIVATE(2)))] pub p: u8,
    #[asn(optional(complex(Ttp0p4p15Is, tag(APPLICATION(5)))), tag(APPLICATION(5)))] pub is: Option<Ttp0p4p15Is>,
}

impl Ttp0p4p15 {
    pub const fn x_min() -> u8 {
        0
    }

    pub const fn x_max() -> u8 {
        7
    }

    pub const fn p_min() -> u8 {
        0
    }

    pub const fn p_max() -> u8 {
        127
    }
}

#[asn(set)]

#[derive(Default, Debug, Clone, PartialEq, Hash)]
pub struct Ttp0p5p1 {
    #[asn(integer(0..7), tag(UNIVERSAL(30)))] pub x: u8,
    #[asn(optional(boolean))] pub b: Option<bool>,
    #[asn(optional(integer(0..15)), tag(APPLICATION(1)))] pub a: Option<u8>,
}

impl Ttp0p5p1 {
    pub const fn x_min() -> u8 {
        0
    }

    pub const fn x_max() -> u8 {
        7
    }

    pub const fn a_min() -> u8 {
        0
    }

    pub const fn a_max() -> u8 {
        15
    }
}

#[asn(set)]

#[derive(Default, Debug, Clone, PartialEq, Hash)]
pub struct Ttp0p5p2 {
    #[asn(integer(0..7), tag(UNIVERSAL(30)))] pub x: u8,
    #[asn(optional(boolean))] pub b: Option<bool>,
    #[asn(integer(0..31), tag(3))] pub c3: u8,
}

impl Ttp0p5p2 {
    pub const fn x_min() -> u8 {
        0
    }

    pub const fn x_max() -> u8 {
        7
    }

    pub const fn c3_min() -> u8 {
        0
    }

    pub const fn c3_max() -> u8 {
        31
    }
}

#[asn(set)]

#[derive(Default, Debug, Clone, PartialEq, Hash)]
pub struct Ttp0p5p3 {
    #[asn(integer(0..7), tag(UNIVERSAL(30)))] pub x: u8,
    #[asn(optional(boolean))] pub b: Option<bool>,
    #[asn(optional(integer(0..63)), tag(0))] pub c0: Option<u8>,
}

impl Ttp0p5p3 {
    pub const fn x_min() -> u8 {
        0
    }

    pub const fn x_max() -> u8 {
        7
    }

    pub const fn c0_min() -> u8 {
        0
    }

    pub const fn c0_max() -> u8 {
        63
    }
}

#[asn(set)]

#[derive(Default, Debug, Clone, PartialEq, Hash)]
pub struct Ttp0p5p4 {
    #[asn(integer(0..7), tag(UNIVERSAL(30)))] pub x: u8,
    #[asn(optional(boolean))] pub b: Option<bool>,
    #[asn(integer(0..127), tag(PRIVATE(2)))] pub p: u8,
}

impl Ttp0p5p4 {
    pub const fn x_min() -> u8 {
        0
    }

    pub const fn x_max() -> u8 {
        7
    }

    pub const fn p_min() -> u8 {
        0
    }

    pub const fn p_max() -> u8 {
        127
    }
}

#[asn(set)]

#[derive(Default, Debug, Clone, PartialEq, Hash)]
pub struct Ttp0p5p6 {
    #[asn(integer(0..7), tag(UNIVERSAL(30)))] pub x: u8,
    #[asn(optional(boolean))] pub b: Option<bool>,
    #[asn(integer(0..255))] pub i: u8,
}

impl Ttp0p5p6 {
    pub const fn x_min() -> u8 {
        0
    }

    pub const fn x_max() -> u8 {
        7
    }

    pub const fn i_min() -> u8 {
        0
    }

    pub const fn i_max() -> u8 {
        255
    }
}

#[asn(set)]

#[derive(Default, Debug, Clone, PartialEq, Hash)]
pub struct Ttp0p5p7 {
    #[asn(integer(0..7), tag(UNIVERSAL(30)))] pub x: u8,
    #[asn(optional(boolean))] pub b: Option<bool>,
    #[asn(optional(complex(Tapp9, tag(APPLICATION(9)))))] pub ra: Option<Tapp9>,
}

impl Ttp0p5p7 {
    pub const fn x_min() -> u8 {
        0
    }

    pub const fn x_max() -> u8 {
        7
    }
}

#[asn(set)]

#[derive(Default, Debug, Clone, PartialEq, Hash)]
pub struct Ttp0p5p8 {
    #[asn(integer(0..7), tag(UNIVERSAL(30)))] pub x: u8,
    #[asn(optional(boolean))] pub b: Option<bool>,
    #[asn(complex(Tsq, tag(UNIVERSAL(16))))] pub rs: Tsq,
}

impl Ttp0p5p8 {
    pub const fn x_min() -> u8 {
        0
    }

    pub const fn x_max() -> u8 {
        7
    }
}

#[asn(set)]

#[derive(Default, Debug, Clone, PartialEq, Hash)]
pub struct Ttp0p5p9 {
    #[asn(integer(0..7), tag(UNIVERSAL(30)))] pub x: u8,
    #[asn(optional(boolean))] pub b: Option<bool>,
    #[asn(optional(complex(Tcho, tag(1))))] pub rc: Option<Tcho>,
}

impl Ttp0p5p9 {
    pub const fn x_min() -> u8 {
        0
    }

    pub const fn x_max() -> u8 {
        7
    }
}

#[asn(set)]

#[derive(Default, Debug, Clone, PartialEq, Hash)]
pub struct Ttp0p5p10 {
    #[asn(integer(0..7), tag(UNIVERSAL(30)))] pub x: u8,
    #[asn(optional(boolean))] pub b: Option<bool>,
    #[asn(complex(Tst, tag(UNIVERSAL(17))))] pub rt: Tst,
}

impl Ttp0p5p10 {
    pub const fn x_min() -> u8 {
        0
    }

    pub const fn x_max() -> u8 {
        7
    }
}

#[asn(set)]

#[derive(Default, Debug, Clone, PartialEq, Hash)]
pub struct Ttp0p5p11 {
    #[asn(integer(0..7), tag(UNIVERSAL(30)))] pub x: u8,
    #[asn(optional(boolean))] pub b: Option<bool>,
    #[asn(optional(sequence_of(size(0..3), boolean)))] pub so: Option<Vec<bool>>,
}

impl Ttp0p5p11 {
    pub const fn x_min() -> u8 {
        0
    }

    pub const fn x_max() -> u8 {
        7
    }
}

#[asn(set)]

#[derive(Default, Debug, Clone, PartialEq, Hash)]
pub struct Ttp0p5p12 {
    #[asn(integer(0..7), tag(UNIVERSAL(30)))] pub x: u8,
    #[asn(optional(boolean))] pub b: Option<bool>,
    #[asn(set_of(size(0..2), boolean))] pub st: Vec<bool>,
}

impl Ttp0p5p12 {
    pub const fn x_min() -> u8 {
        0
    }

    pub const fn x_max() -> u8 {
        7
    }
}

#[asn(set)]

#[derive(Default, Debug, Clone, PartialEq, Hash)]
pub struct Ttp0p5p13 {
    #[asn(integer(0..7), tag(UNIVERSAL(30)))] pub x: u8,
    #[asn(optional(boolean))] pub b: Option<bool>,
    #[asn(optional(complex(Tchox, tag(PRIVATE(1)))))] pub rx: Option<Tchox>,
}

impl Ttp0p5p13 {
    pub const fn x_min() -> u8 {
        0
    }

    pub const fn x_max() -> u8 {
        7
    }
}

#[asn(set)]

#[derive(Default, Debug, Clone, PartialEq, Hash)]
pub struct Ttp0p5p14 {
    #[asn(integer(0..7), tag(UNIVERSAL(30)))] pub x: u8,
    #[asn(optional(boolean))] pub b: Option<bool>,
    #[asn(integer(0..1), tag(UNIVERSAL(2)))] pub u2: u8,
}

impl Ttp0p5p14 {
    pub const fn x_min() -> u8 {
        0
    }

    pub const fn x_max() -> u8 {
        7
    }

    pub const fn u2_min() -> u8 {
        0
    }

    pub const fn u2_max() -> u8 {
        1
    }
}

#[asn(sequence, tag(APPLICATION(5)))]

#[derive(Default, Debug, Clone, PartialEq, Hash)]
pub struct Ttp0p5p15Is {
    #[asn(integer(0..3))] pub v: u8,
}

impl Ttp0p5p15Is {
    pub const fn v_min() -> u8 {
        0
    }

    pub const fn v_max() -> u8 {
        3
    }
}

#[asn(set)]

#[derive(Default, Debug, Clone, PartialEq, Hash)]
pub struct Ttp0p5p15 {
    #[asn(integer(0..7), tag(UNIVERSAL(30)))] pub x: u8,
    #[asn(optional(boolean))] pub b: Option<bool>,
    #[asn(optional(complex(Ttp0p5p15Is, tag(APPLICATION(5)))), tag(APPLICATION(5)))] pub is: Option<Ttp0p5p15Is>,
}

impl Ttp0p5p15 {
    pub const fn x_min() -> u8 {
        0
    }

    pub const fn x_max() -> u8 {
        7
    }
}

#[asn(set)]

#[derive(Default, Debug, Clone, PartialEq, Hash)]
pub struct Ttp0p6p1 {
    #[asn(integer(0..7), tag(UNIVERSAL(30)))] pub x: u8,
    #[asn(integer(0..255))] pub i: u8,
    #[asn(optional(integer(0..15)), tag(APPLICATION(1)))] pub a: Option<u8>,
}

impl Ttp0p6p1 {
    pub const fn x_min() -> u8 {
        0
    }

    pub const fn x_max() -> u8 {
        7
    }

    pub const fn i_min() -> u8 {
        0
    }

    pub const fn i_max() -> u8 {
        255
    }

    pub const fn a_min() -> u8 {
        0
    }

    pub const fn a_max() -> u8 {
        15
    }
}

#[asn(set)]

#[derive(Default, Debug, Clone, PartialEq, Hash)]
pub struct Ttp0p6p2 {
    #[asn(integer(0..7), tag(UNIVERSAL(30)))] pub x: u8,
    #[asn(integer(0..255))] pub i: u8,
    #[asn(integer(0..31), tag(3))] pub c3: u8,
}

impl Ttp0p6p2 {
    pub const fn x_min() -> u8 {
        0
    }

    pub const fn x_max() -> u8 {
        7
    }

    pub const fn i_min() -> u8 {
        0
    }

    pub const fn i_max() -> u8 {
        255
    }

    pub const fn c3_min() -> u8 {
        0
    }

    pub const fn c3_max() -> u8 {
        31
    }
}

#[asn(set)]

#[derive(Default, Debug, Clone, PartialEq, Hash)]
pub struct Ttp0p6p3 {
    #[asn(integer(0..7), tag(UNIVERSAL(30)))] pub x: u8,
    #[asn(integer(0..255))] pub i: u8,
    #[asn(optional(integer(0..63)), tag(0))] pub c0: Option<u8>,
}

impl Ttp0p6p3 {
    pub const fn x_min() -> u8 {
        0
    }

    pub const fn x_max() -> u8 {
        7
    }

    pub const fn i_min() -> u8 {
        0
    }

    pub const fn i_max() -> u8 {
        255
    }

    pub const fn c0_min() -> u8 {
        0
    }

    pub const fn c0_max() -> u8 {
        63
    }
}

#[asn(set)]

#[derive(Default, Debug, Clone, PartialEq, Hash)]
pub struct Ttp0p6p4 {
    #[asn(integer(0..7), tag(UNIVERSAL(30)))] pub x: u8,
    #[asn(integer(0..255))] pub i: u8,
    #[asn(integer(0..127), tag(PRIVATE(2)))] pub p: u8,
}

impl Ttp0p6p4 {
    pub const fn x_min() -> u8 {
        0
    }

    pub const fn x_max() -> u8 {
        7
    }

    pub const fn i_min() -> u8 {
        0
    }

    pub const fn i_max() -> u8 {
        255
    }

    pub const fn p_min() -> u8 {
        0
    }

    pub const fn p_max() -> u8 {
        127
    }
}

#[asn(set)]

#[derive(Default, Debug, Clone, PartialEq, Hash)]
pub struct Ttp0p6p5 {
    #[asn(integer(0..7), tag(UNIVERSAL(30)))] pub x: u8,
    #[asn(integer(0..255))] pub i: u8,
    #[asn(optional(boolean))] pub b: Option<bool>,
}

impl Ttp0p6p5 {
    pub const fn x_min() -> u8 {
        0
    }

    pub const fn x_max() -> u8 {
        7
    }

    pub const fn i_min() -> u8 {
        0
    }

    pub const fn i_max() -> u8 {
        255
    }
}

#[asn(set)]

#[derive(Default, Debug, Clone, PartialEq, Hash)]
pub struct Ttp0p6p7 {
    #[asn(integer(0..7), tag(UNIVERSAL(30)))] pub x: u8,
    #[asn(integer(0..255))] pub i: u8,
    #[asn(optional(complex(Tapp9, tag(APPLICATION(9)))))] pub ra: Option<Tapp9>,
}

impl Ttp0p6p7 {
    pub const fn x_min() -> u8 {
        0
    }

    pub const fn x_max() -> u8 {
        7
    }

    pub const fn i_min() -> u8 {
        0
    }

    pub const fn i_max() -> u8 {
        255
    }
}

#[asn(set)]

#[derive(Default, Debug, Clone, PartialEq, Hash)]
pub struct Ttp0p6p8 {
    #[asn(integer(0..7), tag(UNIVERSAL(30)))] pub x: u8,
    #[asn(integer(0..255))] pub i: u8,
    #[asn(complex(Tsq, tag(UNIVERSAL(16))))] pub rs: Tsq,
}

impl Ttp0p6p8 {
    pub const fn x_min() -> u8 {
        0
    }

    pub const fn x_max() -> u8 {
        7
    }

    pub const fn i_min() -> u8 {
        0
    }

    pub const fn i_max() -> u8 {
        255
    }
}

#[asn(set)]

#[derive(Default, Debug, Clone, PartialEq, Hash)]
pub struct Ttp0p6p9 {
    #[asn(integer(0..7), tag(UNIVERSAL(30)))] pub x: u8,
    #[asn(integer(0..255))] pub i: u8,
    #[asn(optional(complex(Tcho, tag(1))))] pub rc: Option<Tcho>,
}

impl Ttp0p6p9 {
    pub const fn x_min() -> u8 {
        0
    }

    pub const fn x_max() -> u8 {
        7
    }

    pub const fn i_min() -> u8 {
        0
    }

    pub const fn i_max() -> u8 {
        255
    }
}

#[asn(set)]

#[derive(Default, Debug, Clone, PartialEq, Hash)]
pub struct Ttp0p6p10 {
    #[asn(integer(0..7), tag(UNIVERSAL(30)))] pub x: u8,
    #[asn(integer(0..255))] pub i: u8,
    #[asn(complex(Tst, tag(UNIVERSAL(17))))] pub rt: Tst,
}

impl Ttp0p6p10 {
    pub const fn x_min() -> u8 {
        0
    }

    pub const fn x_max() -> u8 {
        7
    }

    pub const fn i_min() -> u8 {
        0
    }

    pub const fn i_max() -> u8 {
        255
    }
}

#[asn(set)]

#[derive(Default, Debug, Clone, PartialEq, Hash)]
pub struct Ttp0p6p11 {
    #[asn(integer(0..7), tag(UNIVERSAL(30)))] pub x: u8,
    #[asn(integer(0..255))] pub i: u8,
    #[asn(optional(sequence_of(size(0..3), boolean)))] pub so: Option<Vec<bool>>,
}

impl Ttp0p6p11 {
    pub const fn x_min() -> u8 {
        0
    }

    pub const fn x_max() -> u8 {
        7
    }

    pub const fn i_min() -> u8 {
        0
    }

    pub const fn i_max() -> u8 {
        255
    }
}

#[asn(set)]

#[derive(Default, Debug, Clone, PartialEq, Hash)]
pub struct Ttp0p6p12 {
    #[asn(integer(0..7), tag(UNIVERSAL(30)))] pub x: u8,
    #[asn(integer(0..255))] pub i: u8,
    #[asn(set_of(size(0..2), boolean))] pub st: Vec<bool>,
}

impl Ttp0p6p12 {
    pub const fn x_min() -> u8 {
        0
    }

    pub const fn x_max() -> u8 {
        7
    }

    pub const fn i_min() -> u8 {
        0
    }

    pub const fn i_max() -> u8 {
        255
    }
}

#[asn(set)]

#[derive(Default, Debug, Clone, PartialEq, Hash)]
pub struct Ttp0p6p13 {
    #[asn(integer(0..7), tag(UNIVERSAL(30)))] pub x: u8,
    #[asn(integer(0..255))] pub i: u8,
    #[asn(optional(complex(Tchox, tag(PRIVATE(1)))))] pub rx: Option<Tchox>,
}

impl Ttp0p6p13 {
    pub const fn x_min() -> u8 {
        0
    }

    pub const fn x_max() -> u8 {
        7
    }

    pub const fn i_min() -> u8 {
        0
    }

    pub const fn i_max() -> u8 {
        255
    }
}

#[asn(set)]

#[derive(Default, Debug, Clone, PartialEq, Hash)]
pub struct Ttp0p6p14 {
    #[asn(integer(0..7), tag(UNIVERSAL(30)))] pub x: u8,
    #[asn(integer(0..255))] pub i: u8,
    #[asn(integer(0..1), tag(UNIVERSAL(2)))] pub u2: u8,
}

impl Ttp0p6p14 {
    pub const fn x_min() -> u8 {
        0
    }

    pub const fn x_max() -> u8 {
        7
    }

    pub const fn i_min() -> u8 {
        0
    }

    pub const fn i_max() -> u8 {
        255
    }

    pub const fn u2_min() -> u8 {
        0
    }

    pub const fn u2_max() -> u8 {
        1
    }
}

#[asn(sequence, tag(APPLICATION(5)))]

#[derive(Default, Debug, Clone, PartialEq, Hash)]
pub struct Ttp0p6p15Is {
    #[asn(integer(0..3))] pub v: u8,
}

impl Ttp0p6p15Is {
    pub const fn v_min() -> u8 {
        0
    }

    pub const fn v_max() -> u8 {
        3
    }
}

#[asn(set)]

#[derive(Default, Debug, Clone, PartialEq, Hash)]
pub struct Ttp0p6p15 {
    #[asn(integer(0..7), tag(UNIVERSAL(30)))] pub x: u8,
    #[asn(integer(0..255))] pub i: u8,
    #[asn(optional(complex(Ttp0p6p15Is, tag(APPLICATION(5)))), tag(APPLICATION(5)))] pub is: Option<Ttp0p6p15Is>,
}

impl Ttp0p6p15 {
    pub const fn x_min() -> u8 {
        0
    }

    pub const fn x_max() -> u8 {
        7
    }

    pub const fn i_min() -> u8 {
        0
    }

    pub const fn i_max() -> u8 {
        255
    }
}

#[asn(set)]

#[derive(Default, Debug, Clone, PartialEq, Hash)]
pub struct Ttp0p7p1 {
    #[asn(integer(0..7), tag(UNIVERSAL(30)))] pub x: u8,
    #[asn(optional(complex(Tapp9, tag(APPLICATION(9)))))] pub ra: Option<Tapp9>,
    #[asn(optional(integer(0..15)), tag(APPLICATION(1)))] pub a: Option<u8>,
}

impl Ttp0p7p1 {
    pub const fn x_min() -> u8 {
        0
    }

    pub const fn x_max() -> u8 {
        7
    }

    pub const fn a_min() -> u8 {
        0
    }

    pub const fn a_max() -> u8 {
        15
    }
}

#[asn(set)]

#[derive(Default, Debug, Clone, PartialEq, Hash)]
pub struct Ttp0p7p2 {
    #[asn(integer(0..7), tag(UNIVERSAL(30)))] pub x: u8,
    #[asn(optional(complex(Tapp9, tag(APPLICATION(9)))))] pub ra: Option<Tapp9>,
    #[asn(integer(0..31), tag(3))] pub c3: u8,
}

impl Ttp0p7p2 {
    pub const fn x_min() -> u8 {
        0
    }

    pub const fn x_max() -> u8 {
        7
    }

    pub const fn c3_min() -> u8 {
        0
    }

    pub const fn c3_max() -> u8 {
        31
    }
}

#[asn(set)]

#[derive(Default, Debug, Clone, PartialEq, Hash)]
pub struct Ttp0p7p3 {
    #[asn(integer(0..7), tag(UNIVERSAL(30)))] pub x: u8,
    #[asn(optional(complex(Tapp9, tag(APPLICATION(9)))))] pub ra: Option<Tapp9>,
    #[asn(optional(integer(0..63)), tag(0))] pub c0: Option<u8>,
}

impl Ttp0p7p3 {
    pub const fn x_min() -> u8 {
        0
    }

    pub const fn x_max() -> u8 {
        7
    }

    pub const fn c0_min() -> u8 {
        0
    }

    pub const fn c0_max() -> u8 {
        63
    }
}

#[asn(set)]

#[derive(Default, Debug, Clone, PartialEq, Hash)]
pub struct Ttp0p7p4 {
    #[asn(integer(0..7), tag(UNIVERSAL(30)))] pub x: u8,
    #[asn(optional(complex(Tapp9, tag(APPLICATION(9)))))] pub ra: Option<Tapp9>,
    #[asn(integer(0..127), tag(PRIVATE(2)))] pub p: u8,
}

impl Ttp0p7p4 {
    pub const fn x_min() -> u8 {
        0
    }

    pub const fn x_max() -> u8 {
        7
    }

    pub const fn p_min() -> u8 {
        0
    }

    pub const fn p_max() -> u8 {
        127
    }
}

#[asn(set)]

#[derive(Default, Debug, Clone, PartialEq, Hash)]
pub struct Ttp0p7p5 {
    #[asn(integer(0..7), tag(UNIVERSAL(30)))] pub x: u8,
    #[asn(optional(complex(Tapp9, tag(APPLICATION(9)))))] pub ra: Option<Tapp9>,
    #[asn(optional(boolean))] pub b: Option<bool>,
}

impl Ttp0p7p5 {
    pub const fn x_min() -> u8 {
        0
    }

    pub const fn x_max() -> u8 {
        7
    }
}

#[asn(set)]

#[derive(Default, Debug, Clone, PartialEq, Hash)]
pub struct Ttp0p7p6 {
    #[asn(integer(0..7), tag(UNIVERSAL(30)))] pub x: u8,
    #[asn(optional(complex(Tapp9, tag(APPLICATION(9)))))] pub ra: Option<Tapp9>,
    #[asn(integer(0..255))] pub i: u8,
}

impl Ttp0p7p6 {
    pub const fn x_min() -> u8 {
        0
    }

    pub const fn x_max() -> u8 {
        7
    }

    pub const fn i_min() -> u8 {
        0
    }

    pub const fn i_max() -> u8 {
        255
    }
}

#[asn(set)]

#[derive(Default, Debug, Clone, PartialEq, Hash)]
pub struct Ttp0p7p8 {
    #[asn(integer(0..7), tag(UNIVERSAL(30)))] pub x: u8,
    #[asn(optional(complex(Tapp9, tag(APPLICATION(9)))))] pub ra: Option<Tapp9>,
    #[asn(complex(Tsq, tag(UNIVERSAL(16))))] pub rs: Tsq,
}

impl Ttp0p7p8 {
    pub const fn x_min() -> u8 {
        0
    }

    pub const fn x_max() -> u8 {
        7
    }
}

#[asn(set)]

#[derive(Default, Debug, Clone, PartialEq, Hash)]
pub struct Ttp0p7p9 {
    #[asn(integer(0..7), tag(UNIVERSAL(30)))] pub x: u8,
    #[asn(optional(complex(Tapp9, tag(APPLICATION(9)))))] pub ra: Option<Tapp9>,
    #[asn(optional(complex(Tcho, tag(1))))] pub rc: Option<Tcho>,
}

impl Ttp0p7p9 {
    pub const fn x_min() -> u8 {
        0
    }

    pub const fn x_max() -> u8 {
        7
    }
}

#[asn(set)]

#[derive(Default, Debug, Clone, PartialEq, Hash)]
pub struct Ttp0p7p10 {
    #[asn(integer(0..7), tag(UNIVERSAL(30)))] pub x: u8,
    #[asn(optional(complex(Tapp9, tag(APPLICATION(9)))))] pub ra: Option<Tapp9>,
    #[asn(complex(Tst, tag(UNIVERSAL(17))))] pub rt: Tst,
}

impl Ttp0p7p10 {
    pub const fn x_min() -> u8 {
        0
    }

    pub const fn x_max() -> u8 {
        7
    }
}

#[asn(set)]

#[derive(Default, Debug, Clone, PartialEq, Hash)]
pub struct Ttp0p7p11 {
    #[asn(integer(0..7), tag(UNIVERSAL(30)))] pub x: u8,
    #[asn(optional(complex(Tapp9, tag(APPLICATION(9)))))] pub ra: Option<Tapp9>,
    #[asn(optional(sequence_of(size(0..3), boolean)))] pub so: Option<Vec<bool>>,
}

impl Ttp0p7p11 {
    pub const fn x_min() -> u8 {
        0
    }

    pub const fn x_max() -> u8 {
        7
    }
}

#[asn(set)]

#[derive(Default, Debug, Clone, PartialEq, Hash)]
pub struct Ttp0p7p12 {
    #[asn(integer(0..7), tag(UNIVERSAL(30)))] pub x: u8,
    #[asn(optional(complex(Tapp9, tag(APPLICATION(9)))))] pub ra: Option<Tapp9>,
    #[asn(set_of(size(0..2), boolean))] pub st: Vec<bool>,
}

impl Ttp0p7p12 {
    pub const fn x_min() -> u8 {
        0
    }

    pub const fn x_max() -> u8 {
        7
    }
}

#[asn(set)]

#[derive(Default, Debug, Clone, PartialEq, Hash)]
pub struct Ttp0p7p13 {
    #[asn(integer(0..7), tag(UNIVERSAL(30)))] pub x: u8,
    #[asn(optional(complex(Tapp9, tag(APPLICATION(9)))))] pub ra: Option<Tapp9>,
    #[asn(optional(complex(Tchox, tag(PRIVATE(1)))))] pub rx: Option<Tchox>,
}

impl Ttp0p7p13 {
    pub const fn x_min() -> u8 {
        0
    }

    pub const fn x_max() -> u8 {
        7
    }
}

#[asn(set)]

#[derive(Default, Debug, Clone, PartialEq, Hash)]
pub struct Ttp0p7p14 {
    #[asn(integer(0..7), tag(UNIVERSAL(30)))] pub x: u8,
    #[asn(optional(complex(Tapp9, tag(APPLICATION(9)))))] pub ra: Option<Tapp9>,
    #[asn(integer(0..1), tag(UNIVERSAL(2)))] pub u2: u8,
}

impl Ttp0p7p14 {
    pub const fn x_min() -> u8 {
        0
    }

    pub const fn x_max() -> u8 {
        7
    }

    pub const fn u2_min() -> u8 {
        0
    }

    pub const fn u2_max() -> u8 {
        1
    }
}

#[asn(sequence, tag(APPLICATION(5)))]

#[derive(Default, Debug, Clone, PartialEq, Hash)]
pub struct Ttp0p7p15Is {
    #[asn(integer(0..3))] pub v: u8,
}

impl Ttp0p7p15Is {
    pub const fn v_min() -> u8 {
        0
    }

    pub const fn v_max() -> u8 {
        3
    }
}

#[asn(set)]

#[derive(Default, Debug, Clone, PartialEq, Hash)]
pub struct Ttp0p7p15 {
    #[asn(integer(0..7), tag(UNIVERSAL(30)))] pub x: u8,
    #[asn(optional(complex(Tapp9, tag(APPLICATION(9)))))] pub ra: Option<Tapp9>,
    #[asn(optional(complex(Ttp0p7p15Is, tag(APPLICATION(5)))), tag(APPLICATION(5)))] pub is: Option<Ttp0p7p15Is>,
}

impl Ttp0p7p15 {
    pub const fn x_min() -> u8 {
        0
    }

    pub const fn x_max() -> u8 {
        7
    }
}

#[asn(set)]

#[derive(Default, Debug, Clone, PartialEq, Hash)]
pub struct Ttp0p8p1 {
    #[asn(integer(0..7), tag(UNIVERSAL(30)))] pub x: u8,
    #[asn(complex(Tsq, tag(UNIVERSAL(16))))] pub rs: Tsq,
    #[asn(optional(integer(0..15)), tag(APPLICATION(1)))] pub a: Option<u8>,
}

impl Ttp0p8p1 {
    pub const fn x_min() -> u8 {
        0
    }

    pub const fn x_max() -> u8 {
        7
    }

    pub const fn a_min() -> u8 {
        0
    }

    pub const fn a_max() -> u8 {
        15
    }
}

#[asn(set)]

#[derive(Default, Debug, Clone, PartialEq, Hash)]
pub struct Ttp0p8p2 {
    #[asn(integer(0..7), tag(UNIVERSAL(30)))] pub x: u8,
    #[asn(complex(Tsq, tag(UNIVERSAL(16))))] pub rs: Tsq,
    #[asn(integer(0..31), tag(3))] pub c3: u8,
}

impl Ttp0p8p2 {
    pub const fn x_min() -> u8 {
        0
    }

    pub const fn x_max() -> u8 {
        7
    }

    pub const fn c3_min() -> u8 {
        0
    }

    pub const fn c3_max() -> u8 {
        31
    }
}

#[asn(set)]

#[derive(Default, Debug, Clone, PartialEq, Hash)]
pub struct Ttp0p8p3 {
    #[asn(integer(0..7), tag(UNIVERSAL(30)))] pub x: u8,
    #[asn(complex(Tsq, tag(UNIVERSAL(16))))] pub rs: Tsq,
    #[asn(optional(integer(0..63)), tag(0))] pub c0: Option<u8>,
}

impl Ttp0p8p3 {
    pub const fn x_min() -> u8 {
        0
    }

    pub const fn x_max() -> u8 {
        7
    }

    pub const fn c0_min() -> u8 {
        0
    }

    pub const fn c0_max() -> u8 {
        63
    }
}

#[asn(set)]

#[derive(Default, Debug, Clone, PartialEq, Hash)]
pub struct Ttp0p8p4 {
    #[asn(integer(0..7), tag(UNIVERSAL(30)))] pub x: u8,
    #[asn(complex(Tsq, tag(UNIVERSAL(16))))] pub rs: Tsq,
    #[asn(integer(0..127), tag(PRIVATE(2)))] pub p: u8,
}

impl Ttp0p8p4 {
    pub const fn x_min() -> u8 {
        0
    }

    pub const fn x_max() -> u8 {
        7
    }

    pub const fn p_min() -> u8 {
        0
    }

    pub const fn p_max() -> u8 {
        127
    }
}

#[asn(set)]

#[derive(Default, Debug, Clone, PartialEq, Hash)]
pub struct Ttp0p8p5 {
    #[asn(integer(0..7), tag(UNIVERSAL(30)))] pub x: u8,
    #[asn(complex(Tsq, tag(UNIVERSAL(16))))] pub rs: Tsq,
    #[asn(optional(boolean))] pub b: Option<bool>,
}

impl Ttp0p8p5 {
    pub const fn x_min() -> u8 {
        0
    }

    pub const fn x_max() -> u8 {
        7
    }
}

#[asn(set)]

#[derive(Default, Debug, Clone, PartialEq, Hash)]
pub struct Ttp0p8p6 {
    #[asn(integer(0..7), tag(UNIVERSAL(30)))] pub x: u8,
    #[asn(complex(Tsq, tag(UNIVERSAL(16))))] pub rs: Tsq,
    #[asn(integer(0..255))] pub i: u8,
}

impl Ttp0p8p6 {
    pub const fn x_min() -> u8 {
        0
    }

    pub const fn x_max() -> u8 {
        7
    }

    pub const fn i_min() -> u8 {
        0
    }

    pub const fn i_max() -> u8 {
        255
    }
}

#[asn(set)]

#[derive(Default, Debug, Clone, PartialEq, Hash)]
pub struct Ttp0p8p7 {
    #[asn(integer(0..7), tag(UNIVERSAL(30)))] pub x: u8,
    #[asn(complex(Tsq, tag(UNIVERSAL(16))))] pub rs: Tsq,
    #[asn(optional(complex(Tapp9, tag(APPLICATION(9)))))] pub ra: Option<Tapp9>,
}

impl Ttp0p8p7 {
    pub const fn x_min() -> u8 {
        0
    }

    pub const fn x_max() -> u8 {
        7
    }
}

#[asn(set)]

#[derive(Default, Debug, Clone, PartialEq, Hash)]
pub struct Ttp0p8p9 {
    #[asn(integer(0..7), tag(UNIVERSAL(30)))] pub x: u8,
    #[asn(complex(Tsq, tag(UNIVERSAL(16))))] pub rs: Tsq,
    #[asn(optional(complex(Tcho, tag(1))))] pub rc: Option<Tcho>,
}

impl Ttp0p8p9 {
    pub const fn x_min() -> u8 {
        0
    }

    pub const fn x_max() -> u8 {
        7
    }
}

#[asn(set)]

#[derive(Default, Debug, Clone, PartialEq, Hash)]
pub struct Ttp0p8p10 {
    #[asn(integer(0..7), tag(UNIVERSAL(30)))] pub x: u8,
    #[asn(complex(Tsq, tag(UNIVERSAL(16))))] pub rs: Tsq,
    #[asn(complex(Tst, tag(UNIVERSAL(17))))] pub rt: Tst,
}

impl Ttp0p8p10 {
    pub const fn x_min() -> u8 {
        0
    }

    pub const fn x_max() -> u8 {
        7
    }
}

#[asn(set)]

#[derive(Default, Debug, Clone, PartialEq, Hash)]
pub struct Ttp0p8p11 {
    #[asn(integer(0..7), tag(UNIVERSAL(30)))] pub x: u8,
    #[asn(complex(Tsq, tag(UNIVERSAL(16))))] pub rs: Tsq,
    #[asn(optional(sequence_of(size(0..3), boolean)))] pub so: Option<Vec<bool>>,
}

impl Ttp0p8p11 {
    pub const fn x_min() -> u8 {
        0
    }

    pub const fn x_max() -> u8 {
        7
    }
}

#[asn(set)]

#[derive(Default, Debug, Clone, PartialEq, Hash)]
pub struct Ttp0p8p12 {
    #[asn(integer(0..7), tag(UNIVERSAL(30)))] pub x: u8,
    #[asn(complex(Tsq, tag(UNIVERSAL(16))))] pub rs: Tsq,
    #[asn(set_of(size(0..2), boolean))] pub st: Vec<bool>,
}

impl Ttp0p8p12 {
    pub const fn x_min() -> u8 {
        0
    }

    pub const fn x_max() -> u8 {
        7
    }
}

#[asn(set)]

#[derive(Default, Debug, Clone, PartialEq, Hash)]
pub struct Ttp0p8p13 {
    #[asn(integer(0..7), tag(UNIVERSAL(30)))] pub x: u8,
    #[asn(complex(Tsq, tag(UNIVERSAL(16))))] pub rs: Tsq,
    #[asn(optional(complex(Tchox, tag(PRIVATE(1)))))] pub rx: Option<Tchox>,
}

impl Ttp0p8p13 {
    pub const fn x_min() -> u8 {
        0
    }

    pub const fn x_max() -> u8 {
        7
    }
}

#[asn(set)]

#[derive(Default, Debug, Clone, PartialEq, Hash)]
pub struct Ttp0p8p14 {
    #[asn(integer(0..7), tag(UNIVERSAL(30)))] pub x: u8,
    #[asn(complex(Tsq, tag(UNIVERSAL(16))))] pub rs: Tsq,
    #[asn(integer(0..1), tag(UNIVERSAL(2)))] pub u2: u8,
}

impl Ttp0p8p14 {
    pub const fn x_min() -> u8 {
        0
    }

    pub const fn x_max() -> u8 {
        7
    }

    pub const fn u2_min() -> u8 {
        0
    }

    pub const fn u2_max() -> u8 {
        1
    }
}

#[asn(sequence, tag(APPLICATION(5)))]

#[derive(Default, Debug, Clone, PartialEq, Hash)]
pub struct Ttp0p8p15Is {
    #[asn(integer(0..3))] pub v: u8,
}

impl Ttp0p8p15Is {
    pub const fn v_min() -> u8 {
        0
    }

    pub const fn v_max() -> u8 {
        3
    }
}

#[asn(set)]

#[derive(Default, Debug, Clone, PartialEq, Hash)]
pub struct Ttp0p8p15 {
    #[asn(integer(0..7), tag(UNIVERSAL(30)))] pub x: u8,
    #[asn(complex(Tsq, tag(UNIVERSAL(16))))] pub rs: Tsq,
    #[asn(optional(complex(Ttp0p8p15Is, tag(APPLICATION(5)))), tag(APPLICATION(5)))] pub is: Option<Ttp0p8p15Is>,
}

impl Ttp0p8p15 {
    pub const fn x_min() -> u8 {
        0
    }

    pub const fn x_max() -> u8 {
        7
    }
}

#[asn(set)]

#[derive(Default, Debug, Clone, PartialEq, Hash)]
pub struct Ttp0p9p1 {
    #[asn(integer(0..7), tag(UNIVERSAL(30)))] pub x: u8,
    #[asn(optional(complex(Tcho, tag(1))))] pub rc: Option<Tcho>,
    #[asn(optional(integer(0..15)), tag(APPLICATION(1)))] pub a: Option<u8>,
}

impl Ttp0p9p1 {
    pub const fn x_min() -> u8 {
        0
    }

    pub const fn x_max() -> u8 {
        7
    }

    pub const fn a_min() -> u8 {
        0
    }

    pub const fn a_max() -> u8 {
        15
    }
}

#[asn(set)]

#[derive(Default, Debug, Clone, PartialEq, Hash)]
pub struct Ttp0p9p2 {
    #[asn(integer(0..7), tag(UNIVERSAL(30)))] pub x: u8,
    #[asn(optional(complex(Tcho, tag(1))))] pub rc: Option<Tcho>,
    #[asn(integer(0..31), tag(3))] pub c3: u8,
}

impl Ttp0p9p2 {
    pub const fn x_min() -> u8 {
        0
    }

    pub const fn x_max() -> u8 {
        7
    }

    pub const fn c3_min() -> u8 {
        0
    }

    pub const fn c3_max() -> u8 {
        31
    }
}

#[asn(set)]

#[derive(Default, Debug, Clone, PartialEq, Hash)]
pub struct Ttp0p9p3 {
    #[asn(integer(0..7), tag(UNIVERSAL(30)))] pub x: u8,
    #[asn(optional(complex(Tcho, tag(1))))] pub rc: Option<Tcho>,
    #[asn(optional(integer(0..63)), tag(0))] pub c0: Option<u8>,
}

impl Ttp0p9p3 {
    pub const fn x_min() -> u8 {
        0
    }

    pub const fn x_max() -> u8 {
        7
    }

    pub const fn c0_min() -> u8 {
        0
    }

    pub const fn c0_max() -> u8 {
        63
    }
}

#[asn(set)]

#[derive(Default, Debug, Clone, PartialEq, Hash)]
pub struct Ttp0p9p4 {
    #[asn(integer(0..7), tag(UNIVERSAL(30)))] pub x: u8,
    #[asn(optional(complex(Tcho, tag(1))))] pub rc: Option<Tcho>,
    #[asn(integer(0..127), tag(PRIVATE(2)))] pub p: u8,
}

impl Ttp0p9p4 {
    pub const fn x_min() -> u8 {
        0
    }

    pub const fn x_max() -> u8 {
        7
    }

    pub const fn p_min() -> u8 {
        0
    }

    pub const fn p_max() -> u8 {
        127
    }
}

#[asn(set)]

#[derive(Default, Debug, Clone, PartialEq, Hash)]
pub struct Ttp0p9p5 {
    #[asn(integer(0..7), tag(UNIVERSAL(30)))] pub x: u8,
    #[asn(optional(complex(Tcho, tag(1))))] pub rc: Option<Tcho>,
    #[asn(optional(boolean))] pub b: Option<bool>,
}

impl Ttp0p9p5 {
    pub const fn x_min() -> u8 {
        0
    }

    pub const fn x_max() -> u8 {
        7
    }
}

#[asn(set)]

#[derive(Default, Debug, Clone, PartialEq, Hash)]
pub struct Ttp0p9p6 {
    #[asn(integer(0..7), tag(UNIVERSAL(30)))] pub x: u8,
    #[asn(optional(complex(Tcho, tag(1))))] pub rc: Option<Tcho>,
    #[asn(integer(0..255))] pub i: u8,
}

impl Ttp0p9p6 {
    pub const fn x_min() -> u8 {
        0
    }

    pub const fn x_max() -> u8 {
        7
    }

    pub const fn i_min() -> u8 {
        0
    }

    pub const fn i_max() -> u8 {
        255
    }
}

#[asn(set)]

#[derive(Default, Debug, Clone, PartialEq, Hash)]
pub struct Ttp0p9p7 {
    #[asn(integer(0..7), tag(UNIVERSAL(30)))] pub x: u8,
    #[asn(optional(complex(Tcho, tag(1))))] pub rc: Option<Tcho>,
    #[asn(optional(complex(Tapp9, tag(APPLICATION(9)))))] pub ra: Option<Tapp9>,
}

impl Ttp0p9p7 {
    pub const fn x_min() -> u8 {
        0
    }

    pub const fn x_max() -> u8 {
        7
    }
}

#[asn(set)]

#[derive(Default, Debug, Clone, PartialEq, Hash)]
pub struct Ttp0p9p8 {
    #[asn(integer(0..7), tag(UNIVERSAL(30)))] pub x: u8,
    #[asn(optional(complex(Tcho, tag(1))))] pub rc: Option<Tcho>,
    #[asn(complex(Tsq, tag(UNIVERSAL(16))))] pub rs: Tsq,
}

impl Ttp0p9p8 {
    pub const fn x_min() -> u8 {
        0
    }

    pub const fn x_max() -> u8 {
        7
    }
}
// ---- harness conversions (generated by the zoo build script from the items above) ----
impl FromValue for Tapp9 { fn from_value(v: &Value) -> Self { Tapp9(FromValue::from_value(v)) } }
impl ToValue for Tapp9 { fn to_value(&self) -> Value { self.0.to_value() } }
impl FromValue for Tsq {
    fn from_value(v: &Value) -> Self {
        let s = match v { Value::Seq(s) => s, other => panic!("Tsq: expected Seq, got {other:?}") };
        assert_eq!(s.len(), 1, "Tsq: component count");
        let _ = s;
        Tsq {
            z: FromValue::from_value(s[0].as_ref().expect("component z of Tsq must be present")),
        }
    }
}
impl ToValue for Tsq {
    fn to_value(&self) -> Value {
        Value::Seq(vec![
            Some(self.z.to_value()),
        ])
    }
}
impl FromValue for Tcho {
    fn from_value(v: &Value) -> Self {
        let (i, inner) = match v { Value::Choice(i, inner) => (*i, &**inner), other => panic!("Tcho: expected Choice, got {other:?}") };
        match i {
            0 => Tcho::M(FromValue::from_value(inner)),
            1 => Tcho::N(FromValue::from_value(inner)),
            _ => panic!("Tcho: alternative index {i} out of range"),
        }
    }
}
impl ToValue for Tcho {
    fn to_value(&self) -> Value {
        match self {
            Tcho::M(x) => Value::Choice(0, Box::new(x.to_value())),
            Tcho::N(x) => Value::Choice(1, Box::new(x.to_value())),
        }
    }
}
impl FromValue for Tchox {
    fn from_value(v: &Value) -> Self {
        let (i, inner) = match v { Value::Choice(i, inner) => (*i, &**inner), other => panic!("Tchox: expected Choice, got {other:?}") };
        match i {
            0 => Tchox::M(FromValue::from_value(inner)),
            1 => Tchox::N(FromValue::from_value(inner)),
            2 => Tchox::O(FromValue::from_value(inner)),
            _ => panic!("Tchox: alternative index {i} out of range"),
        }
    }
}
impl ToValue for Tchox {
    fn to_value(&self) -> Value {
        match self {
            Tchox::M(x) => Value::Choice(0, Box::new(x.to_value())),
            Tchox::N(x) => Value::Choice(1, Box::new(x.to_value())),
            Tchox::O(x) => Value::Choice(2, Box::new(x.to_value())),
        }
    }
}
impl FromValue for Tst {
    fn from_value(v: &Value) -> Self {
        let s = match v { Value::Seq(s) => s, other => panic!("Tst: expected Seq, got {other:?}") };
        assert_eq!(s.len(), 1, "Tst: component count");
        let _ = s;
        Tst {
            z: FromValue::from_value(s[0].as_ref().expect("component z of Tst must be present")),
        }
    }
}
impl ToValue for Tst {
    fn to_value(&self) -> Value {
        Value::Seq(vec![
            Some(self.z.to_value()),
        ])
    }
}
impl FromValue for Ttp0p1p2 {
    fn from_value(v: &Value) -> Self {
        let s = match v { Value::Seq(s) => s, other => panic!("Ttp0p1p2: expected Seq, got {other:?}") };
        assert_eq!(s.len(), 3, "Ttp0p1p2: component count");
        let _ = s;
        Ttp0p1p2 {
            x: FromValue::from_value(s[0].as_ref().expect("component x of Ttp0p1p2 must be present")),
            a: s[1].as_ref().map(FromValue::from_value),
            c3: FromValue::from_value(s[2].as_ref().expect("component c3 of Ttp0p1p2 must be present")),
        }
    }
}
impl ToValue for Ttp0p1p2 {
    fn to_value(&self) -> Value {
        Value::Seq(vec![
            Some(self.x.to_value()),
            self.a.as_ref().map(|x| x.to_value()),
            Some(self.c3.to_value()),
        ])
    }
}
impl FromValue for Ttp0p1p3 {
    fn from_value(v: &Value) -> Self {
        let s = match v { Value::Seq(s) => s, other => panic!("Ttp0p1p3: expected Seq, got {other:?}") };
        assert_eq!(s.len(), 3, "Ttp0p1p3: component count");
        let _ = s;
        Ttp0p1p3 {
            x: FromValue::from_value(s[0].as_ref().expect("component x of Ttp0p1p3 must be present")),
            a: s[1].as_ref().map(FromValue::from_value),
            c0: s[2].as_ref().map(FromValue::from_value),
        }
    }
}
impl ToValue for Ttp0p1p3 {
    fn to_value(&self) -> Value {
        Value::Seq(vec![
            Some(self.x.to_value()),
            self.a.as_ref().map(|x| x.to_value()),
            self.c0.as_ref().map(|x| x.to_value()),
        ])
    }
}
impl FromValue for Ttp0p1p4 {
    fn from_value(v: &Value) -> Self {
        let s = match v { Value::Seq(s) => s, other => panic!("Ttp0p1p4: expected Seq, got {other:?}") };
        assert_eq!(s.len(), 3, "Ttp0p1p4: component count");
        let _ = s;
        Ttp0p1p4 {
            x: FromValue::from_value(s[0].as_ref().expect("component x of Ttp0p1p4 must be present")),
            a: s[1].as_ref().map(FromValue::from_value),
            p: FromValue::from_value(s[2].as_ref().expect("component p of Ttp0p1p4 must be present")),
        }
    }
}
impl ToValue for Ttp0p1p4 {
    fn to_value(&self) -> Value {
        Value::Seq(vec![
            Some(self.x.to_value()),
            self.a.as_ref().map(|x| x.to_value()),
            Some(self.p.to_value()),
        ])
    }
}
impl FromValue for Ttp0p1p5 {
    fn from_value(v: &Value) -> Self {
        let s = match v { Value::Seq(s) => s, other => panic!("Ttp0p1p5: expected Seq, got {other:?}") };
        assert_eq!(s.len(), 3, "Ttp0p1p5: component count");
        let _ = s;
        Ttp0p1p5 {
            x: FromValue::from_value(s[0].as_ref().expect("component x of Ttp0p1p5 must be present")),
            a: s[1].as_ref().map(FromValue::from_value),
            b: s[2].as_ref().map(FromValue::from_value),
        }
    }
}
impl ToValue for Ttp0p1p5 {
    fn to_value(&self) -> Value {
        Value::Seq(vec![
            Some(self.x.to_value()),
            self.a.as_ref().map(|x| x.to_value()),
            self.b.as_ref().map(|x| x.to_value()),
        ])
    }
}
impl FromValue for Ttp0p1p6 {
    fn from_value(v: &Value) -> Self {
        let s = match v { Value::Seq(s) => s, other => panic!("Ttp0p1p6: expected Seq, got {other:?}") };
        assert_eq!(s.len(), 3, "Ttp0p1p6: component count");
        let _ = s;
        Ttp0p1p6 {
            x: FromValue::from_value(s[0].as_ref().expect("component x of Ttp0p1p6 must be present")),
            a: s[1].as_ref().map(FromValue::from_value),
            i: FromValue::from_value(s[2].as_ref().expect("component i of Ttp0p1p6 must be present")),
        }
    }
}
impl ToValue for Ttp0p1p6 {
    fn to_value(&self) -> Value {
        Value::Seq(vec![
            Some(self.x.to_value()),
            self.a.as_ref().map(|x| x.to_value()),
            Some(self.i.to_value()),
        ])
    }
}
impl FromValue for Ttp0p1p7 {
    fn from_value(v: &Value) -> Self {
        let s = match v { Value::Seq(s) => s, other => panic!("Ttp0p1p7: expected Seq, got {other:?}") };
        assert_eq!(s.len(), 3, "Ttp0p1p7: component count");
        let _ = s;
        Ttp0p1p7 {
            x: FromValue::from_value(s[0].as_ref().expect("component x of Ttp0p1p7 must be present")),
            a: s[1].as_ref().map(FromValue::from_value),
            ra: s[2].as_ref().map(FromValue::from_value),
        }
    }
}
impl ToValue for Ttp0p1p7 {
    fn to_value(&self) -> Value {
        Value::Seq(vec![
            Some(self.x.to_value()),
            self.a.as_ref().map(|x| x.to_value()),
            self.ra.as_ref().map(|x| x.to_value()),
        ])
    }
}
impl FromValue for Ttp0p1p8 {
    fn from_value(v: &Value) -> Self {
        let s = match v { Value::Seq(s) => s, other => panic!("Ttp0p1p8: expected Seq, got {other:?}") };
        assert_eq!(s.len(), 3, "Ttp0p1p8: component count");
        let _ = s;
        Ttp0p1p8 {
            x: FromValue::from_value(s[0].as_ref().expect("component x of Ttp0p1p8 must be present")),
            a: s[1].as_ref().map(FromValue::from_value),
            rs: FromValue::from_value(s[2].as_ref().expect("component rs of Ttp0p1p8 must be present")),
        }
    }
}
impl ToValue for Ttp0p1p8 {
    fn to_value(&self) -> Value {
        Value::Seq(vec![
            Some(self.x.to_value()),
            self.a.as_ref().map(|x| x.to_value()),
            Some(self.rs.to_value()),
        ])
    }
}
impl FromValue for Ttp0p1p9 {
    fn from_value(v: &Value) -> Self {
        let s = match v { Value::Seq(s) => s, other => panic!("Ttp0p1p9: expected Seq, got {other:?}") };
        assert_eq!(s.len(), 3, "Ttp0p1p9: component count");
        let _ = s;
        Ttp0p1p9 {
            x: FromValue::from_value(s[0].as_ref().expect("component x of Ttp0p1p9 must be present")),
            a: s[1].as_ref().map(FromValue::from_value),
            rc: s[2].as_ref().map(FromValue::from_value),
        }
    }
}
impl ToValue for Ttp0p1p9 {
    fn to_value(&self) -> Value {
        Value::Seq(vec![
            Some(self.x.to_value()),
            self.a.as_ref().map(|x| x.to_value()),
            self.rc.as_ref().map(|x| x.to_value()),
        ])
    }
}
impl FromValue for Ttp0p1p10 {
    fn from_value(v: &Value) -> Self {
        let s = match v { Value::Seq(s) => s, other => panic!("Ttp0p1p10: expected Seq, got {other:?}") };
        assert_eq!(s.len(), 3, "Ttp0p1p10: component count");
        let _ = s;
        Ttp0p1p10 {
            x: FromValue::from_value(s[0].as_ref().expect("component x of Ttp0p1p10 must be present")),
            a: s[1].as_ref().map(FromValue::from_value),
            rt: FromValue::from_value(s[2].as_ref().expect("component rt of Ttp0p1p10 must be present")),
        }
    }
}
impl ToValue for Ttp0p1p10 {
    fn to_value(&self) -> Value {
        Value::Seq(vec![
            Some(self.x.to_value()),
            self.a.as_ref().map(|x| x.to_value()),
            Some(self.rt.to_value()),
        ])
    }
}
impl FromValue for Ttp0p1p11 {
    fn from_value(v: &Value) -> Self {
        let s = match v { Value::Seq(s) => s, other => panic!("Ttp0p1p11: expected Seq, got {other:?}") };
        assert_eq!(s.len(), 3, "Ttp0p1p11: component count");
        let _ = s;
        Ttp0p1p11 {
            x: FromValue::from_value(s[0].as_ref().expect("component x of Ttp0p1p11 must be present")),
            a: s[1].as_ref().map(FromValue::from_value),
            so: s[2].as_ref().map(FromValue::from_value),
        }
    }
}
impl ToValue for Ttp0p1p11 {
    fn to_value(&self) -> Value {
        Value::Seq(vec![
            Some(self.x.to_value()),
            self.a.as_ref().map(|x| x.to_value()),
            self.so.as_ref().map(|x| x.to_value()),
        ])
    }
}
impl FromValue for Ttp0p1p12 {
    fn from_value(v: &Value) -> Self {
        let s = match v { Value::Seq(s) => s, other => panic!("Ttp0p1p12: expected Seq, got {other:?}") };
        assert_eq!(s.len(), 3, "Ttp0p1p12: component count");
        let _ = s;
        Ttp0p1p12 {
            x: FromValue::from_value(s[0].as_ref().expect("component x of Ttp0p1p12 must be present")),
            a: s[1].as_ref().map(FromValue::from_value),
            st: FromValue::from_value(s[2].as_ref().expect("component st of Ttp0p1p12 must be present")),
        }
    }
}
impl ToValue for Ttp0p1p12 {
    fn to_value(&self) -> Value {
        Value::Seq(vec![
            Some(self.x.to_value()),
            self.a.as_ref().map(|x| x.to_value()),
            Some(self.st.to_value()),
        ])
    }
}
impl FromValue for Ttp0p1p13 {
    fn from_value(v: &Value) -> Self {
        let s = match v { Value::Seq(s) => s, other => panic!("Ttp0p1p13: expected Seq, got {other:?}") };
        assert_eq!(s.len(), 3, "Ttp0p1p13: component count");
        let _ = s;
        Ttp0p1p13 {
            x: FromValue::from_value(s[0].as_ref().expect("component x of Ttp0p1p13 must be present")),
            a: s[1].as_ref().map(FromValue::from_value),
            rx: s[2].as_ref().map(FromValue::from_value),
        }
    }
}
impl ToValue for Ttp0p1p13 {
    fn to_value(&self) -> Value {
        Value::Seq(vec![
            Some(self.x.to_value()),
            self.a.as_ref().map(|x| x.to_value()),
            self.rx.as_ref().map(|x| x.to_value()),
        ])
    }
}
impl FromValue for Ttp0p1p14 {
    fn from_value(v: &Value) -> Self {
        let s = match v { Value::Seq(s) => s, other => panic!("Ttp0p1p14: expected Seq, got {other:?}") };
        assert_eq!(s.len(), 3, "Ttp0p1p14: component count");
        let _ = s;
        Ttp0p1p14 {
            x: FromValue::from_value(s[0].as_ref().expect("component x of Ttp0p1p14 must be present")),
            a: s[1].as_ref().map(FromValue::from_value),
            u2: FromValue::from_value(s[2].as_ref().expect("component u2 of Ttp0p1p14 must be present")),
        }
    }
}
impl ToValue for Ttp0p1p14 {
    fn to_value(&self) -> Value {
        Value::Seq(vec![
            Some(self.x.to_value()),
            self.a.as_ref().map(|x| x.to_value()),
            Some(self.u2.to_value()),
        ])
    }
}
impl FromValue for Ttp0p1p15Is {
    fn from_value(v: &Value) -> Self {
        let s = match v { Value::Seq(s) => s, other => panic!("Ttp0p1p15Is: expected Seq, got {other:?}") };
        assert_eq!(s.len(), 1, "Ttp0p1p15Is: component count");
        let _ = s;
        Ttp0p1p15Is {
            v: FromValue::from_value(s[0].as_ref().expect("component v of Ttp0p1p15Is must be present")),
        }
    }
}
impl ToValue for Ttp0p1p15Is {
    fn to_value(&self) -> Value {
        Value::Seq(vec![
            Some(self.v.to_value()),
        ])
    }
}
impl FromValue for Ttp0p1p15 {
    fn from_value(v: &Value) -> Self {
        let s = match v { Value::Seq(s) => s, other => panic!("Ttp0p1p15: expected Seq, got {other:?}") };
        assert_eq!(s.len(), 3, "Ttp0p1p15: component count");
        let _ = s;
        Ttp0p1p15 {
            x: FromValue::from_value(s[0].as_ref().expect("component x of Ttp0p1p15 must be present")),
            a: s[1].as_ref().map(FromValue::from_value),
            is: s[2].as_ref().map(FromValue::from_value),
        }
    }
}
impl ToValue for Ttp0p1p15 {
    fn to_value(&self) -> Value {
        Value::Seq(vec![
            Some(self.x.to_value()),
            self.a.as_ref().map(|x| x.to_value()),
            self.is.as_ref().map(|x| x.to_value()),
        ])
    }
}
impl FromValue for Ttp0p2p1 {
    fn from_value(v: &Value) -> Self {
        let s = match v { Value::Seq(s) => s, other => panic!("Ttp0p2p1: expected Seq, got {other:?}") };
        assert_eq!(s.len(), 3, "Ttp0p2p1: component count");
        let _ = s;
        Ttp0p2p1 {
            x: FromValue::from_value(s[0].as_ref().expect("component x of Ttp0p2p1 must be present")),
            c3: FromValue::from_value(s[1].as_ref().expect("component c3 of Ttp0p2p1 must be present")),
            a: s[2].as_ref().map(FromValue::from_value),
        }
    }
}
impl ToValue for Ttp0p2p1 {
    fn to_value(&self) -> Value {
        Value::Seq(vec![
            Some(self.x.to_value()),
            Some(self.c3.to_value()),
            self.a.as_ref().map(|x| x.to_value()),
        ])
    }
}
impl FromValue for Ttp0p2p3 {
    fn from_value(v: &Value) -> Self {
        let s = match v { Value::Seq(s) => s, other => panic!("Ttp0p2p3: expected Seq, got {other:?}") };
        assert_eq!(s.len(), 3, "Ttp0p2p3: component count");
        let _ = s;
        Ttp0p2p3 {
            x: FromValue::from_value(s[0].as_ref().expect("component x of Ttp0p2p3 must be present")),
            c3: FromValue::from_value(s[1].as_ref().expect("component c3 of Ttp0p2p3 must be present")),
            c0: s[2].as_ref().map(FromValue::from_value),
        }
    }
}
impl ToValue for Ttp0p2p3 {
    fn to_value(&self) -> Value {
        Value::Seq(vec![
            Some(self.x.to_value()),
            Some(self.c3.to_value()),
            self.c0.as_ref().map(|x| x.to_value()),
        ])
    }
}
impl FromValue for Ttp0p2p4 {
    fn from_value(v: &Value) -> Self {
        let s = match v { Value::Seq(s) => s, other => panic!("Ttp0p2p4: expected Seq, got {other:?}") };
        assert_eq!(s.len(), 3, "Ttp0p2p4: component count");
        let _ = s;
        Ttp0p2p4 {
            x: FromValue::from_value(s[0].as_ref().expect("component x of Ttp0p2p4 must be present")),
            c3: FromValue::from_value(s[1].as_ref().expect("component c3 of Ttp0p2p4 must be present")),
            p: FromValue::from_value(s[2].as_ref().expect("component p of Ttp0p2p4 must be present")),
        }
    }
}
impl ToValue for Ttp0p2p4 {
    fn to_value(&self) -> Value {
        Value::Seq(vec![
            Some(self.x.to_value()),
            Some(self.c3.to_value()),
            Some(self.p.to_value()),
        ])
    }
}
impl FromValue for Ttp0p2p5 {
    fn from_value(v: &Value) -> Self {
        let s = match v { Value::Seq(s) => s, other => panic!("Ttp0p2p5: expected Seq, got {other:?}") };
        assert_eq!(s.len(), 3, "Ttp0p2p5: component count");
        let _ = s;
        Ttp0p2p5 {
            x: FromValue::from_value(s[0].as_ref().expect("component x of Ttp0p2p5 must be present")),
            c3: FromValue::from_value(s[1].as_ref().expect("component c3 of Ttp0p2p5 must be present")),
            b: s[2].as_ref().map(FromValue::from_value),
        }
    }
}
impl ToValue for Ttp0p2p5 {
    fn to_value(&self) -> Value {
        Value::Seq(vec![
            Some(self.x.to_value()),
            Some(self.c3.to_value()),
            self.b.as_ref().map(|x| x.to_value()),
        ])
    }
}
impl FromValue for Ttp0p2p6 {
    fn from_value(v: &Value) -> Self {
        let s = match v { Value::Seq(s) => s, other => panic!("Ttp0p2p6: expected Seq, got {other:?}") };
        assert_eq!(s.len(), 3, "Ttp0p2p6: component count");
        let _ = s;
        Ttp0p2p6 {
            x: FromValue::from_value(s[0].as_ref().expect("component x of Ttp0p2p6 must be present")),
            c3: FromValue::from_value(s[1].as_ref().expect("component c3 of Ttp0p2p6 must be present")),
            i: FromValue::from_value(s[2].as_ref().expect("component i of Ttp0p2p6 must be present")),
        }
    }
}
impl ToValue for Ttp0p2p6 {
    fn to_value(&self) -> Value {
        Value::Seq(vec![
            Some(self.x.to_value()),
            Some(self.c3.to_value()),
            Some(self.i.to_value()),
        ])
    }
}
impl FromValue for Ttp0p2p7 {
    fn from_value(v: &Value) -> Self {
        let s = match v { Value::Seq(s) => s, other => panic!("Ttp0p2p7: expected Seq, got {other:?}") };
        assert_eq!(s.len(), 3, "Ttp0p2p7: component count");
        let _ = s;
        Ttp0p2p7 {
            x: FromValue::from_value(s[0].as_ref().expect("component x of Ttp0p2p7 must be present")),
            c3: FromValue::from_value(s[1].as_ref().expect("component c3 of Ttp0p2p7 must be present")),
            ra: s[2].as_ref().map(FromValue::from_value),
        }
    }
}
impl ToValue for Ttp0p2p7 {
    fn to_value(&self) -> Value {
        Value::Seq(vec![
            Some(self.x.to_value()),
            Some(self.c3.to_value()),
            self.ra.as_ref().map(|x| x.to_value()),
        ])
    }
}
impl FromValue for Ttp0p2p8 {
    fn from_value(v: &Value) -> Self {
        let s = match v { Value::Seq(s) => s, other => panic!("Ttp0p2p8: expected Seq, got {other:?}") };
        assert_eq!(s.len(), 3, "Ttp0p2p8: component count");
        let _ = s;
        Ttp0p2p8 {
            x: FromValue::from_value(s[0].as_ref().expect("component x of Ttp0p2p8 must be present")),
            c3: FromValue::from_value(s[1].as_ref().expect("component c3 of Ttp0p2p8 must be present")),
            rs: FromValue::from_value(s[2].as_ref().expect("component rs of Ttp0p2p8 must be present")),
        }
    }
}
impl ToValue for Ttp0p2p8 {
    fn to_value(&self) -> Value {
        Value::Seq(vec![
            Some(self.x.to_value()),
            Some(self.c3.to_value()),
            Some(self.rs.to_value()),
        ])
    }
}
impl FromValue for Ttp0p2p9 {
    fn from_value(v: &Value) -> Self {
        let s = match v { Value::Seq(s) => s, other => panic!("Ttp0p2p9: expected Seq, got {other:?}") };
        assert_eq!(s.len(), 3, "Ttp0p2p9: component count");
        let _ = s;
        Ttp0p2p9 {
            x: FromValue::from_value(s[0].as_ref().expect("component x of Ttp0p2p9 must be present")),
            c3: FromValue::from_value(s[1].as_ref().expect("component c3 of Ttp0p2p9 must be present")),
            rc: s[2].as_ref().map(FromValue::from_value),
        }
    }
}
impl ToValue for Ttp0p2p9 {
    fn to_value(&self) -> Value {
        Value::Seq(vec![
            Some(self.x.to_value()),
            Some(self.c3.to_value()),
            self.rc.as_ref().map(|x| x.to_value()),
        ])
    }
}
impl FromValue for Ttp0p2p10 {
    fn from_value(v: &Value) -> Self {
        let s = match v { Value::Seq(s) => s, other => panic!("Ttp0p2p10: expected Seq, got {other:?}") };
        assert_eq!(s.len(), 3, "Ttp0p2p10: component count");
        let _ = s;
        Ttp0p2p10 {
            x: FromValue::from_value(s[0].as_ref().expect("component x of Ttp0p2p10 must be present")),
            c3: FromValue::from_value(s[1].as_ref().expect("component c3 of Ttp0p2p10 must be present")),
            rt: FromValue::from_value(s[2].as_ref().expect("component rt of Ttp0p2p10 must be present")),
        }
    }
}
impl ToValue for Ttp0p2p10 {
    fn to_value(&self) -> Value {
        Value::Seq(vec![
            Some(self.x.to_value()),
            Some(self.c3.to_value()),
            Some(self.rt.to_value()),
        ])
    }
}
impl FromValue for Ttp0p2p11 {
    fn from_value(v: &Value) -> Self {
        let s = match v { Value::Seq(s) => s, other => panic!("Ttp0p2p11: expected Seq, got {other:?}") };
        assert_eq!(s.len(), 3, "Ttp0p2p11: component count");
        let _ = s;
        Ttp0p2p11 {
            x: FromValue::from_value(s[0].as_ref().expect("component x of Ttp0p2p11 must be present")),
            c3: FromValue::from_value(s[1].as_ref().expect("component c3 of Ttp0p2p11 must be present")),
            so: s[2].as_ref().map(FromValue::from_value),
        }
    }
}
impl ToValue for Ttp0p2p11 {
    fn to_value(&self) -> Value {
        Value::Seq(vec![
            Some(self.x.to_value()),
            Some(self.c3.to_value()),
            self.so.as_ref().map(|x| x.to_value()),
        ])
    }
}
impl FromValue for Ttp0p2p12 {
    fn from_value(v: &Value) -> Self {
        let s = match v { Value::Seq(s) => s, other => panic!("Ttp0p2p12: expected Seq, got {other:?}") };
        assert_eq!(s.len(), 3, "Ttp0p2p12: component count");
        let _ = s;
        Ttp0p2p12 {
            x: FromValue::from_value(s[0].as_ref().expect("component x of Ttp0p2p12 must be present")),
            c3: FromValue::from_value(s[1].as_ref().expect("component c3 of Ttp0p2p12 must be present")),
            st: FromValue::from_value(s[2].as_ref().expect("component st of Ttp0p2p12 must be present")),
        }
    }
}
impl ToValue for Ttp0p2p12 {
    fn to_value(&self) -> Value {
        Value::Seq(vec![
            Some(self.x.to_value()),
            Some(self.c3.to_value()),
            Some(self.st.to_value()),
        ])
    }
}
impl FromValue for Ttp0p2p13 {
    fn from_value(v: &Value) -> Self {
        let s = match v { Value::Seq(s) => s, other => panic!("Ttp0p2p13: expected Seq, got {other:?}") };
        assert_eq!(s.len(), 3, "Ttp0p2p13: component count");
        let _ = s;
        Ttp0p2p13 {
            x: FromValue::from_value(s[0].as_ref().expect("component x of Ttp0p2p13 must be present")),
            c3: FromValue::from_value(s[1].as_ref().expect("component c3 of Ttp0p2p13 must be present")),
            rx: s[2].as_ref().map(FromValue::from_value),
        }
    }
}
impl ToValue for Ttp0p2p13 {
    fn to_value(&self) -> Value {
        Value::Seq(vec![
            Some(self.x.to_value()),
            Some(self.c3.to_value()),
            self.rx.as_ref().map(|x| x.to_value()),
        ])
    }
}
impl FromValue for Ttp0p2p14 {
    fn from_value(v: &Value) -> Self {
        let s = match v { Value::Seq(s) => s, other => panic!("Ttp0p2p14: expected Seq, got {other:?}") };
        assert_eq!(s.len(), 3, "Ttp0p2p14: component count");
        let _ = s;
        Ttp0p2p14 {
            x: FromValue::from_value(s[0].as_ref().expect("component x of Ttp0p2p14 must be present")),
            c3: FromValue::from_value(s[1].as_ref().expect("component c3 of Ttp0p2p14 must be present")),
            u2: FromValue::from_value(s[2].as_ref().expect("component u2 of Ttp0p2p14 must be present")),
        }
    }
}
impl ToValue for Ttp0p2p14 {
    fn to_value(&self) -> Value {
        Value::Seq(vec![
            Some(self.x.to_value()),
            Some(self.c3.to_value()),
            Some(self.u2.to_value()),
        ])
    }
}
impl FromValue for Ttp0p2p15Is {
    fn from_value(v: &Value) -> Self {
        let s = match v { Value::Seq(s) => s, other => panic!("Ttp0p2p15Is: expected Seq, got {other:?}") };
        assert_eq!(s.len(), 1, "Ttp0p2p15Is: component count");
        let _ = s;
        Ttp0p2p15Is {
            v: FromValue::from_value(s[0].as_ref().expect("component v of Ttp0p2p15Is must be present")),
        }
    }
}
impl ToValue for Ttp0p2p15Is {
    fn to_value(&self) -> Value {
        Value::Seq(vec![
            Some(self.v.to_value()),
        ])
    }
}
impl FromValue for Ttp0p2p15 {
    fn from_value(v: &Value) -> Self {
        let s = match v { Value::Seq(s) => s, other => panic!("Ttp0p2p15: expected Seq, got {other:?}") };
        assert_eq!(s.len(), 3, "Ttp0p2p15: component count");
        let _ = s;
        Ttp0p2p15 {
            x: FromValue::from_value(s[0].as_ref().expect("component x of Ttp0p2p15 must be present")),
            c3: FromValue::from_value(s[1].as_ref().expect("component c3 of Ttp0p2p15 must be present")),
            is: s[2].as_ref().map(FromValue::from_value),
        }
    }
}
impl ToValue for Ttp0p2p15 {
    fn to_value(&self) -> Value {
        Value::Seq(vec![
            Some(self.x.to_value()),
            Some(self.c3.to_value()),
            self.is.as_ref().map(|x| x.to_value()),
        ])
    }
}
impl FromValue for Ttp0p3p1 {
    fn from_value(v: &Value) -> Self {
        let s = match v { Value::Seq(s) => s, other => panic!("Ttp0p3p1: expected Seq, got {other:?}") };
        assert_eq!(s.len(), 3, "Ttp0p3p1: component count");
        let _ = s;
        Ttp0p3p1 {
            x: FromValue::from_value(s[0].as_ref().expect("component x of Ttp0p3p1 must be present")),
            c0: s[1].as_ref().map(FromValue::from_value),
            a: s[2].as_ref().map(FromValue::from_value),
        }
    }
}
impl ToValue for Ttp0p3p1 {
    fn to_value(&self) -> Value {
        Value::Seq(vec![
            Some(self.x.to_value()),
            self.c0.as_ref().map(|x| x.to_value()),
            self.a.as_ref().map(|x| x.to_value()),
        ])
    }
}
impl FromValue for Ttp0p3p2 {
    fn from_value(v: &Value) -> Self {
        let s = match v { Value::Seq(s) => s, other => panic!("Ttp0p3p2: expected Seq, got {other:?}") };
        assert_eq!(s.len(), 3, "Ttp0p3p2: component count");
        let _ = s;
        Ttp0p3p2 {
            x: FromValue::from_value(s[0].as_ref().expect("component x of Ttp0p3p2 must be present")),
            c0: s[1].as_ref().map(FromValue::from_value),
            c3: FromValue::from_value(s[2].as_ref().expect("component c3 of Ttp0p3p2 must be present")),
        }
    }
}
impl ToValue for Ttp0p3p2 {
    fn to_value(&self) -> Value {
        Value::Seq(vec![
            Some(self.x.to_value()),
            self.c0.as_ref().map(|x| x.to_value()),
            Some(self.c3.to_value()),
        ])
    }
}
impl FromValue for Ttp0p3p4 {
    fn from_value(v: &Value) -> Self {
        let s = match v { Value::Seq(s) => s, other => panic!("Ttp0p3p4: expected Seq, got {other:?}") };
        assert_eq!(s.len(), 3, "Ttp0p3p4: component count");
        let _ = s;
        Ttp0p3p4 {
            x: FromValue::from_value(s[0].as_ref().expect("component x of Ttp0p3p4 must be present")),
            c0: s[1].as_ref().map(FromValue::from_value),
            p: FromValue::from_value(s[2].as_ref().expect("component p of Ttp0p3p4 must be present")),
        }
    }
}
impl ToValue for Ttp0p3p4 {
    fn to_value(&self) -> Value {
        Value::Seq(vec![
            Some(self.x.to_value()),
            self.c0.as_ref().map(|x| x.to_value()),
            Some(self.p.to_value()),
        ])
    }
}
impl FromValue for Ttp0p3p5 {
    fn from_value(v: &Value) -> Self {
        let s = match v { Value::Seq(s) => s, other => panic!("Ttp0p3p5: expected Seq, got {other:?}") };
        assert_eq!(s.len(), 3, "Ttp0p3p5: component count");
        let _ = s;
        Ttp0p3p5 {
            x: FromValue::from_value(s[0].as_ref().expect("component x of Ttp0p3p5 must be present")),
            c0: s[1].as_ref().map(FromValue::from_value),
            b: s[2].as_ref().map(FromValue::from_value),
        }
    }
}
impl ToValue for Ttp0p3p5 {
    fn to_value(&self) -> Value {
        Value::Seq(vec![
            Some(self.x.to_value()),
            self.c0.as_ref().map(|x| x.to_value()),
            self.b.as_ref().map(|x| x.to_value()),
        ])
    }
}
impl FromValue for Ttp0p3p6 {
    fn from_value(v: &Value) -> Self {
        let s = match v { Value::Seq(s) => s, other => panic!("Ttp0p3p6: expected Seq, got {other:?}") };
        assert_eq!(s.len(), 3, "Ttp0p3p6: component count");
        let _ = s;
        Ttp0p3p6 {
            x: FromValue::from_value(s[0].as_ref().expect("component x of Ttp0p3p6 must be present")),
            c0: s[1].as_ref().map(FromValue::from_value),
            i: FromValue::from_value(s[2].as_ref().expect("component i of Ttp0p3p6 must be present")),
        }
    }
}
impl ToValue for Ttp0p3p6 {
    fn to_value(&self) -> Value {
        Value::Seq(vec![
            Some(self.x.to_value()),
            self.c0.as_ref().map(|x| x.to_value()),
            Some(self.i.to_value()),
        ])
    }
}
impl FromValue for Ttp0p3p7 {
    fn from_value(v: &Value) -> Self {
        let s = match v { Value::Seq(s) => s, other => panic!("Ttp0p3p7: expected Seq, got {other:?}") };
        assert_eq!(s.len(), 3, "Ttp0p3p7: component count");
        let _ = s;
        Ttp0p3p7 {
            x: FromValue::from_value(s[0].as_ref().expect("component x of Ttp0p3p7 must be present")),
            c0: s[1].as_ref().map(FromValue::from_value),
            ra: s[2].as_ref().map(FromValue::from_value),
        }
    }
}
impl ToValue for Ttp0p3p7 {
    fn to_value(&self) -> Value {
        Value::Seq(vec![
            Some(self.x.to_value()),
            self.c0.as_ref().map(|x| x.to_value()),
            self.ra.as_ref().map(|x| x.to_value()),
        ])
    }
}
impl FromValue for Ttp0p3p8 {
    fn from_value(v: &Value) -> Self {
        let s = match v { Value::Seq(s) => s, other => panic!("Ttp0p3p8: expected Seq, got {other:?}") };
        assert_eq!(s.len(), 3, "Ttp0p3p8: component count");
        let _ = s;
        Ttp0p3p8 {
            x: FromValue::from_value(s[0].as_ref().expect("component x of Ttp0p3p8 must be present")),
            c0: s[1].as_ref().map(FromValue::from_value),
            rs: FromValue::from_value(s[2].as_ref().expect("component rs of Ttp0p3p8 must be present")),
        }
    }
}
impl ToValue for Ttp0p3p8 {
    fn to_value(&self) -> Value {
        Value::Seq(vec![
            Some(self.x.to_value()),
            self.c0.as_ref().map(|x| x.to_value()),
            Some(self.rs.to_value()),
        ])
    }
}
impl FromValue for Ttp0p3p9 {
    fn from_value(v: &Value) -> Self {
        let s = match v { Value::Seq(s) => s, other => panic!("Ttp0p3p9: expected Seq, got {other:?}") };
        assert_eq!(s.len(), 3, "Ttp0p3p9: component count");
        let _ = s;
        Ttp0p3p9 {
            x: FromValue::from_value(s[0].as_ref().expect("component x of Ttp0p3p9 must be present")),
            c0: s[1].as_ref().map(FromValue::from_value),
            rc: s[2].as_ref().map(FromValue::from_value),
        }
    }
}
impl ToValue for Ttp0p3p9 {
    fn to_value(&self) -> Value {
        Value::Seq(vec![
            Some(self.x.to_value()),
            self.c0.as_ref().map(|x| x.to_value()),
            self.rc.as_ref().map(|x| x.to_value()),
        ])
    }
}
impl FromValue for Ttp0p3p10 {
    fn from_value(v: &Value) -> Self {
        let s = match v { Value::Seq(s) => s, other => panic!("Ttp0p3p10: expected Seq, got {other:?}") };
        assert_eq!(s.len(), 3, "Ttp0p3p10: component count");
        let _ = s;
        Ttp0p3p10 {
            x: FromValue::from_value(s[0].as_ref().expect("component x of Ttp0p3p10 must be present")),
            c0: s[1].as_ref().map(FromValue::from_value),
            rt: FromValue::from_value(s[2].as_ref().expect("component rt of Ttp0p3p10 must be present")),
        }
    }
}
impl ToValue for Ttp0p3p10 {
    fn to_value(&self) -> Value {
        Value::Seq(vec![
            Some(self.x.to_value()),
            self.c0.as_ref().map(|x| x.to_value()),
            Some(self.rt.to_value()),
        ])
    }
}
impl FromValue for Ttp0p3p11 {
    fn from_value(v: &Value) -> Self {
        let s = match v { Value::Seq(s) => s, other => panic!("Ttp0p3p11: expected Seq, got {other:?}") };
        assert_eq!(s.len(), 3, "Ttp0p3p11: component count");
        let _ = s;
        Ttp0p3p11 {
            x: FromValue::from_value(s[0].as_ref().expect("component x of Ttp0p3p11 must be present")),
            c0: s[1].as_ref().map(FromValue::from_value),
            so: s[2].as_ref().map(FromValue::from_value),
        }
    }
}
impl ToValue for Ttp0p3p11 {
    fn to_value(&self) -> Value {
        Value::Seq(vec![
            Some(self.x.to_value()),
            self.c0.as_ref().map(|x| x.to_value()),
            self.so.as_ref().map(|x| x.to_value()),
        ])
    }
}
impl FromValue for Ttp0p3p12 {
    fn from_value(v: &Value) -> Self {
        let s = match v { Value::Seq(s) => s, other => panic!("Ttp0p3p12: expected Seq, got {other:?}") };
        assert_eq!(s.len(), 3, "Ttp0p3p12: component count");
        let _ = s;
        Ttp0p3p12 {
            x: FromValue::from_value(s[0].as_ref().expect("component x of Ttp0p3p12 must be present")),
            c0: s[1].as_ref().map(FromValue::from_value),
            st: FromValue::from_value(s[2].as_ref().expect("component st of Ttp0p3p12 must be present")),
        }
    }
}
impl ToValue for Ttp0p3p12 {
    fn to_value(&self) -> Value {
        Value::Seq(vec![
            Some(self.x.to_value()),
            self.c0.as_ref().map(|x| x.to_value()),
            Some(self.st.to_value()),
        ])
    }
}
impl FromValue for Ttp0p3p13 {
    fn from_value(v: &Value) -> Self {
        let s = match v { Value::Seq(s) => s, other => panic!("Ttp0p3p13: expected Seq, got {other:?}") };
        assert_eq!(s.len(), 3, "Ttp0p3p13: component count");
        let _ = s;
        Ttp0p3p13 {
            x: FromValue::from_value(s[0].as_ref().expect("component x of Ttp0p3p13 must be present")),
            c0: s[1].as_ref().map(FromValue::from_value),
            rx: s[2].as_ref().map(FromValue::from_value),
        }
    }
}
impl ToValue for Ttp0p3p13 {
    fn to_value(&self) -> Value {
        Value::Seq(vec![
            Some(self.x.to_value()),
            self.c0.as_ref().map(|x| x.to_value()),
            self.rx.as_ref().map(|x| x.to_value()),
        ])
    }
}
impl FromValue for Ttp0p3p14 {
    fn from_value(v: &Value) -> Self {
        let s = match v { Value::Seq(s) => s, other => panic!("Ttp0p3p14: expected Seq, got {other:?}") };
        assert_eq!(s.len(), 3, "Ttp0p3p14: component count");
        let _ = s;
        Ttp0p3p14 {
            x: FromValue::from_value(s[0].as_ref().expect("component x of Ttp0p3p14 must be present")),
            c0: s[1].as_ref().map(FromValue::from_value),
            u2: FromValue::from_value(s[2].as_ref().expect("component u2 of Ttp0p3p14 must be present")),
        }
    }
}
impl ToValue for Ttp0p3p14 {
    fn to_value(&self) -> Value {
        Value::Seq(vec![
            Some(self.x.to_value()),
            self.c0.as_ref().map(|x| x.to_value()),
            Some(self.u2.to_value()),
        ])
    }
}
impl FromValue for Ttp0p3p15Is {
    fn from_value(v: &Value) -> Self {
        let s = match v { Value::Seq(s) => s, other => panic!("Ttp0p3p15Is: expected Seq, got {other:?}") };
        assert_eq!(s.len(), 1, "Ttp0p3p15Is: component count");
        let _ = s;
        Ttp0p3p15Is {
            v: FromValue::from_value(s[0].as_ref().expect("component v of Ttp0p3p15Is must be present")),
        }
    }
}
impl ToValue for Ttp0p3p15Is {
    fn to_value(&self) -> Value {
        Value::Seq(vec![
            Some(self.v.to_value()),
        ])
    }
}
impl FromValue for Ttp0p3p15 {
    fn from_value(v: &Value) -> Self {
        let s = match v { Value::Seq(s) => s, other => panic!("Ttp0p3p15: expected Seq, got {other:?}") };
        assert_eq!(s.len(), 3, "Ttp0p3p15: component count");
        let _ = s;
        Ttp0p3p15 {
            x: FromValue::from_value(s[0].as_ref().expect("component x of Ttp0p3p15 must be present")),
            c0: s[1].as_ref().map(FromValue::from_value),
            is: s[2].as_ref().map(FromValue::from_value),
        }
    }
}
impl ToValue for Ttp0p3p15 {
    fn to_value(&self) -> Value {
        Value::Seq(vec![
            Some(self.x.to_value()),
            self.c0.as_ref().map(|x| x.to_value()),
            self.is.as_ref().map(|x| x.to_value()),
        ])
    }
}
impl FromValue for Ttp0p4p1 {
    fn from_value(v: &Value) -> Self {
        let s = match v { Value::Seq(s) => s, other => panic!("Ttp0p4p1: expected Seq, got {other:?}") };
        assert_eq!(s.len(), 3, "Ttp0p4p1: component count");
        let _ = s;
        Ttp0p4p1 {
            x: FromValue::from_value(s[0].as_ref().expect("component x of Ttp0p4p1 must be present")),
            p: FromValue::from_value(s[1].as_ref().expect("component p of Ttp0p4p1 must be present")),
            a: s[2].as_ref().map(FromValue::from_value),
        }
    }
}
impl ToValue for Ttp0p4p1 {
    fn to_value(&self) -> Value {
        Value::Seq(vec![
            Some(self.x.to_value()),
            Some(self.p.to_value()),
            self.a.as_ref().map(|x| x.to_value()),
        ])
    }
}
impl FromValue for Ttp0p4p2 {
    fn from_value(v: &Value) -> Self {
        let s = match v { Value::Seq(s) => s, other => panic!("Ttp0p4p2: expected Seq, got {other:?}") };
        assert_eq!(s.len(), 3, "Ttp0p4p2: component count");
        let _ = s;
        Ttp0p4p2 {
            x: FromValue::from_value(s[0].as_ref().expect("component x of Ttp0p4p2 must be present")),
            p: FromValue::from_value(s[1].as_ref().expect("component p of Ttp0p4p2 must be present")),
            c3: FromValue::from_value(s[2].as_ref().expect("component c3 of Ttp0p4p2 must be present")),
        }
    }
}
impl ToValue for Ttp0p4p2 {
    fn to_value(&self) -> Value {
        Value::Seq(vec![
            Some(self.x.to_value()),
            Some(self.p.to_value()),
            Some(self.c3.to_value()),
        ])
    }
}
impl FromValue for Ttp0p4p3 {
    fn from_value(v: &Value) -> Self {
        let s = match v { Value::Seq(s) => s, other => panic!("Ttp0p4p3: expected Seq, got {other:?}") };
        assert_eq!(s.len(), 3, "Ttp0p4p3: component count");
        let _ = s;
        Ttp0p4p3 {
            x: FromValue::from_value(s[0].as_ref().expect("component x of Ttp0p4p3 must be present")),
            p: FromValue::from_value(s[1].as_ref().expect("component p of Ttp0p4p3 must be present")),
            c0: s[2].as_ref().map(FromValue::from_value),
        }
    }
}
impl ToValue for Ttp0p4p3 {
    fn to_value(&self) -> Value {
        Value::Seq(vec![
            Some(self.x.to_value()),
            Some(self.p.to_value()),
            self.c0.as_ref().map(|x| x.to_value()),
        ])
    }
}
impl FromValue for Ttp0p4p5 {
    fn from_value(v: &Value) -> Self {
        let s = match v { Value::Seq(s) => s, other => panic!("Ttp0p4p5: expected Seq, got {other:?}") };
        assert_eq!(s.len(), 3, "Ttp0p4p5: component count");
        let _ = s;
        Ttp0p4p5 {
            x: FromValue::from_value(s[0].as_ref().expect("component x of Ttp0p4p5 must be present")),
            p: FromValue::from_value(s[1].as_ref().expect("component p of Ttp0p4p5 must be present")),
            b: s[2].as_ref().map(FromValue::from_value),
        }
    }
}
impl ToValue for Ttp0p4p5 {
    fn to_value(&self) -> Value {
        Value::Seq(vec![
            Some(self.x.to_value()),
            Some(self.p.to_value()),
            self.b.as_ref().map(|x| x.to_value()),
        ])
    }
}
impl FromValue for Ttp0p4p6 {
    fn from_value(v: &Value) -> Self {
        let s = match v { Value::Seq(s) => s, other => panic!("Ttp0p4p6: expected Seq, got {other:?}") };
        assert_eq!(s.len(), 3, "Ttp0p4p6: component count");
        let _ = s;
        Ttp0p4p6 {
            x: FromValue::from_value(s[0].as_ref().expect("component x of Ttp0p4p6 must be present")),
            p: FromValue::from_value(s[1].as_ref().expect("component p of Ttp0p4p6 must be present")),
            i: FromValue::from_value(s[2].as_ref().expect("component i of Ttp0p4p6 must be present")),
        }
    }
}
impl ToValue for Ttp0p4p6 {
    fn to_value(&self) -> Value {
        Value::Seq(vec![
            Some(self.x.to_value()),
            Some(self.p.to_value()),
            Some(self.i.to_value()),
        ])
    }
}
impl FromValue for Ttp0p4p7 {
    fn from_value(v: &Value) -> Self {
        let s = match v { Value::Seq(s) => s, other => panic!("Ttp0p4p7: expected Seq, got {other:?}") };
        assert_eq!(s.len(), 3, "Ttp0p4p7: component count");
        let _ = s;
        Ttp0p4p7 {
            x: FromValue::from_value(s[0].as_ref().expect("component x of Ttp0p4p7 must be present")),
            p: FromValue::from_value(s[1].as_ref().expect("component p of Ttp0p4p7 must be present")),
            ra: s[2].as_ref().map(FromValue::from_value),
        }
    }
}
impl ToValue for Ttp0p4p7 {
    fn to_value(&self) -> Value {
        Value::Seq(vec![
            Some(self.x.to_value()),
            Some(self.p.to_value()),
            self.ra.as_ref().map(|x| x.to_value()),
        ])
    }
}
impl FromValue for Ttp0p4p8 {
    fn from_value(v: &Value) -> Self {
        let s = match v { Value::Seq(s) => s, other => panic!("Ttp0p4p8: expected Seq, got {other:?}") };
        assert_eq!(s.len(), 3, "Ttp0p4p8: component count");
        let _ = s;
        Ttp0p4p8 {
            x: FromValue::from_value(s[0].as_ref().expect("component x of Ttp0p4p8 must be present")),
            p: FromValue::from_value(s[1].as_ref().expect("component p of Ttp0p4p8 must be present")),
            rs: FromValue::from_value(s[2].as_ref().expect("component rs of Ttp0p4p8 must be present")),
        }
    }
}
impl ToValue for Ttp0p4p8 {
    fn to_value(&self) -> Value {
        Value::Seq(vec![
            Some(self.x.to_value()),
            Some(self.p.to_value()),
            Some(self.rs.to_value()),
        ])
    }
}
impl FromValue for Ttp0p4p9 {
    fn from_value(v: &Value) -> Self {
        let s = match v { Value::Seq(s) => s, other => panic!("Ttp0p4p9: expected Seq, got {other:?}") };
        assert_eq!(s.len(), 3, "Ttp0p4p9: component count");
        let _ = s;
        Ttp0p4p9 {
            x: FromValue::from_value(s[0].as_ref().expect("component x of Ttp0p4p9 must be present")),
            p: FromValue::from_value(s[1].as_ref().expect("component p of Ttp0p4p9 must be present")),
            rc: s[2].as_ref().map(FromValue::from_value),
        }
    }
}
impl ToValue for Ttp0p4p9 {
    fn to_value(&self) -> Value {
        Value::Seq(vec![
            Some(self.x.to_value()),
            Some(self.p.to_value()),
            self.rc.as_ref().map(|x| x.to_value()),
        ])
    }
}
impl FromValue for Ttp0p4p10 {
    fn from_value(v: &Value) -> Self {
        let s = match v { Value::Seq(s) => s, other => panic!("Ttp0p4p10: expected Seq, got {other:?}") };
        assert_eq!(s.len(), 3, "Ttp0p4p10: component count");
        let _ = s;
        Ttp0p4p10 {
            x: FromValue::from_value(s[0].as_ref().expect("component x of Ttp0p4p10 must be present")),
            p: FromValue::from_value(s[1].as_ref().expect("component p of Ttp0p4p10 must be present")),
            rt: FromValue::from_value(s[2].as_ref().expect("component rt of Ttp0p4p10 must be present")),
        }
    }
}
impl ToValue for Ttp0p4p10 {
    fn to_value(&self) -> Value {
        Value::Seq(vec![
            Some(self.x.to_value()),
            Some(self.p.to_value()),
            Some(self.rt.to_value()),
        ])
    }
}
impl FromValue for Ttp0p4p11 {
    fn from_value(v: &Value) -> Self {
        let s = match v { Value::Seq(s) => s, other => panic!("Ttp0p4p11: expected Seq, got {other:?}") };
        assert_eq!(s.len(), 3, "Ttp0p4p11: component count");
        let _ = s;
        Ttp0p4p11 {
            x: FromValue::from_value(s[0].as_ref().expect("component x of Ttp0p4p11 must be present")),
            p: FromValue::from_value(s[1].as_ref().expect("component p of Ttp0p4p11 must be present")),
            so: s[2].as_ref().map(FromValue::from_value),
        }
    }
}
impl ToValue for Ttp0p4p11 {
    fn to_value(&self) -> Value {
        Value::Seq(vec![
            Some(self.x.to_value()),
            Some(self.p.to_value()),
            self.so.as_ref().map(|x| x.to_value()),
        ])
    }
}
impl FromValue for Ttp0p4p12 {
    fn from_value(v: &Value) -> Self {
        let s = match v { Value::Seq(s) => s, other => panic!("Ttp0p4p12: expected Seq, got {other:?}") };
        assert_eq!(s.len(), 3, "Ttp0p4p12: component count");
        let _ = s;
        Ttp0p4p12 {
            x: FromValue::from_value(s[0].as_ref().expect("component x of Ttp0p4p12 must be present")),
            p: FromValue::from_value(s[1].as_ref().expect("component p of Ttp0p4p12 must be present")),
            st: FromValue::from_value(s[2].as_ref().expect("component st of Ttp0p4p12 must be present")),
        }
    }
}
impl ToValue for Ttp0p4p12 {
    fn to_value(&self) -> Value {
        Value::Seq(vec![
            Some(self.x.to_value()),
            Some(self.p.to_value()),
            Some(self.st.to_value()),
        ])
    }
}
impl FromValue for Ttp0p4p13 {
    fn from_value(v: &Value) -> Self {
        let s = match v { Value::Seq(s) => s, other => panic!("Ttp0p4p13: expected Seq, got {other:?}") };
        assert_eq!(s.len(), 3, "Ttp0p4p13: component count");
        let _ = s;
        Ttp0p4p13 {
            x: FromValue::from_value(s[0].as_ref().expect("component x of Ttp0p4p13 must be present")),
            p: FromValue::from_value(s[1].as_ref().expect("component p of Ttp0p4p13 must be present")),
            rx: s[2].as_ref().map(FromValue::from_value),
        }
    }
}
impl ToValue for Ttp0p4p13 {
    fn to_value(&self) -> Value {
        Value::Seq(vec![
            Some(self.x.to_value()),
            Some(self.p.to_value()),
            self.rx.as_ref().map(|x| x.to_value()),
        ])
    }
}
impl FromValue for Ttp0p4p14 {
    fn from_value(v: &Value) -> Self {
        let s = match v { Value::Seq(s) => s, other => panic!("Ttp0p4p14: expected Seq, got {other:?}") };
        assert_eq!(s.len(), 3, "Ttp0p4p14: component count");
        let _ = s;
        Ttp0p4p14 {
            x: FromValue::from_value(s[0].as_ref().expect("component x of Ttp0p4p14 must be present")),
            p: FromValue::from_value(s[1].as_ref().expect("component p of Ttp0p4p14 must be present")),
            u2: FromValue::from_value(s[2].as_ref().expect("component u2 of Ttp0p4p14 must be present")),
        }
    }
}
impl ToValue for Ttp0p4p14 {
    fn to_value(&self) -> Value {
        Value::Seq(vec![
            Some(self.x.to_value()),
            Some(self.p.to_value()),
            Some(self.u2.to_value()),
        ])
    }
}
impl FromValue for Ttp0p4p15Is {
    fn from_value(v: &Value) -> Self {
        let s = match v { Value::Seq(s) => s, other => panic!("Ttp0p4p15Is: expected Seq, got {other:?}") };
        assert_eq!(s.len(), 1, "Ttp0p4p15Is: component count");
        let _ = s;
        Ttp0p4p15Is {
            v: FromValue::from_value(s[0].as_ref().expect("component v of Ttp0p4p15Is must be present")),
        }
    }
}
impl ToValue for Ttp0p4p15Is {
    fn to_value(&self) -> Value {
        Value::Seq(vec![
            Some(self.v.to_value()),
        ])
    }
}
impl FromValue for Ttp0p4p15 {
    fn from_value(v: &Value) -> Self {
        let s = match v { Value::Seq(s) => s, other => panic!("Ttp0p4p15: expected Seq, got {other:?}") };
        assert_eq!(s.len(), 3, "Ttp0p4p15: component count");
        let _ = s;
        Ttp0p4p15 {
            x: FromValue::from_value(s[0].as_ref().expect("component x of Ttp0p4p15 must be present")),
            p: FromValue::from_value(s[1].as_ref().expect("component p of Ttp0p4p15 must be present")),
            is: s[2].as_ref().map(FromValue::from_value),
        }
    }
}
impl ToValue for Ttp0p4p15 {
    fn to_value(&self) -> Value {
        Value::Seq(vec![
            Some(self.x.to_value()),
            Some(self.p.to_value()),
            self.is.as_ref().map(|x| x.to_value()),
        ])
    }
}
impl FromValue for Ttp0p5p1 {
    fn from_value(v: &Value) -> Self {
        let s = match v { Value::Seq(s) => s, other => panic!("Ttp0p5p1: expected Seq, got {other:?}") };
        assert_eq!(s.len(), 3, "Ttp0p5p1: component count");
        let _ = s;
        Ttp0p5p1 {
            x: FromValue::from_value(s[0].as_ref().expect("component x of Ttp0p5p1 must be present")),
            b: s[1].as_ref().map(FromValue::from_value),
            a: s[2].as_ref().map(FromValue::from_value),
        }
    }
}
impl ToValue for Ttp0p5p1 {
    fn to_value(&self) -> Value {
        Value::Seq(vec![
            Some(self.x.to_value()),
            self.b.as_ref().map(|x| x.to_value()),
            self.a.as_ref().map(|x| x.to_value()),
        ])
    }
}
impl FromValue for Ttp0p5p2 {
    fn from_value(v: &Value) -> Self {
        let s = match v { Value::Seq(s) => s, other => panic!("Ttp0p5p2: expected Seq, got {other:?}") };
        assert_eq!(s.len(), 3, "Ttp0p5p2: component count");
        let _ = s;
        Ttp0p5p2 {
            x: FromValue::from_value(s[0].as_ref().expect("component x of Ttp0p5p2 must be present")),
            b: s[1].as_ref().map(FromValue::from_value),
            c3: FromValue::from_value(s[2].as_ref().expect("component c3 of Ttp0p5p2 must be present")),
        }
    }
}
impl ToValue for Ttp0p5p2 {
    fn to_value(&self) -> Value {
        Value::Seq(vec![
            Some(self.x.to_value()),
            self.b.as_ref().map(|x| x.to_value()),
            Some(self.c3.to_value()),
        ])
    }
}
impl FromValue for Ttp0p5p3 {
    fn from_value(v: &Value) -> Self {
        let s = match v { Value::Seq(s) => s, other => panic!("Ttp0p5p3: expected Seq, got {other:?}") };
        assert_eq!(s.len(), 3, "Ttp0p5p3: component count");
        let _ = s;
        Ttp0p5p3 {
            x: FromValue::from_value(s[0].as_ref().expect("component x of Ttp0p5p3 must be present")),
            b: s[1].as_ref().map(FromValue::from_value),
            c0: s[2].as_ref().map(FromValue::from_value),
        }
    }
}
impl ToValue for Ttp0p5p3 {
    fn to_value(&self) -> Value {
        Value::Seq(vec![
            Some(self.x.to_value()),
            self.b.as_ref().map(|x| x.to_value()),
            self.c0.as_ref().map(|x| x.to_value()),
        ])
    }
}
impl FromValue for Ttp0p5p4 {
    fn from_value(v: &Value) -> Self {
        let s = match v { Value::Seq(s) => s, other => panic!("Ttp0p5p4: expected Seq, got {other:?}") };
        assert_eq!(s.len(), 3, "Ttp0p5p4: component count");
        let _ = s;
        Ttp0p5p4 {
            x: FromValue::from_value(s[0].as_ref().expect("component x of Ttp0p5p4 must be present")),
            b: s[1].as_ref().map(FromValue::from_value),
            p: FromValue::from_value(s[2].as_ref().expect("component p of Ttp0p5p4 must be present")),
        }
    }
}
impl ToValue for Ttp0p5p4 {
    fn to_value(&self) -> Value {
        Value::Seq(vec![
            Some(self.x.to_value()),
            self.b.as_ref().map(|x| x.to_value()),
            Some(self.p.to_value()),
        ])
    }
}
impl FromValue for Ttp0p5p6 {
    fn from_value(v: &Value) -> Self {
        let s = match v { Value::Seq(s) => s, other => panic!("Ttp0p5p6: expected Seq, got {other:?}") };
        assert_eq!(s.len(), 3, "Ttp0p5p6: component count");
        let _ = s;
        Ttp0p5p6 {
            x: FromValue::from_value(s[0].as_ref().expect("component x of Ttp0p5p6 must be present")),
            b: s[1].as_ref().map(FromValue::from_value),
            i: FromValue::from_value(s[2].as_ref().expect("component i of Ttp0p5p6 must be present")),
        }
    }
}
impl ToValue for Ttp0p5p6 {
    fn to_value(&self) -> Value {
        Value::Seq(vec![
            Some(self.x.to_value()),
            self.b.as_ref().map(|x| x.to_value()),
            Some(self.i.to_value()),
        ])
    }
}
impl FromValue for Ttp0p5p7 {
    fn from_value(v: &Value) -> Self {
        let s = match v { Value::Seq(s) => s, other => panic!("Ttp0p5p7: expected Seq, got {other:?}") };
        assert_eq!(s.len(), 3, "Ttp0p5p7: component count");
        let _ = s;
        Ttp0p5p7 {
            x: FromValue::from_value(s[0].as_ref().expect("component x of Ttp0p5p7 must be present")),
            b: s[1].as_ref().map(FromValue::from_value),
            ra: s[2].as_ref().map(FromValue::from_value),
        }
    }
}
impl ToValue for Ttp0p5p7 {
    fn to_value(&self) -> Value {
        Value::Seq(vec![
            Some(self.x.to_value()),
            self.b.as_ref().map(|x| x.to_value()),
            self.ra.as_ref().map(|x| x.to_value()),
        ])
    }
}
impl FromValue for Ttp0p5p8 {
    fn from_value(v: &Value) -> Self {
        let s = match v { Value::Seq(s) => s, other => panic!("Ttp0p5p8: expected Seq, got {other:?}") };
        assert_eq!(s.len(), 3, "Ttp0p5p8: component count");
        let _ = s;
        Ttp0p5p8 {
            x: FromValue::from_value(s[0].as_ref().expect("component x of Ttp0p5p8 must be present")),
            b: s[1].as_ref().map(FromValue::from_value),
            rs: FromValue::from_value(s[2].as_ref().expect("component rs of Ttp0p5p8 must be present")),
        }
    }
}
impl ToValue for Ttp0p5p8 {
    fn to_value(&self) -> Value {
        Value::Seq(vec![
            Some(self.x.to_value()),
            self.b.as_ref().map(|x| x.to_value()),
            Some(self.rs.to_value()),
        ])
    }
}
impl FromValue for Ttp0p5p9 {
    fn from_value(v: &Value) -> Self {
        let s = match v { Value::Seq(s) => s, other => panic!("Ttp0p5p9: expected Seq, got {other:?}") };
        assert_eq!(s.len(), 3, "Ttp0p5p9: component count");
        let _ = s;
        Ttp0p5p9 {
            x: FromValue::from_value(s[0].as_ref().expect("component x of Ttp0p5p9 must be present")),
            b: s[1].as_ref().map(FromValue::from_value),
            rc: s[2].as_ref().map(FromValue::from_value),
        }
    }
}
impl ToValue for Ttp0p5p9 {
    fn to_value(&self) -> Value {
        Value::Seq(vec![
            Some(self.x.to_value()),
            self.b.as_ref().map(|x| x.to_value()),
            self.rc.as_ref().map(|x| x.to_value()),
        ])
    }
}
impl FromValue for Ttp0p5p10 {
    fn from_value(v: &Value) -> Self {
        let s = match v { Value::Seq(s) => s, other => panic!("Ttp0p5p10: expected Seq, got {other:?}") };
        assert_eq!(s.len(), 3, "Ttp0p5p10: component count");
        let _ = s;
        Ttp0p5p10 {
            x: FromValue::from_value(s[0].as_ref().expect("component x of Ttp0p5p10 must be present")),
            b: s[1].as_ref().map(FromValue::from_value),
            rt: FromValue::from_value(s[2].as_ref().expect("component rt of Ttp0p5p10 must be present")),
        }
    }
}
impl ToValue for Ttp0p5p10 {
    fn to_value(&self) -> Value {
        Value::Seq(vec![
            Some(self.x.to_value()),
            self.b.as_ref().map(|x| x.to_value()),
            Some(self.rt.to_value()),
        ])
    }
}
impl FromValue for Ttp0p5p11 {
    fn from_value(v: &Value) -> Self {
        let s = match v { Value::Seq(s) => s, other => panic!("Ttp0p5p11: expected Seq, got {other:?}") };
        assert_eq!(s.len(), 3, "Ttp0p5p11: component count");
        let _ = s;
        Ttp0p5p11 {
            x: FromValue::from_value(s[0].as_ref().expect("component x of Ttp0p5p11 must be present")),
            b: s[1].as_ref().map(FromValue::from_value),
            so: s[2].as_ref().map(FromValue::from_value),
        }
    }
}
impl ToValue for Ttp0p5p11 {
    fn to_value(&self) -> Value {
        Value::Seq(vec![
            Some(self.x.to_value()),
            self.b.as_ref().map(|x| x.to_value()),
            self.so.as_ref().map(|x| x.to_value()),
        ])
    }
}
impl FromValue for Ttp0p5p12 {
    fn from_value(v: &Value) -> Self {
        let s = match v { Value::Seq(s) => s, other => panic!("Ttp0p5p12: expected Seq, got {other:?}") };
        assert_eq!(s.len(), 3, "Ttp0p5p12: component count");
        let _ = s;
        Ttp0p5p12 {
            x: FromValue::from_value(s[0].as_ref().expect("component x of Ttp0p5p12 must be present")),
            b: s[1].as_ref().map(FromValue::from_value),
            st: FromValue::from_value(s[2].as_ref().expect("component st of Ttp0p5p12 must be present")),
        }
    }
}
impl ToValue for Ttp0p5p12 {
    fn to_value(&self) -> Value {
        Value::Seq(vec![
            Some(self.x.to_value()),
            self.b.as_ref().map(|x| x.to_value()),
            Some(self.st.to_value()),
        ])
    }
}
impl FromValue for Ttp0p5p13 {
    fn from_value(v: &Value) -> Self {
        let s = match v { Value::Seq(s) => s, other => panic!("Ttp0p5p13: expected Seq, got {other:?}") };
        assert_eq!(s.len(), 3, "Ttp0p5p13: component count");
        let _ = s;
        Ttp0p5p13 {
            x: FromValue::from_value(s[0].as_ref().expect("component x of Ttp0p5p13 must be present")),
            b: s[1].as_ref().map(FromValue::from_value),
            rx: s[2].as_ref().map(FromValue::from_value),
        }
    }
}
impl ToValue for Ttp0p5p13 {
    fn to_value(&self) -> Value {
        Value::Seq(vec![
            Some(self.x.to_value()),
            self.b.as_ref().map(|x| x.to_value()),
            self.rx.as_ref().map(|x| x.to_value()),
        ])
    }
}
impl FromValue for Ttp0p5p14 {
    fn from_value(v: &Value) -> Self {
        let s = match v { Value::Seq(s) => s, other => panic!("Ttp0p5p14: expected Seq, got {other:?}") };
        assert_eq!(s.len(), 3, "Ttp0p5p14: component count");
        let _ = s;
        Ttp0p5p14 {
            x: FromValue::from_value(s[0].as_ref().expect("component x of Ttp0p5p14 must be present")),
            b: s[1].as_ref().map(FromValue::from_value),
            u2: FromValue::from_value(s[2].as_ref().expect("component u2 of Ttp0p5p14 must be present")),
        }
    }
}
impl ToValue for Ttp0p5p14 {
    fn to_value(&self) -> Value {
        Value::Seq(vec![
            Some(self.x.to_value()),
            self.b.as_ref().map(|x| x.to_value()),
            Some(self.u2.to_value()),
        ])
    }
}
impl FromValue for Ttp0p5p15Is {
    fn from_value(v: &Value) -> Self {
        let s = match v { Value::Seq(s) => s, other => panic!("Ttp0p5p15Is: expected Seq, got {other:?}") };
        assert_eq!(s.len(), 1, "Ttp0p5p15Is: component count");
        let _ = s;
        Ttp0p5p15Is {
            v: FromValue::from_value(s[0].as_ref().expect("component v of Ttp0p5p15Is must be present")),
        }
    }
}
impl ToValue for Ttp0p5p15Is {
    fn to_value(&self) -> Value {
        Value::Seq(vec![
            Some(self.v.to_value()),
        ])
    }
}
impl FromValue for Ttp0p5p15 {
    fn from_value(v: &Value) -> Self {
        let s = match v { Value::Seq(s) => s, other => panic!("Ttp0p5p15: expected Seq, got {other:?}") };
        assert_eq!(s.len(), 3, "Ttp0p5p15: component count");
        let _ = s;
        Ttp0p5p15 {
            x: FromValue::from_value(s[0].as_ref().expect("component x of Ttp0p5p15 must be present")),
            b: s[1].as_ref().map(FromValue::from_value),
            is: s[2].as_ref().map(FromValue::from_value),
        }
    }
}
impl ToValue for Ttp0p5p15 {
    fn to_value(&self) -> Value {
        Value::Seq(vec![
            Some(self.x.to_value()),
            self.b.as_ref().map(|x| x.to_value()),
            self.is.as_ref().map(|x| x.to_value()),
        ])
    }
}
impl FromValue for Ttp0p6p1 {
    fn from_value(v: &Value) -> Self {
        let s = match v { Value::Seq(s) => s, other => panic!("Ttp0p6p1: expected Seq, got {other:?}") };
        assert_eq!(s.len(), 3, "Ttp0p6p1: component count");
        let _ = s;
        Ttp0p6p1 {
            x: FromValue::from_value(s[0].as_ref().expect("component x of Ttp0p6p1 must be present")),
            i: FromValue::from_value(s[1].as_ref().expect("component i of Ttp0p6p1 must be present")),
            a: s[2].as_ref().map(FromValue::from_value),
        }
    }
}
impl ToValue for Ttp0p6p1 {
    fn to_value(&self) -> Value {
        Value::Seq(vec![
            Some(self.x.to_value()),
            Some(self.i.to_value()),
            self.a.as_ref().map(|x| x.to_value()),
        ])
    }
}
impl FromValue for Ttp0p6p2 {
    fn from_value(v: &Value) -> Self {
        let s = match v { Value::Seq(s) => s, other => panic!("Ttp0p6p2: expected Seq, got {other:?}") };
        assert_eq!(s.len(), 3, "Ttp0p6p2: component count");
        let _ = s;
        Ttp0p6p2 {
            x: FromValue::from_value(s[0].as_ref().expect("component x of Ttp0p6p2 must be present")),
            i: FromValue::from_value(s[1].as_ref().expect("component i of Ttp0p6p2 must be present")),
            c3: FromValue::from_value(s[2].as_ref().expect("component c3 of Ttp0p6p2 must be present")),
        }
    }
}
impl ToValue for Ttp0p6p2 {
    fn to_value(&self) -> Value {
        Value::Seq(vec![
            Some(self.x.to_value()),
            Some(self.i.to_value()),
            Some(self.c3.to_value()),
        ])
    }
}
impl FromValue for Ttp0p6p3 {
    fn from_value(v: &Value) -> Self {
        let s = match v { Value::Seq(s) => s, other => panic!("Ttp0p6p3: expected Seq, got {other:?}") };
        assert_eq!(s.len(), 3, "Ttp0p6p3: component count");
        let _ = s;
        Ttp0p6p3 {
            x: FromValue::from_value(s[0].as_ref().expect("component x of Ttp0p6p3 must be present")),
            i: FromValue::from_value(s[1].as_ref().expect("component i of Ttp0p6p3 must be present")),
            c0: s[2].as_ref().map(FromValue::from_value),
        }
    }
}
impl ToValue for Ttp0p6p3 {
    fn to_value(&self) -> Value {
        Value::Seq(vec![
            Some(self.x.to_value()),
            Some(self.i.to_value()),
            self.c0.as_ref().map(|x| x.to_value()),
        ])
    }
}
impl FromValue for Ttp0p6p4 {
    fn from_value(v: &Value) -> Self {
        let s = match v { Value::Seq(s) => s, other => panic!("Ttp0p6p4: expected Seq, got {other:?}") };
        assert_eq!(s.len(), 3, "Ttp0p6p4: component count");
        let _ = s;
        Ttp0p6p4 {
            x: FromValue::from_value(s[0].as_ref().expect("component x of Ttp0p6p4 must be present")),
            i: FromValue::from_value(s[1].as_ref().expect("component i of Ttp0p6p4 must be present")),
            p: FromValue::from_value(s[2].as_ref().expect("component p of Ttp0p6p4 must be present")),
        }
    }
}
impl ToValue for Ttp0p6p4 {
    fn to_value(&self) -> Value {
        Value::Seq(vec![
            Some(self.x.to_value()),
            Some(self.i.to_value()),
            Some(self.p.to_value()),
        ])
    }
}
impl FromValue for Ttp0p6p5 {
    fn from_value(v: &Value) -> Self {
        let s = match v { Value::Seq(s) => s, other => panic!("Ttp0p6p5: expected Seq, got {other:?}") };
        assert_eq!(s.len(), 3, "Ttp0p6p5: component count");
        let _ = s;
        Ttp0p6p5 {
            x: FromValue::from_value(s[0].as_ref().expect("component x of Ttp0p6p5 must be present")),
            i: FromValue::from_value(s[1].as_ref().expect("component i of Ttp0p6p5 must be present")),
            b: s[2].as_ref().map(FromValue::from_value),
        }
    }
}
impl ToValue for Ttp0p6p5 {
    fn to_value(&self) -> Value {
        Value::Seq(vec![
            Some(self.x.to_value()),
            Some(self.i.to_value()),
            self.b.as_ref().map(|x| x.to_value()),
        ])
    }
}
impl FromValue for Ttp0p6p7 {
    fn from_value(v: &Value) -> Self {
        let s = match v { Value::Seq(s) => s, other => panic!("Ttp0p6p7: expected Seq, got {other:?}") };
        assert_eq!(s.len(), 3, "Ttp0p6p7: component count");
        let _ = s;
        Ttp0p6p7 {
            x: FromValue::from_value(s[0].as_ref().expect("component x of Ttp0p6p7 must be present")),
            i: FromValue::from_value(s[1].as_ref().expect("component i of Ttp0p6p7 must be present")),
            ra: s[2].as_ref().map(FromValue::from_value),
        }
    }
}
impl ToValue for Ttp0p6p7 {
    fn to_value(&self) -> Value {
        Value::Seq(vec![
            Some(self.x.to_value()),
            Some(self.i.to_value()),
            self.ra.as_ref().map(|x| x.to_value()),
        ])
    }
}
impl FromValue for Ttp0p6p8 {
    fn from_value(v: &Value) -> Self {
        let s = match v { Value::Seq(s) => s, other => panic!("Ttp0p6p8: expected Seq, got {other:?}") };
        assert_eq!(s.len(), 3, "Ttp0p6p8: component count");
        let _ = s;
        Ttp0p6p8 {
            x: FromValue::from_value(s[0].as_ref().expect("component x of Ttp0p6p8 must be present")),
            i: FromValue::from_value(s[1].as_ref().expect("component i of Ttp0p6p8 must be present")),
            rs: FromValue::from_value(s[2].as_ref().expect("component rs of Ttp0p6p8 must be present")),
        }
    }
}
impl ToValue for Ttp0p6p8 {
    fn to_value(&self) -> Value {
        Value::Seq(vec![
            Some(self.x.to_value()),
            Some(self.i.to_value()),
            Some(self.rs.to_value()),
        ])
    }
}
impl FromValue for Ttp0p6p9 {
    fn from_value(v: &Value) -> Self {
        let s = match v { Value::Seq(s) => s, other => panic!("Ttp0p6p9: expected Seq, got {other:?}") };
        assert_eq!(s.len(), 3, "Ttp0p6p9: component count");
        let _ = s;
        Ttp0p6p9 {
            x: FromValue::from_value(s[0].as_ref().expect("component x of Ttp0p6p9 must be present")),
            i: FromValue::from_value(s[1].as_ref().expect("component i of Ttp0p6p9 must be present")),
            rc: s[2].as_ref().map(FromValue::from_value),
        }
    }
}
impl ToValue for Ttp0p6p9 {
    fn to_value(&self) -> Value {
        Value::Seq(vec![
            Some(self.x.to_value()),
            Some(self.i.to_value()),
            self.rc.as_ref().map(|x| x.to_value()),
        ])
    }
}
impl FromValue for Ttp0p6p10 {
    fn from_value(v: &Value) -> Self {
        let s = match v { Value::Seq(s) => s, other => panic!("Ttp0p6p10: expected Seq, got {other:?}") };
        assert_eq!(s.len(), 3, "Ttp0p6p10: component count");
        let _ = s;
        Ttp0p6p10 {
            x: FromValue::from_value(s[0].as_ref().expect("component x of Ttp0p6p10 must be present")),
            i: FromValue::from_value(s[1].as_ref().expect("component i of Ttp0p6p10 must be present")),
            rt: FromValue::from_value(s[2].as_ref().expect("component rt of Ttp0p6p10 must be present")),
        }
    }
}
impl ToValue for Ttp0p6p10 {
    fn to_value(&self) -> Value {
        Value::Seq(vec![
            Some(self.x.to_value()),
            Some(self.i.to_value()),
            Some(self.rt.to_value()),
        ])
    }
}
impl FromValue for Ttp0p6p11 {
    fn from_value(v: &Value) -> Self {
        let s = match v { Value::Seq(s) => s, other => panic!("Ttp0p6p11: expected Seq, got {other:?}") };
        assert_eq!(s.len(), 3, "Ttp0p6p11: component count");
        let _ = s;
        Ttp0p6p11 {
            x: FromValue::from_value(s[0].as_ref().expect("component x of Ttp0p6p11 must be present")),
            i: FromValue::from_value(s[1].as_ref().expect("component i of Ttp0p6p11 must be present")),
            so: s[2].as_ref().map(FromValue::from_value),
        }
    }
}
impl ToValue for Ttp0p6p11 {
    fn to_value(&self) -> Value {
        Value::Seq(vec![
            Some(self.x.to_value()),
            Some(self.i.to_value()),
            self.so.as_ref().map(|x| x.to_value()),
        ])
    }
}
impl FromValue for Ttp0p6p12 {
    fn from_value(v: &Value) -> Self {
        let s = match v { Value::Seq(s) => s, other => panic!("Ttp0p6p12: expected Seq, got {other:?}") };
        assert_eq!(s.len(), 3, "Ttp0p6p12: component count");
        let _ = s;
        Ttp0p6p12 {
            x: FromValue::from_value(s[0].as_ref().expect("component x of Ttp0p6p12 must be present")),
            i: FromValue::from_value(s[1].as_ref().expect("component i of Ttp0p6p12 must be present")),
            st: FromValue::from_value(s[2].as_ref().expect("component st of Ttp0p6p12 must be present")),
        }
    }
}
impl ToValue for Ttp0p6p12 {
    fn to_value(&self) -> Value {
        Value::Seq(vec![
            Some(self.x.to_value()),
            Some(self.i.to_value()),
            Some(self.st.to_value()),
        ])
    }
}
impl FromValue for Ttp0p6p13 {
    fn from_value(v: &Value) -> Self {
        let s = match v { Value::Seq(s) => s, other => panic!("Ttp0p6p13: expected Seq, got {other:?}") };
        assert_eq!(s.len(), 3, "Ttp0p6p13: component count");
        let _ = s;
        Ttp0p6p13 {
            x: FromValue::from_value(s[0].as_ref().expect("component x of Ttp0p6p13 must be present")),
            i: FromValue::from_value(s[1].as_ref().expect("component i of Ttp0p6p13 must be present")),
            rx: s[2].as_ref().map(FromValue::from_value),
        }
    }
}
impl ToValue for Ttp0p6p13 {
    fn to_value(&self) -> Value {
        Value::Seq(vec![
            Some(self.x.to_value()),
            Some(self.i.to_value()),
            self.rx.as_ref().map(|x| x.to_value()),
        ])
    }
}
impl FromValue for Ttp0p6p14 {
    fn from_value(v: &Value) -> Self {
        let s = match v { Value::Seq(s) => s, other => panic!("Ttp0p6p14: expected Seq, got {other:?}") };
        assert_eq!(s.len(), 3, "Ttp0p6p14: component count");
        let _ = s;
        Ttp0p6p14 {
            x: FromValue::from_value(s[0].as_ref().expect("component x of Ttp0p6p14 must be present")),
            i: FromValue::from_value(s[1].as_ref().expect("component i of Ttp0p6p14 must be present")),
            u2: FromValue::from_value(s[2].as_ref().expect("component u2 of Ttp0p6p14 must be present")),
        }
    }
}
impl ToValue for Ttp0p6p14 {
    fn to_value(&self) -> Value {
        Value::Seq(vec![
            Some(self.x.to_value()),
            Some(self.i.to_value()),
            Some(self.u2.to_value()),
        ])
    }
}
impl FromValue for Ttp0p6p15Is {
    fn from_value(v: &Value) -> Self {
        let s = match v { Value::Seq(s) => s, other => panic!("Ttp0p6p15Is: expected Seq, got {other:?}") };
        assert_eq!(s.len(), 1, "Ttp0p6p15Is: component count");
        let _ = s;
        Ttp0p6p15Is {
            v: FromValue::from_value(s[0].as_ref().expect("component v of Ttp0p6p15Is must be present")),
        }
    }
}
impl ToValue for Ttp0p6p15Is {
    fn to_value(&self) -> Value {
        Value::Seq(vec![
            Some(self.v.to_value()),
        ])
    }
}
impl FromValue for Ttp0p6p15 {
    fn from_value(v: &Value) -> Self {
        let s = match v { Value::Seq(s) => s, other => panic!("Ttp0p6p15: expected Seq, got {other:?}") };
        assert_eq!(s.len(), 3, "Ttp0p6p15: component count");
        let _ = s;
        Ttp0p6p15 {
            x: FromValue::from_value(s[0].as_ref().expect("component x of Ttp0p6p15 must be present")),
            i: FromValue::from_value(s[1].as_ref().expect("component i of Ttp0p6p15 must be present")),
            is: s[2].as_ref().map(FromValue::from_value),
        }
    }
}
impl ToValue for Ttp0p6p15 {
    fn to_value(&self) -> Value {
        Value::Seq(vec![
            Some(self.x.to_value()),
            Some(self.i.to_value()),
            self.is.as_ref().map(|x| x.to_value()),
        ])
    }
}
impl FromValue for Ttp0p7p1 {
    fn from_value(v: &Value) -> Self {
        let s = match v { Value::Seq(s) => s, other => panic!("Ttp0p7p1: expected Seq, got {other:?}") };
        assert_eq!(s.len(), 3, "Ttp0p7p1: component count");
        let _ = s;
        Ttp0p7p1 {
            x: FromValue::from_value(s[0].as_ref().expect("component x of Ttp0p7p1 must be present")),
            ra: s[1].as_ref().map(FromValue::from_value),
            a: s[2].as_ref().map(FromValue::from_value),
        }
    }
}
impl ToValue for Ttp0p7p1 {
    fn to_value(&self) -> Value {
        Value::Seq(vec![
            Some(self.x.to_value()),
            self.ra.as_ref().map(|x| x.to_value()),
            self.a.as_ref().map(|x| x.to_value()),
        ])
    }
}
impl FromValue for Ttp0p7p2 {
    fn from_value(v: &Value) -> Self {
        let s = match v { Value::Seq(s) => s, other => panic!("Ttp0p7p2: expected Seq, got {other:?}") };
        assert_eq!(s.len(), 3, "Ttp0p7p2: component count");
        let _ = s;
        Ttp0p7p2 {
            x: FromValue::from_value(s[0].as_ref().expect("component x of Ttp0p7p2 must be present")),
            ra: s[1].as_ref().map(FromValue::from_value),
            c3: FromValue::from_value(s[2].as_ref().expect("component c3 of Ttp0p7p2 must be present")),
        }
    }
}
impl ToValue for Ttp0p7p2 {
    fn to_value(&self) -> Value {
        Value::Seq(vec![
            Some(self.x.to_value()),
            self.ra.as_ref().map(|x| x.to_value()),
            Some(self.c3.to_value()),
        ])
    }
}
impl FromValue for Ttp0p7p3 {
    fn from_value(v: &Value) -> Self {
        let s = match v { Value::Seq(s) => s, other => panic!("Ttp0p7p3: expected Seq, got {other:?}") };
        assert_eq!(s.len(), 3, "Ttp0p7p3: component count");
        let _ = s;
        Ttp0p7p3 {
            x: FromValue::from_value(s[0].as_ref().expect("component x of Ttp0p7p3 must be present")),
            ra: s[1].as_ref().map(FromValue::from_value),
            c0: s[2].as_ref().map(FromValue::from_value),
        }
    }
}
impl ToValue for Ttp0p7p3 {
    fn to_value(&self) -> Value {
        Value::Seq(vec![
            Some(self.x.to_value()),
            self.ra.as_ref().map(|x| x.to_value()),
            self.c0.as_ref().map(|x| x.to_value()),
        ])
    }
}
impl FromValue for Ttp0p7p4 {
    fn from_value(v: &Value) -> Self {
        let s = match v { Value::Seq(s) => s, other => panic!("Ttp0p7p4: expected Seq, got {other:?}") };
        assert_eq!(s.len(), 3, "Ttp0p7p4: component count");
        let _ = s;
        Ttp0p7p4 {
            x: FromValue::from_value(s[0].as_ref().expect("component x of Ttp0p7p4 must be present")),
            ra: s[1].as_ref().map(FromValue::from_value),
            p: FromValue::from_value(s[2].as_ref().expect("component p of Ttp0p7p4 must be present")),
        }
    }
}
impl ToValue for Ttp0p7p4 {
    fn to_value(&self) -> Value {
        Value::Seq(vec![
            Some(self.x.to_value()),
            self.ra.as_ref().map(|x| x.to_value()),
            Some(self.p.to_value()),
        ])
    }
}
impl FromValue for Ttp0p7p5 {
    fn from_value(v: &Value) -> Self {
        let s = match v { Value::Seq(s) => s, other => panic!("Ttp0p7p5: expected Seq, got {other:?}") };
        assert_eq!(s.len(), 3, "Ttp0p7p5: component count");
        let _ = s;
        Ttp0p7p5 {
            x: FromValue::from_value(s[0].as_ref().expect("component x of Ttp0p7p5 must be present")),
            ra: s[1].as_ref().map(FromValue::from_value),
            b: s[2].as_ref().map(FromValue::from_value),
        }
    }
}
impl ToValue for Ttp0p7p5 {
    fn to_value(&self) -> Value {
        Value::Seq(vec![
            Some(self.x.to_value()),
            self.ra.as_ref().map(|x| x.to_value()),
            self.b.as_ref().map(|x| x.to_value()),
        ])
    }
}
impl FromValue for Ttp0p7p6 {
    fn from_value(v: &Value) -> Self {
        let s = match v { Value::Seq(s) => s, other => panic!("Ttp0p7p6: expected Seq, got {other:?}") };
        assert_eq!(s.len(), 3, "Ttp0p7p6: component count");
        let _ = s;
        Ttp0p7p6 {
            x: FromValue::from_value(s[0].as_ref().expect("component x of Ttp0p7p6 must be present")),
            ra: s[1].as_ref().map(FromValue::from_value),
            i: FromValue::from_value(s[2].as_ref().expect("component i of Ttp0p7p6 must be present")),
        }
    }
}
impl ToValue for Ttp0p7p6 {
    fn to_value(&self) -> Value {
        Value::Seq(vec![
            Some(self.x.to_value()),
            self.ra.as_ref().map(|x| x.to_value()),
            Some(self.i.to_value()),
        ])
    }
}
impl FromValue for Ttp0p7p8 {
    fn from_value(v: &Value) -> Self {
        let s = match v { Value::Seq(s) => s, other => panic!("Ttp0p7p8: expected Seq, got {other:?}") };
        assert_eq!(s.len(), 3, "Ttp0p7p8: component count");
        let _ = s;
        Ttp0p7p8 {
            x: FromValue::from_value(s[0].as_ref().expect("component x of Ttp0p7p8 must be present")),
            ra: s[1].as_ref().map(FromValue::from_value),
            rs: FromValue::from_value(s[2].as_ref().expect("component rs of Ttp0p7p8 must be present")),
        }
    }
}
impl ToValue for Ttp0p7p8 {
    fn to_value(&self) -> Value {
        Value::Seq(vec![
            Some(self.x.to_value()),
            self.ra.as_ref().map(|x| x.to_value()),
            Some(self.rs.to_value()),
        ])
    }
}
impl FromValue for Ttp0p7p9 {
    fn from_value(v: &Value) -> Self {
        let s = match v { Value::Seq(s) => s, other => panic!("Ttp0p7p9: expected Seq, got {other:?}") };
        assert_eq!(s.len(), 3, "Ttp0p7p9: component count");
        let _ = s;
        Ttp0p7p9 {
            x: FromValue::from_value(s[0].as_ref().expect("component x of Ttp0p7p9 must be present")),
            ra: s[1].as_ref().map(FromValue::from_value),
            rc: s[2].as_ref().map(FromValue::from_value),
        }
    }
}
impl ToValue for Ttp0p7p9 {
    fn to_value(&self) -> Value {
        Value::Seq(vec![
            Some(self.x.to_value()),
            self.ra.as_ref().map(|x| x.to_value()),
            self.rc.as_ref().map(|x| x.to_value()),
        ])
    }
}
impl FromValue for Ttp0p7p10 {
    fn from_value(v: &Value) -> Self {
        let s = match v { Value::Seq(s) => s, other => panic!("Ttp0p7p10: expected Seq, got {other:?}") };
        assert_eq!(s.len(), 3, "Ttp0p7p10: component count");
        let _ = s;
        Ttp0p7p10 {
            x: FromValue::from_value(s[0].as_ref().expect("component x of Ttp0p7p10 must be present")),
            ra: s[1].as_ref().map(FromValue::from_value),
            rt: FromValue::from_value(s[2].as_ref().expect("component rt of Ttp0p7p10 must be present")),
        }
    }
}
impl ToValue for Ttp0p7p10 {
    fn to_value(&self) -> Value {
        Value::Seq(vec![
            Some(self.x.to_value()),
            self.ra.as_ref().map(|x| x.to_value()),
            Some(self.rt.to_value()),
        ])
    }
}
impl FromValue for Ttp0p7p11 {
    fn from_value(v: &Value) -> Self {
        let s = match v { Value::Seq(s) => s, other => panic!("Ttp0p7p11: expected Seq, got {other:?}") };
        assert_eq!(s.len(), 3, "Ttp0p7p11: component count");
        let _ = s;
        Ttp0p7p11 {
            x: FromValue::from_value(s[0].as_ref().expect("component x of Ttp0p7p11 must be present")),
            ra: s[1].as_ref().map(FromValue::from_value),
            so: s[2].as_ref().map(FromValue::from_value),
        }
    }
}
impl ToValue for Ttp0p7p11 {
    fn to_value(&self) -> Value {
        Value::Seq(vec![
            Some(self.x.to_value()),
            self.ra.as_ref().map(|x| x.to_value()),
            self.so.as_ref().map(|x| x.to_value()),
        ])
    }
}
impl FromValue for Ttp0p7p12 {
    fn from_value(v: &Value) -> Self {
        let s = match v { Value::Seq(s) => s, other => panic!("Ttp0p7p12: expected Seq, got {other:?}") };
        assert_eq!(s.len(), 3, "Ttp0p7p12: component count");
        let _ = s;
        Ttp0p7p12 {
            x: FromValue::from_value(s[0].as_ref().expect("component x of Ttp0p7p12 must be present")),
            ra: s[1].as_ref().map(FromValue::from_value),
            st: FromValue::from_value(s[2].as_ref().expect("component st of Ttp0p7p12 must be present")),
        }
    }
}
impl ToValue for Ttp0p7p12 {
    fn to_value(&self) -> Value {
        Value::Seq(vec![
            Some(self.x.to_value()),
            self.ra.as_ref().map(|x| x.to_value()),
            Some(self.st.to_value()),
        ])
    }
}
impl FromValue for Ttp0p7p13 {
    fn from_value(v: &Value) -> Self {
        let s = match v { Value::Seq(s) => s, other => panic!("Ttp0p7p13: expected Seq, got {other:?}") };
        assert_eq!(s.len(), 3, "Ttp0p7p13: component count");
        let _ = s;
        Ttp0p7p13 {
            x: FromValue::from_value(s[0].as_ref().expect("component x of Ttp0p7p13 must be present")),
            ra: s[1].as_ref().map(FromValue::from_value),
            rx: s[2].as_ref().map(FromValue::from_value),
        }
    }
}
impl ToValue for Ttp0p7p13 {
    fn to_value(&self) -> Value {
        Value::Seq(vec![
            Some(self.x.to_value()),
            self.ra.as_ref().map(|x| x.to_value()),
            self.rx.as_ref().map(|x| x.to_value()),
        ])
    }
}
impl FromValue for Ttp0p7p14 {
    fn from_value(v: &Value) -> Self {
        let s = match v { Value::Seq(s) => s, other => panic!("Ttp0p7p14: expected Seq, got {other:?}") };
        assert_eq!(s.len(), 3, "Ttp0p7p14: component count");
        let _ = s;
        Ttp0p7p14 {
            x: FromValue::from_value(s[0].as_ref().expect("component x of Ttp0p7p14 must be present")),
            ra: s[1].as_ref().map(FromValue::from_value),
            u2: FromValue::from_value(s[2].as_ref().expect("component u2 of Ttp0p7p14 must be present")),
        }
    }
}
impl ToValue for Ttp0p7p14 {
    fn to_value(&self) -> Value {
        Value::Seq(vec![
            Some(self.x.to_value()),
            self.ra.as_ref().map(|x| x.to_value()),
            Some(self.u2.to_value()),
        ])
    }
}
impl FromValue for Ttp0p7p15Is {
    fn from_value(v: &Value) -> Self {
        let s = match v { Value::Seq(s) => s, other => panic!("Ttp0p7p15Is: expected Seq, got {other:?}") };
        assert_eq!(s.len(), 1, "Ttp0p7p15Is: component count");
        let _ = s;
        Ttp0p7p15Is {
            v: FromValue::from_value(s[0].as_ref().expect("component v of Ttp0p7p15Is must be present")),
        }
    }
}
impl ToValue for Ttp0p7p15Is {
    fn to_value(&self) -> Value {
        Value::Seq(vec![
            Some(self.v.to_value()),
        ])
    }
}
impl FromValue for Ttp0p7p15 {
    fn from_value(v: &Value) -> Self {
        let s = match v { Value::Seq(s) => s, other => panic!("Ttp0p7p15: expected Seq, got {other:?}") };
        assert_eq!(s.len(), 3, "Ttp0p7p15: component count");
        let _ = s;
        Ttp0p7p15 {
            x: FromValue::from_value(s[0].as_ref().expect("component x of Ttp0p7p15 must be present")),
            ra: s[1].as_ref().map(FromValue::from_value),
            is: s[2].as_ref().map(FromValue::from_value),
        }
    }
}
impl ToValue for Ttp0p7p15 {
    fn to_value(&self) -> Value {
        Value::Seq(vec![
            Some(self.x.to_value()),
            self.ra.as_ref().map(|x| x.to_value()),
            self.is.as_ref().map(|x| x.to_value()),
        ])
    }
}
impl FromValue for Ttp0p8p1 {
    fn from_value(v: &Value) -> Self {
        let s = match v { Value::Seq(s) => s, other => panic!("Ttp0p8p1: expected Seq, got {other:?}") };
        assert_eq!(s.len(), 3, "Ttp0p8p1: component count");
        let _ = s;
        Ttp0p8p1 {
            x: FromValue::from_value(s[0].as_ref().expect("component x of Ttp0p8p1 must be present")),
            rs: FromValue::from_value(s[1].as_ref().expect("component rs of Ttp0p8p1 must be present")),
            a: s[2].as_ref().map(FromValue::from_value),
        }
    }
}
impl ToValue for Ttp0p8p1 {
    fn to_value(&self) -> Value {
        Value::Seq(vec![
            Some(self.x.to_value()),
            Some(self.rs.to_value()),
            self.a.as_ref().map(|x| x.to_value()),
        ])
    }
}
impl FromValue for Ttp0p8p2 {
    fn from_value(v: &Value) -> Self {
        let s = match v { Value::Seq(s) => s, other => panic!("Ttp0p8p2: expected Seq, got {other:?}") };
        assert_eq!(s.len(), 3, "Ttp0p8p2: component count");
        let _ = s;
        Ttp0p8p2 {
            x: FromValue::from_value(s[0].as_ref().expect("component x of Ttp0p8p2 must be present")),
            rs: FromValue::from_value(s[1].as_ref().expect("component rs of Ttp0p8p2 must be present")),
            c3: FromValue::from_value(s[2].as_ref().expect("component c3 of Ttp0p8p2 must be present")),
        }
    }
}
impl ToValue for Ttp0p8p2 {
    fn to_value(&self) -> Value {
        Value::Seq(vec![
            Some(self.x.to_value()),
            Some(self.rs.to_value()),
            Some(self.c3.to_value()),
        ])
    }
}
impl FromValue for Ttp0p8p3 {
    fn from_value(v: &Value) -> Self {
        let s = match v { Value::Seq(s) => s, other => panic!("Ttp0p8p3: expected Seq, got {other:?}") };
        assert_eq!(s.len(), 3, "Ttp0p8p3: component count");
        let _ = s;
        Ttp0p8p3 {
            x: FromValue::from_value(s[0].as_ref().expect("component x of Ttp0p8p3 must be present")),
            rs: FromValue::from_value(s[1].as_ref().expect("component rs of Ttp0p8p3 must be present")),
            c0: s[2].as_ref().map(FromValue::from_value),
        }
    }
}
impl ToValue for Ttp0p8p3 {
    fn to_value(&self) -> Value {
        Value::Seq(vec![
            Some(self.x.to_value()),
            Some(self.rs.to_value()),
            self.c0.as_ref().map(|x| x.to_value()),
        ])
    }
}
impl FromValue for Ttp0p8p4 {
    fn from_value(v: &Value) -> Self {
        let s = match v { Value::Seq(s) => s, other => panic!("Ttp0p8p4: expected Seq, got {other:?}") };
        assert_eq!(s.len(), 3, "Ttp0p8p4: component count");
        let _ = s;
        Ttp0p8p4 {
            x: FromValue::from_value(s[0].as_ref().expect("component x of Ttp0p8p4 must be present")),
            rs: FromValue::from_value(s[1].as_ref().expect("component rs of Ttp0p8p4 must be present")),
            p: FromValue::from_value(s[2].as_ref().expect("component p of Ttp0p8p4 must be present")),
        }
    }
}
impl ToValue for Ttp0p8p4 {
    fn to_value(&self) -> Value {
        Value::Seq(vec![
            Some(self.x.to_value()),
            Some(self.rs.to_value()),
            Some(self.p.to_value()),
        ])
    }
}
impl FromValue for Ttp0p8p5 {
    fn from_value(v: &Value) -> Self {
        let s = match v { Value::Seq(s) => s, other => panic!("Ttp0p8p5: expected Seq, got {other:?}") };
        assert_eq!(s.len(), 3, "Ttp0p8p5: component count");
        let _ = s;
        Ttp0p8p5 {
            x: FromValue::from_value(s[0].as_ref().expect("component x of Ttp0p8p5 must be present")),
            rs: FromValue::from_value(s[1].as_ref().expect("component rs of Ttp0p8p5 must be present")),
            b: s[2].as_ref().map(FromValue::from_value),
        }
    }
}
impl ToValue for Ttp0p8p5 {
    fn to_value(&self) -> Value {
        Value::Seq(vec![
            Some(self.x.to_value()),
            Some(self.rs.to_value()),
            self.b.as_ref().map(|x| x.to_value()),
        ])
    }
}
impl FromValue for Ttp0p8p6 {
    fn from_value(v: &Value) -> Self {
        let s = match v { Value::Seq(s) => s, other => panic!("Ttp0p8p6: expected Seq, got {other:?}") };
        assert_eq!(s.len(), 3, "Ttp0p8p6: component count");
        let _ = s;
        Ttp0p8p6 {
            x: FromValue::from_value(s[0].as_ref().expect("component x of Ttp0p8p6 must be present")),
            rs: FromValue::from_value(s[1].as_ref().expect("component rs of Ttp0p8p6 must be present")),
            i: FromValue::from_value(s[2].as_ref().expect("component i of Ttp0p8p6 must be present")),
        }
    }
}
impl ToValue for Ttp0p8p6 {
    fn to_value(&self) -> Value {
        Value::Seq(vec![
            Some(self.x.to_value()),
            Some(self.rs.to_value()),
            Some(self.i.to_value()),
        ])
    }
}
impl FromValue for Ttp0p8p7 {
    fn from_value(v: &Value) -> Self {
        let s = match v { Value::Seq(s) => s, other => panic!("Ttp0p8p7: expected Seq, got {other:?}") };
        assert_eq!(s.len(), 3, "Ttp0p8p7: component count");
        let _ = s;
        Ttp0p8p7 {
            x: FromValue::from_value(s[0].as_ref().expect("component x of Ttp0p8p7 must be present")),
            rs: FromValue::from_value(s[1].as_ref().expect("component rs of Ttp0p8p7 must be present")),
            ra: s[2].as_ref().map(FromValue::from_value),
        }
    }
}
impl ToValue for Ttp0p8p7 {
    fn to_value(&self) -> Value {
        Value::Seq(vec![
            Some(self.x.to_value()),
            Some(self.rs.to_value()),
            self.ra.as_ref().map(|x| x.to_value()),
        ])
    }
}
impl FromValue for Ttp0p8p9 {
    fn from_value(v: &Value) -> Self {
        let s = match v { Value::Seq(s) => s, other => panic!("Ttp0p8p9: expected Seq, got {other:?}") };
        assert_eq!(s.len(), 3, "Ttp0p8p9: component count");
        let _ = s;
        Ttp0p8p9 {
            x: FromValue::from_value(s[0].as_ref().expect("component x of Ttp0p8p9 must be present")),
            rs: FromValue::from_value(s[1].as_ref().expect("component rs of Ttp0p8p9 must be present")),
            rc: s[2].as_ref().map(FromValue::from_value),
        }
    }
}
impl ToValue for Ttp0p8p9 {
    fn to_value(&self) -> Value {
        Value::Seq(vec![
            Some(self.x.to_value()),
            Some(self.rs.to_value()),
            self.rc.as_ref().map(|x| x.to_value()),
        ])
    }
}
impl FromValue for Ttp0p8p10 {
    fn from_value(v: &Value) -> Self {
        let s = match v { Value::Seq(s) => s, other => panic!("Ttp0p8p10: expected Seq, got {other:?}") };
        assert_eq!(s.len(), 3, "Ttp0p8p10: component count");
        let _ = s;
        Ttp0p8p10 {
            x: FromValue::from_value(s[0].as_ref().expect("component x of Ttp0p8p10 must be present")),
            rs: FromValue::from_value(s[1].as_ref().expect("component rs of Ttp0p8p10 must be present")),
            rt: FromValue::from_value(s[2].as_ref().expect("component rt of Ttp0p8p10 must be present")),
        }
    }
}
impl ToValue for Ttp0p8p10 {
    fn to_value(&self) -> Value {
        Value::Seq(vec![
            Some(self.x.to_value()),
            Some(self.rs.to_value()),
            Some(self.rt.to_value()),
        ])
    }
}
impl FromValue for Ttp0p8p11 {
    fn from_value(v: &Value) -> Self {
        let s = match v { Value::Seq(s) => s, other => panic!("Ttp0p8p11: expected Seq, got {other:?}") };
        assert_eq!(s.len(), 3, "Ttp0p8p11: component count");
        let _ = s;
        Ttp0p8p11 {
            x: FromValue::from_value(s[0].as_ref().expect("component x of Ttp0p8p11 must be present")),
            rs: FromValue::from_value(s[1].as_ref().expect("component rs of Ttp0p8p11 must be present")),
            so: s[2].as_ref().map(FromValue::from_value),
        }
    }
}
impl ToValue for Ttp0p8p11 {
    fn to_value(&self) -> Value {
        Value::Seq(vec![
            Some(self.x.to_value()),
            Some(self.rs.to_value()),
            self.so.as_ref().map(|x| x.to_value()),
        ])
    }
}
impl FromValue for Ttp0p8p12 {
    fn from_value(v: &Value) -> Self {
        let s = match v { Value::Seq(s) => s, other => panic!("Ttp0p8p12: expected Seq, got {other:?}") };
        assert_eq!(s.len(), 3, "Ttp0p8p12: component count");
        let _ = s;
        Ttp0p8p12 {
            x: FromValue::from_value(s[0].as_ref().expect("component x of Ttp0p8p12 must be present")),
            rs: FromValue::from_value(s[1].as_ref().expect("component rs of Ttp0p8p12 must be present")),
            st: FromValue::from_value(s[2].as_ref().expect("component st of Ttp0p8p12 must be present")),
        }
    }
}
impl ToValue for Ttp0p8p12 {
    fn to_value(&self) -> Value {
        Value::Seq(vec![
            Some(self.x.to_value()),
            Some(self.rs.to_value()),
            Some(self.st.to_value()),
        ])
    }
}
impl FromValue for Ttp0p8p13 {
    fn from_value(v: &Value) -> Self {
        let s = match v { Value::Seq(s) => s, other => panic!("Ttp0p8p13: expected Seq, got {other:?}") };
        assert_eq!(s.len(), 3, "Ttp0p8p13: component count");
        let _ = s;
        Ttp0p8p13 {
            x: FromValue::from_value(s[0].as_ref().expect("component x of Ttp0p8p13 must be present")),
            rs: FromValue::from_value(s[1].as_ref().expect("component rs of Ttp0p8p13 must be present")),
            rx: s[2].as_ref().map(FromValue::from_value),
        }
    }
}
impl ToValue for Ttp0p8p13 {
    fn to_value(&self) -> Value {
        Value::Seq(vec![
            Some(self.x.to_value()),
            Some(self.rs.to_value()),
            self.rx.as_ref().map(|x| x.to_value()),
        ])
    }
}
impl FromValue for Ttp0p8p14 {
    fn from_value(v: &Value) -> Self {
        let s = match v { Value::Seq(s) => s, other => panic!("Ttp0p8p14: expected Seq, got {other:?}") };
        assert_eq!(s.len(), 3, "Ttp0p8p14: component count");
        let _ = s;
        Ttp0p8p14 {
            x: FromValue::from_value(s[0].as_ref().expect("component x of Ttp0p8p14 must be present")),
            rs: FromValue::from_value(s[1].as_ref().expect("component rs of Ttp0p8p14 must be present")),
            u2: FromValue::from_value(s[2].as_ref().expect("component u2 of Ttp0p8p14 must be present")),
        }
    }
}
impl ToValue for Ttp0p8p14 {
    fn to_value(&self) -> Value {
        Value::Seq(vec![
            Some(self.x.to_value()),
            Some(self.rs.to_value()),
            Some(self.u2.to_value()),
        ])
    }
}
impl FromValue for Ttp0p8p15Is {
    fn from_value(v: &Value) -> Self {
        let s = match v { Value::Seq(s) => s, other => panic!("Ttp0p8p15Is: expected Seq, got {other:?}") };
        assert_eq!(s.len(), 1, "Ttp0p8p15Is: component count");
        let _ = s;
        Ttp0p8p15Is {
            v: FromValue::from_value(s[0].as_ref().expect("component v of Ttp0p8p15Is must be present")),
        }
    }
}
impl ToValue for Ttp0p8p15Is {
    fn to_value(&self) -> Value {
        Value::Seq(vec![
            Some(self.v.to_value()),
        ])
    }
}
impl FromValue for Ttp0p8p15 {
    fn from_value(v: &Value) -> Self {
        let s = match v { Value::Seq(s) => s, other => panic!("Ttp0p8p15: expected Seq, got {other:?}") };
        assert_eq!(s.len(), 3, "Ttp0p8p15: component count");
        let _ = s;
        Ttp0p8p15 {
            x: FromValue::from_value(s[0].as_ref().expect("component x of Ttp0p8p15 must be present")),
            rs: FromValue::from_value(s[1].as_ref().expect("component rs of Ttp0p8p15 must be present")),
            is: s[2].as_ref().map(FromValue::from_value),
        }
    }
}
impl ToValue for Ttp0p8p15 {
    fn to_value(&self) -> Value {
        Value::Seq(vec![
            Some(self.x.to_value()),
            Some(self.rs.to_value()),
            self.is.as_ref().map(|x| x.to_value()),
        ])
    }
}
impl FromValue for Ttp0p9p1 {
    fn from_value(v: &Value) -> Self {
        let s = match v { Value::Seq(s) => s, other => panic!("Ttp0p9p1: expected Seq, got {other:?}") };
        assert_eq!(s.len(), 3, "Ttp0p9p1: component count");
        let _ = s;
        Ttp0p9p1 {
            x: FromValue::from_value(s[0].as_ref().expect("component x of Ttp0p9p1 must be present")),
            rc: s[1].as_ref().map(FromValue::from_value),
            a: s[2].as_ref().map(FromValue::from_value),
        }
    }
}
impl ToValue for Ttp0p9p1 {
    fn to_value(&self) -> Value {
        Value::Seq(vec![
            Some(self.x.to_value()),
            self.rc.as_ref().map(|x| x.to_value()),
            self.a.as_ref().map(|x| x.to_value()),
        ])
    }
}
impl FromValue for Ttp0p9p2 {
    fn from_value(v: &Value) -> Self {
        let s = match v { Value::Seq(s) => s, other => panic!("Ttp0p9p2: expected Seq, got {other:?}") };
        assert_eq!(s.len(), 3, "Ttp0p9p2: component count");
        let _ = s;
        Ttp0p9p2 {
            x: FromValue::from_value(s[0].as_ref().expect("component x of Ttp0p9p2 must be present")),
            rc: s[1].as_ref().map(FromValue::from_value),
            c3: FromValue::from_value(s[2].as_ref().expect("component c3 of Ttp0p9p2 must be present")),
        }
    }
}
impl ToValue for Ttp0p9p2 {
    fn to_value(&self) -> Value {
        Value::Seq(vec![
            Some(self.x.to_value()),
            self.rc.as_ref().map(|x| x.to_value()),
            Some(self.c3.to_value()),
        ])
    }
}
impl FromValue for Ttp0p9p3 {
    fn from_value(v: &Value) -> Self {
        let s = match v { Value::Seq(s) => s, other => panic!("Ttp0p9p3: expected Seq, got {other:?}") };
        assert_eq!(s.len(), 3, "Ttp0p9p3: component count");
        let _ = s;
        Ttp0p9p3 {
            x: FromValue::from_value(s[0].as_ref().expect("component x of Ttp0p9p3 must be present")),
            rc: s[1].as_ref().map(FromValue::from_value),
            c0: s[2].as_ref().map(FromValue::from_value),
        }
    }
}
impl ToValue for Ttp0p9p3 {
    fn to_value(&self) -> Value {
        Value::Seq(vec![
            Some(self.x.to_value()),
            self.rc.as_ref().map(|x| x.to_value()),
            self.c0.as_ref().map(|x| x.to_value()),
        ])
    }
}
impl FromValue for Ttp0p9p4 {
    fn from_value(v: &Value) -> Self {
        let s = match v { Value::Seq(s) => s, other => panic!("Ttp0p9p4: expected Seq, got {other:?}") };
        assert_eq!(s.len(), 3, "Ttp0p9p4: component count");
        let _ = s;
        Ttp0p9p4 {
            x: FromValue::from_value(s[0].as_ref().expect("component x of Ttp0p9p4 must be present")),
            rc: s[1].as_ref().map(FromValue::from_value),
            p: FromValue::from_value(s[2].as_ref().expect("component p of Ttp0p9p4 must be present")),
        }
    }
}
impl ToValue for Ttp0p9p4 {
    fn to_value(&self) -> Value {
        Value::Seq(vec![
            Some(self.x.to_value()),
            self.rc.as_ref().map(|x| x.to_value()),
            Some(self.p.to_value()),
        ])
    }
}
impl FromValue for Ttp0p9p5 {
    fn from_value(v: &Value) -> Self {
        let s = match v { Value::Seq(s) => s, other => panic!("Ttp0p9p5: expected Seq, got {other:?}") };
        assert_eq!(s.len(), 3, "Ttp0p9p5: component count");
        let _ = s;
        Ttp0p9p5 {
            x: FromValue::from_value(s[0].as_ref().expect("component x of Ttp0p9p5 must be present")),
            rc: s[1].as_ref().map(FromValue::from_value),
            b: s[2].as_ref().map(FromValue::from_value),
        }
    }
}
impl ToValue for Ttp0p9p5 {
    fn to_value(&self) -> Value {
        Value::Seq(vec![
            Some(self.x.to_value()),
            self.rc.as_ref().map(|x| x.to_value()),
            self.b.as_ref().map(|x| x.to_value()),
        ])
    }
}
impl FromValue for Ttp0p9p6 {
    fn from_value(v: &Value) -> Self {
        let s = match v { Value::Seq(s) => s, other => panic!("Ttp0p9p6: expected Seq, got {other:?}") };
        assert_eq!(s.len(), 3, "Ttp0p9p6: component count");
        let _ = s;
        Ttp0p9p6 {
            x: FromValue::from_value(s[0].as_ref().expect("component x of Ttp0p9p6 must be present")),
            rc: s[1].as_ref().map(FromValue::from_value),
            i: FromValue::from_value(s[2].as_ref().expect("component i of Ttp0p9p6 must be present")),
        }
    }
}
impl ToValue for Ttp0p9p6 {
    fn to_value(&self) -> Value {
        Value::Seq(vec![
            Some(self.x.to_value()),
            self.rc.as_ref().map(|x| x.to_value()),
            Some(self.i.to_value()),
        ])
    }
}
impl FromValue for Ttp0p9p7 {
    fn from_value(v: &Value) -> Self {
        let s = match v { Value::Seq(s) => s, other => panic!("Ttp0p9p7: expected Seq, got {other:?}") };
        assert_eq!(s.len(), 3, "Ttp0p9p7: component count");
        let _ = s;
        Ttp0p9p7 {
            x: FromValue::from_value(s[0].as_ref().expect("component x of Ttp0p9p7 must be present")),
            rc: s[1].as_ref().map(FromValue::from_value),
            ra: s[2].as_ref().map(FromValue::from_value),
        }
    }
}
impl ToValue for Ttp0p9p7 {
    fn to_value(&self) -> Value {
        Value::Seq(vec![
            Some(self.x.to_value()),
            self.rc.as_ref().map(|x| x.to_value()),
            self.ra.as_ref().map(|x| x.to_value()),
        ])
    }
}
impl FromValue for Ttp0p9p8 {
    fn from_value(v: &Value) -> Self {
        let s = match v { Value::Seq(s) => s, other => panic!("Ttp0p9p8: expected Seq, got {other:?}") };
        assert_eq!(s.len(), 3, "Ttp0p9p8: component count");
        let _ = s;
        Ttp0p9p8 {
            x: FromValue::from_value(s[0].as_ref().expect("component x of Ttp0p9p8 must be present")),
            rc: s[1].as_ref().map(FromValue::from_value),
            rs: FromValue::from_value(s[2].as_ref().expect("component rs of Ttp0p9p8 must be present")),
        }
    }
}
impl ToValue for Ttp0p9p8 {
    fn to_value(&self) -> Value {
        Value::Seq(vec![
            Some(self.x.to_value()),
            self.rc.as_ref().map(|x| x.to_value()),
            Some(self.rs.to_value()),
        ])
    }
}

use asn1rs::prelude::*;

#[asn(transparent)]

#[derive(Default, Debug, Clone, PartialEq, Hash)]
pub struct Tprtf0(#[asn(printablestring(size(0)))] pub String);

impl Tprtf0 {
}

impl Tprtf0 {
    pub const fn new(value: String) -> Self {
        Self(value)
    }
}

impl ::core::ops::Deref for Tprtf0 {
    type Target = String;

    fn deref(&self) -> &String {
        &self.0
    }
}

impl ::core::ops::DerefMut for Tprtf0 {
    fn deref_mut(&mut self) -> &mut String {
        &mut self.0
    }
}

impl ::core::convert::From<String> for Tprtf0 {
    fn from(value: String) -> Self {
        Self(value)
    }
}

impl ::core::convert::From<Tprtf0> for String {
    fn from(value: Tprtf0) -> Self {
        value.0
    }
}

#[asn(transparent)]

#[derive(Default, Debug, Clone, PartialEq, Hash)]
pub struct Tprtf2(#[asn(printablestring(size(2)))] pub String);

impl Tprtf2 {
}

impl Tprtf2 {
    pub const fn new(value: String) -> Self {
        Self(value)
    }
}

impl ::core::ops::Deref for Tprtf2 {
    type Target = String;

    fn deref(&self) -> &String {
        &self.0
    }
}

impl ::core::ops::DerefMut for Tprtf2 {
    fn deref_mut(&mut self) -> &mut String {
        &mut self.0
    }
}

impl ::core::convert::From<String> for Tprtf2 {
    fn from(value: String) -> Self {
        Self(value)
    }
}

impl ::core::convert::From<Tprtf2> for String {
    fn from(value: Tprtf2) -> Self {
        value.0
    }
}

#[asn(transparent)]

#[derive(Default, Debug, Clone, PartialEq, Hash)]
pub struct Tprtf17(#[asn(printablestring(size(17)))] pub String);

impl Tprtf17 {
}

impl Tprtf17 {
    pub const fn new(value: String) -> Self {
        Self(value)
    }
}

impl ::core::ops::Deref for Tprtf17 {
    type Target = String;

    fn deref(&self) -> &String {
        &self.0
    }
}

impl ::core::ops::DerefMut for Tprtf17 {
    fn deref_mut(&mut self) -> &mut String {
        &mut self.0
    }
}

impl ::core::convert::From<String> for Tprtf17 {
    fn from(value: String) -> Self {
        Self(value)
    }
}

impl ::core::convert::From<Tprtf17> for String {
    fn from(value: Tprtf17) -> Self {
        value.0
    }
}

#[asn(transparent)]

#[derive(Default, Debug, Clone, PartialEq, Hash)]
pub struct Tprtr0to1(#[asn(printablestring(size(0..1)))] pub String);

impl Tprtr0to1 {
}

impl Tprtr0to1 {
    pub const fn new(value: String) -> Self {
        Self(value)
    }
}

impl ::core::ops::Deref for Tprtr0to1 {
    type Target = String;

    fn deref(&self) -> &String {
        &self.0
    }
}

impl ::core::ops::DerefMut for Tprtr0to1 {
    fn deref_mut(&mut self) -> &mut String {
        &mut self.0
    }
}

impl ::core::convert::From<String> for Tprtr0to1 {
    fn from(value: String) -> Self {
        Self(value)
    }
}

impl ::core::convert::From<Tprtr0to1> for String {
    fn from(value: Tprtr0to1) -> Self {
        value.0
    }
}

#[asn(transparent)]

#[derive(Default, Debug, Clone, PartialEq, Hash)]
pub struct Tprtr0to255(#[asn(printablestring(size(0..255)))] pub String);

impl Tprtr0to255 {
}

impl Tprtr0to255 {
    pub const fn new(value: String) -> Self {
        Self(value)
    }
}

impl ::core::ops::Deref for Tprtr0to255 {
    type Target = String;

    fn deref(&self) -> &String {
        &self.0
    }
}

impl ::core::ops::DerefMut for Tprtr0to255 {
    fn deref_mut(&mut self) -> &mut String {
        &mut self.0
    }
}

impl ::core::convert::From<String> for Tprtr0to255 {
    fn from(value: String) -> Self {
        Self(value)
    }
}

impl ::core::convert::From<Tprtr0to255> for String {
    fn from(value: Tprtr0to255) -> Self {
        value.0
    }
}

#[asn(transparent)]

#[derive(Default, Debug, Clone, PartialEq, Hash)]
pub struct Tprtr0to256(#[asn(printablestring(size(0..256)))] pub String);

impl Tprtr0to256 {
}

impl Tprtr0to256 {
    pub const fn new(value: String) -> Self {
        Self(value)
    }
}

impl ::core::ops::Deref for Tprtr0to256 {
    type Target = String;

    fn deref(&self) -> &String {
        &self.0
    }
}

impl ::core::ops::DerefMut for Tprtr0to256 {
    fn deref_mut(&mut self) -> &mut String {
        &mut self.0
    }
}

impl ::core::convert::From<String> for Tprtr0to256 {
    fn from(value: String) -> Self {
        Self(value)
    }
}

impl ::core::convert::From<Tprtr0to256> for String {
    fn from(value: Tprtr0to256) -> Self {
        value.0
    }
}

#[asn(transparent)]

#[derive(Default, Debug, Clone, PartialEq, Hash)]
pub struct Tprtr1to65535(#[asn(printablestring(size(1..65535)))] pub String);

impl Tprtr1to65535 {
}

impl Tprtr1to65535 {
    pub const fn new(value: String) -> Self {
        Self(value)
    }
}

impl ::core::ops::Deref for Tprtr1to65535 {
    type Target = String;

    fn deref(&self) -> &String {
        &self.0
    }
}

impl ::core::ops::DerefMut for Tprtr1to65535 {
    fn deref_mut(&mut self) -> &mut String {
        &mut self.0
    }
}

impl ::core::convert::From<String> for Tprtr1to65535 {
    fn from(value: String) -> Self {
        Self(value)
    }
}

impl ::core::convert::From<Tprtr1to65535> for String {
    fn from(value: Tprtr1to65535) -> Self {
        value.0
    }
}

#[asn(transparent)]

#[derive(Default, Debug, Clone, PartialEq, Hash)]
pub struct Tprtr1to65536(#[asn(printablestring(size(1..65536)))] pub String);

impl Tprtr1to65536 {
}

impl Tprtr1to65536 {
    pub const fn new(value: String) -> Self {
        Self(value)
    }
}

impl ::core::ops::Deref for Tprtr1to65536 {
    type Target = String;

    fn deref(&self) -> &String {
        &self.0
    }
}

impl ::core::ops::DerefMut for Tprtr1to65536 {
    fn deref_mut(&mut self) -> &mut String {
        &mut self.0
    }
}

impl ::core::convert::From<String> for Tprtr1to65536 {
    fn from(value: String) -> Self {
        Self(value)
    }
}

impl ::core::convert::From<Tprtr1to65536> for String {
    fn from(value: Tprtr1to65536) -> Self {
        value.0
    }
}

#[asn(transparent)]

#[derive(Default, Debug, Clone, PartialEq, Hash)]
pub struct Tprtr0to65535x(#[asn(printablestring(size(0..65535,...)))] pub String);

impl Tprtr0to65535x {
}

impl Tprtr0to65535x {
    pub const fn new(value: String) -> Self {
        Self(value)
    }
}

impl ::core::ops::Deref for Tprtr0to65535x {
    type Target = String;

    fn deref(&self) -> &String {
        &self.0
    }
}

impl ::core::ops::DerefMut for Tprtr0to65535x {
    fn deref_mut(&mut self) -> &mut String {
        &mut self.0
    }
}

impl ::core::convert::From<String> for Tprtr0to65535x {
    fn from(value: String) -> Self {
        Self(value)
    }
}

impl ::core::convert::From<Tprtr0to65535x> for String {
    fn from(value: Tprtr0to65535x) -> Self {
        value.0
    }
}
// ---- harness conversions (generated by the zoo build script from the items above) ----
impl FromValue for Tprtf0 { fn from_value(v: &Value) -> Self { Tprtf0(FromValue::from_value(v)) } }
impl ToValue for Tprtf0 { fn to_value(&self) -> Value { self.0.to_value() } }
impl FromValue for Tprtf2 { fn from_value(v: &Value) -> Self { Tprtf2(FromValue::from_value(v)) } }
impl ToValue for Tprtf2 { fn to_value(&self) -> Value { self.0.to_value() } }
impl FromValue for Tprtf17 { fn from_value(v: &Value) -> Self { Tprtf17(FromValue::from_value(v)) } }
impl ToValue for Tprtf17 { fn to_value(&self) -> Value { self.0.to_value() } }
impl FromValue for Tprtr0to1 { fn from_value(v: &Value) -> Self { Tprtr0to1(FromValue::from_value(v)) } }
impl ToValue for Tprtr0to1 { fn to_value(&self) -> Value { self.0.to_value() } }
impl FromValue for Tprtr0to255 { fn from_value(v: &Value) -> Self { Tprtr0to255(FromValue::from_value(v)) } }
impl ToValue for Tprtr0to255 { fn to_value(&self) -> Value { self.0.to_value() } }
impl FromValue for Tprtr0to256 { fn from_value(v: &Value) -> Self { Tprtr0to256(FromValue::from_value(v)) } }
impl ToValue for Tprtr0to256 { fn to_value(&self) -> Value { self.0.to_value() } }
impl FromValue for Tprtr1to65535 { fn from_value(v: &Value) -> Self { Tprtr1to65535(FromValue::from_value(v)) } }
impl ToValue for Tprtr1to65535 { fn to_value(&self) -> Value { self.0.to_value() } }
impl FromValue for Tprtr1to65536 { fn from_value(v: &Value) -> Self { Tprtr1to65536(FromValue::from_value(v)) } }
impl ToValue for Tprtr1to65536 { fn to_value(&self) -> Value { self.0.to_value() } }
impl FromValue for Tprtr0to65535x { fn from_value(v: &Value) -> Self { Tprtr0to65535x(FromValue::from_value(v)) } }
impl ToValue for Tprtr0to65535x { fn to_value(&self) -> Value { self.0.to_value() } }

use asn1rs::prelude::*;

#[asn(sequence)]

#[derive(Default, Debug, Clone, PartialEq, Hash)]
pub struct Ts4dmdmn {
    #[asn(default(integer(0..7), 5))] pub f0: u8,
    #[asn(integer(0..7))] pub f1: u8,
    #[asn(default(integer(0..7), 5))] pub f2: u8,
    #[asn(integer(0..7))] pub f3: u8,
}

impl Ts4dmdmn {
    pub const fn f0_min() -> u8 {
        0
    }

    pub const fn f0_max() -> u8 {
        7
    }

    pub const fn f1_min() -> u8 {
        0
    }

    pub const fn f1_max() -> u8 {
        7
    }

    pub const fn f2_min() -> u8 {
        0
    }

    pub const fn f2_max() -> u8 {
        7
    }

    pub const fn f3_min() -> u8 {
        0
    }

    pub const fn f3_max() -> u8 {
        7
    }
}

#[asn(sequence, extensible_after(f0))]

#[derive(Default, Debug, Clone, PartialEq, Hash)]
pub struct Ts4dmdme0 {
    #[asn(default(integer(0..7), 5))] pub f0: u8,
    #[asn(optional(integer(0..7)))] pub f1: Option<u8>,
    #[asn(default(integer(0..7), 5))] pub f2: u8,
    #[asn(optional(integer(0..7)))] pub f3: Option<u8>,
}

impl Ts4dmdme0 {
    pub const fn f0_min() -> u8 {
        0
    }

    pub const fn f0_max() -> u8 {
        7
    }

    pub const fn f1_min() -> u8 {
        0
    }

    pub const fn f1_max() -> u8 {
        7
    }

    pub const fn f2_min() -> u8 {
        0
    }

    pub const fn f2_max() -> u8 {
        7
    }

    pub const fn f3_min() -> u8 {
        0
    }

    pub const fn f3_max() -> u8 {
        7
    }
}

#[asn(sequence, extensible_after(f0))]

#[derive(Default, Debug, Clone, PartialEq, Hash)]
pub struct Ts4dmdme1 {
    #[asn(default(integer(0..7), 5))] pub f0: u8,
    #[asn(optional(integer(0..7)))] pub f1: Option<u8>,
    #[asn(default(integer(0..7), 5))] pub f2: u8,
    #[asn(optional(integer(0..7)))] pub f3: Option<u8>,
}

impl Ts4dmdme1 {
    pub const fn f0_min() -> u8 {
        0
    }

    pub const fn f0_max() -> u8 {
        7
    }

    pub const fn f1_min() -> u8 {
        0
    }

    pub const fn f1_max() -> u8 {
        7
    }

    pub const fn f2_min() -> u8 {
        0
    }

    pub const fn f2_max() -> u8 {
        7
    }

    pub const fn f3_min() -> u8 {
        0
    }

    pub const fn f3_max() -> u8 {
        7
    }
}

#[asn(sequence, extensible_after(f1))]

#[derive(Default, Debug, Clone, PartialEq, Hash)]
pub struct Ts4dmdme2 {
    #[asn(default(integer(0..7), 5))] pub f0: u8,
    #[asn(integer(0..7))] pub f1: u8,
    #[asn(default(integer(0..7), 5))] pub f2: u8,
    #[asn(optional(integer(0..7)))] pub f3: Option<u8>,
}

impl Ts4dmdme2 {
    pub const fn f0_min() -> u8 {
        0
    }

    pub const fn f0_max() -> u8 {
        7
    }

    pub const fn f1_min() -> u8 {
        0
    }

    pub const fn f1_max() -> u8 {
        7
    }

    pub const fn f2_min() -> u8 {
        0
    }

    pub const fn f2_max() -> u8 {
        7
    }

    pub const fn f3_min() -> u8 {
        0
    }

    pub const fn f3_max() -> u8 {
        7
    }
}

#[asn(sequence, extensible_after(f2))]

#[derive(Default, Debug, Clone, PartialEq, Hash)]
pub struct Ts4dmdme3 {
    #[asn(default(integer(0..7), 5))] pub f0: u8,
    #[asn(integer(0..7))] pub f1: u8,
    #[asn(default(integer(0..7), 5))] pub f2: u8,
    #[asn(optional(integer(0..7)))] pub f3: Option<u8>,
}

impl Ts4dmdme3 {
    pub const fn f0_min() -> u8 {
        0
    }

    pub const fn f0_max() -> u8 {
        7
    }

    pub const fn f1_min() -> u8 {
        0
    }

    pub const fn f1_max() -> u8 {
        7
    }

    pub const fn f2_min() -> u8 {
        0
    }

    pub const fn f2_max() -> u8 {
        7
    }

    pub const fn f3_min() -> u8 {
        0
    }

    pub const fn f3_max() -> u8 {
        7
    }
}

#[asn(sequence, extensible_after(f3))]

#[derive(Default, Debug, Clone, PartialEq, Hash)]
pub struct Ts4dmdme4 {
    #[asn(default(integer(0..7), 5))] pub f0: u8,
    #[asn(integer(0..7))] pub f1: u8,
    #[asn(default(integer(0..7), 5))] pub f2: u8,
    #[asn(integer(0..7))] pub f3: u8,
}

impl Ts4dmdme4 {
    pub const fn f0_min() -> u8 {
        0
    }

    pub const fn f0_max() -> u8 {
        7
    }

    pub const fn f1_min() -> u8 {
        0
    }

    pub const fn f1_max() -> u8 {
        7
    }

    pub const fn f2_min() -> u8 {
        0
    }

    pub const fn f2_max() -> u8 {
        7
    }

    pub const fn f3_min() -> u8 {
        0
    }

    pub const fn f3_max() -> u8 {
        7
    }
}

#[asn(sequence)]

#[derive(Default, Debug, Clone, PartialEq, Hash)]
pub struct Ts4modmn {
    #[asn(integer(0..7))] pub f0: u8,
    #[asn(optional(integer(0..7)))] pub f1: Option<u8>,
    #[asn(default(integer(0..7), 5))] pub f2: u8,
    #[asn(integer(0..7))] pub f3: u8,
}

impl Ts4modmn {
    pub const fn f0_min() -> u8 {
        0
    }

    pub const fn f0_max() -> u8 {
        7
    }

    pub const fn f1_min() -> u8 {
        0
    }

    pub const fn f1_max() -> u8 {
        7
    }

    pub const fn f2_min() -> u8 {
        0
    }

    pub const fn f2_max() -> u8 {
        7
    }

    pub const fn f3_min() -> u8 {
        0
    }

    pub const fn f3_max() -> u8 {
        7
    }
}

#[asn(sequence, extensible_after(f0))]

#[derive(Default, Debug, Clone, PartialEq, Hash)]
pub struct Ts4modme0 {
    #[asn(integer(0..7))] pub f0: u8,
    #[asn(optional(integer(0..7)))] pub f1: Option<u8>,
    #[asn(default(integer(0..7), 5))] pub f2: u8,
    #[asn(optional(integer(0..7)))] pub f3: Option<u8>,
}

impl Ts4modme0 {
    pub const fn f0_min() -> u8 {
        0
    }

    pub const fn f0_max() -> u8 {
        7
    }

    pub const fn f1_min() -> u8 {
        0
    }

    pub const fn f1_max() -> u8 {
        7
    }

    pub const fn f2_min() -> u8 {
        0
    }

    pub const fn f2_max() -> u8 {
        7
    }

    pub const fn f3_min() -> u8 {
        0
    }

    pub const fn f3_max() -> u8 {
        7
    }
}

#[asn(sequence, extensible_after(f0))]

#[derive(Default, Debug, Clone, PartialEq, Hash)]
pub struct Ts4modme1 {
    #[asn(integer(0..7))] pub f0: u8,
    #[asn(optional(integer(0..7)))] pub f1: Option<u8>,
    #[asn(default(integer(0..7), 5))] pub f2: u8,
    #[asn(optional(integer(0..7)))] pub f3: Option<u8>,
}

impl Ts4modme1 {
    pub const fn f0_min() -> u8 {
        0
    }

    pub const fn f0_max() -> u8 {
        7
    }

    pub const fn f1_min() -> u8 {
        0
    }

    pub const fn f1_max() -> u8 {
        7
    }

    pub const fn f2_min() -> u8 {
        0
    }

    pub const fn f2_max() -> u8 {
        7
    }

    pub const fn f3_min() -> u8 {
        0
    }

    pub const fn f3_max() -> u8 {
        7
    }
}

#[asn(sequence, extensible_after(f1))]

#[derive(Default, Debug, Clone, PartialEq, Hash)]
pub struct Ts4modme2 {
    #[asn(integer(0..7))] pub f0: u8,
    #[asn(optional(integer(0..7)))] pub f1: Option<u8>,
    #[asn(default(integer(0..7), 5))] pub f2: u8,
    #[asn(optional(integer(0..7)))] pub f3: Option<u8>,
}

impl Ts4modme2 {
    pub const fn f0_min() -> u8 {
        0
    }

    pub const fn f0_max() -> u8 {
        7
    }

    pub const fn f1_min() -> u8 {
        0
    }

    pub const fn f1_max() -> u8 {
        7
    }

    pub const fn f2_min() -> u8 {
        0
    }

    pub const fn f2_max() -> u8 {
        7
    }

    pub const fn f3_min() -> u8 {
        0
    }

    pub const fn f3_max() -> u8 {
        7
    }
}

#[asn(sequence, extensible_after(f2))]

#[derive(Default, Debug, Clone, PartialEq, Hash)]
pub struct Ts4modme3 {
    #[asn(integer(0..7))] pub f0: u8,
    #[asn(optional(integer(0..7)))] pub f1: Option<u8>,
    #[asn(default(integer(0..7), 5))] pub f2: u8,
    #[asn(optional(integer(0..7)))] pub f3: Option<u8>,
}

impl Ts4modme3 {
    pub const fn f0_min() -> u8 {
        0
    }

    pub const fn f0_max() -> u8 {
        7
    }

    pub const fn f1_min() -> u8 {
        0
    }

    pub const fn f1_max() -> u8 {
        7
    }

    pub const fn f2_min() -> u8 {
        0
    }

    pub const fn f2_max() -> u8 {
        7
    }

    pub const fn f3_min() -> u8 {
        0
    }

    pub const fn f3_max() -> u8 {
        7
    }
}

#[asn(sequence, extensible_after(f3))]

#[derive(Default, Debug, Clone, PartialEq, Hash)]
pub struct Ts4modme4 {
    #[asn(integer(0..7))] pub f0: u8,
    #[asn(optional(integer(0..7)))] pub f1: Option<u8>,
    #[asn(default(integer(0..7), 5))] pub f2: u8,
    #[asn(integer(0..7))] pub f3: u8,
}

impl Ts4modme4 {
    pub const fn f0_min() -> u8 {
        0
    }

    pub const fn f0_max() -> u8 {
        7
    }

    pub const fn f1_min() -> u8 {
        0
    }

    pub const fn f1_max() -> u8 {
        7
    }

    pub const fn f2_min() -> u8 {
        0
    }

    pub const fn f2_max() -> u8 {
        7
    }

    pub const fn f3_min() -> u8 {
        0
    }

    pub const fn f3_max() -> u8 {
        7
    }
}

#[asn(sequence)]

#[derive(Default, Debug, Clone, PartialEq, Hash)]
pub struct Ts4oodmn {
    #[asn(optional(integer(0..7)))] pub f0: Option<u8>,
    #[asn(optional(integer(0..7)))] pub f1: Option<u8>,
    #[asn(default(integer(0..7), 5))] pub f2: u8,
    #[asn(integer(0..7))] pub f3: u8,
}

impl Ts4oodmn {
    pub const fn f0_min() -> u8 {
        0
    }

    pub const fn f0_max() -> u8 {
        7
    }

    pub const fn f1_min() -> u8 {
        0
    }

    pub const fn f1_max() -> u8 {
        7
    }

    pub const fn f2_min() -> u8 {
        0
    }

    pub const fn f2_max() -> u8 {
        7
    }

    pub const fn f3_min() -> u8 {
        0
    }

    pub const fn f3_max() -> u8 {
        7
    }
}

#[asn(sequence, extensible_after(f0))]

#[derive(Default, Debug, Clone, PartialEq, Hash)]
pub struct Ts4oodme0 {
    #[asn(optional(integer(0..7)))] pub f0: Option<u8>,
    #[asn(optional(integer(0..7)))] pub f1: Option<u8>,
    #[asn(default(integer(0..7), 5))] pub f2: u8,
    #[asn(optional(integer(0..7)))] pub f3: Option<u8>,
}

impl Ts4oodme0 {
    pub const fn f0_min() -> u8 {
        0
    }

    pub const fn f0_max() -> u8 {
        7
    }

    pub const fn f1_min() -> u8 {
        0
    }

    pub const fn f1_max() -> u8 {
        7
    }

    pub const fn f2_min() -> u8 {
        0
    }

    pub const fn f2_max() -> u8 {
        7
    }

    pub const fn f3_min() -> u8 {
        0
    }

    pub const fn f3_max() -> u8 {
        7
    }
}

#[asn(sequence, extensible_after(f0))]

#[derive(Default, Debug, Clone, PartialEq, Hash)]
pub struct Ts4oodme1 {
    #[asn(optional(integer(0..7)))] pub f0: Option<u8>,
    #[asn(optional(integer(0..7)))] pub f1: Option<u8>,
    #[asn(default(integer(0..7), 5))] pub f2: u8,
    #[asn(optional(integer(0..7)))] pub f3: Option<u8>,
}

impl Ts4oodme1 {
    pub const fn f0_min() -> u8 {
        0
    }

    pub const fn f0_max() -> u8 {
        7
    }

    pub const fn f1_min() -> u8 {
        0
    }

    pub const fn f1_max() -> u8 {
        7
    }

    pub const fn f2_min() -> u8 {
        0
    }

    pub const fn f2_max() -> u8 {
        7
    }

    pub const fn f3_min() -> u8 {
        0
    }

    pub const fn f3_max() -> u8 {
        7
    }
}

#[asn(sequence, extensible_after(f1))]

#[derive(Default, Debug, Clone, PartialEq, Hash)]
pub struct Ts4oodme2 {
    #[asn(optional(integer(0..7)))] pub f0: Option<u8>,
    #[asn(optional(integer(0..7)))] pub f1: Option<u8>,
    #[asn(default(integer(0..7), 5))] pub f2: u8,
    #[asn(optional(integer(0..7)))] pub f3: Option<u8>,
}

impl Ts4oodme2 {
    pub const fn f0_min() -> u8 {
        0
    }

    pub const fn f0_max() -> u8 {
        7
    }

    pub const fn f1_min() -> u8 {
        0
    }

    pub const fn f1_max() -> u8 {
        7
    }

    pub const fn f2_min() -> u8 {
        0
    }

    pub const fn f2_max() -> u8 {
        7
    }

    pub const fn f3_min() -> u8 {
        0
    }

    pub const fn f3_max() -> u8 {
        7
    }
}

#[asn(sequence, extensible_after(f2))]

#[derive(Default, Debug, Clone, PartialEq, Hash)]
pub struct Ts4oodme3 {
    #[asn(optional(integer(0..7)))] pub f0: Option<u8>,
    #[asn(optional(integer(0..7)))] pub f1: Option<u8>,
    #[asn(default(integer(0..7), 5))] pub f2: u8,
    #[asn(optional(integer(0..7)))] pub f3: Option<u8>,
}

impl Ts4oodme3 {
    pub const fn f0_min() -> u8 {
        0
    }

    pub const fn f0_max() -> u8 {
        7
    }

    pub const fn f1_min() -> u8 {
        0
    }

    pub const fn f1_max() -> u8 {
        7
    }

    pub const fn f2_min() -> u8 {
        0
    }

    pub const fn f2_max() -> u8 {
        7
    }

    pub const fn f3_min() -> u8 {
        0
    }

    pub const fn f3_max() -> u8 {
        7
    }
}

#[asn(sequence, extensible_after(f3))]

#[derive(Default, Debug, Clone, PartialEq, Hash)]
pub struct Ts4oodme4 {
    #[asn(optional(integer(0..7)))] pub f0: Option<u8>,
    #[asn(optional(integer(0..7)))] pub f1: Option<u8>,
    #[asn(default(integer(0..7), 5))] pub f2: u8,
    #[asn(integer(0..7))] pub f3: u8,
}

impl Ts4oodme4 {
    pub const fn f0_min() -> u8 {
        0
    }

    pub const fn f0_max() -> u8 {
        7
    }

    pub const fn f1_min() -> u8 {
        0
    }

    pub const fn f1_max() -> u8 {
        7
    }

    pub const fn f2_min() -> u8 {
        0
    }

    pub const fn f2_max() -> u8 {
        7
    }

    pub const fn f3_min() -> u8 {
        0
    }

    pub const fn f3_max() -> u8 {
        7
    }
}

#[asn(sequence)]

#[derive(Default, Debug, Clone, PartialEq, Hash)]
pub struct Ts4dodmn {
    #[asn(default(integer(0..7), 5))] pub f0: u8,
    #[asn(optional(integer(0..7)))] pub f1: Option<u8>,
    #[asn(default(integer(0..7), 5))] pub f2: u8,
    #[asn(integer(0..7))] pub f3: u8,
}

impl Ts4dodmn {
    pub const fn f0_min() -> u8 {
        0
    }

    pub const fn f0_max() -> u8 {
        7
    }

    pub const fn f1_min() -> u8 {
        0
    }

    pub const fn f1_max() -> u8 {
        7
    }

    pub const fn f2_min() -> u8 {
        0
    }

    pub const fn f2_max() -> u8 {
        7
    }

    pub const fn f3_min() -> u8 {
        0
    }

    pub const fn f3_max() -> u8 {
        7
    }
}

#[asn(sequence, extensible_after(f0))]

#[derive(Default, Debug, Clone, PartialEq, Hash)]
pub struct Ts4dodme0 {
    #[asn(default(integer(0..7), 5))] pub f0: u8,
    #[asn(optional(integer(0..7)))] pub f1: Option<u8>,
    #[asn(default(integer(0..7), 5))] pub f2: u8,
    #[asn(optional(integer(0..7)))] pub f3: Option<u8>,
}

impl Ts4dodme0 {
    pub const fn f0_min() -> u8 {
        0
    }

    pub const fn f0_max() -> u8 {
        7
    }

    pub const fn f1_min() -> u8 {
        0
    }

    pub const fn f1_max() -> u8 {
        7
    }

    pub const fn f2_min() -> u8 {
        0
    }

    pub const fn f2_max() -> u8 {
        7
    }

    pub const fn f3_min() -> u8 {
        0
    }

    pub const fn f3_max() -> u8 {
        7
    }
}

#[asn(sequence, extensible_after(f0))]

#[derive(Default, Debug, Clone, PartialEq, Hash)]
pub struct Ts4dodme1 {
    #[asn(default(integer(0..7), 5))] pub f0: u8,
    #[asn(optional(integer(0..7)))] pub f1: Option<u8>,
    #[asn(default(integer(0..7), 5))] pub f2: u8,
    #[asn(optional(integer(0..7)))] pub f3: Option<u8>,
}

impl Ts4dodme1 {
    pub const fn f0_min() -> u8 {
        0
    }

    pub const fn f0_max() -> u8 {
        7
    }

    pub const fn f1_min() -> u8 {
        0
    }

    pub const fn f1_max() -> u8 {
        7
    }

    pub const fn f2_min() -> u8 {
        0
    }

    pub const fn f2_max() -> u8 {
        7
    }

    pub const fn f3_min() -> u8 {
        0
    }

    pub const fn f3_max() -> u8 {
        7
    }
}

#[asn(sequence, extensible_after(f1))]

#[derive(Default, Debug, Clone, PartialEq, Hash)]
pub struct Ts4dodme2 {
    #[asn(default(integer(0..7), 5))] pub f0: u8,
    #[asn(optional(integer(0..7)))] pub f1: Option<u8>,
    #[asn(default(integer(0..7), 5))] pub f2: u8,
    #[asn(optional(integer(0..7)))] pub f3: Option<u8>,
}

impl Ts4dodme2 {
    pub const fn f0_min() -> u8 {
        0
    }

    pub const fn f0_max() -> u8 {
        7
    }

    pub const fn f1_min() -> u8 {
        0
    }

    pub const fn f1_max() -> u8 {
        7
    }

    pub const fn f2_min() -> u8 {
        0
    }

    pub const fn f2_max() -> u8 {
        7
    }

    pub const fn f3_min() -> u8 {
        0
    }

    pub const fn f3_max() -> u8 {
        7
    }
}

#[asn(sequence, extensible_after(f2))]

#[derive(Default, Debug, Clone, PartialEq, Hash)]
pub struct Ts4dodme3 {
    #[asn(default(integer(0..7), 5))] pub f0: u8,
    #[asn(optional(integer(0..7)))] pub f1: Option<u8>,
    #[asn(default(integer(0..7), 5))] pub f2: u8,
    #[asn(optional(integer(0..7)))] pub f3: Option<u8>,
}

impl Ts4dodme3 {
    pub const fn f0_min() -> u8 {
        0
    }

    pub const fn f0_max() -> u8 {
        7
    }

    pub const fn f1_min() -> u8 {
        0
    }

    pub const fn f1_max() -> u8 {
        7
    }

    pub const fn f2_min() -> u8 {
        0
    }

    pub const fn f2_max() -> u8 {
        7
    }

    pub const fn f3_min() -> u8 {
        0
    }

    pub const fn f3_max() -> u8 {
        7
    }
}

#[asn(sequence, extensible_after(f3))]

#[derive(Default, Debug, Clone, PartialEq, Hash)]
pub struct Ts4dodme4 {
    #[asn(default(integer(0..7), 5))] pub f0: u8,
    #[asn(optional(integer(0..7)))] pub f1: Option<u8>,
    #[asn(default(integer(0..7), 5))] pub f2: u8,
    #[asn(integer(0..7))] pub f3: u8,
}

impl Ts4dodme4 {
    pub const fn f0_min() -> u8 {
        0
    }

    pub const fn f0_max() -> u8 {
        7
    }

    pub const fn f1_min() -> u8 {
        0
    }

    pub const fn f1_max() -> u8 {
        7
    }

    pub const fn f2_min() -> u8 {
        0
    }

    pub const fn f2_max() -> u8 {
        7
    }

    pub const fn f3_min() -> u8 {
        0
    }

    pub const fn f3_max() -> u8 {
        7
    }
}

#[asn(sequence)]

#[derive(Default, Debug, Clone, PartialEq, Hash)]
pub struct Ts4mddmn {
    #[asn(integer(0..7))] pub f0: u8,
    #[asn(default(integer(0..7), 5))] pub f1: u8,
    #[asn(default(integer(0..7), 5))] pub f2: u8,
    #[asn(integer(0..7))] pub f3: u8,
}

impl Ts4mddmn {
    pub const fn f0_min() -> u8 {
        0
    }

    pub const fn f0_max() -> u8 {
        7
    }

    pub const fn f1_min() -> u8 {
        0
    }

    pub const fn f1_max() -> u8 {
        7
    }

    pub const fn f2_min() -> u8 {
        0
    }

    pub const fn f2_max() -> u8 {
        7
    }

    pub const fn f3_min() -> u8 {
        0
    }

    pub const fn f3_max() -> u8 {
        7
    }
}

#[asn(sequence, extensible_after(f0))]

#[derive(Default, Debug, Clone, PartialEq, Hash)]
pub struct Ts4mddme0 {
    #[asn(integer(0..7))] pub f0: u8,
    #[asn(default(integer(0..7), 5))] pub f1: u8,
    #[asn(default(integer(0..7), 5))] pub f2: u8,
    #[asn(optional(integer(0..7)))] pub f3: Option<u8>,
}

impl Ts4mddme0 {
    pub const fn f0_min() -> u8 {
        0
    }

    pub const fn f0_max() -> u8 {
        7
    }

    pub const fn f1_min() -> u8 {
        0
    }

    pub const fn f1_max() -> u8 {
        7
    }

    pub const fn f2_min() -> u8 {
        0
    }

    pub const fn f2_max() -> u8 {
        7
    }

    pub const fn f3_min() -> u8 {
        0
    }

    pub const fn f3_max() -> u8 {
        7
    }
}

#[asn(sequence, extensible_after(f0))]

#[derive(Default, Debug, Clone, PartialEq, Hash)]
pub struct Ts4mddme1 {
    #[asn(integer(0..7))] pub f0: u8,
    #[asn(default(integer(0..7), 5))] pub f1: u8,
    #[asn(default(integer(0..7), 5))] pub f2: u8,
    #[asn(optional(integer(0..7)))] pub f3: Option<u8>,
}

impl Ts4mddme1 {
    pub const fn f0_min() -> u8 {
        0
    }

    pub const fn f0_max() -> u8 {
        7
    }

    pub const fn f1_min() -> u8 {
        0
    }

    pub const fn f1_max() -> u8 {
        7
    }

    pub const fn f2_min() -> u8 {
        0
    }

    pub const fn f2_max() -> u8 {
        7
    }

    pub const fn f3_min() -> u8 {
        0
    }

    pub const fn f3_max() -> u8 {
        7
    }
}

#[asn(sequence, extensible_after(f1))]

#[derive(Default, Debug, Clone, PartialEq, Hash)]
pub struct Ts4mddme2 {
    #[asn(integer(0..7))] pub f0: u8,
    #[asn(default(integer(0..7), 5))] pub f1: u8,
    #[asn(default(integer(0..7), 5))] pub f2: u8,
    #[asn(optional(integer(0..7)))] pub f3: Option<u8>,
}

impl Ts4mddme2 {
    pub const fn f0_min() -> u8 {
        0
    }

    pub const fn f0_max() -> u8 {
        7
    }

    pub const fn f1_min() -> u8 {
        0
    }

    pub const fn f1_max() -> u8 {
        7
    }

    pub const fn f2_min() -> u8 {
        0
    }

    pub const fn f2_max() -> u8 {
        7
    }

    pub const fn f3_min() -> u8 {
        0
    }

    pub const fn f3_max() -> u8 {
        7
    }
}

#[asn(sequence, extensible_after(f2))]

#[derive(Default, Debug, Clone, PartialEq, Hash)]
pub struct Ts4mddme3 {
    #[asn(integer(0..7))] pub f0: u8,
    #[asn(default(integer(0..7), 5))] pub f1: u8,
    #[asn(default(integer(0..7), 5))] pub f2: u8,
    #[asn(optional(integer(0..7)))] pub f3: Option<u8>,
}

impl Ts4mddme3 {
    pub const fn f0_min() -> u8 {
        0
    }

    pub const fn f0_max() -> u8 {
        7
    }

    pub const fn f1_min() -> u8 {
        0
    }

    pub const fn f1_max() -> u8 {
        7
    }

    pub const fn f2_min() -> u8 {
        0
    }

    pub const fn f2_max() -> u8 {
        7
    }

    pub const fn f3_min() -> u8 {
        0
    }

    pub const fn f3_max() -> u8 {
        7
    }
}

#[asn(sequence, extensible_after(f3))]

#[derive(Default, Debug, Clone, PartialEq, Hash)]
pub struct Ts4mddme4 {
    #[asn(integer(0..7))] pub f0: u8,
    #[asn(default(integer(0..7), 5))] pub f1: u8,
    #[asn(default(integer(0..7), 5))] pub f2: u8,
    #[asn(integer(0..7))] pub f3: u8,
}

impl Ts4mddme4 {
    pub const fn f0_min() -> u8 {
        0
    }

    pub const fn f0_max() -> u8 {
        7
    }

    pub const fn f1_min() -> u8 {
        0
    }

    pub const fn f1_max() -> u8 {
        7
    }

    pub const fn f2_min() -> u8 {
        0
    }

    pub const fn f2_max() -> u8 {
        7
    }

    pub const fn f3_min() -> u8 {
        0
    }

    pub const fn f3_max() -> u8 {
        7
    }
}

#[asn(sequence)]

#[derive(Default, Debug, Clone, PartialEq, Hash)]
pub struct Ts4oddmn {
    #[asn(optional(integer(0..7)))] pub f0: Option<u8>,
    #[asn(default(integer(0..7), 5))] pub f1: u8,
    #[asn(default(integer(0..7), 5))] pub f2: u8,
    #[asn(integer(0..7))] pub f3: u8,
}

impl Ts4oddmn {
    pub const fn f0_min() -> u8 {
        0
    }

    pub const fn f0_max() -> u8 {
        7
    }

    pub const fn f1_min() -> u8 {
        0
    }

    pub const fn f1_max() -> u8 {
        7
    }

    pub const fn f2_min() -> u8 {
        0
    }

    pub const fn f2_max() -> u8 {
        7
    }

    pub const fn f3_min() -> u8 {
        0
    }

    pub const fn f3_max() -> u8 {
        7
    }
}

#[asn(sequence, extensible_after(f0))]

#[derive(Default, Debug, Clone, PartialEq, Hash)]
pub struct Ts4oddme0 {
    #[asn(optional(integer(0..7)))] pub f0: Option<u8>,
    #[asn(default(integer(0..7), 5))] pub f1: u8,
    #[asn(default(integer(0..7), 5))] pub f2: u8,
    #[asn(optional(integer(0..7)))] pub f3: Option<u8>,
}

impl Ts4oddme0 {
    pub const fn f0_min() -> u8 {
        0
    }

    pub const fn f0_max() -> u8 {
        7
    }

    pub const fn f1_min() -> u8 {
        0
    }

    pub const fn f1_max() -> u8 {
        7
    }

    pub const fn f2_min() -> u8 {
        0
    }

    pub const fn f2_max() -> u8 {
        7
    }

    pub const fn f3_min() -> u8 {
        0
    }

    pub const fn f3_max() -> u8 {
        7
    }
}

#[asn(sequence, extensible_after(f0))]

#[derive(Default, Debug, Clone, PartialEq, Hash)]
pub struct Ts4oddme1 {
    #[asn(optional(integer(0..7)))] pub f0: Option<u8>,
    #[asn(default(integer(0..7), 5))] pub f1: u8,
    #[asn(default(integer(0..7), 5))] pub f2: u8,
    #[asn(optional(integer(0..7)))] pub f3: Option<u8>,
}

impl Ts4oddme1 {
    pub const fn f0_min() -> u8 {
        0
    }

    pub const fn f0_max() -> u8 {
        7
    }

    pub const fn f1_min() -> u8 {
        0
    }

    pub const fn f1_max() -> u8 {
        7
    }

    pub const fn f2_min() -> u8 {
        0
    }

    pub const fn f2_max() -> u8 {
        7
    }

    pub const fn f3_min() -> u8 {
        0
    }

    pub const fn f3_max() -> u8 {
        7
    }
}

#[asn(sequence, extensible_after(f1))]

#[derive(Default, Debug, Clone, PartialEq, Hash)]
pub struct Ts4oddme2 {
    #[asn(optional(integer(0..7)))] pub f0: Option<u8>,
    #[asn(default(integer(0..7), 5))] pub f1: u8,
    #[asn(default(integer(0..7), 5))] pub f2: u8,
    #[asn(optional(integer(0..7)))] pub f3: Option<u8>,
}

impl Ts4oddme2 {
    pub const fn f0_min() -> u8 {
        0
    }

    pub const fn f0_max() -> u8 {
        7
    }

    pub const fn f1_min() -> u8 {
        0
    }

    pub const fn f1_max() -> u8 {
        7
    }

    pub const fn f2_min() -> u8 {
        0
    }

    pub const fn f2_max() -> u8 {
        7
    }

    pub const fn f3_min() -> u8 {
        0
    }

    pub const fn f3_max() -> u8 {
        7
    }
}

#[asn(sequence, extensible_after(f2))]

#[derive(Default, Debug, Clone, PartialEq, Hash)]
pub struct Ts4oddme3 {
    #[asn(optional(integer(0..7)))] pub f0: Option<u8>,
    #[asn(default(integer(0..7), 5))] pub f1: u8,
    #[asn(default(integer(0..7), 5))] pub f2: u8,
    #[asn(optional(integer(0..7)))] pub f3: Option<u8>,
}

impl Ts4oddme3 {
    pub const fn f0_min() -> u8 {
        0
    }

    pub const fn f0_max() -> u8 {
        7
    }

    pub const fn f1_min() -> u8 {
        0
    }

    pub const fn f1_max() -> u8 {
        7
    }

    pub const fn f2_min() -> u8 {
        0
    }

    pub const fn f2_max() -> u8 {
        7
    }

    pub const fn f3_min() -> u8 {
        0
    }

    pub const fn f3_max() -> u8 {
        7
    }
}

#[asn(sequence, extensible_after(f3))]

#[derive(Default, Debug, Clone, PartialEq, Hash)]
pub struct Ts4oddme4 {
    #[asn(optional(integer(0..7)))] pub f0: Option<u8>,
    #[asn(default(integer(0..7), 5))] pub f1: u8,
    #[asn(default(integer(0..7), 5))] pub f2: u8,
    #[asn(integer(0..7))] pub f3: u8,
}

impl Ts4oddme4 {
    pub const fn f0_min() -> u8 {
        0
    }

    pub const fn f0_max() -> u8 {
        7
    }

    pub const fn f1_min() -> u8 {
        0
    }

    pub const fn f1_max() -> u8 {
        7
    }

    pub const fn f2_min() -> u8 {
        0
    }

    pub const fn f2_max() -> u8 {
        7
    }

    pub const fn f3_min() -> u8 {
        0
    }

    pub const fn f3_max() -> u8 {
        7
    }
}

#[asn(sequence)]

#[derive(Default, Debug, Clone, PartialEq, Hash)]
pub struct Ts4dddmn {
    #[asn(default(integer(0..7), 5))] pub f0: u8,
    #[asn(default(integer(0..7), 5))] pub f1: u8,
    #[asn(default(integer(0..7), 5))] pub f2: u8,
    #[asn(integer(0..7))] pub f3: u8,
}

impl Ts4dddmn {
    pub const fn f0_min() -> u8 {
        0
    }

    pub const fn f0_max() -> u8 {
        7
    }

    pub const fn f1_min() -> u8 {
        0
    }

    pub const fn f1_max() -> u8 {
        7
    }

    pub const fn f2_min() -> u8 {
        0
    }

    pub const fn f2_max() -> u8 {
        7
    }

    pub const fn f3_min() -> u8 {
        0
    }

    pub const fn f3_max() -> u8 {
        7
    }
}

#[asn(sequence, extensible_after(f0))]

#[derive(Default, Debug, Clone, PartialEq, Hash)]
pub struct Ts4dddme0 {
    #[asn(default(integer(0..7), 5))] pub f0: u8,
    #[asn(default(integer(0..7), 5))] pub f1: u8,
    #[asn(default(integer(0..7), 5))] pub f2: u8,
    #[asn(optional(integer(0..7)))] pub f3: Option<u8>,
}

impl Ts4dddme0 {
    pub const fn f0_min() -> u8 {
        0
    }

    pub const fn f0_max() -> u8 {
        7
    }

    pub const fn f1_min() -> u8 {
        0
    }

    pub const fn f1_max() -> u8 {
        7
    }

    pub const fn f2_min() -> u8 {
        0
    }

    pub const fn f2_max() -> u8 {
        7
    }

    pub const fn f3_min() -> u8 {
        0
    }

    pub const fn f3_max() -> u8 {
        7
    }
}

#[asn(sequence, extensible_after(f0))]

#[derive(Default, Debug, Clone, PartialEq, Hash)]
pub struct Ts4dddme1 {
    #[asn(default(integer(0..7), 5))] pub f0: u8,
    #[asn(default(integer(0..7), 5))] pub f1: u8,
    #[asn(default(integer(0..7), 5))] pub f2: u8,
    #[asn(optional(integer(0..7)))] pub f3: Option<u8>,
}

impl Ts4dddme1 {
    pub const fn f0_min() -> u8 {
        0
    }

    pub const fn f0_max() -> u8 {
        7
    }

    pub const fn f1_min() -> u8 {
        0
    }

    pub const fn f1_max() -> u8 {
        7
    }

    pub const fn f2_min() -> u8 {
        0
    }

    pub const fn f2_max() -> u8 {
        7
    }

    pub const fn f3_min() -> u8 {
        0
    }

    pub const fn f3_max() -> u8 {
        7
    }
}

#[asn(sequence, extensible_after(f1))]

#[derive(Default, Debug, Clone, PartialEq, Hash)]
pub struct Ts4dddme2 {
    #[asn(default(integer(0..7), 5))] pub f0: u8,
    #[asn(default(integer(0..7), 5))] pub f1: u8,
    #[asn(default(integer(0..7), 5))] pub f2: u8,
    #[asn(optional(integer(0..7)))] pub f3: Option<u8>,
}

impl Ts4dddme2 {
    pub const fn f0_min() -> u8 {
        0
    }

    pub const fn f0_max() -> u8 {
        7
    }

    pub const fn f1_min() -> u8 {
        0
    }

    pub const fn f1_max() -> u8 {
        7
    }

    pub const fn f2_min() -> u8 {
        0
    }

    pub const fn f2_max() -> u8 {
        7
    }

    pub const fn f3_min() -> u8 {
        0
    }

    pub const fn f3_max() -> u8 {
        7
    }
}

#[asn(sequence, extensible_after(f2))]

#[derive(Default, Debug, Clone, PartialEq, Hash)]
pub struct Ts4dddme3 {
    #[asn(default(integer(0..7), 5))] pub f0: u8,
    #[asn(default(integer(0..7), 5))] pub f1: u8,
    #[asn(default(integer(0..7), 5))] pub f2: u8,
    #[asn(optional(integer(0..7)))] pub f3: Option<u8>,
}

impl Ts4dddme3 {
    pub const fn f0_min() -> u8 {
        0
    }

    pub const fn f0_max() -> u8 {
        7
    }

    pub const fn f1_min() -> u8 {
        0
    }

    pub const fn f1_max() -> u8 {
        7
    }

    pub const fn f2_min() -> u8 {
        0
    }

    pub const fn f2_max() -> u8 {
        7
    }

    pub const fn f3_min() -> u8 {
        0
    }

    pub const fn f3_max() -> u8 {
        7
    }
}

#[asn(sequence, extensible_after(f3))]

#[derive(Default, Debug, Clone, PartialEq, Hash)]
pub struct Ts4dddme4 {
    #[asn(default(integer(0..7), 5))] pub f0: u8,
    #[asn(default(integer(0..7), 5))] pub f1: u8,
    #[asn(default(integer(0..7), 5))] pub f2: u8,
    #[asn(integer(0..7))] pub f3: u8,
}

impl Ts4dddme4 {
    pub const fn f0_min() -> u8 {
        0
    }

    pub const fn f0_max() -> u8 {
        7
    }

    pub const fn f1_min() -> u8 {
        0
    }

    pub const fn f1_max() -> u8 {
        7
    }

    pub const fn f2_min() -> u8 {
        0
    }

    pub const fn f2_max() -> u8 {
        7
    }

    pub const fn f3_min() -> u8 {
        0
    }

    pub const fn f3_max() -> u8 {
        7
    }
}

#[asn(sequence)]

#[derive(Default, Debug, Clone, PartialEq, Hash)]
pub struct Ts4mmmon {
    #[asn(integer(0..7))] pub f0: u8,
    #[asn(integer(0..7))] pub f1: u8,
    #[asn(integer(0..7))] pub f2: u8,
    #[asn(optional(integer(0..7)))] pub f3: Option<u8>,
}

impl Ts4mmmon {
    pub const fn f0_min() -> u8 {
        0
    }

    pub const fn f0_max() -> u8 {
        7
    }

    pub const fn f1_min() -> u8 {
        0
    }

    pub const fn f1_max() -> u8 {
        7
    }

    pub const fn f2_min() -> u8 {
        0
    }

    pub const fn f2_max() -> u8 {
        7
    }

    pub const fn f3_min() -> u8 {
        0
    }

    pub const fn f3_max() -> u8 {
        7
    }
}

#[asn(sequence, extensible_after(f0))]

#[derive(Default, Debug, Clone, PartialEq, Hash)]
pub struct Ts4mmmoe0 {
    #[asn(integer(0..7))] pub f0: u8,
    #[asn(optional(integer(0..7)))] pub f1: Option<u8>,
    #[asn(optional(integer(0..7)))] pub f2: Option<u8>,
    #[asn(optional(integer(0..7)))] pub f3: Option<u8>,
}

impl Ts4mmmoe0 {
    pub const fn f0_min() -> u8 {
        0
    }

    pub const fn f0_max() -> u8 {
        7
    }

    pub const fn f1_min() -> u8 {
        0
    }

    pub const fn f1_max() -> u8 {
        7
    }

    pub const fn f2_min() -> u8 {
        0
    }

    pub const fn f2_max() -> u8 {
        7
    }

    pub const fn f3_min() -> u8 {
        0
    }

    pub const fn f3_max() -> u8 {
        7
    }
}

#[asn(sequence, extensible_after(f0))]

#[derive(Default, Debug, Clone, PartialEq, Hash)]
pub struct Ts4mmmoe1 {
    #[asn(integer(0..7))] pub f0: u8,
    #[asn(optional(integer(0..7)))] pub f1: Option<u8>,
    #[asn(optional(integer(0..7)))] pub f2: Option<u8>,
    #[asn(optional(integer(0..7)))] pub f3: Option<u8>,
}

impl Ts4mmmoe1 {
    pub const fn f0_min() -> u8 {
        0
    }

    pub const fn f0_max() -> u8 {
        7
    }

    pub const fn f1_min() -> u8 {
        0
    }

    pub const fn f1_max() -> u8 {
        7
    }

    pub const fn f2_min() -> u8 {
        0
    }

    pub const fn f2_max() -> u8 {
        7
    }

    pub const fn f3_min() -> u8 {
        0
    }

    pub const fn f3_max() -> u8 {
        7
    }
}

#[asn(sequence, extensible_after(f1))]

#[derive(Default, Debug, Clone, PartialEq, Hash)]
pub struct Ts4mmmoe2 {
    #[asn(integer(0..7))] pub f0: u8,
    #[asn(integer(0..7))] pub f1: u8,
    #[asn(optional(integer(0..7)))] pub f2: Option<u8>,
    #[asn(optional(integer(0..7)))] pub f3: Option<u8>,
}

impl Ts4mmmoe2 {
    pub const fn f0_min() -> u8 {
        0
    }

    pub const fn f0_max() -> u8 {
        7
    }

    pub const fn f1_min() -> u8 {
        0
    }

    pub const fn f1_max() -> u8 {
        7
    }

    pub const fn f2_min() -> u8 {
        0
    }

    pub const fn f2_max() -> u8 {
        7
    }

    pub const fn f3_min() -> u8 {
        0
    }

    pub const fn f3_max() -> u8 {
        7
    }
}

#[asn(sequence, extensible_after(f2))]

#[derive(Default, Debug, Clone, PartialEq, Hash)]
pub struct Ts4mmmoe3 {
    #[asn(integer(0..7))] pub f0: u8,
    #[asn(integer(0..7))] pub f1: u8,
    #[asn(integer(0..7))] pub f2: u8,
    #[asn(optional(integer(0..7)))] pub f3: Option<u8>,
}

impl Ts4mmmoe3 {
    pub const fn f0_min() -> u8 {
        0
    }

    pub const fn f0_max() -> u8 {
        7
    }

    pub const fn f1_min() -> u8 {
        0
    }

    pub const fn f1_max() -> u8 {
        7
    }

    pub const fn f2_min() -> u8 {
        0
    }

    pub const fn f2_max() -> u8 {
        7
    }

    pub const fn f3_min() -> u8 {
        0
    }

    pub const fn f3_max() -> u8 {
        7
    }
}

#[asn(sequence, extensible_after(f3))]

#[derive(Default, Debug, Clone, PartialEq, Hash)]
pub struct Ts4mmmoe4 {
    #[asn(integer(0..7))] pub f0: u8,
    #[asn(integer(0..7))] pub f1: u8,
    #[asn(integer(0..7))] pub f2: u8,
    #[asn(optional(integer(0..7)))] pub f3: Option<u8>,
}

impl Ts4mmmoe4 {
    pub const fn f0_min() -> u8 {
        0
    }

    pub const fn f0_max() -> u8 {
        7
    }

    pub const fn f1_min() -> u8 {
        0
    }

    pub const fn f1_max() -> u8 {
        7
    }

    pub const fn f2_min() -> u8 {
        0
    }

    pub const fn f2_max() -> u8 {
        7
    }

    pub const fn f3_min() -> u8 {
        0
    }

    pub const fn f3_max() -> u8 {
        7
    }
}

#[asn(sequence)]

#[derive(Default, Debug, Clone, PartialEq, Hash)]
pub struct Ts4ommon {
    #[asn(optional(integer(0..7)))] pub f0: Option<u8>,
    #[asn(integer(0..7))] pub f1: u8,
    #[asn(integer(0..7))] pub f2: u8,
    #[asn(optional(integer(0..7)))] pub f3: Option<u8>,
}

impl Ts4ommon {
    pub const fn f0_min() -> u8 {
        0
    }

    pub const fn f0_max() -> u8 {
        7
    }

    pub const fn f1_min() -> u8 {
        0
    }

    pub const fn f1_max() -> u8 {
        7
    }

    pub const fn f2_min() -> u8 {
        0
    }

    pub const fn f2_max() -> u8 {
        7
    }

    pub const fn f3_min() -> u8 {
        0
    }

    pub const fn f3_max() -> u8 {
        7
    }
}

#[asn(sequence, extensible_after(f0))]

#[derive(Default, Debug, Clone, PartialEq, Hash)]
pub struct Ts4ommoe0 {
    #[asn(optional(integer(0..7)))] pub f0: Option<u8>,
    #[asn(optional(integer(0..7)))] pub f1: Option<u8>,
    #[asn(optional(integer(0..7)))] pub f2: Option<u8>,
    #[asn(optional(integer(0..7)))] pub f3: Option<u8>,
}

impl Ts4ommoe0 {
    pub const fn f0_min() -> u8 {
        0
    }

    pub const fn f0_max() -> u8 {
        7
    }

    pub const fn f1_min() -> u8 {
        0
    }

    pub const fn f1_max() -> u8 {
        7
    }

    pub const fn f2_min() -> u8 {
        0
    }

    pub const fn f2_max() -> u8 {
        7
    }

    pub const fn f3_min() -> u8 {
        0
    }

    pub const fn f3_max() -> u8 {
        7
    }
}

#[asn(sequence, extensible_after(f0))]

#[derive(Default, Debug, Clone, PartialEq, Hash)]
pub struct Ts4ommoe1 {
    #[asn(optional(integer(0..7)))] pub f0: Option<u8>,
    #[asn(optional(integer(0..7)))] pub f1: Option<u8>,
    #[asn(optional(integer(0..7)))] pub f2: Option<u8>,
    #[asn(optional(integer(0..7)))] pub f3: Option<u8>,
}

impl Ts4ommoe1 {
    pub const fn f0_min() -> u8 {
        0
    }

    pub const fn f0_max() -> u8 {
        7
    }

    pub const fn f1_min() -> u8 {
        0
    }

    pub const fn f1_max() -> u8 {
        7
    }

    pub const fn f2_min() -> u8 {
        0
    }

    pub const fn f2_max() -> u8 {
        7
    }

    pub const fn f3_min() -> u8 {
        0
    }

    pub const fn f3_max() -> u8 {
        7
    }
}

#[asn(sequence, extensible_after(f1))]

#[derive(Default, Debug, Clone, PartialEq, Hash)]
pub struct Ts4ommoe2 {
    #[asn(optional(integer(0..7)))] pub f0: Option<u8>,
    #[asn(integer(0..7))] pub f1: u8,
    #[asn(optional(integer(0..7)))] pub f2: Option<u8>,
    #[asn(optional(integer(0..7)))] pub f3: Option<u8>,
}

impl Ts4ommoe2 {
    pub const fn f0_min() -> u8 {
        0
    }

    pub const fn f0_max() -> u8 {
        7
    }

    pub const fn f1_min() -> u8 {
        0
    }

    pub const fn f1_max() -> u8 {
        7
    }

    pub const fn f2_min() -> u8 {
        0
    }

    pub const fn f2_max() -> u8 {
        7
    }

    pub const fn f3_min() -> u8 {
        0
    }

    pub const fn f3_max() -> u8 {
        7
    }
}

#[asn(sequence, extensible_after(f2))]

#[derive(Default, Debug, Clone, PartialEq, Hash)]
pub struct Ts4ommoe3 {
    #[asn(optional(integer(0..7)))] pub f0: Option<u8>,
    #[asn(integer(0..7))] pub f1: u8,
    #[asn(integer(0..7))] pub f2: u8,
    #[asn(optional(integer(0..7)))] pub f3: Option<u8>,
}

impl Ts4ommoe3 {
    pub const fn f0_min() -> u8 {
        0
    }

    pub const fn f0_max() -> u8 {
        7
    }

    pub const fn f1_min() -> u8 {
        0
    }

    pub const fn f1_max() -> u8 {
        7
    }

    pub const fn f2_min() -> u8 {
        0
    }

    pub const fn f2_max() -> u8 {
        7
    }

    pub const fn f3_min() -> u8 {
        0
    }

    pub const fn f3_max() -> u8 {
        7
    }
}

#[asn(sequence, extensible_after(f3))]

#[derive(Default, Debug, Clone, PartialEq, Hash)]
pub struct Ts4ommoe4 {
    #[asn(optional(integer(0..7)))] pub f0: Option<u8>,
    #[asn(integer(0..7))] pub f1: u8,
    #[asn(integer(0..7))] pub f2: u8,
    #[asn(optional(integer(0..7)))] pub f3: Option<u8>,
}

impl Ts4ommoe4 {
    pub const fn f0_min() -> u8 {
        0
    }

    pub const fn f0_max() -> u8 {
        7
    }

    pub const fn f1_min() -> u8 {
        0
    }

    pub const fn f1_max() -> u8 {
        7
    }

    pub const fn f2_min() -> u8 {
        0
    }

    pub const fn f2_max() -> u8 {
        7
    }

    pub const fn f3_min() -> u8 {
        0
    }

    pub const fn f3_max() -> u8 {
        7
    }
}

#[asn(sequence)]

#[derive(Default, Debug, Clone, PartialEq, Hash)]
pub struct Ts4dmmon {
    #[asn(default(integer(0..7), 5))] pub f0: u8,
    #[asn(integer(0..7))] pub f1: u8,
    #[asn(integer(0..7))] pub f2: u8,
    #[asn(optional(integer(0..7)))] pub f3: Option<u8>,
}

impl Ts4dmmon {
    pub const fn f0_min() -> u8 {
        0
    }

    pub const fn f0_max() -> u8 {
        7
    }

    pub const fn f1_min() -> u8 {
        0
    }

    pub const fn f1_max() -> u8 {
        7
    }

    pub const fn f2_min() -> u8 {
        0
    }

    pub const fn f2_max() -> u8 {
        7
    }

    pub const fn f3_min() -> u8 {
        0
    }

    pub const fn f3_max() -> u8 {
        7
    }
}

#[asn(sequence, extensible_after(f0))]

#[derive(Default, Debug, Clone, PartialEq, Hash)]
pub struct Ts4dmmoe0 {
    #[asn(default(integer(0..7), 5))] pub f0: u8,
    #[asn(optional(integer(0..7)))] pub f1: Option<u8>,
    #[asn(optional(integer(0..7)))] pub f2: Option<u8>,
    #[asn(optional(integer(0..7)))] pub f3: Option<u8>,
}

impl Ts4dmmoe0 {
    pub const fn f0_min() -> u8 {
        0
    }

    pub const fn f0_max() -> u8 {
        7
    }

    pub const fn f1_min() -> u8 {
        0
    }

    pub const fn f1_max() -> u8 {
        7
    }

    pub const fn f2_min() -> u8 {
        0
    }

    pub const fn f2_max() -> u8 {
        7
    }

    pub const fn f3_min() -> u8 {
        0
    }

    pub const fn f3_max() -> u8 {
        7
    }
}

#[asn(sequence, extensible_after(f0))]

#[derive(Default, Debug, Clone, PartialEq, Hash)]
pub struct Ts4dmmoe1 {
    #[asn(default(integer(0..7), 5))] pub f0: u8,
    #[asn(optional(integer(0..7)))] pub f1: Option<u8>,
    #[asn(optional(integer(0..7)))] pub f2: Option<u8>,
    #[asn(optional(integer(0..7)))] pub f3: Option<u8>,
}

impl Ts4dmmoe1 {
    pub const fn f0_min() -> u8 {
        0
    }

    pub const fn f0_max() -> u8 {
        7
    }

    pub const fn f1_min() -> u8 {
        0
    }

    pub const fn f1_max() -> u8 {
        7
    }

    pub const fn f2_min() -> u8 {
        0
    }

    pub const fn f2_max() -> u8 {
        7
    }

    pub const fn f3_min() -> u8 {
        0
    }

    pub const fn f3_max() -> u8 {
        7
    }
}

#[asn(sequence, extensible_after(f1))]

#[derive(Default, Debug, Clone, PartialEq, Hash)]
pub struct Ts4dmmoe2 {
    #[asn(default(integer(0..7), 5))] pub f0: u8,
    #[asn(integer(0..7))] pub f1: u8,
    #[asn(optional(integer(0..7)))] pub f2: Option<u8>,
    #[asn(optional(integer(0..7)))] pub f3: Option<u8>,
}

impl Ts4dmmoe2 {
    pub const fn f0_min() -> u8 {
        0
    }

    pub const fn f0_max() -> u8 {
        7
    }

    pub const fn f1_min() -> u8 {
        0
    }

    pub const fn f1_max() -> u8 {
        7
    }

    pub const fn f2_min() -> u8 {
        0
    }

    pub const fn f2_max() -> u8 {
        7
    }

    pub const fn f3_min() -> u8 {
        0
    }

    pub const fn f3_max() -> u8 {
        7
    }
}

#[asn(sequence, extensible_after(f2))]

#[derive(Default, Debug, Clone, PartialEq, Hash)]
pub struct Ts4dmmoe3 {
    #[asn(default(integer(0..7), 5))] pub f0: u8,
    #[asn(integer(0..7))] pub f1: u8,
    #[asn(integer(0..7))] pub f2: u8,
    #[asn(optional(integer(0..7)))] pub f3: Option<u8>,
}

impl Ts4dmmoe3 {
    pub const fn f0_min() -> u8 {
        0
    }

    pub const fn f0_max() -> u8 {
        7
    }

    pub const fn f1_min() -> u8 {
        0
    }

    pub const fn f1_max() -> u8 {
        7
    }

    pub const fn f2_min() -> u8 {
        0
    }

    pub const fn f2_max() -> u8 {
        7
    }

    pub const fn f3_min() -> u8 {
        0
    }

    pub const fn f3_max() -> u8 {
        7
    }
}

#[asn(sequence, extensible_after(f3))]

#[derive(Default, Debug, Clone, PartialEq, Hash)]
pub struct Ts4dmmoe4 {
    #[asn(default(integer(0..7), 5))] pub f0: u8,
    #[asn(integer(0..7))] pub f1: u8,
    #[asn(integer(0..7))] pub f2: u8,
    #[asn(optional(integer(0..7)))] pub f3: Option<u8>,
}

impl Ts4dmmoe4 {
    pub const fn f0_min() -> u8 {
        0
    }

    pub const fn f0_max() -> u8 {
        7
    }

    pub const fn f1_min() -> u8 {
        0
    }

    pub const fn f1_max() -> u8 {
        7
    }

    pub const fn f2_min() -> u8 {
        0
    }

    pub const fn f2_max() -> u8 {
        7
    }

    pub const fn f3_min() -> u8 {
        0
    }

    pub const fn f3_max() -> u8 {
        7
    }
}

#[asn(sequence)]

#[derive(Default, Debug, Clone, PartialEq, Hash)]
pub struct Ts4momon {
    #[asn(integer(0..7))] pub f0: u8,
    #[asn(optional(integer(0..7)))] pub f1: Option<u8>,
    #[asn(integer(0..7))] pub f2: u8,
    #[asn(optional(integer(0..7)))] pub f3: Option<u8>,
}

impl Ts4momon {
    pub const fn f0_min() -> u8 {
        0
    }

    pub const fn f0_max() -> u8 {
        7
    }

    pub const fn f1_min() -> u8 {
        0
    }

    pub const fn f1_max() -> u8 {
        7
    }

    pub const fn f2_min() -> u8 {
        0
    }

    pub const fn f2_max() -> u8 {
        7
    }

    pub const fn f3_min() -> u8 {
        0
    }

    pub const fn f3_max() -> u8 {
        7
    }
}

#[asn(sequence, extensible_after(f0))]

#[derive(Default, Debug, Clone, PartialEq, Hash)]
pub struct Ts4momoe0 {
    #[asn(integer(0..7))] pub f0: u8,
    #[asn(optional(integer(0..7)))] pub f1: Option<u8>,
    #[asn(optional(integer(0..7)))] pub f2: Option<u8>,
    #[asn(optional(integer(0..7)))] pub f3: Option<u8>,
}

impl Ts4momoe0 {
    pub const fn f0_min() -> u8 {
        0
    }

    pub const fn f0_max() -> u8 {
        7
    }

    pub const fn f1_min() -> u8 {
        0
    }

    pub const fn f1_max() -> u8 {
        7
    }

    pub const fn f2_min() -> u8 {
        0
    }

    pub const fn f2_max() -> u8 {
        7
    }

    pub const fn f3_min() -> u8 {
        0
    }

    pub const fn f3_max() -> u8 {
        7
    }
}

#[asn(sequence, extensible_after(f0))]

#[derive(Default, Debug, Clone, PartialEq, Hash)]
pub struct Ts4momoe1 {
    #[asn(integer(0..7))] pub f0: u8,
    #[asn(optional(integer(0..7)))] pub f1: Option<u8>,
    #[asn(optional(integer(0..7)))] pub f2: Option<u8>,
    #[asn(optional(integer(0..7)))] pub f3: Option<u8>,
}

impl Ts4momoe1 {
    pub const fn f0_min() -> u8 {
        0
    }

    pub const fn f0_max() -> u8 {
        7
    }

    pub const fn f1_min() -> u8 {
        0
    }

    pub const fn f1_max() -> u8 {
        7
    }

    pub const fn f2_min() -> u8 {
        0
    }

    pub const fn f2_max() -> u8 {
        7
    }

    pub const fn f3_min() -> u8 {
        0
    }

    pub const fn f3_max() -> u8 {
        7
    }
}

#[asn(sequence, extensible_after(f1))]

#[derive(Default, Debug, Clone, PartialEq, Hash)]
pub struct Ts4momoe2 {
    #[asn(integer(0..7))] pub f0: u8,
    #[asn(optional(integer(0..7)))] pub f1: Option<u8>,
    #[asn(optional(integer(0..7)))] pub f2: Option<u8>,
    #[asn(optional(integer(0..7)))] pub f3: Option<u8>,
}

impl Ts4momoe2 {
    pub const fn f0_min() -> u8 {
        0
    }

    pub const fn f0_max() -> u8 {
        7
    }

    pub const fn f1_min() -> u8 {
        0
    }

    pub const fn f1_max() -> u8 {
        7
    }

    pub const fn f2_min() -> u8 {
        0
    }

    pub const fn f2_max() -> u8 {
        7
    }

    pub const fn f3_min() -> u8 {
        0
    }

    pub const fn f3_max() -> u8 {
        7
    }
}

#[asn(sequence, extensible_after(f2))]

#[derive(Default, Debug, Clone, PartialEq, Hash)]
pub struct Ts4momoe3 {
    #[asn(integer(0..7))] pub f0: u8,
    #[asn(optional(integer(0..7)))] pub f1: Option<u8>,
    #[asn(integer(0..7))] pub f2: u8,
    #[asn(optional(integer(0..7)))] pub f3: Option<u8>,
}

impl Ts4momoe3 {
    pub const fn f0_min() -> u8 {
        0
    }

    pub const fn f0_max() -> u8 {
        7
    }

    pub const fn f1_min() -> u8 {
        0
    }

    pub const fn f1_max() -> u8 {
        7
    }

    pub const fn f2_min() -> u8 {
        0
    }

    pub const fn f2_max() -> u8 {
        7
    }

    pub const fn f3_min() -> u8 {
        0
    }

    pub const fn f3_max() -> u8 {
        7
    }
}

#[asn(sequence, extensible_after(f3))]

#[derive(Default, Debug, Clone, PartialEq, Hash)]
pub struct Ts4momoe4 {
    #[asn(integer(0..7))] pub f0: u8,
    #[asn(optional(integer(0..7)))] pub f1: Option<u8>,
    #[asn(integer(0..7))] pub f2: u8,
    #[asn(optional(integer(0..7)))] pub f3: Option<u8>,
}

impl Ts4momoe4 {
    pub const fn f0_min() -> u8 {
        0
    }

    pub const fn f0_max() -> u8 {
        7
    }

    pub const fn f1_min() -> u8 {
        0
    }

    pub const fn f1_max() -> u8 {
        7
    }

    pub const fn f2_min() -> u8 {
        0
    }

    pub const fn f2_max() -> u8 {
        7
    }

    pub const fn f3_min() -> u8 {
        0
    }

    pub const fn f3_max() -> u8 {
        7
    }
}

#[asn(sequence)]

#[derive(Default, Debug, Clone, PartialEq, Hash)]
pub struct Ts4oomon {
    #[asn(optional(integer(0..7)))] pub f0: Option<u8>,
    #[asn(optional(integer(0..7)))] pub f1: Option<u8>,
    #[asn(integer(0..7))] pub f2: u8,
    #[asn(optional(integer(0..7)))] pub f3: Option<u8>,
}

impl Ts4oomon {
    pub const fn f0_min() -> u8 {
        0
    }

    pub const fn f0_max() -> u8 {
        7
    }

    pub const fn f1_min() -> u8 {
        0
    }

    pub const fn f1_max() -> u8 {
        7
    }

    pub const fn f2_min() -> u8 {
        0
    }

    pub const fn f2_max() -> u8 {
        7
    }

    pub const fn f3_min() -> u8 {
        0
    }

    pub const fn f3_max() -> u8 {
        7
    }
}

#[asn(sequence, extensible_after(f0))]

#[derive(Default, Debug, Clone, PartialEq, Hash)]
pub struct Ts4oomoe0 {
    #[asn(optional(integer(0..7)))] pub f0: Option<u8>,
    #[asn(optional(integer(0..7)))] pub f1: Option<u8>,
    #[asn(optional(integer(0..7)))] pub f2: Option<u8>,
    #[asn(optional(integer(0..7)))] pub f3: Option<u8>,
}

impl Ts4oomoe0 {
    pub const fn f0_min() -> u8 {
        0
    }

    pub const fn f0_max() -> u8 {
        7
    }

    pub const fn f1_min() -> u8 {
        0
    }

    pub const fn f1_max() -> u8 {
        7
    }

    pub const fn f2_min() -> u8 {
        0
    }

    pub const fn f2_max() -> u8 {
        7
    }

    pub const fn f3_min() -> u8 {
        0
    }

    pub const fn f3_max() -> u8 {
        7
    }
}

#[asn(sequence, extensible_after(f0))]

#[derive(Default, Debug, Clone, PartialEq, Hash)]
pub struct Ts4oomoe1 {
    #[asn(optional(integer(0..7)))] pub f0: Option<u8>,
    #[asn(optional(integer(0..7)))] pub f1: Option<u8>,
    #[asn(optional(integer(0..7)))] pub f2: Option<u8>,
    #[asn(optional(integer(0..7)))] pub f3: Option<u8>,
}

impl Ts4oomoe1 {
    pub const fn f0_min() -> u8 {
        0
    }

    pub const fn f0_max() -> u8 {
        7
    }

    pub const fn f1_min() -> u8 {
        0
    }

    pub const fn f1_max() -> u8 {
        7
    }

    pub const fn f2_min() -> u8 {
        0
    }

    pub const fn f2_max() -> u8 {
        7
    }

    pub const fn f3_min() -> u8 {
        0
    }

    pub const fn f3_max() -> u8 {
        7
    }
}

#[asn(sequence, extensible_after(f1))]

#[derive(Default, Debug, Clone, PartialEq, Hash)]
pub struct Ts4oomoe2 {
    #[asn(optional(integer(0..7)))] pub f0: Option<u8>,
    #[asn(optional(integer(0..7)))] pub f1: Option<u8>,
    #[asn(optional(integer(0..7)))] pub f2: Option<u8>,
    #[asn(optional(integer(0..7)))] pub f3: Option<u8>,
}

impl Ts4oomoe2 {
    pub const fn f0_min() -> u8 {
        0
    }

    pub const fn f0_max() -> u8 {
        7
    }

    pub const fn f1_min() -> u8 {
        0
    }

    pub const fn f1_max() -> u8 {
        7
    }

    pub const fn f2_min() -> u8 {
        0
    }

    pub const fn f2_max() -> u8 {
        7
    }

    pub const fn f3_min() -> u8 {
        0
    }

    pub const fn f3_max() -> u8 {
        7
    }
}

#[asn(sequence, extensible_after(f2))]

#[derive(Default, Debug, Clone, PartialEq, Hash)]
pub struct Ts4oomoe3 {
    #[asn(optional(integer(0..7)))] pub f0: Option<u8>,
    #[asn(optional(integer(0..7)))] pub f1: Option<u8>,
    #[asn(integer(0..7))] pub f2: u8,
    #[asn(optional(integer(0..7)))] pub f3: Option<u8>,
}

impl Ts4oomoe3 {
    pub const fn f0_min() -> u8 {
        0
    }

    pub const fn f0_max() -> u8 {
        7
    }

    pub const fn f1_min() -> u8 {
        0
    }

    pub const fn f1_max() -> u8 {
        7
    }

    pub const fn f2_min() -> u8 {
        0
    }

    pub const fn f2_max() -> u8 {
        7
    }

    pub const fn f3_min() -> u8 {
        0
    }

    pub const fn f3_max() -> u8 {
        7
    }
}

#[asn(sequence, extensible_after(f3))]

#[derive(Default, Debug, Clone, PartialEq, Hash)]
pub struct Ts4oomoe4 {
    #[asn(optional(integer(0..7)))] pub f0: Option<u8>,
    #[asn(optional(integer(0..7)))] pub f1: Option<u8>,
    #[asn(integer(0..7))] pub f2: u8,
    #[asn(optional(integer(0..7)))] pub f3: Option<u8>,
}

impl Ts4oomoe4 {
    pub const fn f0_min() -> u8 {
        0
    }

    pub const fn f0_max() -> u8 {
        7
    }

    pub const fn f1_min() -> u8 {
        0
    }

    pub const fn f1_max() -> u8 {
        7
    }

    pub const fn f2_min() -> u8 {
        0
    }

    pub const fn f2_max() -> u8 {
        7
    }

    pub const fn f3_min() -> u8 {
        0
    }

    pub const fn f3_max() -> u8 {
        7
    }
}

#[asn(sequence)]

#[derive(Default, Debug, Clone, PartialEq, Hash)]
pub struct Ts4domon {
    #[asn(default(integer(0..7), 5))] pub f0: u8,
    #[asn(optional(integer(0..7)))] pub f1: Option<u8>,
    #[asn(integer(0..7))] pub f2: u8,
    #[asn(optional(integer(0..7)))] pub f3: Option<u8>,
}

impl Ts4domon {
    pub const fn f0_min() -> u8 {
        0
    }

    pub const fn f0_max() -> u8 {
        7
    }

    pub const fn f1_min() -> u8 {
        0
    }

    pub const fn f1_max() -> u8 {
        7
    }

    pub const fn f2_min() -> u8 {
        0
    }

    pub const fn f2_max() -> u8 {
        7
    }

    pub const fn f3_min() -> u8 {
        0
    }

    pub const fn f3_max() -> u8 {
        7
    }
}

#[asn(sequence, extensible_after(f0))]

#[derive(Default, Debug, Clone, PartialEq, Hash)]
pub struct Ts4domoe0 {
    #[asn(default(integer(0..7), 5))] pub f0: u8,
    #[asn(optional(integer(0..7)))] pub f1: Option<u8>,
    #[asn(optional(integer(0..7)))] pub f2: Option<u8>,
    #[asn(optional(integer(0..7)))] pub f3: Option<u8>,
}

impl Ts4domoe0 {
    pub const fn f0_min() -> u8 {
        0
    }

    pub const fn f0_max() -> u8 {
        7
    }

    pub const fn f1_min() -> u8 {
        0
    }

    pub const fn f1_max() -> u8 {
        7
    }

    pub const fn f2_min() -> u8 {
        0
    }

    pub const fn f2_max() -> u8 {
        7
    }

    pub const fn f3_min() -> u8 {
        0
    }

    pub const fn f3_max() -> u8 {
        7
    }
}

#[asn(sequence, extensible_after(f0))]

#[derive(Default, Debug, Clone, PartialEq, Hash)]
pub struct Ts4domoe1 {
    #[asn(default(integer(0..7), 5))] pub f0: u8,
    #[asn(optional(integer(0..7)))] pub f1: Option<u8>,
    #[asn(optional(integer(0..7)))] pub f2: Option<u8>,
    #[asn(optional(integer(0..7)))] pub f3: Option<u8>,
}

impl Ts4domoe1 {
    pub const fn f0_min() -> u8 {
        0
    }

    pub const fn f0_max() -> u8 {
        7
    }

    pub const fn f1_min() -> u8 {
        0
    }

    pub const fn f1_max() -> u8 {
        7
    }

    pub const fn f2_min() -> u8 {
        0
    }

    pub const fn f2_max() -> u8 {
        7
    }

    pub const fn f3_min() -> u8 {
        0
    }

    pub const fn f3_max() -> u8 {
        7
    }
}

#[asn(sequence, extensible_after(f1))]

#[derive(Default, Debug, Clone, PartialEq, Hash)]
pub struct Ts4domoe2 {
    #[asn(default(integer(0..7), 5))] pub f0: u8,
    #[asn(optional(integer(0..7)))] pub f1: Option<u8>,
    #[asn(optional(integer(0..7)))] pub f2: Option<u8>,
    #[asn(optional(integer(0..7)))] pub f3: Option<u8>,
}

impl Ts4domoe2 {
    pub const fn f0_min() -> u8 {
        0
    }

    pub const fn f0_max() -> u8 {
        7
    }

    pub const fn f1_min() -> u8 {
        0
    }

    pub const fn f1_max() -> u8 {
        7
    }

    pub const fn f2_min() -> u8 {
        0
    }

    pub const fn f2_max() -> u8 {
        7
    }

    pub const fn f3_min() -> u8 {
        0
    }

    pub const fn f3_max() -> u8 {
        7
    }
}

#[asn(sequence, extensible_after(f2))]

#[derive(Default, Debug, Clone, PartialEq, Hash)]
pub struct Ts4domoe3 {
    #[asn(default(integer(0..7), 5))] pub f0: u8,
    #[asn(optional(integer(0..7)))] pub f1: Option<u8>,
    #[asn(integer(0..7))] pub f2: u8,
    #[asn(optional(integer(0..7)))] pub f3: Option<u8>,
}

impl Ts4domoe3 {
    pub const fn f0_min() -> u8 {
        0
    }

    pub const fn f0_max() -> u8 {
        7
    }

    pub const fn f1_min() -> u8 {
        0
    }

    pub const fn f1_max() -> u8 {
        7
    }

    pub const fn f2_min() -> u8 {
        0
    }

    pub const fn f2_max() -> u8 {
        7
    }

    pub const fn f3_min() -> u8 {
        0
    }

    pub const fn f3_max() -> u8 {
        7
    }
}

#[asn(sequence, extensible_after(f3))]

#[derive(Default, Debug, Clone, PartialEq, Hash)]
pub struct Ts4domoe4 {
    #[asn(default(integer(0..7), 5))] pub f0: u8,
    #[asn(optional(integer(0..7)))] pub f1: Option<u8>,
    #[asn(integer(0..7))] pub f2: u8,
    #[asn(optional(integer(0..7)))] pub f3: Option<u8>,
}

impl Ts4domoe4 {
    pub const fn f0_min() -> u8 {
        0
    }

    pub const fn f0_max() -> u8 {
        7
    }

    pub const fn f1_min() -> u8 {
        0
    }

    pub const fn f1_max() -> u8 {
        7
    }

    pub const fn f2_min() -> u8 {
        0
    }

    pub const fn f2_max() -> u8 {
        7
    }

    pub const fn f3_min() -> u8 {
        0
    }

    pub const fn f3_max() -> u8 {
        7
    }
}

#[asn(sequence)]

#[derive(Default, Debug, Clone, PartialEq, Hash)]
pub struct Ts4mdmon {
    #[asn(integer(0..7))] pub f0: u8,
    #[asn(default(integer(0..7), 5))] pub f1: u8,
    #[asn(integer(0..7))] pub f2: u8,
    #[asn(optional(integer(0..7)))] pub f3: Option<u8>,
}

impl Ts4mdmon {
    pub const fn f0_min() -> u8 {
        0
    }

    pub const fn f0_max() -> u8 {
        7
    }

    pub const fn f1_min() -> u8 {
        0
    }

    pub const fn f1_max() -> u8 {
        7
    }

    pub const fn f2_min() -> u8 {
        0
    }

    pub const fn f2_max() -> u8 {
        7
    }

    pub const fn f3_min() -> u8 {
        0
    }

    pub const fn f3_max() -> u8 {
        7
    }
}

#[asn(sequence, extensible_after(f0))]

#[derive(Default, Debug, Clone, PartialEq, Hash)]
pub struct Ts4mdmoe0 {
    #[asn(integer(0..7))] pub f0: u8,
    #[asn(default(integer(0..7), 5))] pub f1: u8,
    #[asn(optional(integer(0..7)))] pub f2: Option<u8>,
    #[asn(optional(integer(0..7)))] pub f3: Option<u8>,
}

impl Ts4mdmoe0 {
    pub const fn f0_min() -> u8 {
        0
    }

    pub const fn f0_max() -> u8 {
        7
    }

    pub const fn f1_min() -> u8 {
        0
    }

    pub const fn f1_max() -> u8 {
        7
    }

    pub const fn f2_min() -> u8 {
        0
    }

    pub const fn f2_max() -> u8 {
        7
    }

    pub const fn f3_min() -> u8 {
        0
    }

    pub const fn f3_max() -> u8 {
        7
    }
}

#[asn(sequence, extensible_after(f0))]

#[derive(Default, Debug, Clone, PartialEq, Hash)]
pub struct Ts4mdmoe1 {
    #[asn(integer(0..7))] pub f0: u8,
    #[asn(default(integer(0..7), 5))] pub f1: u8,
    #[asn(optional(integer(0..7)))] pub f2: Option<u8>,
    #[asn(optional(integer(0..7)))] pub f3: Option<u8>,
}

impl Ts4mdmoe1 {
    pub const fn f0_min() -> u8 {
        0
    }

    pub const fn f0_max() -> u8 {
        7
    }

    pub const fn f1_min() -> u8 {
        0
    }

    pub const fn f1_max() -> u8 {
        7
    }

    pub const fn f2_min() -> u8 {
        0
    }

    pub const fn f2_max() -> u8 {
        7
    }

    pub const fn f3_min() -> u8 {
        0
    }

    pub const fn f3_max() -> u8 {
        7
    }
}

#[asn(sequence, extensible_after(f1))]

#[derive(Default, Debug, Clone, PartialEq, Hash)]
pub struct Ts4mdmoe2 {
    #[asn(integer(0..7))] pub f0: u8,
    #[asn(default(integer(0..7), 5))] pub f1: u8,
    #[asn(optional(integer(0..7)))] pub f2: Option<u8>,
    #[asn(optional(integer(0..7)))] pub f3: Option<u8>,
}

impl Ts4mdmoe2 {
    pub const fn f0_min() -> u8 {
        0
    }

    pub const fn f0_max() -> u8 {
        7
    }

    pub const fn f1_min() -> u8 {
        0
    }

    pub const fn f1_max() -> u8 {
        7
    }

    pub const fn f2_min() -> u8 {
        0
    }

    pub const fn f2_max() -> u8 {
        7
    }

    pub const fn f3_min() -> u8 {
        0
    }

    pub const fn f3_max() -> u8 {
        7
    }
}

#[asn(sequence, extensible_after(f2))]

#[derive(Default, Debug, Clone, PartialEq, Hash)]
pub struct Ts4mdmoe3 {
    #[asn(integer(0..7))] pub f0: u8,
    #[asn(default(integer(0..7), 5))] pub f1: u8,
    #[asn(integer(0..7))] pub f2: u8,
    #[asn(optional(integer(0..7)))] pub f3: Option<u8>,
}

impl Ts4mdmoe3 {
    pub const fn f0_min() -> u8 {
        0
    }

    pub const fn f0_max() -> u8 {
        7
    }

    pub const fn f1_min() -> u8 {
        0
    }

    pub const fn f1_max() -> u8 {
        7
    }

    pub const fn f2_min() -> u8 {
        0
    }

    pub const fn f2_max() -> u8 {
        7
    }

    pub const fn f3_min() -> u8 {
        0
    }

    pub const fn f3_max() -> u8 {
        7
    }
}

#[asn(sequence, extensible_after(f3))]

#[derive(Default, Debug, Clone, PartialEq, Hash)]
pub struct Ts4mdmoe4 {
    #[asn(integer(0..7))] pub f0: u8,
    #[asn(default(integer(0..7), 5))] pub f1: u8,
    #[asn(integer(0..7))] pub f2: u8,
    #[asn(optional(integer(0..7)))] pub f3: Option<u8>,
}

impl Ts4mdmoe4 {
    pub const fn f0_min() -> u8 {
        0
    }

    pub const fn f0_max() -> u8 {
        7
    }

    pub const fn f1_min() -> u8 {
        0
    }

    pub const fn f1_max() -> u8 {
        7
    }

    pub const fn f2_min() -> u8 {
        0
    }

    pub const fn f2_max() -> u8 {
        7
    }

    pub const fn f3_min() -> u8 {
        0
    }

    pub const fn f3_max() -> u8 {
        7
    }
}

#[asn(sequence)]

#[derive(Default, Debug, Clone, PartialEq, Hash)]
pub struct Ts4odmon {
    #[asn(optional(integer(0..7)))] pub f0: Option<u8>,
    #[asn(default(integer(0..7), 5))] pub f1: u8,
    #[asn(integer(0..7))] pub f2: u8,
    #[asn(optional(integer(0..7)))] pub f3: Option<u8>,
}

impl Ts4odmon {
    pub const fn f0_min() -> u8 {
        0
    }

    pub const fn f0_max() -> u8 {
        7
    }

    pub const fn f1_min() -> u8 {
        0
    }

    pub const fn f1_max() -> u8 {
        7
    }

    pub const fn f2_min() -> u8 {
        0
    }

    pub const fn f2_max() -> u8 {
        7
    }

    pub const fn f3_min() -> u8 {
        0
    }

    pub const fn f3_max() -> u8 {
        7
    }
}

#[asn(sequence, extensible_after(f0))]

#[derive(Default, Debug, Clone, PartialEq, Hash)]
pub struct Ts4odmoe0 {
    #[asn(optional(integer(0..7)))] pub f0: Option<u8>,
    #[asn(default(integer(0..7), 5))] pub f1: u8,
    #[asn(optional(integer(0..7)))] pub f2: Option<u8>,
    #[asn(optional(integer(0..7)))] pub f3: Option<u8>,
}

impl Ts4odmoe0 {
    pub const fn f0_min() -> u8 {
        0
    }

    pub const fn f0_max() -> u8 {
        7
    }

    pub const fn f1_min() -> u8 {
        0
    }

    pub const fn f1_max() -> u8 {
        7
    }

    pub const fn f2_min() -> u8 {
        0
    }

    pub const fn f2_max() -> u8 {
        7
    }

    pub const fn f3_min() -> u8 {
        0
    }

    pub const fn f3_max() -> u8 {
        7
    }
}

#[asn(sequence, extensible_after(f0))]

#[derive(Default, Debug, Clone, PartialEq, Hash)]
pub struct Ts4odmoe1 {
    #[asn(optional(integer(0..7)))] pub f0: Option<u8>,
    #[asn(default(integer(0..7), 5))] pub f1: u8,
    #[asn(optional(integer(0..7)))] pub f2: Option<u8>,
    #[asn(optional(integer(0..7)))] pub f3: Option<u8>,
}

impl Ts4odmoe1 {
    pub const fn f0_min() -> u8 {
        0
    }

    pub const fn f0_max() -> u8 {
        7
    }

    pub const fn f1_min() -> u8 {
        0
    }

    pub const fn f1_max() -> u8 {
        7
    }

    pub const fn f2_min() -> u8 {
        0
    }

    pub const fn f2_max() -> u8 {
        7
    }

    pub const fn f3_min() -> u8 {
        0
    }

    pub const fn f3_max() -> u8 {
        7
    }
}

#[asn(sequence, extensible_after(f1))]

#[derive(Default, Debug, Clone, PartialEq, Hash)]
pub struct Ts4odmoe2 {
    #[asn(optional(integer(0..7)))] pub f0: Option<u8>,
    #[asn(default(integer(0..7), 5))] pub f1: u8,
    #[asn(optional(integer(0..7)))] pub f2: Option<u8>,
    #[asn(optional(integer(0..7)))] pub f3: Option<u8>,
}

impl Ts4odmoe2 {
    pub const fn f0_min() -> u8 {
        0
    }

    pub const fn f0_max() -> u8 {
        7
    }

    pub const fn f1_min() -> u8 {
        0
    }

    pub const fn f1_max() -> u8 {
        7
    }

    pub const fn f2_min() -> u8 {
        0
    }

    pub const fn f2_max() -> u8 {
        7
    }

    pub const fn f3_min() -> u8 {
        0
    }

    pub const fn f3_max() -> u8 {
        7
    }
}

#[asn(sequence, extensible_after(f2))]

#[derive(Default, Debug, Clone, PartialEq, Hash)]
pub struct Ts4odmoe3 {
    #[asn(optional(integer(0..7)))] pub f0: Option<u8>,
    #[asn(default(integer(0..7), 5))] pub f1: u8,
    #[asn(integer(0..7))] pub f2: u8,
    #[asn(optional(integer(0..7)))] pub f3: Option<u8>,
}

impl Ts4odmoe3 {
    pub const fn f0_min() -> u8 {
        0
    }

    pub const fn f0_max() -> u8 {
        7
    }

    pub const fn f1_min() -> u8 {
        0
    }

    pub const fn f1_max() -> u8 {
        7
    }

    pub const fn f2_min() -> u8 {
        0
    }

    pub const fn f2_max() -> u8 {
        7
    }

    pub const fn f3_min() -> u8 {
        0
    }

    pub const fn f3_max() -> u8 {
        7
    }
}

#[asn(sequence, extensible_after(f3))]

#[derive(Default, Debug, Clone, PartialEq, Hash)]
pub struct Ts4odmoe4 {
    #[asn(optional(integer(0..7)))] pub f0: Option<u8>,
    #[asn(default(integer(0..7), 5))] pub f1: u8,
    #[asn(integer(0..7))] pub f2: u8,
    #[asn(optional(integer(0..7)))] pub f3: Option<u8>,
}

impl Ts4odmoe4 {
    pub const fn f0_min() -> u8 {
        0
    }

    pub const fn f0_max() -> u8 {
        7
    }

    pub const fn f1_min() -> u8 {
        0
    }

    pub const fn f1_max() -> u8 {
        7
    }

    pub const fn f2_min() -> u8 {
        0
    }

    pub const fn f2_max() -> u8 {
        7
    }

    pub const fn f3_min() -> u8 {
        0
    }

    pub const fn f3_max() -> u8 {
        7
    }
}

#[asn(sequence)]

#[derive(Default, Debug, Clone, PartialEq, Hash)]
pub struct Ts4ddmon {
    #[asn(default(integer(0..7), 5))] pub f0: u8,
    #[asn(default(integer(0..7), 5))] pub f1: u8,
    #[asn(integer(0..7))] pub f2: u8,
    #[asn(optional(integer(0..7)))] pub f3: Option<u8>,
}

impl Ts4ddmon {
    pub const fn f0_min() -> u8 {
        0
    }

    pub const fn f0_max() -> u8 {
        7
    }

    pub const fn f1_min() -> u8 {
        0
    }

    pub const fn f1_max() -> u8 {
        7
    }

    pub const fn f2_min() -> u8 {
        0
    }

    pub const fn f2_max() -> u8 {
        7
    }

    pub const fn f3_min() -> u8 {
        0
    }

    pub const fn f3_max() -> u8 {
        7
    }
}

#[asn(sequence, extensible_after(f0))]

#[derive(Default, Debug, Clone, PartialEq, Hash)]
pub struct Ts4ddmoe0 {
    #[asn(default(integer(0..7), 5))] pub f0: u8,
    #[asn(default(integer(0..7), 5))] pub f1: u8,
    #[asn(optional(integer(0..7)))] pub f2: Option<u8>,
    #[asn(optional(integer(0..7)))] pub f3: Option<u8>,
}

impl Ts4ddmoe0 {
    pub const fn f0_min() -> u8 {
        0
    }

    pub const fn f0_max() -> u8 {
        7
    }

    pub const fn f1_min() -> u8 {
        0
    }

    pub const fn f1_max() -> u8 {
        7
    }

    pub const fn f2_min() -> u8 {
        0
    }

    pub const fn f2_max() -> u8 {
        7
    }

    pub const fn f3_min() -> u8 {
        0
    }

    pub const fn f3_max() -> u8 {
        7
    }
}

#[asn(sequence, extensible_after(f0))]

#[derive(Default, Debug, Clone, PartialEq, Hash)]
pub struct Ts4ddmoe1 {
    #[asn(default(integer(0..7), 5))] pub f0: u8,
    #[asn(default(integer(0..7), 5))] pub f1: u8,
    #[asn(optional(integer(0..7)))] pub f2: Option<u8>,
    #[asn(optional(integer(0..7)))] pub f3: Option<u8>,
}

impl Ts4ddmoe1 {
    pub const fn f0_min() -> u8 {
        0
    }

    pub const fn f0_max() -> u8 {
        7
    }

    pub const fn f1_min() -> u8 {
        0
    }

    pub const fn f1_max() -> u8 {
        7
    }

    pub const fn f2_min() -> u8 {
        0
    }

    pub const fn f2_max() -> u8 {
        7
    }

    pub const fn f3_min() -> u8 {
        0
    }

    pub const fn f3_max() -> u8 {
        7
    }
}

#[asn(sequence, extensible_after(f1))]

#[derive(Default, Debug, Clone, PartialEq, Hash)]
pub struct Ts4ddmoe2 {
    #[asn(default(integer(0..7), 5))] pub f0: u8,
    #[asn(default(integer(0..7), 5))] pub f1: u8,
    #[asn(optional(integer(0..7)))] pub f2: Option<u8>,
    #[asn(optional(integer(0..7)))] pub f3: Option<u8>,
}

impl Ts4ddmoe2 {
    pub const fn f0_min() -> u8 {
        0
    }

    pub const fn f0_max() -> u8 {
        7
    }

    pub const fn f1_min() -> u8 {
        0
    }

    pub const fn f1_max() -> u8 {
        7
    }

    pub const fn f2_min() -> u8 {
        0
    }

    pub const fn f2_max() -> u8 {
        7
    }

    pub const fn f3_min() -> u8 {
        0
    }

    pub const fn f3_max() -> u8 {
        7
    }
}

#[asn(sequence, extensible_after(f2))]

#[derive(Default, Debug, Clone, PartialEq, Hash)]
pub struct Ts4ddmoe3 {
    #[asn(default(integer(0..7), 5))] pub f0: u8,
    #[asn(default(integer(0..7), 5))] pub f1: u8,
    #[asn(integer(0..7))] pub f2: u8,
    #[asn(optional(integer(0..7)))] pub f3: Option<u8>,
}

impl Ts4ddmoe3 {
    pub const fn f0_min() -> u8 {
        0
    }

    pub const fn f0_max() -> u8 {
        7
    }

    pub const fn f1_min() -> u8 {
        0
    }

    pub const fn f1_max() -> u8 {
        7
    }

    pub const fn f2_min() -> u8 {
        0
    }

    pub const fn f2_max() -> u8 {
        7
    }

    pub const fn f3_min() -> u8 {
        0
    }

    pub const fn f3_max() -> u8 {
        7
    }
}

#[asn(sequence, extensible_after(f3))]

#[derive(Default, Debug, Clone, PartialEq, Hash)]
pub struct Ts4ddmoe4 {
    #[asn(default(integer(0..7), 5))] pub f0: u8,
    #[asn(default(integer(0..7), 5))] pub f1: u8,
    #[asn(integer(0..7))] pub f2: u8,
    #[asn(optional(integer(0..7)))] pub f3: Option<u8>,
}

impl Ts4ddmoe4 {
    pub const fn f0_min() -> u8 {
        0
    }

    pub const fn f0_max() -> u8 {
        7
    }

    pub const fn f1_min() -> u8 {
        0
    }

    pub const fn f1_max() -> u8 {
        7
    }

    pub const fn f2_min() -> u8 {
        0
    }

    pub const fn f2_max() -> u8 {
        7
    }

    pub const fn f3_min() -> u8 {
        0
    }

    pub const fn f3_max() -> u8 {
        7
    }
}

#[asn(sequence)]

#[derive(Default, Debug, Clone, PartialEq, Hash)]
pub struct Ts4mmoon {
    #[asn(integer(0..7))] pub f0: u8,
    #[asn(integer(0..7))] pub f1: u8,
    #[asn(optional(integer(0..7)))] pub f2: Option<u8>,
    #[asn(optional(integer(0..7)))] pub f3: Option<u8>,
}

impl Ts4mmoon {
    pub const fn f0_min() -> u8 {
        0
    }

    pub const fn f0_max() -> u8 {
        7
    }

    pub const fn f1_min() -> u8 {
        0
    }

    pub const fn f1_max() -> u8 {
        7
    }

    pub const fn f2_min() -> u8 {
        0
    }

    pub const fn f2_max() -> u8 {
        7
    }

    pub const fn f3_min() -> u8 {
        0
    }

    pub const fn f3_max() -> u8 {
        7
    }
}

#[asn(sequence, extensible_after(f0))]

#[derive(Default, Debug, Clone, PartialEq, Hash)]
pub struct Ts4mmooe0 {
    #[asn(integer(0..7))] pub f0: u8,
    #[asn(optional(integer(0..7)))] pub f1: Option<u8>,
    #[asn(optional(integer(0..7)))] pub f2: Option<u8>,
    #[asn(optional(integer(0..7)))] pub f3: Option<u8>,
}

impl Ts4mmooe0 {
    pub const fn f0_min() -> u8 {
        0
    }

    pub const fn f0_max() -> u8 {
        7
    }

    pub const fn f1_min() -> u8 {
        0
    }

    pub const fn f1_max() -> u8 {
        7
    }

    pub const fn f2_min() -> u8 {
        0
    }

    pub const fn f2_max() -> u8 {
        7
    }

    pub const fn f3_min() -> u8 {
        0
    }

    pub const fn f3_max() -> u8 {
        7
    }
}

#[asn(sequence, extensible_after(f0))]

#[derive(Default, Debug, Clone, PartialEq, Hash)]
pub struct Ts4mmooe1 {
    #[asn(integer(0..7))] pub f0: u8,
    #[asn(optional(integer(0..7)))] pub f1: Option<u8>,
    #[asn(optional(integer(0..7)))] pub f2: Option<u8>,
    #[asn(optional(integer(0..7)))] pub f3: Option<u8>,
}

impl Ts4mmooe1 {
    pub const fn f0_min() -> u8 {
        0
    }

    pub const fn f0_max() -> u8 {
        7
    }

    pub const fn f1_min() -> u8 {
        0
    }

    pub const fn f1_max() -> u8 {
        7
    }

    pub const fn f2_min() -> u8 {
        0
    }

    pub const fn f2_max() -> u8 {
        7
    }

    pub const fn f3_min() -> u8 {
        0
    }

    pub const fn f3_max() -> u8 {
        7
    }
}

#[asn(sequence, extensible_after(f1))]

#[derive(Default, Debug, Clone, PartialEq, Hash)]
pub struct Ts4mmooe2 {
    #[asn(integer(0..7))] pub f0: u8,
    #[asn(integer(0..7))] pub f1: u8,
    #[asn(optional(integer(0..7)))] pub f2: Option<u8>,
    #[asn(optional(integer(0..7)))] pub f3: Option<u8>,
}

impl Ts4mmooe2 {
    pub const fn f0_min() -> u8 {
        0
    }

    pub const fn f0_max() -> u8 {
        7
    }

    pub const fn f1_min() -> u8 {
        0
    }

    pub const fn f1_max() -> u8 {
        7
    }

    pub const fn f2_min() -> u8 {
        0
    }

    pub const fn f2_max() -> u8 {
        7
    }

    pub const fn f3_min() -> u8 {
        0
    }

    pub const fn f3_max() -> u8 {
        7
    }
}

#[asn(sequence, extensible_after(f2))]

#[derive(Default, Debug, Clone, PartialEq, Hash)]
pub struct Ts4mmooe3 {
    #[asn(integer(0..7))] pub f0: u8,
    #[asn(integer(0..7))] pub f1: u8,
    #[asn(optional(integer(0..7)))] pub f2: Option<u8>,
    #[asn(optional(integer(0..7)))] pub f3: Option<u8>,
}

impl Ts4mmooe3 {
    pub const fn f0_min() -> u8 {
        0
    }

    pub const fn f0_max() -> u8 {
        7
    }

    pub const fn f1_min() -> u8 {
        0
    }

    pub const fn f1_max() -> u8 {
        7
    }

    pub const fn f2_min() -> u8 {
        0
    }

    pub const fn f2_max() -> u8 {
        7
    }

    pub const fn f3_min() -> u8 {
        0
    }

    pub const fn f3_max() -> u8 {
        7
    }
}

#[asn(sequence, extensible_after(f3))]

#[derive(Default, Debug, Clone, PartialEq, Hash)]
pub struct Ts4mmooe4 {
    #[asn(integer(0..7))] pub f0: u8,
    #[asn(integer(0..7))] pub f1: u8,
    #[asn(optional(integer(0..7)))] pub f2: Option<u8>,
    #[asn(optional(integer(0..7)))] pub f3: Option<u8>,
}

impl Ts4mmooe4 {
    pub const fn f0_min() -> u8 {
        0
    }

    pub const fn f0_max() -> u8 {
        7
    }

    pub const fn f1_min() -> u8 {
        0
    }

    pub const fn f1_max() -> u8 {
        7
    }

    pub const fn f2_min() -> u8 {
        0
    }

    pub const fn f2_max() -> u8 {
        7
    }

    pub const fn f3_min() -> u8 {
        0
    }

    pub const fn f3_max() -> u8 {
        7
    }
}

#[asn(sequence)]

#[derive(Default, Debug, Clone, PartialEq, Hash)]
pub struct Ts4omoon {
    #[asn(optional(integer(0..7)))] pub f0: Option<u8>,
    #[asn(integer(0..7))] pub f1: u8,
    #[asn(optional(integer(0..7)))] pub f2: Option<u8>,
    #[asn(optional(integer(0..7)))] pub f3: Option<u8>,
}

impl Ts4omoon {
    pub const fn f0_min() -> u8 {
        0
    }

    pub const fn f0_max() -> u8 {
        7
    }

    pub const fn f1_min() -> u8 {
        0
    }

    pub const fn f1_max() -> u8 {
        7
    }

    pub const fn f2_min() -> u8 {
        0
    }

    pub const fn f2_max() -> u8 {
        7
    }

    pub const fn f3_min() -> u8 {
        0
    }

    pub const fn f3_max() -> u8 {
        7
    }
}

#[asn(sequence, extensible_after(f0))]

#[derive(Default, Debug, Clone, PartialEq, Hash)]
pub struct Ts4omooe0 {
    #[asn(optional(integer(0..7)))] pub f0: Option<u8>,
    #[asn(optional(integer(0..7)))] pub f1: Option<u8>,
    #[asn(optional(integer(0..7)))] pub f2: Option<u8>,
    #[asn(optional(integer(0..7)))] pub f3: Option<u8>,
}

impl Ts4omooe0 {
    pub const fn f0_min() -> u8 {
        0
    }

    pub const fn f0_max() -> u8 {
        7
    }

    pub const fn f1_min() -> u8 {
        0
    }

    pub const fn f1_max() -> u8 {
        7
    }

    pub const fn f2_min() -> u8 {
        0
    }

    pub const fn f2_max() -> u8 {
        7
    }

    pub const fn f3_min() -> u8 {
        0
    }

    pub const fn f3_max() -> u8 {
        7
    }
}

#[asn(sequence, extensible_after(f0))]

#[derive(Default, Debug, Clone, PartialEq, Hash)]
pub struct Ts4omooe1 {
    #[asn(optional(integer(0..7)))] pub f0: Option<u8>,
    #[asn(optional(integer(0..7)))] pub f1: Option<u8>,
    #[asn(optional(integer(0..7)))] pub f2: Option<u8>,
    #[asn(optional(integer(0..7)))] pub f3: Option<u8>,
}

impl Ts4omooe1 {
    pub const fn f0_min() -> u8 {
        0
    }

    pub const fn f0_max() -> u8 {
        7
    }

    pub const fn f1_min() -> u8 {
        0
    }

    pub const fn f1_max() -> u8 {
        7
    }

    pub const fn f2_min() -> u8 {
        0
    }

    pub const fn f2_max() -> u8 {
        7
    }

    pub const fn f3_min() -> u8 {
        0
    }

    pub const fn f3_max() -> u8 {
        7
    }
}

#[asn(sequence, extensible_after(f1))]

#[derive(Default, Debug, Clone, PartialEq, Hash)]
pub struct Ts4omooe2 {
    #[asn(optional(integer(0..7)))] pub f0: Option<u8>,
    #[asn(integer(0..7))] pub f1: u8,
    #[asn(optional(integer(0..7)))] pub f2: Option<u8>,
    #[asn(optional(integer(0..7)))] pub f3: Option<u8>,
}

impl Ts4omooe2 {
    pub const fn f0_min() -> u8 {
        0
    }

    pub const fn f0_max() -> u8 {
        7
    }

    pub const fn f1_min() -> u8 {
        0
    }

    pub const fn f1_max() -> u8 {
        7
    }

    pub const fn f2_min() -> u8 {
        0
    }

    pub const fn f2_max() -> u8 {
        7
    }

    pub const fn f3_min() -> u8 {
        0
    }

    pub const fn f3_max() -> u8 {
        7
    }
}

#[asn(sequence, extensible_after(f2))]

#[derive(Default, Debug, Clone, PartialEq, Hash)]
pub struct Ts4omooe3 {
    #[asn(optional(integer(0..7)))] pub f0: Option<u8>,
    #[asn(integer(0..7))] pub f1: u8,
    #[asn(optional(integer(0..7)))] pub f2: Option<u8>,
    #[asn(optional(integer(0..7)))] pub f3: Option<u8>,
}

impl Ts4omooe3 {
    pub const fn f0_min() -> u8 {
        0
    }

    pub const fn f0_max() -> u8 {
        7
    }

    pub const fn f1_min() -> u8 {
        0
    }

    pub const fn f1_max() -> u8 {
        7
    }

    pub const fn f2_min() -> u8 {
        0
    }

    pub const fn f2_max() -> u8 {
        7
    }

    pub const fn f3_min() -> u8 {
        0
    }

    pub const fn f3_max() -> u8 {
        7
    }
}

#[asn(sequence, extensible_after(f3))]

#[derive(Default, Debug, Clone, PartialEq, Hash)]
pub struct Ts4omooe4 {
    #[asn(optional(integer(0..7)))] pub f0: Option<u8>,
    #[asn(integer(0..7))] pub f1: u8,
    #[asn(optional(integer(0..7)))] pub f2: Option<u8>,
    #[asn(optional(integer(0..7)))] pub f3: Option<u8>,
}

impl Ts4omooe4 {
    pub const fn f0_min() -> u8 {
        0
    }

    pub const fn f0_max() -> u8 {
        7
    }

    pub const fn f1_min() -> u8 {
        0
    }

    pub const fn f1_max() -> u8 {
        7
    }

    pub const fn f2_min() -> u8 {
        0
    }

    pub const fn f2_max() -> u8 {
        7
    }

    pub const fn f3_min() -> u8 {
        0
    }

    pub const fn f3_max() -> u8 {
        7
    }
}

#[asn(sequence)]

#[derive(Default, Debug, Clone, PartialEq, Hash)]
pub struct Ts4dmoon {
    #[asn(default(integer(0..7), 5))] pub f0: u8,
    #[asn(integer(0..7))] pub f1: u8,
    #[asn(optional(integer(0..7)))] pub f2: Option<u8>,
    #[asn(optional(integer(0..7)))] pub f3: Option<u8>,
}

impl Ts4dmoon {
    pub const fn f0_min() -> u8 {
        0
    }

    pub const fn f0_max() -> u8 {
        7
    }

    pub const fn f1_min() -> u8 {
        0
    }

    pub const fn f1_max() -> u8 {
        7
    }

    pub const fn f2_min() -> u8 {
        0
    }

    pub const fn f2_max() -> u8 {
        7
    }

    pub const fn f3_min() -> u8 {
        0
    }

    pub const fn f3_max() -> u8 {
        7
    }
}

#[asn(sequence, extensible_after(f0))]

#[derive(Default, Debug, Clone, PartialEq, Hash)]
pub struct Ts4dmooe0 {
    #[asn(default(integer(0..7), 5))] pub f0: u8,
    #[asn(optional(integer(0..7)))] pub f1: Option<u8>,
    #[asn(optional(integer(0..7)))] pub f2: Option<u8>,
    #[asn(optional(integer(0..7)))] pub f3: Option<u8>,
}

impl Ts4dmooe0 {
    pub const fn f0_min() -> u8 {
        0
    }

    pub const fn f0_max() -> u8 {
        7
    }

    pub const fn f1_min() -> u8 {
        0
    }

    pub const fn f1_max() -> u8 {
        7
    }

    pub const fn f2_min() -> u8 {
        0
    }

    pub const fn f2_max() -> u8 {
        7
    }

    pub const fn f3_min() -> u8 {
        0
    }

    pub const fn f3_max() -> u8 {
        7
    }
}

#[asn(sequence, extensible_after(f0))]

#[derive(Default, Debug, Clone, PartialEq, Hash)]
pub struct Ts4dmooe1 {
    #[asn(default(integer(0..7), 5))] pub f0: u8,
    #[asn(optional(integer(0..7)))] pub f1: Option<u8>,
    #[asn(optional(integer(0..7)))] pub f2: Option<u8>,
    #[asn(optional(integer(0..7)))] pub f3: Option<u8>,
}

impl Ts4dmooe1 {
    pub const fn f0_min() -> u8 {
        0
    }

    pub const fn f0_max() -> u8 {
        7
    }

    pub const fn f1_min() -> u8 {
        0
    }

    pub const fn f1_max() -> u8 {
        7
    }

    pub const fn f2_min() -> u8 {
        0
    }

    pub const fn f2_max() -> u8 {
        7
    }

    pub const fn f3_min() -> u8 {
        0
    }

    pub const fn f3_max() -> u8 {
        7
    }
}

#[asn(sequence, extensible_after(f1))]

#[derive(Default, Debug, Clone, PartialEq, Hash)]
pub struct Ts4dmooe2 {
    #[asn(default(integer(0..7), 5))] pub f0: u8,
    #[asn(integer(0..7))] pub f1: u8,
    #[asn(optional(integer(0..7)))] pub f2: Option<u8>,
    #[asn(optional(integer(0..7)))] pub f3: Option<u8>,
}

impl Ts4dmooe2 {
    pub const fn f0_min() -> u8 {
        0
    }

    pub const fn f0_max() -> u8 {
        7
    }

    pub const fn f1_min() -> u8 {
        0
    }

    pub const fn f1_max() -> u8 {
        7
    }

    pub const fn f2_min() -> u8 {
        0
    }

    pub const fn f2_max() -> u8 {
        7
    }

    pub const fn f3_min() -> u8 {
        0
    }

    pub const fn f3_max() -> u8 {
        7
    }
}

#[asn(sequence, extensible_after(f2))]

#[derive(Default, Debug, Clone, PartialEq, Hash)]
pub struct Ts4dmooe3 {
    #[asn(default(integer(0..7), 5))] pub f0: u8,
    #[asn(integer(0..7))] pub f1: u8,
    #[asn(optional(integer(0..7)))] pub f2: Option<u8>,
    #[asn(optional(integer(0..7)))] pub f3: Option<u8>,
}

impl Ts4dmooe3 {
    pub const fn f0_min() -> u8 {
        0
    }

    pub const fn f0_max() -> u8 {
        7
    }

    pub const fn f1_min() -> u8 {
        0
    }

    pub const fn f1_max() -> u8 {
        7
    }

    pub const fn f2_min() -> u8 {
        0
    }

    pub const fn f2_max() -> u8 {
        7
    }

    pub const fn f3_min() -> u8 {
        0
    }

    pub const fn f3_max() -> u8 {
        7
    }
}

#[asn(sequence, extensible_after(f3))]

#[derive(Default, Debug, Clone, PartialEq, Hash)]
pub struct Ts4dmooe4 {
    #[asn(default(integer(0..7), 5))] pub f0: u8,
    #[asn(integer(0..7))] pub f1: u8,
    #[asn(optional(integer(0..7)))] pub f2: Option<u8>,
    #[asn(optional(integer(0..7)))] pub f3: Option<u8>,
}

impl Ts4dmooe4 {
    pub const fn f0_min() -> u8 {
        0
    }

    pub const fn f0_max() -> u8 {
        7
    }

    pub const fn f1_min() -> u8 {
        0
    }

    pub const fn f1_max() -> u8 {
        7
    }

    pub const fn f2_min() -> u8 {
        0
    }

    pub const fn f2_max() -> u8 {
        7
    }

    pub const fn f3_min() -> u8 {
        0
    }

    pub const fn f3_max() -> u8 {
        7
    }
}

#[asn(sequence)]

#[derive(Default, Debug, Clone, PartialEq, Hash)]
pub struct Ts4mooon {
    #[asn(integer(0..7))] pub f0: u8,
    #[asn(optional(integer(0..7)))] pub f1: Option<u8>,
    #[asn(optional(integer(0..7)))] pub f2: Option<u8>,
    #[asn(optional(integer(0..7)))] pub f3: Option<u8>,
}

impl Ts4mooon {
    pub const fn f0_min() -> u8 {
        0
    }

    pub const fn f0_max() -> u8 {
        7
    }

    pub const fn f1_min() -> u8 {
        0
    }

    pub const fn f1_max() -> u8 {
        7
    }

    pub const fn f2_min() -> u8 {
        0
    }

    pub const fn f2_max() -> u8 {
        7
    }

    pub const fn f3_min() -> u8 {
        0
    }

    pub const fn f3_max() -> u8 {
        7
    }
}

#[asn(sequence, extensible_after(f0))]

#[derive(Default, Debug, Clone, PartialEq, Hash)]
pub struct Ts4moooe0 {
    #[asn(integer(0..7))] pub f0: u8,
    #[asn(optional(integer(0..7)))] pub f1: Option<u8>,
    #[asn(optional(integer(0..7)))] pub f2: Option<u8>,
    #[asn(optional(integer(0..7)))] pub f3: Option<u8>,
}

impl Ts4moooe0 {
    pub const fn f0_min() -> u8 {
        0
    }

    pub const fn f0_max() -> u8 {
        7
    }

    pub const fn f1_min() -> u8 {
        0
    }

    pub const fn f1_max() -> u8 {
        7
    }

    pub const fn f2_min() -> u8 {
        0
    }

    pub const fn f2_max() -> u8 {
        7
    }

    pub const fn f3_min() -> u8 {
        0
    }

    pub const fn f3_max() -> u8 {
        7
    }
}

#[asn(sequence, extensible_after(f0))]

#[derive(Default, Debug, Clone, PartialEq, Hash)]
pub struct Ts4moooe1 {
    #[asn(integer(0..7))] pub f0: u8,
    #[asn(optional(integer(0..7)))] pub f1: Option<u8>,
    #[asn(optional(integer(0..7)))] pub f2: Option<u8>,
    #[asn(optional(integer(0..7)))] pub f3: Option<u8>,
}

impl Ts4moooe1 {
    pub const fn f0_min() -> u8 {
        0
    }

    pub const fn f0_max() -> u8 {
        7
    }

    pub const fn f1_min() -> u8 {
        0
    }

    pub const fn f1_max() -> u8 {
        7
    }

    pub const fn f2_min() -> u8 {
        0
    }

    pub const fn f2_max() -> u8 {
        7
    }

    pub const fn f3_min() -> u8 {
        0
    }

    pub const fn f3_max() -> u8 {
        7
    }
}

#[asn(sequence, extensible_after(f1))]

#[derive(Default, Debug, Clone, PartialEq, Hash)]
pub struct Ts4moooe2 {
    #[asn(integer(0..7))] pub f0: u8,
    #[asn(optional(integer(0..7)))] pub f1: Option<u8>,
    #[asn(optional(integer(0..7)))] pub f2: Option<u8>,
    #[asn(optional(integer(0..7)))] pub f3: Option<u8>,
}

impl Ts4moooe2 {
    pub const fn f0_min() -> u8 {
        0
    }

    pub const fn f0_max() -> u8 {
        7
    }

    pub const fn f1_min() -> u8 {
        0
    }

    pub const fn f1_max() -> u8 {
        7
    }

    pub const fn f2_min() -> u8 {
        0
    }

    pub const fn f2_max() -> u8 {
        7
    }

    pub const fn f3_min() -> u8 {
        0
    }

    pub const fn f3_max() -> u8 {
        7
    }
}

#[asn(sequence, extensible_after(f2))]

#[derive(Default, Debug, Clone, PartialEq, Hash)]
pub struct Ts4moooe3 {
    #[asn(integer(0..7))] pub f0: u8,
    #[asn(optional(integer(0..7)))] pub f1: Option<u8>,
    #[asn(optional(integer(0..7)))] pub f2: Option<u8>,
    #[asn(optional(integer(0..7)))] pub f3: Option<u8>,
}

impl Ts4moooe3 {
    pub const fn f0_min() -> u8 {
        0
    }

    pub const fn f0_max() -> u8 {
        7
    }

    pub const fn f1_min() -> u8 {
        0
    }

    pub const fn f1_max() -> u8 {
        7
    }

    pub const fn f2_min() -> u8 {
        0
    }

    pub const fn f2_max() -> u8 {
        7
    }

    pub const fn f3_min() -> u8 {
        0
    }

    pub const fn f3_max() -> u8 {
        7
    }
}

#[asn(sequence, extensible_after(f3))]

#[derive(Default, Debug, Clone, PartialEq, Hash)]
pub struct Ts4moooe4 {
    #[asn(integer(0..7))] pub f0: u8,
    #[asn(optional(integer(0..7)))] pub f1: Option<u8>,
    #[asn(optional(integer(0..7)))] pub f2: Option<u8>,
    #[asn(optional(integer(0..7)))] pub f3: Option<u8>,
}

impl Ts4moooe4 {
    pub const fn f0_min() -> u8 {
        0
    }

    pub const fn f0_max() -> u8 {
        7
    }

    pub const fn f1_min() -> u8 {
        0
    }

    pub const fn f1_max() -> u8 {
        7
    }

    pub const fn f2_min() -> u8 {
        0
    }

    pub const fn f2_max() -> u8 {
        7
    }

    pub const fn f3_min() -> u8 {
        0
    }

    pub const fn f3_max() -> u8 {
        7
    }
}
// ---- harness conversions (generated by the zoo build script from the items above) ----
impl FromValue for Ts4dmdmn {
    fn from_value(v: &Value) -> Self {
        let s = match v { Value::Seq(s) => s, other => panic!("Ts4dmdmn: expected Seq, got {other:?}") };
        assert_eq!(s.len(), 4, "Ts4dmdmn: component count");
        let _ = s;
        Ts4dmdmn {
            f0: FromValue::from_value(s[0].as_ref().expect("component f0 of Ts4dmdmn must be present")),
            f1: FromValue::from_value(s[1].as_ref().expect("component f1 of Ts4dmdmn must be present")),
            f2: FromValue::from_value(s[2].as_ref().expect("component f2 of Ts4dmdmn must be present")),
            f3: FromValue::from_value(s[3].as_ref().expect("component f3 of Ts4dmdmn must be present")),
        }
    }
}
impl ToValue for Ts4dmdmn {
    fn to_value(&self) -> Value {
        Value::Seq(vec![
            Some(self.f0.to_value()),
            Some(self.f1.to_value()),
            Some(self.f2.to_value()),
            Some(self.f3.to_value()),
        ])
    }
}
impl FromValue for Ts4dmdme0 {
    fn from_value(v: &Value) -> Self {
        let s = match v { Value::Seq(s) => s, other => panic!("Ts4dmdme0: expected Seq, got {other:?}") };
        assert_eq!(s.len(), 4, "Ts4dmdme0: component count");
        let _ = s;
        Ts4dmdme0 {
            f0: FromValue::from_value(s[0].as_ref().expect("component f0 of Ts4dmdme0 must be present")),
            f1: s[1].as_ref().map(FromValue::from_value),
            f2: FromValue::from_value(s[2].as_ref().expect("component f2 of Ts4dmdme0 must be present")),
            f3: s[3].as_ref().map(FromValue::from_value),
        }
    }
}
impl ToValue for Ts4dmdme0 {
    fn to_value(&self) -> Value {
        Value::Seq(vec![
            Some(self.f0.to_value()),
            self.f1.as_ref().map(|x| x.to_value()),
            Some(self.f2.to_value()),
            self.f3.as_ref().map(|x| x.to_value()),
        ])
    }
}
impl FromValue for Ts4dmdme1 {
    fn from_value(v: &Value) -> Self {
        let s = match v { Value::Seq(s) => s, other => panic!("Ts4dmdme1: expected Seq, got {other:?}") };
        assert_eq!(s.len(), 4, "Ts4dmdme1: component count");
        let _ = s;
        Ts4dmdme1 {
            f0: FromValue::from_value(s[0].as_ref().expect("component f0 of Ts4dmdme1 must be present")),
            f1: s[1].as_ref().map(FromValue::from_value),
            f2: FromValue::from_value(s[2].as_ref().expect("component f2 of Ts4dmdme1 must be present")),
            f3: s[3].as_ref().map(FromValue::from_value),
        }
    }
}
impl ToValue for Ts4dmdme1 {
    fn to_value(&self) -> Value {
        Value::Seq(vec![
            Some(self.f0.to_value()),
            self.f1.as_ref().map(|x| x.to_value()),
            Some(self.f2.to_value()),
            self.f3.as_ref().map(|x| x.to_value()),
        ])
    }
}
impl FromValue for Ts4dmdme2 {
    fn from_value(v: &Value) -> Self {
        let s = match v { Value::Seq(s) => s, other => panic!("Ts4dmdme2: expected Seq, got {other:?}") };
        assert_eq!(s.len(), 4, "Ts4dmdme2: component count");
        let _ = s;
        Ts4dmdme2 {
            f0: FromValue::from_value(s[0].as_ref().expect("component f0 of Ts4dmdme2 must be present")),
            f1: FromValue::from_value(s[1].as_ref().expect("component f1 of Ts4dmdme2 must be present")),
            f2: FromValue::from_value(s[2].as_ref().expect("component f2 of Ts4dmdme2 must be present")),
            f3: s[3].as_ref().map(FromValue::from_value),
        }
    }
}
impl ToValue for Ts4dmdme2 {
    fn to_value(&self) -> Value {
        Value::Seq(vec![
            Some(self.f0.to_value()),
            Some(self.f1.to_value()),
            Some(self.f2.to_value()),
            self.f3.as_ref().map(|x| x.to_value()),
        ])
    }
}
impl FromValue for Ts4dmdme3 {
    fn from_value(v: &Value) -> Self {
        let s = match v { Value::Seq(s) => s, other => panic!("Ts4dmdme3: expected Seq, got {other:?}") };
        assert_eq!(s.len(), 4, "Ts4dmdme3: component count");
        let _ = s;
        Ts4dmdme3 {
            f0: FromValue::from_value(s[0].as_ref().expect("component f0 of Ts4dmdme3 must be present")),
            f1: FromValue::from_value(s[1].as_ref().expect("component f1 of Ts4dmdme3 must be present")),
            f2: FromValue::from_value(s[2].as_ref().expect("component f2 of Ts4dmdme3 must be present")),
            f3: s[3].as_ref().map(FromValue::from_value),
        }
    }
}
impl ToValue for Ts4dmdme3 {
    fn to_value(&self) -> Value {
        Value::Seq(vec![
            Some(self.f0.to_value()),
            Some(self.f1.to_value()),
            Some(self.f2.to_value()),
            self.f3.as_ref().map(|x| x.to_value()),
        ])
    }
}
impl FromValue for Ts4dmdme4 {
    fn from_value(v: &Value) -> Self {
        let s = match v { Value::Seq(s) => s, other => panic!("Ts4dmdme4: expected Seq, got {other:?}") };
        assert_eq!(s.len(), 4, "Ts4dmdme4: component count");
        let _ = s;
        Ts4dmdme4 {
            f0: FromValue::from_value(s[0].as_ref().expect("component f0 of Ts4dmdme4 must be present")),
            f1: FromValue::from_value(s[1].as_ref().expect("component f1 of Ts4dmdme4 must be present")),
            f2: FromValue::from_value(s[2].as_ref().expect("component f2 of Ts4dmdme4 must be present")),
            f3: FromValue::from_value(s[3].as_ref().expect("component f3 of Ts4dmdme4 must be present")),
        }
    }
}
impl ToValue for Ts4dmdme4 {
    fn to_value(&self) -> Value {
        Value::Seq(vec![
            Some(self.f0.to_value()),
            Some(self.f1.to_value()),
            Some(self.f2.to_value()),
            Some(self.f3.to_value()),
        ])
    }
}
impl FromValue for Ts4modmn {
    fn from_value(v: &Value) -> Self {
        let s = match v { Value::Seq(s) => s, other => panic!("Ts4modmn: expected Seq, got {other:?}") };
        assert_eq!(s.len(), 4, "Ts4modmn: component count");
        let _ = s;
        Ts4modmn {
            f0: FromValue::from_value(s[0].as_ref().expect("component f0 of Ts4modmn must be present")),
            f1: s[1].as_ref().map(FromValue::from_value),
            f2: FromValue::from_value(s[2].as_ref().expect("component f2 of Ts4modmn must be present")),
            f3: FromValue::from_value(s[3].as_ref().expect("component f3 of Ts4modmn must be present")),
        }
    }
}
impl ToValue for Ts4modmn {
    fn to_value(&self) -> Value {
        Value::Seq(vec![
            Some(self.f0.to_value()),
            self.f1.as_ref().map(|x| x.to_value()),
            Some(self.f2.to_value()),
            Some(self.f3.to_value()),
        ])
    }
}
impl FromValue for Ts4modme0 {
    fn from_value(v: &Value) -> Self {
        let s = match v { Value::Seq(s) => s, other => panic!("Ts4modme0: expected Seq, got {other:?}") };
        assert_eq!(s.len(), 4, "Ts4modme0: component count");
        let _ = s;
        Ts4modme0 {
            f0: FromValue::from_value(s[0].as_ref().expect("component f0 of Ts4modme0 must be present")),
            f1: s[1].as_ref().map(FromValue::from_value),
            f2: FromValue::from_value(s[2].as_ref().expect("component f2 of Ts4modme0 must be present")),
            f3: s[3].as_ref().map(FromValue::from_value),
        }
    }
}
impl ToValue for Ts4modme0 {
    fn to_value(&self) -> Value {
        Value::Seq(vec![
            Some(self.f0.to_value()),
            self.f1.as_ref().map(|x| x.to_value()),
            Some(self.f2.to_value()),
            self.f3.as_ref().map(|x| x.to_value()),
        ])
    }
}
impl FromValue for Ts4modme1 {
    fn from_value(v: &Value) -> Self {
        let s = match v { Value::Seq(s) => s, other => panic!("Ts4modme1: expected Seq, got {other:?}") };
        assert_eq!(s.len(), 4, "Ts4modme1: component count");
        let _ = s;
        Ts4modme1 {
            f0: FromValue::from_value(s[0].as_ref().expect("component f0 of Ts4modme1 must be present")),
            f1: s[1].as_ref().map(FromValue::from_value),
            f2: FromValue::from_value(s[2].as_ref().expect("component f2 of Ts4modme1 must be present")),
            f3: s[3].as_ref().map(FromValue::from_value),
        }
    }
}
impl ToValue for Ts4modme1 {
    fn to_value(&self) -> Value {
        Value::Seq(vec![
            Some(self.f0.to_value()),
            self.f1.as_ref().map(|x| x.to_value()),
            Some(self.f2.to_value()),
            self.f3.as_ref().map(|x| x.to_value()),
        ])
    }
}
impl FromValue for Ts4modme2 {
    fn from_value(v: &Value) -> Self {
        let s = match v { Value::Seq(s) => s, other => panic!("Ts4modme2: expected Seq, got {other:?}") };
        assert_eq!(s.len(), 4, "Ts4modme2: component count");
        let _ = s;
        Ts4modme2 {
            f0: FromValue::from_value(s[0].as_ref().expect("component f0 of Ts4modme2 must be present")),
            f1: s[1].as_ref().map(FromValue::from_value),
            f2: FromValue::from_value(s[2].as_ref().expect("component f2 of Ts4modme2 must be present")),
            f3: s[3].as_ref().map(FromValue::from_value),
        }
    }
}
impl ToValue for Ts4modme2 {
    fn to_value(&self) -> Value {
        Value::Seq(vec![
            Some(self.f0.to_value()),
            self.f1.as_ref().map(|x| x.to_value()),
            Some(self.f2.to_value()),
            self.f3.as_ref().map(|x| x.to_value()),
        ])
    }
}
impl FromValue for Ts4modme3 {
    fn from_value(v: &Value) -> Self {
        let s = match v { Value::Seq(s) => s, other => panic!("Ts4modme3: expected Seq, got {other:?}") };
        assert_eq!(s.len(), 4, "Ts4modme3: component count");
        let _ = s;
        Ts4modme3 {
            f0: FromValue::from_value(s[0].as_ref().expect("component f0 of Ts4modme3 must be present")),
            f1: s[1].as_ref().map(FromValue::from_value),
            f2: FromValue::from_value(s[2].as_ref().expect("component f2 of Ts4modme3 must be present")),
            f3: s[3].as_ref().map(FromValue::from_value),
        }
    }
}
impl ToValue for Ts4modme3 {
    fn to_value(&self) -> Value {
        Value::Seq(vec![
            Some(self.f0.to_value()),
            self.f1.as_ref().map(|x| x.to_value()),
            Some(self.f2.to_value()),
            self.f3.as_ref().map(|x| x.to_value()),
        ])
    }
}
impl FromValue for Ts4modme4 {
    fn from_value(v: &Value) -> Self {
        let s = match v { Value::Seq(s) => s, other => panic!("Ts4modme4: expected Seq, got {other:?}") };
        assert_eq!(s.len(), 4, "Ts4modme4: component count");
        let _ = s;
        Ts4modme4 {
            f0: FromValue::from_value(s[0].as_ref().expect("component f0 of Ts4modme4 must be present")),
            f1: s[1].as_ref().map(FromValue::from_value),
            f2: FromValue::from_value(s[2].as_ref().expect("component f2 of Ts4modme4 must be present")),
            f3: FromValue::from_value(s[3].as_ref().expect("component f3 of Ts4modme4 must be present")),
        }
    }
}
impl ToValue for Ts4modme4 {
    fn to_value(&self) -> Value {
        Value::Seq(vec![
            Some(self.f0.to_value()),
            self.f1.as_ref().map(|x| x.to_value()),
            Some(self.f2.to_value()),
            Some(self.f3.to_value()),
        ])
    }
}
impl FromValue for Ts4oodmn {
    fn from_value(v: &Value) -> Self {
        let s = match v { Value::Seq(s) => s, other => panic!("Ts4oodmn: expected Seq, got {other:?}") };
        assert_eq!(s.len(), 4, "Ts4oodmn: component count");
        let _ = s;
        Ts4oodmn {
            f0: s[0].as_ref().map(FromValue::from_value),
            f1: s[1].as_ref().map(FromValue::from_value),
            f2: FromValue::from_value(s[2].as_ref().expect("component f2 of Ts4oodmn must be present")),
            f3: FromValue::from_value(s[3].as_ref().expect("component f3 of Ts4oodmn must be present")),
        }
    }
}
impl ToValue for Ts4oodmn {
    fn to_value(&self) -> Value {
        Value::Seq(vec![
            self.f0.as_ref().map(|x| x.to_value()),
            self.f1.as_ref().map(|x| x.to_value()),
            Some(self.f2.to_value()),
            Some(self.f3.to_value()),
        ])
    }
}
impl FromValue for Ts4oodme0 {
    fn from_value(v: &Value) -> Self {
        let s = match v { Value::Seq(s) => s, other => panic!("Ts4oodme0: expected Seq, got {other:?}") };
        assert_eq!(s.len(), 4, "Ts4oodme0: component count");
        let _ = s;
        Ts4oodme0 {
            f0: s[0].as_ref().map(FromValue::from_value),
            f1: s[1].as_ref().map(FromValue::from_value),
            f2: FromValue::from_value(s[2].as_ref().expect("component f2 of Ts4oodme0 must be present")),
            f3: s[3].as_ref().map(FromValue::from_value),
        }
    }
}
impl ToValue for Ts4oodme0 {
    fn to_value(&self) -> Value {
        Value::Seq(vec![
            self.f0.as_ref().map(|x| x.to_value()),
            self.f1.as_ref().map(|x| x.to_value()),
            Some(self.f2.to_value()),
            self.f3.as_ref().map(|x| x.to_value()),
        ])
    }
}
impl FromValue for Ts4oodme1 {
    fn from_value(v: &Value) -> Self {
        let s = match v { Value::Seq(s) => s, other => panic!("Ts4oodme1: expected Seq, got {other:?}") };
        assert_eq!(s.len(), 4, "Ts4oodme1: component count");
        let _ = s;
        Ts4oodme1 {
            f0: s[0].as_ref().map(FromValue::from_value),
            f1: s[1].as_ref().map(FromValue::from_value),
            f2: FromValue::from_value(s[2].as_ref().expect("component f2 of Ts4oodme1 must be present")),
            f3: s[3].as_ref().map(FromValue::from_value),
        }
    }
}
impl ToValue for Ts4oodme1 {
    fn to_value(&self) -> Value {
        Value::Seq(vec![
            self.f0.as_ref().map(|x| x.to_value()),
            self.f1.as_ref().map(|x| x.to_value()),
            Some(self.f2.to_value()),
            self.f3.as_ref().map(|x| x.to_value()),
        ])
    }
}
impl FromValue for Ts4oodme2 {
    fn from_value(v: &Value) -> Self {
        let s = match v { Value::Seq(s) => s, other => panic!("Ts4oodme2: expected Seq, got {other:?}") };
        assert_eq!(s.len(), 4, "Ts4oodme2: component count");
        let _ = s;
        Ts4oodme2 {
            f0: s[0].as_ref().map(FromValue::from_value),
            f1: s[1].as_ref().map(FromValue::from_value),
            f2: FromValue::from_value(s[2].as_ref().expect("component f2 of Ts4oodme2 must be present")),
            f3: s[3].as_ref().map(FromValue::from_value),
        }
    }
}
impl ToValue for Ts4oodme2 {
    fn to_value(&self) -> Value {
        Value::Seq(vec![
            self.f0.as_ref().map(|x| x.to_value()),
            self.f1.as_ref().map(|x| x.to_value()),
            Some(self.f2.to_value()),
            self.f3.as_ref().map(|x| x.to_value()),
        ])
    }
}
impl FromValue for Ts4oodme3 {
    fn from_value(v: &Value) -> Self {
        let s = match v { Value::Seq(s) => s, other => panic!("Ts4oodme3: expected Seq, got {other:?}") };
        assert_eq!(s.len(), 4, "Ts4oodme3: component count");
        let _ = s;
        Ts4oodme3 {
            f0: s[0].as_ref().map(FromValue::from_value),
            f1: s[1].as_ref().map(FromValue::from_value),
            f2: FromValue::from_value(s[2].as_ref().expect("component f2 of Ts4oodme3 must be present")),
            f3: s[3].as_ref().map(FromValue::from_value),
        }
    }
}
impl ToValue for Ts4oodme3 {
    fn to_value(&self) -> Value {
        Value::Seq(vec![
            self.f0.as_ref().map(|x| x.to_value()),
            self.f1.as_ref().map(|x| x.to_value()),
            Some(self.f2.to_value()),
            self.f3.as_ref().map(|x| x.to_value()),
        ])
    }
}
impl FromValue for Ts4oodme4 {
    fn from_value(v: &Value) -> Self {
        let s = match v { Value::Seq(s) => s, other => panic!("Ts4oodme4: expected Seq, got {other:?}") };
        assert_eq!(s.len(), 4, "Ts4oodme4: component count");
        let _ = s;
        Ts4oodme4 {
            f0: s[0].as_ref().map(FromValue::from_value),
            f1: s[1].as_ref().map(FromValue::from_value),
            f2: FromValue::from_value(s[2].as_ref().expect("component f2 of Ts4oodme4 must be present")),
            f3: FromValue::from_value(s[3].as_ref().expect("component f3 of Ts4oodme4 must be present")),
        }
    }
}
impl ToValue for Ts4oodme4 {
    fn to_value(&self) -> Value {
        Value::Seq(vec![
            self.f0.as_ref().map(|x| x.to_value()),
            self.f1.as_ref().map(|x| x.to_value()),
            Some(self.f2.to_value()),
            Some(self.f3.to_value()),
        ])
    }
}
impl FromValue for Ts4dodmn {
    fn from_value(v: &Value) -> Self {
        let s = match v { Value::Seq(s) => s, other => panic!("Ts4dodmn: expected Seq, got {other:?}") };
        assert_eq!(s.len(), 4, "Ts4dodmn: component count");
        let _ = s;
        Ts4dodmn {
            f0: FromValue::from_value(s[0].as_ref().expect("component f0 of Ts4dodmn must be present")),
            f1: s[1].as_ref().map(FromValue::from_value),
            f2: FromValue::from_value(s[2].as_ref().expect("component f2 of Ts4dodmn must be present")),
            f3: FromValue::from_value(s[3].as_ref().expect("component f3 of Ts4dodmn must be present")),
        }
    }
}
impl ToValue for Ts4dodmn {
    fn to_value(&self) -> Value {
        Value::Seq(vec![
            Some(self.f0.to_value()),
            self.f1.as_ref().map(|x| x.to_value()),
            Some(self.f2.to_value()),
            Some(self.f3.to_value()),
        ])
    }
}
impl FromValue for Ts4dodme0 {
    fn from_value(v: &Value) -> Self {
        let s = match v { Value::Seq(s) => s, other => panic!("Ts4dodme0: expected Seq, got {other:?}") };
        assert_eq!(s.len(), 4, "Ts4dodme0: component count");
        let _ = s;
        Ts4dodme0 {
            f0: FromValue::from_value(s[0].as_ref().expect("component f0 of Ts4dodme0 must be present")),
            f1: s[1].as_ref().map(FromValue::from_value),
            f2: FromValue::from_value(s[2].as_ref().expect("component f2 of Ts4dodme0 must be present")),
            f3: s[3].as_ref().map(FromValue::from_value),
        }
    }
}
impl ToValue for Ts4dodme0 {
    fn to_value(&self) -> Value {
        Value::Seq(vec![
            Some(self.f0.to_value()),
            self.f1.as_ref().map(|x| x.to_value()),
            Some(self.f2.to_value()),
            self.f3.as_ref().map(|x| x.to_value()),
        ])
    }
}
impl FromValue for Ts4dodme1 {
    fn from_value(v: &Value) -> Self {
        let s = match v { Value::Seq(s) => s, other => panic!("Ts4dodme1: expected Seq, got {other:?}") };
        assert_eq!(s.len(), 4, "Ts4dodme1: component count");
        let _ = s;
        Ts4dodme1 {
            f0: FromValue::from_value(s[0].as_ref().expect("component f0 of Ts4dodme1 must be present")),
            f1: s[1].as_ref().map(FromValue::from_value),
            f2: FromValue::from_value(s[2].as_ref().expect("component f2 of Ts4dodme1 must be present")),
            f3: s[3].as_ref().map(FromValue::from_value),
        }
    }
}
impl ToValue for Ts4dodme1 {
    fn to_value(&self) -> Value {
        Value::Seq(vec![
            Some(self.f0.to_value()),
            self.f1.as_ref().map(|x| x.to_value()),
            Some(self.f2.to_value()),
            self.f3.as_ref().map(|x| x.to_value()),
        ])
    }
}
impl FromValue for Ts4dodme2 {
    fn from_value(v: &Value) -> Self {
        let s = match v { Value::Seq(s) => s, other => panic!("Ts4dodme2: expected Seq, got {other:?}") };
        assert_eq!(s.len(), 4, "Ts4dodme2: component count");
        let _ = s;
        Ts4dodme2 {
            f0: FromValue::from_value(s[0].as_ref().expect("component f0 of Ts4dodme2 must be present")),
            f1: s[1].as_ref().map(FromValue::from_value),
            f2: FromValue::from_value(s[2].as_ref().expect("component f2 of Ts4dodme2 must be present")),
            f3: s[3].as_ref().map(FromValue::from_value),
        }
    }
}
impl ToValue for Ts4dodme2 {
    fn to_value(&self) -> Value {
        Value::Seq(vec![
            Some(self.f0.to_value()),
            self.f1.as_ref().map(|x| x.to_value()),
            Some(self.f2.to_value()),
            self.f3.as_ref().map(|x| x.to_value()),
        ])
    }
}
impl FromValue for Ts4dodme3 {
    fn from_value(v: &Value) -> Self {
        let s = match v { Value::Seq(s) => s, other => panic!("Ts4dodme3: expected Seq, got {other:?}") };
        assert_eq!(s.len(), 4, "Ts4dodme3: component count");
        let _ = s;
        Ts4dodme3 {
            f0: FromValue::from_value(s[0].as_ref().expect("component f0 of Ts4dodme3 must be present")),
            f1: s[1].as_ref().map(FromValue::from_value),
            f2: FromValue::from_value(s[2].as_ref().expect("component f2 of Ts4dodme3 must be present")),
            f3: s[3].as_ref().map(FromValue::from_value),
        }
    }
}
impl ToValue for Ts4dodme3 {
    fn to_value(&self) -> Value {
        Value::Seq(vec![
            Some(self.f0.to_value()),
            self.f1.as_ref().map(|x| x.to_value()),
            Some(self.f2.to_value()),
            self.f3.as_ref().map(|x| x.to_value()),
        ])
    }
}
impl FromValue for Ts4dodme4 {
    fn from_value(v: &Value) -> Self {
        let s = match v { Value::Seq(s) => s, other => panic!("Ts4dodme4: expected Seq, got {other:?}") };
        assert_eq!(s.len(), 4, "Ts4dodme4: component count");
        let _ = s;
        Ts4dodme4 {
            f0: FromValue::from_value(s[0].as_ref().expect("component f0 of Ts4dodme4 must be present")),
            f1: s[1].as_ref().map(FromValue::from_value),
            f2: FromValue::from_value(s[2].as_ref().expect("component f2 of Ts4dodme4 must be present")),
            f3: FromValue::from_value(s[3].as_ref().expect("component f3 of Ts4dodme4 must be present")),
        }
    }
}
impl ToValue for Ts4dodme4 {
    fn to_value(&self) -> Value {
        Value::Seq(vec![
            Some(self.f0.to_value()),
            self.f1.as_ref().map(|x| x.to_value()),
            Some(self.f2.to_value()),
            Some(self.f3.to_value()),
        ])
    }
}
impl FromValue for Ts4mddmn {
    fn from_value(v: &Value) -> Self {
        let s = match v { Value::Seq(s) => s, other => panic!("Ts4mddmn: expected Seq, got {other:?}") };
        assert_eq!(s.len(), 4, "Ts4mddmn: component count");
        let _ = s;
        Ts4mddmn {
            f0: FromValue::from_value(s[0].as_ref().expect("component f0 of Ts4mddmn must be present")),
            f1: FromValue::from_value(s[1].as_ref().expect("component f1 of Ts4mddmn must be present")),
            f2: FromValue::from_value(s[2].as_ref().expect("component f2 of Ts4mddmn must be present")),
            f3: FromValue::from_value(s[3].as_ref().expect("component f3 of Ts4mddmn must be present")),
        }
    }
}
impl ToValue for Ts4mddmn {
    fn to_value(&self) -> Value {
        Value::Seq(vec![
            Some(self.f0.to_value()),
            Some(self.f1.to_value()),
            Some(self.f2.to_value()),
            Some(self.f3.to_value()),
        ])
    }
}
impl FromValue for Ts4mddme0 {
    fn from_value(v: &Value) -> Self {
        let s = match v { Value::Seq(s) => s, other => panic!("Ts4mddme0: expected Seq, got {other:?}") };
        assert_eq!(s.len(), 4, "Ts4mddme0: component count");
        let _ = s;
        Ts4mddme0 {
            f0: FromValue::from_value(s[0].as_ref().expect("component f0 of Ts4mddme0 must be present")),
            f1: FromValue::from_value(s[1].as_ref().expect("component f1 of Ts4mddme0 must be present")),
            f2: FromValue::from_value(s[2].as_ref().expect("component f2 of Ts4mddme0 must be present")),
            f3: s[3].as_ref().map(FromValue::from_value),
        }
    }
}
impl ToValue for Ts4mddme0 {
    fn to_value(&self) -> Value {
        Value::Seq(vec![
            Some(self.f0.to_value()),
            Some(self.f1.to_value()),
            Some(self.f2.to_value()),
            self.f3.as_ref().map(|x| x.to_value()),
        ])
    }
}
impl FromValue for Ts4mddme1 {
    fn from_value(v: &Value) -> Self {
        let s = match v { Value::Seq(s) => s, other => panic!("Ts4mddme1: expected Seq, got {other:?}") };
        assert_eq!(s.len(), 4, "Ts4mddme1: component count");
        let _ = s;
        Ts4mddme1 {
            f0: FromValue::from_value(s[0].as_ref().expect("component f0 of Ts4mddme1 must be present")),
            f1: FromValue::from_value(s[1].as_ref().expect("component f1 of Ts4mddme1 must be present")),
            f2: FromValue::from_value(s[2].as_ref().expect("component f2 of Ts4mddme1 must be present")),
            f3: s[3].as_ref().map(FromValue::from_value),
        }
    }
}
impl ToValue for Ts4mddme1 {
    fn to_value(&self) -> Value {
        Value::Seq(vec![
            Some(self.f0.to_value()),
            Some(self.f1.to_value()),
            Some(self.f2.to_value()),
            self.f3.as_ref().map(|x| x.to_value()),
        ])
    }
}
impl FromValue for Ts4mddme2 {
    fn from_value(v: &Value) -> Self {
        let s = match v { Value::Seq(s) => s, other => panic!("Ts4mddme2: expected Seq, got {other:?}") };
        assert_eq!(s.len(), 4, "Ts4mddme2: component count");
        let _ = s;
        Ts4mddme2 {
            f0: FromValue::from_value(s[0].as_ref().expect("component f0 of Ts4mddme2 must be present")),
            f1: FromValue::from_value(s[1].as_ref().expect("component f1 of Ts4mddme2 must be present")),
            f2: FromValue::from_value(s[2].as_ref().expect("component f2 of Ts4mddme2 must be present")),
            f3: s[3].as_ref().map(FromValue::from_value),
        }
    }
}
impl ToValue for Ts4mddme2 {
    fn to_value(&self) -> Value {
        Value::Seq(vec![
            Some(self.f0.to_value()),
            Some(self.f1.to_value()),
            Some(self.f2.to_value()),
            self.f3.as_ref().map(|x| x.to_value()),
        ])
    }
}
impl FromValue for Ts4mddme3 {
    fn from_value(v: &Value) -> Self {
        let s = match v { Value::Seq(s) => s, other => panic!("Ts4mddme3: expected Seq, got {other:?}") };
        assert_eq!(s.len(), 4, "Ts4mddme3: component count");
        let _ = s;
        Ts4mddme3 {
            f0: FromValue::from_value(s[0].as_ref().expect("component f0 of Ts4mddme3 must be present")),
            f1: FromValue::from_value(s[1].as_ref().expect("component f1 of Ts4mddme3 must be present")),
            f2: FromValue::from_value(s[2].as_ref().expect("component f2 of Ts4mddme3 must be present")),
            f3: s[3].as_ref().map(FromValue::from_value),
        }
    }
}
impl ToValue for Ts4mddme3 {
    fn to_value(&self) -> Value {
        Value::Seq(vec![
            Some(self.f0.to_value()),
            Some(self.f1.to_value()),
            Some(self.f2.to_value()),
            self.f3.as_ref().map(|x| x.to_value()),
        ])
    }
}
impl FromValue for Ts4mddme4 {
    fn from_value(v: &Value) -> Self {
        let s = match v { Value::Seq(s) => s, other => panic!("Ts4mddme4: expected Seq, got {other:?}") };
        assert_eq!(s.len(), 4, "Ts4mddme4: component count");
        let _ = s;
        Ts4mddme4 {
            f0: FromValue::from_value(s[0].as_ref().expect("component f0 of Ts4mddme4 must be present")),
            f1: FromValue::from_value(s[1].as_ref().expect("component f1 of Ts4mddme4 must be present")),
            f2: FromValue::from_value(s[2].as_ref().expect("component f2 of Ts4mddme4 must be present")),
            f3: FromValue::from_value(s[3].as_ref().expect("component f3 of Ts4mddme4 must be present")),
        }
    }
}
impl ToValue for Ts4mddme4 {
    fn to_value(&self) -> Value {
        Value::Seq(vec![
            Some(self.f0.to_value()),
            Some(self.f1.to_value()),
            Some(self.f2.to_value()),
            Some(self.f3.to_value()),
        ])
    }
}
impl FromValue for Ts4oddmn {
    fn from_value(v: &Value) -> Self {
        let s = match v { Value::Seq(s) => s, other => panic!("Ts4oddmn: expected Seq, got {other:?}") };
        assert_eq!(s.len(), 4, "Ts4oddmn: component count");
        let _ = s;
        Ts4oddmn {
            f0: s[0].as_ref().map(FromValue::from_value),
            f1: FromValue::from_value(s[1].as_ref().expect("component f1 of Ts4oddmn must be present")),
            f2: FromValue::from_value(s[2].as_ref().expect("component f2 of Ts4oddmn must be present")),
            f3: FromValue::from_value(s[3].as_ref().expect("component f3 of Ts4oddmn must be present")),
        }
    }
}
impl ToValue for Ts4oddmn {
    fn to_value(&self) -> Value {
        Value::Seq(vec![
            self.f0.as_ref().map(|x| x.to_value()),
            Some(self.f1.to_value()),
            Some(self.f2.to_value()),
            Some(self.f3.to_value()),
        ])
    }
}
impl FromValue for Ts4oddme0 {
    fn from_value(v: &Value) -> Self {
        let s = match v { Value::Seq(s) => s, other => panic!("Ts4oddme0: expected Seq, got {other:?}") };
        assert_eq!(s.len(), 4, "Ts4oddme0: component count");
        let _ = s;
        Ts4oddme0 {
            f0: s[0].as_ref().map(FromValue::from_value),
            f1: FromValue::from_value(s[1].as_ref().expect("component f1 of Ts4oddme0 must be present")),
            f2: FromValue::from_value(s[2].as_ref().expect("component f2 of Ts4oddme0 must be present")),
            f3: s[3].as_ref().map(FromValue::from_value),
        }
    }
}
impl ToValue for Ts4oddme0 {
    fn to_value(&self) -> Value {
        Value::Seq(vec![
            self.f0.as_ref().map(|x| x.to_value()),
            Some(self.f1.to_value()),
            Some(self.f2.to_value()),
            self.f3.as_ref().map(|x| x.to_value()),
        ])
    }
}
impl FromValue for Ts4oddme1 {
    fn from_value(v: &Value) -> Self {
        let s = match v { Value::Seq(s) => s, other => panic!("Ts4oddme1: expected Seq, got {other:?}") };
        assert_eq!(s.len(), 4, "Ts4oddme1: component count");
        let _ = s;
        Ts4oddme1 {
            f0: s[0].as_ref().map(FromValue::from_value),
            f1: FromValue::from_value(s[1].as_ref().expect("component f1 of Ts4oddme1 must be present")),
            f2: FromValue::from_value(s[2].as_ref().expect("component f2 of Ts4oddme1 must be present")),
            f3: s[3].as_ref().map(FromValue::from_value),
        }
    }
}
impl ToValue for Ts4oddme1 {
    fn to_value(&self) -> Value {
        Value::Seq(vec![
            self.f0.as_ref().map(|x| x.to_value()),
            Some(self.f1.to_value()),
            Some(self.f2.to_value()),
            self.f3.as_ref().map(|x| x.to_value()),
        ])
    }
}
impl FromValue for Ts4oddme2 {
    fn from_value(v: &Value) -> Self {
        let s = match v { Value::Seq(s) => s, other => panic!("Ts4oddme2: expected Seq, got {other:?}") };
        assert_eq!(s.len(), 4, "Ts4oddme2: component count");
        let _ = s;
        Ts4oddme2 {
            f0: s[0].as_ref().map(FromValue::from_value),
            f1: FromValue::from_value(s[1].as_ref().expect("component f1 of Ts4oddme2 must be present")),
            f2: FromValue::from_value(s[2].as_ref().expect("component f2 of Ts4oddme2 must be present")),
            f3: s[3].as_ref().map(FromValue::from_value),
        }
    }
}
impl ToValue for Ts4oddme2 {
    fn to_value(&self) -> Value {
        Value::Seq(vec![
            self.f0.as_ref().map(|x| x.to_value()),
            Some(self.f1.to_value()),
            Some(self.f2.to_value()),
            self.f3.as_ref().map(|x| x.to_value()),
        ])
    }
}
impl FromValue for Ts4oddme3 {
    fn from_value(v: &Value) -> Self {
        let s = match v { Value::Seq(s) => s, other => panic!("Ts4oddme3: expected Seq, got {other:?}") };
        assert_eq!(s.len(), 4, "Ts4oddme3: component count");
        let _ = s;
        Ts4oddme3 {
            f0: s[0].as_ref().map(FromValue::from_value),
            f1: FromValue::from_value(s[1].as_ref().expect("component f1 of Ts4oddme3 must be present")),
            f2: FromValue::from_value(s[2].as_ref().expect("component f2 of Ts4oddme3 must be present")),
            f3: s[3].as_ref().map(FromValue::from_value),
        }
    }
}
impl ToValue for Ts4oddme3 {
    fn to_value(&self) -> Value {
        Value::Seq(vec![
            self.f0.as_ref().map(|x| x.to_value()),
            Some(self.f1.to_value()),
            Some(self.f2.to_value()),
            self.f3.as_ref().map(|x| x.to_value()),
        ])
    }
}
impl FromValue for Ts4oddme4 {
    fn from_value(v: &Value) -> Self {
        let s = match v { Value::Seq(s) => s, other => panic!("Ts4oddme4: expected Seq, got {other:?}") };
        assert_eq!(s.len(), 4, "Ts4oddme4: component count");
        let _ = s;
        Ts4oddme4 {
            f0: s[0].as_ref().map(FromValue::from_value),
            f1: FromValue::from_value(s[1].as_ref().expect("component f1 of Ts4oddme4 must be present")),
            f2: FromValue::from_value(s[2].as_ref().expect("component f2 of Ts4oddme4 must be present")),
            f3: FromValue::from_value(s[3].as_ref().expect("component f3 of Ts4oddme4 must be present")),
        }
    }
}
impl ToValue for Ts4oddme4 {
    fn to_value(&self) -> Value {
        Value::Seq(vec![
            self.f0.as_ref().map(|x| x.to_value()),
            Some(self.f1.to_value()),
            Some(self.f2.to_value()),
            Some(self.f3.to_value()),
        ])
    }
}
impl FromValue for Ts4dddmn {
    fn from_value(v: &Value) -> Self {
        let s = match v { Value::Seq(s) => s, other => panic!("Ts4dddmn: expected Seq, got {other:?}") };
        assert_eq!(s.len(), 4, "Ts4dddmn: component count");
        let _ = s;
        Ts4dddmn {
            f0: FromValue::from_value(s[0].as_ref().expect("component f0 of Ts4dddmn must be present")),
            f1: FromValue::from_value(s[1].as_ref().expect("component f1 of Ts4dddmn must be present")),
            f2: FromValue::from_value(s[2].as_ref().expect("component f2 of Ts4dddmn must be present")),
            f3: FromValue::from_value(s[3].as_ref().expect("component f3 of Ts4dddmn must be present")),
        }
    }
}
impl ToValue for Ts4dddmn {
    fn to_value(&self) -> Value {
        Value::Seq(vec![
            Some(self.f0.to_value()),
            Some(self.f1.to_value()),
            Some(self.f2.to_value()),
            Some(self.f3.to_value()),
        ])
    }
}
impl FromValue for Ts4dddme0 {
    fn from_value(v: &Value) -> Self {
        let s = match v { Value::Seq(s) => s, other => panic!("Ts4dddme0: expected Seq, got {other:?}") };
        assert_eq!(s.len(), 4, "Ts4dddme0: component count");
        let _ = s;
        Ts4dddme0 {
            f0: FromValue::from_value(s[0].as_ref().expect("component f0 of Ts4dddme0 must be present")),
            f1: FromValue::from_value(s[1].as_ref().expect("component f1 of Ts4dddme0 must be present")),
            f2: FromValue::from_value(s[2].as_ref().expect("component f2 of Ts4dddme0 must be present")),
            f3: s[3].as_ref().map(FromValue::from_value),
        }
    }
}
impl ToValue for Ts4dddme0 {
    fn to_value(&self) -> Value {
        Value::Seq(vec![
            Some(self.f0.to_value()),
            Some(self.f1.to_value()),
            Some(self.f2.to_value()),
            self.f3.as_ref().map(|x| x.to_value()),
        ])
    }
}
impl FromValue for Ts4dddme1 {
    fn from_value(v: &Value) -> Self {
        let s = match v { Value::Seq(s) => s, other => panic!("Ts4dddme1: expected Seq, got {other:?}") };
        assert_eq!(s.len(), 4, "Ts4dddme1: component count");
        let _ = s;
        Ts4dddme1 {
            f0: FromValue::from_value(s[0].as_ref().expect("component f0 of Ts4dddme1 must be present")),
            f1: FromValue::from_value(s[1].as_ref().expect("component f1 of Ts4dddme1 must be present")),
            f2: FromValue::from_value(s[2].as_ref().expect("component f2 of Ts4dddme1 must be present")),
            f3: s[3].as_ref().map(FromValue::from_value),
        }
    }
}
impl ToValue for Ts4dddme1 {
    fn to_value(&self) -> Value {
        Value::Seq(vec![
            Some(self.f0.to_value()),
            Some(self.f1.to_value()),
            Some(self.f2.to_value()),
            self.f3.as_ref().map(|x| x.to_value()),
        ])
    }
}
impl FromValue for Ts4dddme2 {
    fn from_value(v: &Value) -> Self {
        let s = match v { Value::Seq(s) => s, other => panic!("Ts4dddme2: expected Seq, got {other:?}") };
        assert_eq!(s.len(), 4, "Ts4dddme2: component count");
        let _ = s;
        Ts4dddme2 {
            f0: FromValue::from_value(s[0].as_ref().expect("component f0 of Ts4dddme2 must be present")),
            f1: FromValue::from_value(s[1].as_ref().expect("component f1 of Ts4dddme2 must be present")),
            f2: FromValue::from_value(s[2].as_ref().expect("component f2 of Ts4dddme2 must be present")),
            f3: s[3].as_ref().map(FromValue::from_value),
        }
    }
}
impl ToValue for Ts4dddme2 {
    fn to_value(&self) -> Value {
        Value::Seq(vec![
            Some(self.f0.to_value()),
            Some(self.f1.to_value()),
            Some(self.f2.to_value()),
            self.f3.as_ref().map(|x| x.to_value()),
        ])
    }
}
impl FromValue for Ts4dddme3 {
    fn from_value(v: &Value) -> Self {
        let s = match v { Value::Seq(s) => s, other => panic!("Ts4dddme3: expected Seq, got {other:?}") };
        assert_eq!(s.len(), 4, "Ts4dddme3: component count");
        let _ = s;
        Ts4dddme3 {
            f0: FromValue::from_value(s[0].as_ref().expect("component f0 of Ts4dddme3 must be present")),
            f1: FromValue::from_value(s[1].as_ref().expect("component f1 of Ts4dddme3 must be present")),
            f2: FromValue::from_value(s[2].as_ref().expect("component f2 of Ts4dddme3 must be present")),
            f3: s[3].as_ref().map(FromValue::from_value),
        }
    }
}
impl ToValue for Ts4dddme3 {
    fn to_value(&self) -> Value {
        Value::Seq(vec![
            Some(self.f0.to_value()),
            Some(self.f1.to_value()),
            Some(self.f2.to_value()),
            self.f3.as_ref().map(|x| x.to_value()),
        ])
    }
}
impl FromValue for Ts4dddme4 {
    fn from_value(v: &Value) -> Self {
        let s = match v { Value::Seq(s) => s, other => panic!("Ts4dddme4: expected Seq, got {other:?}") };
        assert_eq!(s.len(), 4, "Ts4dddme4: component count");
        let _ = s;
        Ts4dddme4 {
            f0: FromValue::from_value(s[0].as_ref().expect("component f0 of Ts4dddme4 must be present")),
            f1: FromValue::from_value(s[1].as_ref().expect("component f1 of Ts4dddme4 must be present")),
            f2: FromValue::from_value(s[2].as_ref().expect("component f2 of Ts4dddme4 must be present")),
            f3: FromValue::from_value(s[3].as_ref().expect("component f3 of Ts4dddme4 must be present")),
        }
    }
}
impl ToValue for Ts4dddme4 {
    fn to_value(&self) -> Value {
        Value::Seq(vec![
            Some(self.f0.to_value()),
            Some(self.f1.to_value()),
            Some(self.f2.to_value()),
            Some(self.f3.to_value()),
        ])
    }
}
impl FromValue for Ts4mmmon {
    fn from_value(v: &Value) -> Self {
        let s = match v { Value::Seq(s) => s, other => panic!("Ts4mmmon: expected Seq, got {other:?}") };
        assert_eq!(s.len(), 4, "Ts4mmmon: component count");
        let _ = s;
        Ts4mmmon {
            f0: FromValue::from_value(s[0].as_ref().expect("component f0 of Ts4mmmon must be present")),
            f1: FromValue::from_value(s[1].as_ref().expect("component f1 of Ts4mmmon must be present")),
            f2: FromValue::from_value(s[2].as_ref().expect("component f2 of Ts4mmmon must be present")),
            f3: s[3].as_ref().map(FromValue::from_value),
        }
    }
}
impl ToValue for Ts4mmmon {
    fn to_value(&self) -> Value {
        Value::Seq(vec![
            Some(self.f0.to_value()),
            Some(self.f1.to_value()),
            Some(self.f2.to_value()),
            self.f3.as_ref().map(|x| x.to_value()),
        ])
    }
}
impl FromValue for Ts4mmmoe0 {
    fn from_value(v: &Value) -> Self {
        let s = match v { Value::Seq(s) => s, other => panic!("Ts4mmmoe0: expected Seq, got {other:?}") };
        assert_eq!(s.len(), 4, "Ts4mmmoe0: component count");
        let _ = s;
        Ts4mmmoe0 {
            f0: FromValue::from_value(s[0].as_ref().expect("component f0 of Ts4mmmoe0 must be present")),
            f1: s[1].as_ref().map(FromValue::from_value),
            f2: s[2].as_ref().map(FromValue::from_value),
            f3: s[3].as_ref().map(FromValue::from_value),
        }
    }
}
impl ToValue for Ts4mmmoe0 {
    fn to_value(&self) -> Value {
        Value::Seq(vec![
            Some(self.f0.to_value()),
            self.f1.as_ref().map(|x| x.to_value()),
            self.f2.as_ref().map(|x| x.to_value()),
            self.f3.as_ref().map(|x| x.to_value()),
        ])
    }
}
impl FromValue for Ts4mmmoe1 {
    fn from_value(v: &Value) -> Self {
        let s = match v { Value::Seq(s) => s, other => panic!("Ts4mmmoe1: expected Seq, got {other:?}") };
        assert_eq!(s.len(), 4, "Ts4mmmoe1: component count");
        let _ = s;
        Ts4mmmoe1 {
            f0: FromValue::from_value(s[0].as_ref().expect("component f0 of Ts4mmmoe1 must be present")),
            f1: s[1].as_ref().map(FromValue::from_value),
            f2: s[2].as_ref().map(FromValue::from_value),
            f3: s[3].as_ref().map(FromValue::from_value),
        }
    }
}
impl ToValue for Ts4mmmoe1 {
    fn to_value(&self) -> Value {
        Value::Seq(vec![
            Some(self.f0.to_value()),
            self.f1.as_ref().map(|x| x.to_value()),
            self.f2.as_ref().map(|x| x.to_value()),
            self.f3.as_ref().map(|x| x.to_value()),
        ])
    }
}
impl FromValue for Ts4mmmoe2 {
    fn from_value(v: &Value) -> Self {
        let s = match v { Value::Seq(s) => s, other => panic!("Ts4mmmoe2: expected Seq, got {other:?}") };
        assert_eq!(s.len(), 4, "Ts4mmmoe2: component count");
        let _ = s;
        Ts4mmmoe2 {
            f0: FromValue::from_value(s[0].as_ref().expect("component f0 of Ts4mmmoe2 must be present")),
            f1: FromValue::from_value(s[1].as_ref().expect("component f1 of Ts4mmmoe2 must be present")),
            f2: s[2].as_ref().map(FromValue::from_value),
            f3: s[3].as_ref().map(FromValue::from_value),
        }
    }
}
impl ToValue for Ts4mmmoe2 {
    fn to_value(&self) -> Value {
        Value::Seq(vec![
            Some(self.f0.to_value()),
            Some(self.f1.to_value()),
            self.f2.as_ref().map(|x| x.to_value()),
            self.f3.as_ref().map(|x| x.to_value()),
        ])
    }
}
impl FromValue for Ts4mmmoe3 {
    fn from_value(v: &Value) -> Self {
        let s = match v { Value::Seq(s) => s, other => panic!("Ts4mmmoe3: expected Seq, got {other:?}") };
        assert_eq!(s.len(), 4, "Ts4mmmoe3: component count");
        let _ = s;
        Ts4mmmoe3 {
            f0: FromValue::from_value(s[0].as_ref().expect("component f0 of Ts4mmmoe3 must be present")),
            f1: FromValue::from_value(s[1].as_ref().expect("component f1 of Ts4mmmoe3 must be present")),
            f2: FromValue::from_value(s[2].as_ref().expect("component f2 of Ts4mmmoe3 must be present")),
            f3: s[3].as_ref().map(FromValue::from_value),
        }
    }
}
impl ToValue for Ts4mmmoe3 {
    fn to_value(&self) -> Value {
        Value::Seq(vec![
            Some(self.f0.to_value()),
            Some(self.f1.to_value()),
            Some(self.f2.to_value()),
            self.f3.as_ref().map(|x| x.to_value()),
        ])
    }
}
impl FromValue for Ts4mmmoe4 {
    fn from_value(v: &Value) -> Self {
        let s = match v { Value::Seq(s) => s, other => panic!("Ts4mmmoe4: expected Seq, got {other:?}") };
        assert_eq!(s.len(), 4, "Ts4mmmoe4: component count");
        let _ = s;
        Ts4mmmoe4 {
            f0: FromValue::from_value(s[0].as_ref().expect("component f0 of Ts4mmmoe4 must be present")),
            f1: FromValue::from_value(s[1].as_ref().expect("component f1 of Ts4mmmoe4 must be present")),
            f2: FromValue::from_value(s[2].as_ref().expect("component f2 of Ts4mmmoe4 must be present")),
            f3: s[3].as_ref().map(FromValue::from_value),
        }
    }
}
impl ToValue for Ts4mmmoe4 {
    fn to_value(&self) -> Value {
        Value::Seq(vec![
            Some(self.f0.to_value()),
            Some(self.f1.to_value()),
            Some(self.f2.to_value()),
            self.f3.as_ref().map(|x| x.to_value()),
        ])
    }
}
impl FromValue for Ts4ommon {
    fn from_value(v: &Value) -> Self {
        let s = match v { Value::Seq(s) => s, other => panic!("Ts4ommon: expected Seq, got {other:?}") };
        assert_eq!(s.len(), 4, "Ts4ommon: component count");
        let _ = s;
        Ts4ommon {
            f0: s[0].as_ref().map(FromValue::from_value),
            f1: FromValue::from_value(s[1].as_ref().expect("component f1 of Ts4ommon must be present")),
            f2: FromValue::from_value(s[2].as_ref().expect("component f2 of Ts4ommon must be present")),
            f3: s[3].as_ref().map(FromValue::from_value),
        }
    }
}
impl ToValue for Ts4ommon {
    fn to_value(&self) -> Value {
        Value::Seq(vec![
            self.f0.as_ref().map(|x| x.to_value()),
            Some(self.f1.to_value()),
            Some(self.f2.to_value()),
            self.f3.as_ref().map(|x| x.to_value()),
        ])
    }
}
impl FromValue for Ts4ommoe0 {
    fn from_value(v: &Value) -> Self {
        let s = match v { Value::Seq(s) => s, other => panic!("Ts4ommoe0: expected Seq, got {other:?}") };
        assert_eq!(s.len(), 4, "Ts4ommoe0: component count");
        let _ = s;
        Ts4ommoe0 {
            f0: s[0].as_ref().map(FromValue::from_value),
            f1: s[1].as_ref().map(FromValue::from_value),
            f2: s[2].as_ref().map(FromValue::from_value),
            f3: s[3].as_ref().map(FromValue::from_value),
        }
    }
}
impl ToValue for Ts4ommoe0 {
    fn to_value(&self) -> Value {
        Value::Seq(vec![
            self.f0.as_ref().map(|x| x.to_value()),
            self.f1.as_ref().map(|x| x.to_value()),
            self.f2.as_ref().map(|x| x.to_value()),
            self.f3.as_ref().map(|x| x.to_value()),
        ])
    }
}
impl FromValue for Ts4ommoe1 {
    fn from_value(v: &Value) -> Self {
        let s = match v { Value::Seq(s) => s, other => panic!("Ts4ommoe1: expected Seq, got {other:?}") };
        assert_eq!(s.len(), 4, "Ts4ommoe1: component count");
        let _ = s;
        Ts4ommoe1 {
            f0: s[0].as_ref().map(FromValue::from_value),
            f1: s[1].as_ref().map(FromValue::from_value),
            f2: s[2].as_ref().map(FromValue::from_value),
            f3: s[3].as_ref().map(FromValue::from_value),
        }
    }
}
impl ToValue for Ts4ommoe1 {
    fn to_value(&self) -> Value {
        Value::Seq(vec![
            self.f0.as_ref().map(|x| x.to_value()),
            self.f1.as_ref().map(|x| x.to_value()),
            self.f2.as_ref().map(|x| x.to_value()),
            self.f3.as_ref().map(|x| x.to_value()),
        ])
    }
}
impl FromValue for Ts4ommoe2 {
    fn from_value(v: &Value) -> Self {
        let s = match v { Value::Seq(s) => s, other => panic!("Ts4ommoe2: expected Seq, got {other:?}") };
        assert_eq!(s.len(), 4, "Ts4ommoe2: component count");
        let _ = s;
        Ts4ommoe2 {
            f0: s[0].as_ref().map(FromValue::from_value),
            f1: FromValue::from_value(s[1].as_ref().expect("component f1 of Ts4ommoe2 must be present")),
            f2: s[2].as_ref().map(FromValue::from_value),
            f3: s[3].as_ref().map(FromValue::from_value),
        }
    }
}
impl ToValue for Ts4ommoe2 {
    fn to_value(&self) -> Value {
        Value::Seq(vec![
            self.f0.as_ref().map(|x| x.to_value()),
            Some(self.f1.to_value()),
            self.f2.as_ref().map(|x| x.to_value()),
            self.f3.as_ref().map(|x| x.to_value()),
        ])
    }
}
impl FromValue for Ts4ommoe3 {
    fn from_value(v: &Value) -> Self {
        let s = match v { Value::Seq(s) => s, other => panic!("Ts4ommoe3: expected Seq, got {other:?}") };
        assert_eq!(s.len(), 4, "Ts4ommoe3: component count");
        let _ = s;
        Ts4ommoe3 {
            f0: s[0].as_ref().map(FromValue::from_value),
            f1: FromValue::from_value(s[1].as_ref().expect("component f1 of Ts4ommoe3 must be present")),
            f2: FromValue::from_value(s[2].as_ref().expect("component f2 of Ts4ommoe3 must be present")),
            f3: s[3].as_ref().map(FromValue::from_value),
        }
    }
}
impl ToValue for Ts4ommoe3 {
    fn to_value(&self) -> Value {
        Value::Seq(vec![
            self.f0.as_ref().map(|x| x.to_value()),
            Some(self.f1.to_value()),
            Some(self.f2.to_value()),
            self.f3.as_ref().map(|x| x.to_value()),
        ])
    }
}
impl FromValue for Ts4ommoe4 {
    fn from_value(v: &Value) -> Self {
        let s = match v { Value::Seq(s) => s, other => panic!("Ts4ommoe4: expected Seq, got {other:?}") };
        assert_eq!(s.len(), 4, "Ts4ommoe4: component count");
        let _ = s;
        Ts4ommoe4 {
            f0: s[0].as_ref().map(FromValue::from_value),
            f1: FromValue::from_value(s[1].as_ref().expect("component f1 of Ts4ommoe4 must be present")),
            f2: FromValue::from_value(s[2].as_ref().expect("component f2 of Ts4ommoe4 must be present")),
            f3: s[3].as_ref().map(FromValue::from_value),
        }
    }
}
impl ToValue for Ts4ommoe4 {
    fn to_value(&self) -> Value {
        Value::Seq(vec![
            self.f0.as_ref().map(|x| x.to_value()),
            Some(self.f1.to_value()),
            Some(self.f2.to_value()),
            self.f3.as_ref().map(|x| x.to_value()),
        ])
    }
}
impl FromValue for Ts4dmmon {
    fn from_value(v: &Value) -> Self {
        let s = match v { Value::Seq(s) => s, other => panic!("Ts4dmmon: expected Seq, got {other:?}") };
        assert_eq!(s.len(), 4, "Ts4dmmon: component count");
        let _ = s;
        Ts4dmmon {
            f0: FromValue::from_value(s[0].as_ref().expect("component f0 of Ts4dmmon must be present")),
            f1: FromValue::from_value(s[1].as_ref().expect("component f1 of Ts4dmmon must be present")),
            f2: FromValue::from_value(s[2].as_ref().expect("component f2 of Ts4dmmon must be present")),
            f3: s[3].as_ref().map(FromValue::from_value),
        }
    }
}
impl ToValue for Ts4dmmon {
    fn to_value(&self) -> Value {
        Value::Seq(vec![
            Some(self.f0.to_value()),
            Some(self.f1.to_value()),
            Some(self.f2.to_value()),
            self.f3.as_ref().map(|x| x.to_value()),
        ])
    }
}
impl FromValue for Ts4dmmoe0 {
    fn from_value(v: &Value) -> Self {
        let s = match v { Value::Seq(s) => s, other => panic!("Ts4dmmoe0: expected Seq, got {other:?}") };
        assert_eq!(s.len(), 4, "Ts4dmmoe0: component count");
        let _ = s;
        Ts4dmmoe0 {
            f0: FromValue::from_value(s[0].as_ref().expect("component f0 of Ts4dmmoe0 must be present")),
            f1: s[1].as_ref().map(FromValue::from_value),
            f2: s[2].as_ref().map(FromValue::from_value),
            f3: s[3].as_ref().map(FromValue::from_value),
        }
    }
}
impl ToValue for Ts4dmmoe0 {
    fn to_value(&self) -> Value {
        Value::Seq(vec![
            Some(self.f0.to_value()),
            self.f1.as_ref().map(|x| x.to_value()),
            self.f2.as_ref().map(|x| x.to_value()),
            self.f3.as_ref().map(|x| x.to_value()),
        ])
    }
}
impl FromValue for Ts4dmmoe1 {
    fn from_value(v: &Value) -> Self {
        let s = match v { Value::Seq(s) => s, other => panic!("Ts4dmmoe1: expected Seq, got {other:?}") };
        assert_eq!(s.len(), 4, "Ts4dmmoe1: component count");
        let _ = s;
        Ts4dmmoe1 {
            f0: FromValue::from_value(s[0].as_ref().expect("component f0 of Ts4dmmoe1 must be present")),
            f1: s[1].as_ref().map(FromValue::from_value),
            f2: s[2].as_ref().map(FromValue::from_value),
            f3: s[3].as_ref().map(FromValue::from_value),
        }
    }
}
impl ToValue for Ts4dmmoe1 {
    fn to_value(&self) -> Value {
        Value::Seq(vec![
            Some(self.f0.to_value()),
            self.f1.as_ref().map(|x| x.to_value()),
            self.f2.as_ref().map(|x| x.to_value()),
            self.f3.as_ref().map(|x| x.to_value()),
        ])
    }
}
impl FromValue for Ts4dmmoe2 {
    fn from_value(v: &Value) -> Self {
        let s = match v { Value::Seq(s) => s, other => panic!("Ts4dmmoe2: expected Seq, got {other:?}") };
        assert_eq!(s.len(), 4, "Ts4dmmoe2: component count");
        let _ = s;
        Ts4dmmoe2 {
            f0: FromValue::from_value(s[0].as_ref().expect("component f0 of Ts4dmmoe2 must be present")),
            f1: FromValue::from_value(s[1].as_ref().expect("component f1 of Ts4dmmoe2 must be present")),
            f2: s[2].as_ref().map(FromValue::from_value),
            f3: s[3].as_ref().map(FromValue::from_value),
        }
    }
}
impl ToValue for Ts4dmmoe2 {
    fn to_value(&self) -> Value {
        Value::Seq(vec![
            Some(self.f0.to_value()),
            Some(self.f1.to_value()),
            self.f2.as_ref().map(|x| x.to_value()),
            self.f3.as_ref().map(|x| x.to_value()),
        ])
    }
}
impl FromValue for Ts4dmmoe3 {
    fn from_value(v: &Value) -> Self {
        let s = match v { Value::Seq(s) => s, other => panic!("Ts4dmmoe3: expected Seq, got {other:?}") };
        assert_eq!(s.len(), 4, "Ts4dmmoe3: component count");
        let _ = s;
        Ts4dmmoe3 {
            f0: FromValue::from_value(s[0].as_ref().expect("component f0 of Ts4dmmoe3 must be present")),
            f1: FromValue::from_value(s[1].as_ref().expect("component f1 of Ts4dmmoe3 must be present")),
            f2: FromValue::from_value(s[2].as_ref().expect("component f2 of Ts4dmmoe3 must be present")),
            f3: s[3].as_ref().map(FromValue::from_value),
        }
    }
}
impl ToValue for Ts4dmmoe3 {
    fn to_value(&self) -> Value {
        Value::Seq(vec![
            Some(self.f0.to_value()),
            Some(self.f1.to_value()),
            Some(self.f2.to_value()),
            self.f3.as_ref().map(|x| x.to_value()),
        ])
    }
}
impl FromValue for Ts4dmmoe4 {
    fn from_value(v: &Value) -> Self {
        let s = match v { Value::Seq(s) => s, other => panic!("Ts4dmmoe4: expected Seq, got {other:?}") };
        assert_eq!(s.len(), 4, "Ts4dmmoe4: component count");
        let _ = s;
        Ts4dmmoe4 {
            f0: FromValue::from_value(s[0].as_ref().expect("component f0 of Ts4dmmoe4 must be present")),
            f1: FromValue::from_value(s[1].as_ref().expect("component f1 of Ts4dmmoe4 must be present")),
            f2: FromValue::from_value(s[2].as_ref().expect("component f2 of Ts4dmmoe4 must be present")),
            f3: s[3].as_ref().map(FromValue::from_value),
        }
    }
}
impl ToValue for Ts4dmmoe4 {
    fn to_value(&self) -> Value {
        Value::Seq(vec![
            Some(self.f0.to_value()),
            Some(self.f1.to_value()),
            Some(self.f2.to_value()),
            self.f3.as_ref().map(|x| x.to_value()),
        ])
    }
}
impl FromValue for Ts4momon {
    fn from_value(v: &Value) -> Self {
        let s = match v { Value::Seq(s) => s, other => panic!("Ts4momon: expected Seq, got {other:?}") };
        assert_eq!(s.len(), 4, "Ts4momon: component count");
        let _ = s;
        Ts4momon {
            f0: FromValue::from_value(s[0].as_ref().expect("component f0 of Ts4momon must be present")),
            f1: s[1].as_ref().map(FromValue::from_value),
            f2: FromValue::from_value(s[2].as_ref().expect("component f2 of Ts4momon must be present")),
            f3: s[3].as_ref().map(FromValue::from_value),
        }
    }
}
impl ToValue for Ts4momon {
    fn to_value(&self) -> Value {
        Value::Seq(vec![
            Some(self.f0.to_value()),
            self.f1.as_ref().map(|x| x.to_value()),
            Some(self.f2.to_value()),
            self.f3.as_ref().map(|x| x.to_value()),
        ])
    }
}
impl FromValue for Ts4momoe0 {
    fn from_value(v: &Value) -> Self {
        let s = match v { Value::Seq(s) => s, other => panic!("Ts4momoe0: expected Seq, got {other:?}") };
        assert_eq!(s.len(), 4, "Ts4momoe0: component count");
        let _ = s;
        Ts4momoe0 {
            f0: FromValue::from_value(s[0].as_ref().expect("component f0 of Ts4momoe0 must be present")),
            f1: s[1].as_ref().map(FromValue::from_value),
            f2: s[2].as_ref().map(FromValue::from_value),
            f3: s[3].as_ref().map(FromValue::from_value),
        }
    }
}
impl ToValue for Ts4momoe0 {
    fn to_value(&self) -> Value {
        Value::Seq(vec![
            Some(self.f0.to_value()),
            self.f1.as_ref().map(|x| x.to_value()),
            self.f2.as_ref().map(|x| x.to_value()),
            self.f3.as_ref().map(|x| x.to_value()),
        ])
    }
}
impl FromValue for Ts4momoe1 {
    fn from_value(v: &Value) -> Self {
        let s = match v { Value::Seq(s) => s, other => panic!("Ts4momoe1: expected Seq, got {other:?}") };
        assert_eq!(s.len(), 4, "Ts4momoe1: component count");
        let _ = s;
        Ts4momoe1 {
            f0: FromValue::from_value(s[0].as_ref().expect("component f0 of Ts4momoe1 must be present")),
            f1: s[1].as_ref().map(FromValue::from_value),
            f2: s[2].as_ref().map(FromValue::from_value),
            f3: s[3].as_ref().map(FromValue::from_value),
        }
    }
}
impl ToValue for Ts4momoe1 {
    fn to_value(&self) -> Value {
        Value::Seq(vec![
            Some(self.f0.to_value()),
            self.f1.as_ref().map(|x| x.to_value()),
            self.f2.as_ref().map(|x| x.to_value()),
            self.f3.as_ref().map(|x| x.to_value()),
        ])
    }
}
impl FromValue for Ts4momoe2 {
    fn from_value(v: &Value) -> Self {
        let s = match v { Value::Seq(s) => s, other => panic!("Ts4momoe2: expected Seq, got {other:?}") };
        assert_eq!(s.len(), 4, "Ts4momoe2: component count");
        let _ = s;
        Ts4momoe2 {
            f0: FromValue::from_value(s[0].as_ref().expect("component f0 of Ts4momoe2 must be present")),
            f1: s[1].as_ref().map(FromValue::from_value),
            f2: s[2].as_ref().map(FromValue::from_value),
            f3: s[3].as_ref().map(FromValue::from_value),
        }
    }
}
impl ToValue for Ts4momoe2 {
    fn to_value(&self) -> Value {
        Value::Seq(vec![
            Some(self.f0.to_value()),
            self.f1.as_ref().map(|x| x.to_value()),
            self.f2.as_ref().map(|x| x.to_value()),
            self.f3.as_ref().map(|x| x.to_value()),
        ])
    }
}
impl FromValue for Ts4momoe3 {
    fn from_value(v: &Value) -> Self {
        let s = match v { Value::Seq(s) => s, other => panic!("Ts4momoe3: expected Seq, got {other:?}") };
        assert_eq!(s.len(), 4, "Ts4momoe3: component count");
        let _ = s;
        Ts4momoe3 {
            f0: FromValue::from_value(s[0].as_ref().expect("component f0 of Ts4momoe3 must be present")),
            f1: s[1].as_ref().map(FromValue::from_value),
            f2: FromValue::from_value(s[2].as_ref().expect("component f2 of Ts4momoe3 must be present")),
            f3: s[3].as_ref().map(FromValue::from_value),
        }
    }
}
impl ToValue for Ts4momoe3 {
    fn to_value(&self) -> Value {
        Value::Seq(vec![
            Some(self.f0.to_value()),
            self.f1.as_ref().map(|x| x.to_value()),
            Some(self.f2.to_value()),
            self.f3.as_ref().map(|x| x.to_value()),
        ])
    }
}
impl FromValue for Ts4momoe4 {
    fn from_value(v: &Value) -> Self {
        let s = match v { Value::Seq(s) => s, other => panic!("Ts4momoe4: expected Seq, got {other:?}") };
        assert_eq!(s.len(), 4, "Ts4momoe4: component count");
        let _ = s;
        Ts4momoe4 {
            f0: FromValue::from_value(s[0].as_ref().expect("component f0 of Ts4momoe4 must be present")),
            f1: s[1].as_ref().map(FromValue::from_value),
            f2: FromValue::from_value(s[2].as_ref().expect("component f2 of Ts4momoe4 must be present")),
            f3: s[3].as_ref().map(FromValue::from_value),
        }
    }
}
impl ToValue for Ts4momoe4 {
    fn to_value(&self) -> Value {
        Value::Seq(vec![
            Some(self.f0.to_value()),
            self.f1.as_ref().map(|x| x.to_value()),
            Some(self.f2.to_value()),
            self.f3.as_ref().map(|x| x.to_value()),
        ])
    }
}
impl FromValue for Ts4oomon {
    fn from_value(v: &Value) -> Self {
        let s = match v { Value::Seq(s) => s, other => panic!("Ts4oomon: expected Seq, got {other:?}") };
        assert_eq!(s.len(), 4, "Ts4oomon: component count");
        let _ = s;
        Ts4oomon {
            f0: s[0].as_ref().map(FromValue::from_value),
            f1: s[1].as_ref().map(FromValue::from_value),
            f2: FromValue::from_value(s[2].as_ref().expect("component f2 of Ts4oomon must be present")),
            f3: s[3].as_ref().map(FromValue::from_value),
        }
    }
}
impl ToValue for Ts4oomon {
    fn to_value(&self) -> Value {
        Value::Seq(vec![
            self.f0.as_ref().map(|x| x.to_value()),
            self.f1.as_ref().map(|x| x.to_value()),
            Some(self.f2.to_value()),
            self.f3.as_ref().map(|x| x.to_value()),
        ])
    }
}
impl FromValue for Ts4oomoe0 {
    fn from_value(v: &Value) -> Self {
        let s = match v { Value::Seq(s) => s, other => panic!("Ts4oomoe0: expected Seq, got {other:?}") };
        assert_eq!(s.len(), 4, "Ts4oomoe0: component count");
        let _ = s;
        Ts4oomoe0 {
            f0: s[0].as_ref().map(FromValue::from_value),
            f1: s[1].as_ref().map(FromValue::from_value),
            f2: s[2].as_ref().map(FromValue::from_value),
            f3: s[3].as_ref().map(FromValue::from_value),
        }
    }
}
impl ToValue for Ts4oomoe0 {
    fn to_value(&self) -> Value {
        Value::Seq(vec![
            self.f0.as_ref().map(|x| x.to_value()),
            self.f1.as_ref().map(|x| x.to_value()),
            self.f2.as_ref().map(|x| x.to_value()),
            self.f3.as_ref().map(|x| x.to_value()),
        ])
    }
}
impl FromValue for Ts4oomoe1 {
    fn from_value(v: &Value) -> Self {
        let s = match v { Value::Seq(s) => s, other => panic!("Ts4oomoe1: expected Seq, got {other:?}") };
        assert_eq!(s.len(), 4, "Ts4oomoe1: component count");
        let _ = s;
        Ts4oomoe1 {
            f0: s[0].as_ref().map(FromValue::from_value),
            f1: s[1].as_ref().map(FromValue::from_value),
            f2: s[2].as_ref().map(FromValue::from_value),
            f3: s[3].as_ref().map(FromValue::from_value),
        }
    }
}
impl ToValue for Ts4oomoe1 {
    fn to_value(&self) -> Value {
        Value::Seq(vec![
            self.f0.as_ref().map(|x| x.to_value()),
            self.f1.as_ref().map(|x| x.to_value()),
            self.f2.as_ref().map(|x| x.to_value()),
            self.f3.as_ref().map(|x| x.to_value()),
        ])
    }
}
impl FromValue for Ts4oomoe2 {
    fn from_value(v: &Value) -> Self {
        let s = match v { Value::Seq(s) => s, other => panic!("Ts4oomoe2: expected Seq, got {other:?}") };
        assert_eq!(s.len(), 4, "Ts4oomoe2: component count");
        let _ = s;
        Ts4oomoe2 {
            f0: s[0].as_ref().map(FromValue::from_value),
            f1: s[1].as_ref().map(FromValue::from_value),
            f2: s[2].as_ref().map(FromValue::from_value),
            f3: s[3].as_ref().map(FromValue::from_value),
        }
    }
}
impl ToValue for Ts4oomoe2 {
    fn to_value(&self) -> Value {
        Value::Seq(vec![
            self.f0.as_ref().map(|x| x.to_value()),
            self.f1.as_ref().map(|x| x.to_value()),
            self.f2.as_ref().map(|x| x.to_value()),
            self.f3.as_ref().map(|x| x.to_value()),
        ])
    }
}
impl FromValue for Ts4oomoe3 {
    fn from_value(v: &Value) -> Self {
        let s = match v { Value::Seq(s) => s, other => panic!("Ts4oomoe3: expected Seq, got {other:?}") };
        assert_eq!(s.len(), 4, "Ts4oomoe3: component count");
        let _ = s;
        Ts4oomoe3 {
            f0: s[0].as_ref().map(FromValue::from_value),
            f1: s[1].as_ref().map(FromValue::from_value),
            f2: FromValue::from_value(s[2].as_ref().expect("component f2 of Ts4oomoe3 must be present")),
            f3: s[3].as_ref().map(FromValue::from_value),
        }
    }
}
impl ToValue for Ts4oomoe3 {
    fn to_value(&self) -> Value {
        Value::Seq(vec![
            self.f0.as_ref().map(|x| x.to_value()),
            self.f1.as_ref().map(|x| x.to_value()),
            Some(self.f2.to_value()),
            self.f3.as_ref().map(|x| x.to_value()),
        ])
    }
}
impl FromValue for Ts4oomoe4 {
    fn from_value(v: &Value) -> Self {
        let s = match v { Value::Seq(s) => s, other => panic!("Ts4oomoe4: expected Seq, got {other:?}") };
        assert_eq!(s.len(), 4, "Ts4oomoe4: component count");
        let _ = s;
        Ts4oomoe4 {
            f0: s[0].as_ref().map(FromValue::from_value),
            f1: s[1].as_ref().map(FromValue::from_value),
            f2: FromValue::from_value(s[2].as_ref().expect("component f2 of Ts4oomoe4 must be present")),
            f3: s[3].as_ref().map(FromValue::from_value),
        }
    }
}
impl ToValue for Ts4oomoe4 {
    fn to_value(&self) -> Value {
        Value::Seq(vec![
            self.f0.as_ref().map(|x| x.to_value()),
            self.f1.as_ref().map(|x| x.to_value()),
            Some(self.f2.to_value()),
            self.f3.as_ref().map(|x| x.to_value()),
        ])
    }
}
impl FromValue for Ts4domon {
    fn from_value(v: &Value) -> Self {
        let s = match v { Value::Seq(s) => s, other => panic!("Ts4domon: expected Seq, got {other:?}") };
        assert_eq!(s.len(), 4, "Ts4domon: component count");
        let _ = s;
        Ts4domon {
            f0: FromValue::from_value(s[0].as_ref().expect("component f0 of Ts4domon must be present")),
            f1: s[1].as_ref().map(FromValue::from_value),
            f2: FromValue::from_value(s[2].as_ref().expect("component f2 of Ts4domon must be present")),
            f3: s[3].as_ref().map(FromValue::from_value),
        }
    }
}
impl ToValue for Ts4domon {
    fn to_value(&self) -> Value {
        Value::Seq(vec![
            Some(self.f0.to_value()),
            self.f1.as_ref().map(|x| x.to_value()),
            Some(self.f2.to_value()),
            self.f3.as_ref().map(|x| x.to_value()),
        ])
    }
}
impl FromValue for Ts4domoe0 {
    fn from_value(v: &Value) -> Self {
        let s = match v { Value::Seq(s) => s, other => panic!("Ts4domoe0: expected Seq, got {other:?}") };
        assert_eq!(s.len(), 4, "Ts4domoe0: component count");
        let _ = s;
        Ts4domoe0 {
            f0: FromValue::from_value(s[0].as_ref().expect("component f0 of Ts4domoe0 must be present")),
            f1: s[1].as_ref().map(FromValue::from_value),
            f2: s[2].as_ref().map(FromValue::from_value),
            f3: s[3].as_ref().map(FromValue::from_value),
        }
    }
}
impl ToValue for Ts4domoe0 {
    fn to_value(&self) -> Value {
        Value::Seq(vec![
            Some(self.f0.to_value()),
            self.f1.as_ref().map(|x| x.to_value()),
            self.f2.as_ref().map(|x| x.to_value()),
            self.f3.as_ref().map(|x| x.to_value()),
        ])
    }
}
impl FromValue for Ts4domoe1 {
    fn from_value(v: &Value) -> Self {
        let s = match v { Value::Seq(s) => s, other => panic!("Ts4domoe1: expected Seq, got {other:?}") };
        assert_eq!(s.len(), 4, "Ts4domoe1: component count");
        let _ = s;
        Ts4domoe1 {
            f0: FromValue::from_value(s[0].as_ref().expect("component f0 of Ts4domoe1 must be present")),
            f1: s[1].as_ref().map(FromValue::from_value),
            f2: s[2].as_ref().map(FromValue::from_value),
            f3: s[3].as_ref().map(FromValue::from_value),
        }
    }
}
impl ToValue for Ts4domoe1 {
    fn to_value(&self) -> Value {
        Value::Seq(vec![
            Some(self.f0.to_value()),
            self.f1.as_ref().map(|x| x.to_value()),
            self.f2.as_ref().map(|x| x.to_value()),
            self.f3.as_ref().map(|x| x.to_value()),
        ])
    }
}
impl FromValue for Ts4domoe2 {
    fn from_value(v: &Value) -> Self {
        let s = match v { Value::Seq(s) => s, other => panic!("Ts4domoe2: expected Seq, got {other:?}") };
        assert_eq!(s.len(), 4, "Ts4domoe2: component count");
        let _ = s;
        Ts4domoe2 {
            f0: FromValue::from_value(s[0].as_ref().expect("component f0 of Ts4domoe2 must be present")),
            f1: s[1].as_ref().map(FromValue::from_value),
            f2: s[2].as_ref().map(FromValue::from_value),
            f3: s[3].as_ref().map(FromValue::from_value),
        }
    }
}
impl ToValue for Ts4domoe2 {
    fn to_value(&self) -> Value {
        Value::Seq(vec![
            Some(self.f0.to_value()),
            self.f1.as_ref().map(|x| x.to_value()),
            self.f2.as_ref().map(|x| x.to_value()),
            self.f3.as_ref().map(|x| x.to_value()),
        ])
    }
}
impl FromValue for Ts4domoe3 {
    fn from_value(v: &Value) -> Self {
        let s = match v { Value::Seq(s) => s, other => panic!("Ts4domoe3: expected Seq, got {other:?}") };
        assert_eq!(s.len(), 4, "Ts4domoe3: component count");
        let _ = s;
        Ts4domoe3 {
            f0: FromValue::from_value(s[0].as_ref().expect("component f0 of Ts4domoe3 must be present")),
            f1: s[1].as_ref().map(FromValue::from_value),
            f2: FromValue::from_value(s[2].as_ref().expect("component f2 of Ts4domoe3 must be present")),
            f3: s[3].as_ref().map(FromValue::from_value),
        }
    }
}
impl ToValue for Ts4domoe3 {
    fn to_value(&self) -> Value {
        Value::Seq(vec![
            Some(self.f0.to_value()),
            self.f1.as_ref().map(|x| x.to_value()),
            Some(self.f2.to_value()),
            self.f3.as_ref().map(|x| x.to_value()),
        ])
    }
}
impl FromValue for Ts4domoe4 {
    fn from_value(v: &Value) -> Self {
        let s = match v { Value::Seq(s) => s, other => panic!("Ts4domoe4: expected Seq, got {other:?}") };
        assert_eq!(s.len(), 4, "Ts4domoe4: component count");
        let _ = s;
        Ts4domoe4 {
            f0: FromValue::from_value(s[0].as_ref().expect("component f0 of Ts4domoe4 must be present")),
            f1: s[1].as_ref().map(FromValue::from_value),
            f2: FromValue::from_value(s[2].as_ref().expect("component f2 of Ts4domoe4 must be present")),
            f3: s[3].as_ref().map(FromValue::from_value),
        }
    }
}
impl ToValue for Ts4domoe4 {
    fn to_value(&self) -> Value {
        Value::Seq(vec![
            Some(self.f0.to_value()),
            self.f1.as_ref().map(|x| x.to_value()),
            Some(self.f2.to_value()),
            self.f3.as_ref().map(|x| x.to_value()),
        ])
    }
}
impl FromValue for Ts4mdmon {
    fn from_value(v: &Value) -> Self {
        let s = match v { Value::Seq(s) => s, other => panic!("Ts4mdmon: expected Seq, got {other:?}") };
        assert_eq!(s.len(), 4, "Ts4mdmon: component count");
        let _ = s;
        Ts4mdmon {
            f0: FromValue::from_value(s[0].as_ref().expect("component f0 of Ts4mdmon must be present")),
            f1: FromValue::from_value(s[1].as_ref().expect("component f1 of Ts4mdmon must be present")),
            f2: FromValue::from_value(s[2].as_ref().expect("component f2 of Ts4mdmon must be present")),
            f3: s[3].as_ref().map(FromValue::from_value),
        }
    }
}
impl ToValue for Ts4mdmon {
    fn to_value(&self) -> Value {
        Value::Seq(vec![
            Some(self.f0.to_value()),
            Some(self.f1.to_value()),
            Some(self.f2.to_value()),
            self.f3.as_ref().map(|x| x.to_value()),
        ])
    }
}
impl FromValue for Ts4mdmoe0 {
    fn from_value(v: &Value) -> Self {
        let s = match v { Value::Seq(s) => s, other => panic!("Ts4mdmoe0: expected Seq, got {other:?}") };
        assert_eq!(s.len(), 4, "Ts4mdmoe0: component count");
        let _ = s;
        Ts4mdmoe0 {
            f0: FromValue::from_value(s[0].as_ref().expect("component f0 of Ts4mdmoe0 must be present")),
            f1: FromValue::from_value(s[1].as_ref().expect("component f1 of Ts4mdmoe0 must be present")),
            f2: s[2].as_ref().map(FromValue::from_value),
            f3: s[3].as_ref().map(FromValue::from_value),
        }
    }
}
impl ToValue for Ts4mdmoe0 {
    fn to_value(&self) -> Value {
        Value::Seq(vec![
            Some(self.f0.to_value()),
            Some(self.f1.to_value()),
            self.f2.as_ref().map(|x| x.to_value()),
            self.f3.as_ref().map(|x| x.to_value()),
        ])
    }
}
impl FromValue for Ts4mdmoe1 {
    fn from_value(v: &Value) -> Self {
        let s = match v { Value::Seq(s) => s, other => panic!("Ts4mdmoe1: expected Seq, got {other:?}") };
        assert_eq!(s.len(), 4, "Ts4mdmoe1: component count");
        let _ = s;
        Ts4mdmoe1 {
            f0: FromValue::from_value(s[0].as_ref().expect("component f0 of Ts4mdmoe1 must be present")),
            f1: FromValue::from_value(s[1].as_ref().expect("component f1 of Ts4mdmoe1 must be present")),
            f2: s[2].as_ref().map(FromValue::from_value),
            f3: s[3].as_ref().map(FromValue::from_value),
        }
    }
}
impl ToValue for Ts4mdmoe1 {
    fn to_value(&self) -> Value {
        Value::Seq(vec![
            Some(self.f0.to_value()),
            Some(self.f1.to_value()),
            self.f2.as_ref().map(|x| x.to_value()),
            self.f3.as_ref().map(|x| x.to_value()),
        ])
    }
}
impl FromValue for Ts4mdmoe2 {
    fn from_value(v: &Value) -> Self {
        let s = match v { Value::Seq(s) => s, other => panic!("Ts4mdmoe2: expected Seq, got {other:?}") };
        assert_eq!(s.len(), 4, "Ts4mdmoe2: component count");
        let _ = s;
        Ts4mdmoe2 {
            f0: FromValue::from_value(s[0].as_ref().expect("component f0 of Ts4mdmoe2 must be present")),
            f1: FromValue::from_value(s[1].as_ref().expect("component f1 of Ts4mdmoe2 must be present")),
            f2: s[2].as_ref().map(FromValue::from_value),
            f3: s[3].as_ref().map(FromValue::from_value),
        }
    }
}
impl ToValue for Ts4mdmoe2 {
    fn to_value(&self) -> Value {
        Value::Seq(vec![
            Some(self.f0.to_value()),
            Some(self.f1.to_value()),
            self.f2.as_ref().map(|x| x.to_value()),
            self.f3.as_ref().map(|x| x.to_value()),
        ])
    }
}
impl FromValue for Ts4mdmoe3 {
    fn from_value(v: &Value) -> Self {
        let s = match v { Value::Seq(s) => s, other => panic!("Ts4mdmoe3: expected Seq, got {other:?}") };
        assert_eq!(s.len(), 4, "Ts4mdmoe3: component count");
        let _ = s;
        Ts4mdmoe3 {
            f0: FromValue::from_value(s[0].as_ref().expect("component f0 of Ts4mdmoe3 must be present")),
            f1: FromValue::from_value(s[1].as_ref().expect("component f1 of Ts4mdmoe3 must be present")),
            f2: FromValue::from_value(s[2].as_ref().expect("component f2 of Ts4mdmoe3 must be present")),
            f3: s[3].as_ref().map(FromValue::from_value),
        }
    }
}
impl ToValue for Ts4mdmoe3 {
    fn to_value(&self) -> Value {
        Value::Seq(vec![
            Some(self.f0.to_value()),
            Some(self.f1.to_value()),
            Some(self.f2.to_value()),
            self.f3.as_ref().map(|x| x.to_value()),
        ])
    }
}
impl FromValue for Ts4mdmoe4 {
    fn from_value(v: &Value) -> Self {
        let s = match v { Value::Seq(s) => s, other => panic!("Ts4mdmoe4: expected Seq, got {other:?}") };
        assert_eq!(s.len(), 4, "Ts4mdmoe4: component count");
        let _ = s;
        Ts4mdmoe4 {
            f0: FromValue::from_value(s[0].as_ref().expect("component f0 of Ts4mdmoe4 must be present")),
            f1: FromValue::from_value(s[1].as_ref().expect("component f1 of Ts4mdmoe4 must be present")),
            f2: FromValue::from_value(s[2].as_ref().expect("component f2 of Ts4mdmoe4 must be present")),
            f3: s[3].as_ref().map(FromValue::from_value),
        }
    }
}
impl ToValue for Ts4mdmoe4 {
    fn to_value(&self) -> Value {
        Value::Seq(vec![
            Some(self.f0.to_value()),
            Some(self.f1.to_value()),
            Some(self.f2.to_value()),
            self.f3.as_ref().map(|x| x.to_value()),
        ])
    }
}
impl FromValue for Ts4odmon {
    fn from_value(v: &Value) -> Self {
        let s = match v { Value::Seq(s) => s, other => panic!("Ts4odmon: expected Seq, got {other:?}") };
        assert_eq!(s.len(), 4, "Ts4odmon: component count");
        let _ = s;
        Ts4odmon {
            f0: s[0].as_ref().map(FromValue::from_value),
            f1: FromValue::from_value(s[1].as_ref().expect("component f1 of Ts4odmon must be present")),
            f2: FromValue::from_value(s[2].as_ref().expect("component f2 of Ts4odmon must be present")),
            f3: s[3].as_ref().map(FromValue::from_value),
        }
    }
}
impl ToValue for Ts4odmon {
    fn to_value(&self) -> Value {
        Value::Seq(vec![
            self.f0.as_ref().map(|x| x.to_value()),
            Some(self.f1.to_value()),
            Some(self.f2.to_value()),
            self.f3.as_ref().map(|x| x.to_value()),
        ])
    }
}
impl FromValue for Ts4odmoe0 {
    fn from_value(v: &Value) -> Self {
        let s = match v { Value::Seq(s) => s, other => panic!("Ts4odmoe0: expected Seq, got {other:?}") };
        assert_eq!(s.len(), 4, "Ts4odmoe0: component count");
        let _ = s;
        Ts4odmoe0 {
            f0: s[0].as_ref().map(FromValue::from_value),
            f1: FromValue::from_value(s[1].as_ref().expect("component f1 of Ts4odmoe0 must be present")),
            f2: s[2].as_ref().map(FromValue::from_value),
            f3: s[3].as_ref().map(FromValue::from_value),
        }
    }
}
impl ToValue for Ts4odmoe0 {
    fn to_value(&self) -> Value {
        Value::Seq(vec![
            self.f0.as_ref().map(|x| x.to_value()),
            Some(self.f1.to_value()),
            self.f2.as_ref().map(|x| x.to_value()),
            self.f3.as_ref().map(|x| x.to_value()),
        ])
    }
}
impl FromValue for Ts4odmoe1 {
    fn from_value(v: &Value) -> Self {
        let s = match v { Value::Seq(s) => s, other => panic!("Ts4odmoe1: expected Seq, got {other:?}") };
        assert_eq!(s.len(), 4, "Ts4odmoe1: component count");
        let _ = s;
        Ts4odmoe1 {
            f0: s[0].as_ref().map(FromValue::from_value),
            f1: FromValue::from_value(s[1].as_ref().expect("component f1 of Ts4odmoe1 must be present")),
            f2: s[2].as_ref().map(FromValue::from_value),
            f3: s[3].as_ref().map(FromValue::from_value),
        }
    }
}
impl ToValue for Ts4odmoe1 {
    fn to_value(&self) -> Value {
        Value::Seq(vec![
            self.f0.as_ref().map(|x| x.to_value()),
            Some(self.f1.to_value()),
            self.f2.as_ref().map(|x| x.to_value()),
            self.f3.as_ref().map(|x| x.to_value()),
        ])
    }
}
impl FromValue for Ts4odmoe2 {
    fn from_value(v: &Value) -> Self {
        let s = match v { Value::Seq(s) => s, other => panic!("Ts4odmoe2: expected Seq, got {other:?}") };
        assert_eq!(s.len(), 4, "Ts4odmoe2: component count");
        let _ = s;
        Ts4odmoe2 {
            f0: s[0].as_ref().map(FromValue::from_value),
            f1: FromValue::from_value(s[1].as_ref().expect("component f1 of Ts4odmoe2 must be present")),
            f2: s[2].as_ref().map(FromValue::from_value),
            f3: s[3].as_ref().map(FromValue::from_value),
        }
    }
}
impl ToValue for Ts4odmoe2 {
    fn to_value(&self) -> Value {
        Value::Seq(vec![
            self.f0.as_ref().map(|x| x.to_value()),
            Some(self.f1.to_value()),
            self.f2.as_ref().map(|x| x.to_value()),
            self.f3.as_ref().map(|x| x.to_value()),
        ])
    }
}
impl FromValue for Ts4odmoe3 {
    fn from_value(v: &Value) -> Self {
        let s = match v { Value::Seq(s) => s, other => panic!("Ts4odmoe3: expected Seq, got {other:?}") };
        assert_eq!(s.len(), 4, "Ts4odmoe3: component count");
        let _ = s;
        Ts4odmoe3 {
            f0: s[0].as_ref().map(FromValue::from_value),
            f1: FromValue::from_value(s[1].as_ref().expect("component f1 of Ts4odmoe3 must be present")),
            f2: FromValue::from_value(s[2].as_ref().expect("component f2 of Ts4odmoe3 must be present")),
            f3: s[3].as_ref().map(FromValue::from_value),
        }
    }
}
impl ToValue for Ts4odmoe3 {
    fn to_value(&self) -> Value {
        Value::Seq(vec![
            self.f0.as_ref().map(|x| x.to_value()),
            Some(self.f1.to_value()),
            Some(self.f2.to_value()),
            self.f3.as_ref().map(|x| x.to_value()),
        ])
    }
}
impl FromValue for Ts4odmoe4 {
    fn from_value(v: &Value) -> Self {
        let s = match v { Value::Seq(s) => s, other => panic!("Ts4odmoe4: expected Seq, got {other:?}") };
        assert_eq!(s.len(), 4, "Ts4odmoe4: component count");
        let _ = s;
        Ts4odmoe4 {
            f0: s[0].as_ref().map(FromValue::from_value),
            f1: FromValue::from_value(s[1].as_ref().expect("component f1 of Ts4odmoe4 must be present")),
            f2: FromValue::from_value(s[2].as_ref().expect("component f2 of Ts4odmoe4 must be present")),
            f3: s[3].as_ref().map(FromValue::from_value),
        }
    }
}
impl ToValue for Ts4odmoe4 {
    fn to_value(&self) -> Value {
        Value::Seq(vec![
            self.f0.as_ref().map(|x| x.to_value()),
            Some(self.f1.to_value()),
            Some(self.f2.to_value()),
            self.f3.as_ref().map(|x| x.to_value()),
        ])
    }
}
impl FromValue for Ts4ddmon {
    fn from_value(v: &Value) -> Self {
        let s = match v { Value::Seq(s) => s, other => panic!("Ts4ddmon: expected Seq, got {other:?}") };
        assert_eq!(s.len(), 4, "Ts4ddmon: component count");
        let _ = s;
        Ts4ddmon {
            f0: FromValue::from_value(s[0].as_ref().expect("component f0 of Ts4ddmon must be present")),
            f1: FromValue::from_value(s[1].as_ref().expect("component f1 of Ts4ddmon must be present")),
            f2: FromValue::from_value(s[2].as_ref().expect("component f2 of Ts4ddmon must be present")),
            f3: s[3].as_ref().map(FromValue::from_value),
        }
    }
}
impl ToValue for Ts4ddmon {
    fn to_value(&self) -> Value {
        Value::Seq(vec![
            Some(self.f0.to_value()),
            Some(self.f1.to_value()),
            Some(self.f2.to_value()),
            self.f3.as_ref().map(|x| x.to_value()),
        ])
    }
}
impl FromValue for Ts4ddmoe0 {
    fn from_value(v: &Value) -> Self {
        let s = match v { Value::Seq(s) => s, other => panic!("Ts4ddmoe0: expected Seq, got {other:?}") };
        assert_eq!(s.len(), 4, "Ts4ddmoe0: component count");
        let _ = s;
        Ts4ddmoe0 {
            f0: FromValue::from_value(s[0].as_ref().expect("component f0 of Ts4ddmoe0 must be present")),
            f1: FromValue::from_value(s[1].as_ref().expect("component f1 of Ts4ddmoe0 must be present")),
            f2: s[2].as_ref().map(FromValue::from_value),
            f3: s[3].as_ref().map(FromValue::from_value),
        }
    }
}
impl ToValue for Ts4ddmoe0 {
    fn to_value(&self) -> Value {
        Value::Seq(vec![
            Some(self.f0.to_value()),
            Some(self.f1.to_value()),
            self.f2.as_ref().map(|x| x.to_value()),
            self.f3.as_ref().map(|x| x.to_value()),
        ])
    }
}
impl FromValue for Ts4ddmoe1 {
    fn from_value(v: &Value) -> Self {
        let s = match v { Value::Seq(s) => s, other => panic!("Ts4ddmoe1: expected Seq, got {other:?}") };
        assert_eq!(s.len(), 4, "Ts4ddmoe1: component count");
        let _ = s;
        Ts4ddmoe1 {
            f0: FromValue::from_value(s[0].as_ref().expect("component f0 of Ts4ddmoe1 must be present")),
            f1: FromValue::from_value(s[1].as_ref().expect("component f1 of Ts4ddmoe1 must be present")),
            f2: s[2].as_ref().map(FromValue::from_value),
            f3: s[3].as_ref().map(FromValue::from_value),
        }
    }
}
impl ToValue for Ts4ddmoe1 {
    fn to_value(&self) -> Value {
        Value::Seq(vec![
            Some(self.f0.to_value()),
            Some(self.f1.to_value()),
            self.f2.as_ref().map(|x| x.to_value()),
            self.f3.as_ref().map(|x| x.to_value()),
        ])
    }
}
impl FromValue for Ts4ddmoe2 {
    fn from_value(v: &Value) -> Self {
        let s = match v { Value::Seq(s) => s, other => panic!("Ts4ddmoe2: expected Seq, got {other:?}") };
        assert_eq!(s.len(), 4, "Ts4ddmoe2: component count");
        let _ = s;
        Ts4ddmoe2 {
            f0: FromValue::from_value(s[0].as_ref().expect("component f0 of Ts4ddmoe2 must be present")),
            f1: FromValue::from_value(s[1].as_ref().expect("component f1 of Ts4ddmoe2 must be present")),
            f2: s[2].as_ref().map(FromValue::from_value),
            f3: s[3].as_ref().map(FromValue::from_value),
        }
    }
}
impl ToValue for Ts4ddmoe2 {
    fn to_value(&self) -> Value {
        Value::Seq(vec![
            Some(self.f0.to_value()),
            Some(self.f1.to_value()),
            self.f2.as_ref().map(|x| x.to_value()),
            self.f3.as_ref().map(|x| x.to_value()),
        ])
    }
}
impl FromValue for Ts4ddmoe3 {
    fn from_value(v: &Value) -> Self {
        let s = match v { Value::Seq(s) => s, other => panic!("Ts4ddmoe3: expected Seq, got {other:?}") };
        assert_eq!(s.len(), 4, "Ts4ddmoe3: component count");
        let _ = s;
        Ts4ddmoe3 {
            f0: FromValue::from_value(s[0].as_ref().expect("component f0 of Ts4ddmoe3 must be present")),
            f1: FromValue::from_value(s[1].as_ref().expect("component f1 of Ts4ddmoe3 must be present")),
            f2: FromValue::from_value(s[2].as_ref().expect("component f2 of Ts4ddmoe3 must be present")),
            f3: s[3].as_ref().map(FromValue::from_value),
        }
    }
}
impl ToValue for Ts4ddmoe3 {
    fn to_value(&self) -> Value {
        Value::Seq(vec![
            Some(self.f0.to_value()),
            Some(self.f1.to_value()),
            Some(self.f2.to_value()),
            self.f3.as_ref().map(|x| x.to_value()),
        ])
    }
}
impl FromValue for Ts4ddmoe4 {
    fn from_value(v: &Value) -> Self {
        let s = match v { Value::Seq(s) => s, other => panic!("Ts4ddmoe4: expected Seq, got {other:?}") };
        assert_eq!(s.len(), 4, "Ts4ddmoe4: component count");
        let _ = s;
        Ts4ddmoe4 {
            f0: FromValue::from_value(s[0].as_ref().expect("component f0 of Ts4ddmoe4 must be present")),
            f1: FromValue::from_value(s[1].as_ref().expect("component f1 of Ts4ddmoe4 must be present")),
            f2: FromValue::from_value(s[2].as_ref().expect("component f2 of Ts4ddmoe4 must be present")),
            f3: s[3].as_ref().map(FromValue::from_value),
        }
    }
}
impl ToValue for Ts4ddmoe4 {
    fn to_value(&self) -> Value {
        Value::Seq(vec![
            Some(self.f0.to_value()),
            Some(self.f1.to_value()),
            Some(self.f2.to_value()),
            self.f3.as_ref().map(|x| x.to_value()),
        ])
    }
}
impl FromValue for Ts4mmoon {
    fn from_value(v: &Value) -> Self {
        let s = match v { Value::Seq(s) => s, other => panic!("Ts4mmoon: expected Seq, got {other:?}") };
        assert_eq!(s.len(), 4, "Ts4mmoon: component count");
        let _ = s;
        Ts4mmoon {
            f0: FromValue::from_value(s[0].as_ref().expect("component f0 of Ts4mmoon must be present")),
            f1: FromValue::from_value(s[1].as_ref().expect("component f1 of Ts4mmoon must be present")),
            f2: s[2].as_ref().map(FromValue::from_value),
            f3: s[3].as_ref().map(FromValue::from_value),
        }
    }
}
impl ToValue for Ts4mmoon {
    fn to_value(&self) -> Value {
        Value::Seq(vec![
            Some(self.f0.to_value()),
            Some(self.f1.to_value()),
            self.f2.as_ref().map(|x| x.to_value()),
            self.f3.as_ref().map(|x| x.to_value()),
        ])
    }
}
impl FromValue for Ts4mmooe0 {
    fn from_value(v: &Value) -> Self {
        let s = match v { Value::Seq(s) => s, other => panic!("Ts4mmooe0: expected Seq, got {other:?}") };
        assert_eq!(s.len(), 4, "Ts4mmooe0: component count");
        let _ = s;
        Ts4mmooe0 {
            f0: FromValue::from_value(s[0].as_ref().expect("component f0 of Ts4mmooe0 must be present")),
            f1: s[1].as_ref().map(FromValue::from_value),
            f2: s[2].as_ref().map(FromValue::from_value),
            f3: s[3].as_ref().map(FromValue::from_value),
        }
    }
}
impl ToValue for Ts4mmooe0 {
    fn to_value(&self) -> Value {
        Value::Seq(vec![
            Some(self.f0.to_value()),
            self.f1.as_ref().map(|x| x.to_value()),
            self.f2.as_ref().map(|x| x.to_value()),
            self.f3.as_ref().map(|x| x.to_value()),
        ])
    }
}
impl FromValue for Ts4mmooe1 {
    fn from_value(v: &Value) -> Self {
        let s = match v { Value::Seq(s) => s, other => panic!("Ts4mmooe1: expected Seq, got {other:?}") };
        assert_eq!(s.len(), 4, "Ts4mmooe1: component count");
        let _ = s;
        Ts4mmooe1 {
            f0: FromValue::from_value(s[0].as_ref().expect("component f0 of Ts4mmooe1 must be present")),
            f1: s[1].as_ref().map(FromValue::from_value),
            f2: s[2].as_ref().map(FromValue::from_value),
            f3: s[3].as_ref().map(FromValue::from_value),
        }
    }
}
impl ToValue for Ts4mmooe1 {
    fn to_value(&self) -> Value {
        Value::Seq(vec![
            Some(self.f0.to_value()),
            self.f1.as_ref().map(|x| x.to_value()),
            self.f2.as_ref().map(|x| x.to_value()),
            self.f3.as_ref().map(|x| x.to_value()),
        ])
    }
}
impl FromValue for Ts4mmooe2 {
    fn from_value(v: &Value) -> Self {
        let s = match v { Value::Seq(s) => s, other => panic!("Ts4mmooe2: expected Seq, got {other:?}") };
        assert_eq!(s.len(), 4, "Ts4mmooe2: component count");
        let _ = s;
        Ts4mmooe2 {
            f0: FromValue::from_value(s[0].as_ref().expect("component f0 of Ts4mmooe2 must be present")),
            f1: FromValue::from_value(s[1].as_ref().expect("component f1 of Ts4mmooe2 must be present")),
            f2: s[2].as_ref().map(FromValue::from_value),
            f3: s[3].as_ref().map(FromValue::from_value),
        }
    }
}
impl ToValue for Ts4mmooe2 {
    fn to_value(&self) -> Value {
        Value::Seq(vec![
            Some(self.f0.to_value()),
            Some(self.f1.to_value()),
            self.f2.as_ref().map(|x| x.to_value()),
            self.f3.as_ref().map(|x| x.to_value()),
        ])
    }
}
impl FromValue for Ts4mmooe3 {
    fn from_value(v: &Value) -> Self {
        let s = match v { Value::Seq(s) => s, other => panic!("Ts4mmooe3: expected Seq, got {other:?}") };
        assert_eq!(s.len(), 4, "Ts4mmooe3: component count");
        let _ = s;
        Ts4mmooe3 {
            f0: FromValue::from_value(s[0].as_ref().expect("component f0 of Ts4mmooe3 must be present")),
            f1: FromValue::from_value(s[1].as_ref().expect("component f1 of Ts4mmooe3 must be present")),
            f2: s[2].as_ref().map(FromValue::from_value),
            f3: s[3].as_ref().map(FromValue::from_value),
        }
    }
}
impl ToValue for Ts4mmooe3 {
    fn to_value(&self) -> Value {
        Value::Seq(vec![
            Some(self.f0.to_value()),
            Some(self.f1.to_value()),
            self.f2.as_ref().map(|x| x.to_value()),
            self.f3.as_ref().map(|x| x.to_value()),
        ])
    }
}
impl FromValue for Ts4mmooe4 {
    fn from_value(v: &Value) -> Self {
        let s = match v { Value::Seq(s) => s, other => panic!("Ts4mmooe4: expected Seq, got {other:?}") };
        assert_eq!(s.len(), 4, "Ts4mmooe4: component count");
        let _ = s;
        Ts4mmooe4 {
            f0: FromValue::from_value(s[0].as_ref().expect("component f0 of Ts4mmooe4 must be present")),
            f1: FromValue::from_value(s[1].as_ref().expect("component f1 of Ts4mmooe4 must be present")),
            f2: s[2].as_ref().map(FromValue::from_value),
            f3: s[3].as_ref().map(FromValue::from_value),
        }
    }
}
impl ToValue for Ts4mmooe4 {
    fn to_value(&self) -> Value {
        Value::Seq(vec![
            Some(self.f0.to_value()),
            Some(self.f1.to_value()),
            self.f2.as_ref().map(|x| x.to_value()),
            self.f3.as_ref().map(|x| x.to_value()),
        ])
    }
}
impl FromValue for Ts4omoon {
    fn from_value(v: &Value) -> Self {
        let s = match v { Value::Seq(s) => s, other => panic!("Ts4omoon: expected Seq, got {other:?}") };
        assert_eq!(s.len(), 4, "Ts4omoon: component count");
        let _ = s;
        Ts4omoon {
            f0: s[0].as_ref().map(FromValue::from_value),
            f1: FromValue::from_value(s[1].as_ref().expect("component f1 of Ts4omoon must be present")),
            f2: s[2].as_ref().map(FromValue::from_value),
            f3: s[3].as_ref().map(FromValue::from_value),
        }
    }
}
impl ToValue for Ts4omoon {
    fn to_value(&self) -> Value {
        Value::Seq(vec![
            self.f0.as_ref().map(|x| x.to_value()),
            Some(self.f1.to_value()),
            self.f2.as_ref().map(|x| x.to_value()),
            self.f3.as_ref().map(|x| x.to_value()),
        ])
    }
}
impl FromValue for Ts4omooe0 {
    fn from_value(v: &Value) -> Self {
        let s = match v { Value::Seq(s) => s, other => panic!("Ts4omooe0: expected Seq, got {other:?}") };
        assert_eq!(s.len(), 4, "Ts4omooe0: component count");
        let _ = s;
        Ts4omooe0 {
            f0: s[0].as_ref().map(FromValue::from_value),
            f1: s[1].as_ref().map(FromValue::from_value),
            f2: s[2].as_ref().map(FromValue::from_value),
            f3: s[3].as_ref().map(FromValue::from_value),
        }
    }
}
impl ToValue for Ts4omooe0 {
    fn to_value(&self) -> Value {
        Value::Seq(vec![
            self.f0.as_ref().map(|x| x.to_value()),
            self.f1.as_ref().map(|x| x.to_value()),
            self.f2.as_ref().map(|x| x.to_value()),
            self.f3.as_ref().map(|x| x.to_value()),
        ])
    }
}
impl FromValue for Ts4omooe1 {
    fn from_value(v: &Value) -> Self {
        let s = match v { Value::Seq(s) => s, other => panic!("Ts4omooe1: expected Seq, got {other:?}") };
        assert_eq!(s.len(), 4, "Ts4omooe1: component count");
        let _ = s;
        Ts4omooe1 {
            f0: s[0].as_ref().map(FromValue::from_value),
            f1: s[1].as_ref().map(FromValue::from_value),
            f2: s[2].as_ref().map(FromValue::from_value),
            f3: s[3].as_ref().map(FromValue::from_value),
        }
    }
}
impl ToValue for Ts4omooe1 {
    fn to_value(&self) -> Value {
        Value::Seq(vec![
            self.f0.as_ref().map(|x| x.to_value()),
            self.f1.as_ref().map(|x| x.to_value()),
            self.f2.as_ref().map(|x| x.to_value()),
            self.f3.as_ref().map(|x| x.to_value()),
        ])
    }
}
impl FromValue for Ts4omooe2 {
    fn from_value(v: &Value) -> Self {
        let s = match v { Value::Seq(s) => s, other => panic!("Ts4omooe2: expected Seq, got {other:?}") };
        assert_eq!(s.len(), 4, "Ts4omooe2: component count");
        let _ = s;
        Ts4omooe2 {
            f0: s[0].as_ref().map(FromValue::from_value),
            f1: FromValue::from_value(s[1].as_ref().expect("component f1 of Ts4omooe2 must be present")),
            f2: s[2].as_ref().map(FromValue::from_value),
            f3: s[3].as_ref().map(FromValue::from_value),
        }
    }
}
impl ToValue for Ts4omooe2 {
    fn to_value(&self) -> Value {
        Value::Seq(vec![
            self.f0.as_ref().map(|x| x.to_value()),
            Some(self.f1.to_value()),
            self.f2.as_ref().map(|x| x.to_value()),
            self.f3.as_ref().map(|x| x.to_value()),
        ])
    }
}
impl FromValue for Ts4omooe3 {
    fn from_value(v: &Value) -> Self {
        let s = match v { Value::Seq(s) => s, other => panic!("Ts4omooe3: expected Seq, got {other:?}") };
        assert_eq!(s.len(), 4, "Ts4omooe3: component count");
        let _ = s;
        Ts4omooe3 {
            f0: s[0].as_ref().map(FromValue::from_value),
            f1: FromValue::from_value(s[1].as_ref().expect("component f1 of Ts4omooe3 must be present")),
            f2: s[2].as_ref().map(FromValue::from_value),
            f3: s[3].as_ref().map(FromValue::from_value),
        }
    }
}
impl ToValue for Ts4omooe3 {
    fn to_value(&self) -> Value {
        Value::Seq(vec![
            self.f0.as_ref().map(|x| x.to_value()),
            Some(self.f1.to_value()),
            self.f2.as_ref().map(|x| x.to_value()),
            self.f3.as_ref().map(|x| x.to_value()),
        ])
    }
}
impl FromValue for Ts4omooe4 {
    fn from_value(v: &Value) -> Self {
        let s = match v { Value::Seq(s) => s, other => panic!("Ts4omooe4: expected Seq, got {other:?}") };
        assert_eq!(s.len(), 4, "Ts4omooe4: component count");
        let _ = s;
        Ts4omooe4 {
            f0: s[0].as_ref().map(FromValue::from_value),
            f1: FromValue::from_value(s[1].as_ref().expect("component f1 of Ts4omooe4 must be present")),
            f2: s[2].as_ref().map(FromValue::from_value),
            f3: s[3].as_ref().map(FromValue::from_value),
        }
    }
}
impl ToValue for Ts4omooe4 {
    fn to_value(&self) -> Value {
        Value::Seq(vec![
            self.f0.as_ref().map(|x| x.to_value()),
            Some(self.f1.to_value()),
            self.f2.as_ref().map(|x| x.to_value()),
            self.f3.as_ref().map(|x| x.to_value()),
        ])
    }
}
impl FromValue for Ts4dmoon {
    fn from_value(v: &Value) -> Self {
        let s = match v { Value::Seq(s) => s, other => panic!("Ts4dmoon: expected Seq, got {other:?}") };
        assert_eq!(s.len(), 4, "Ts4dmoon: component count");
        let _ = s;
        Ts4dmoon {
            f0: FromValue::from_value(s[0].as_ref().expect("component f0 of Ts4dmoon must be present")),
            f1: FromValue::from_value(s[1].as_ref().expect("component f1 of Ts4dmoon must be present")),
            f2: s[2].as_ref().map(FromValue::from_value),
            f3: s[3].as_ref().map(FromValue::from_value),
        }
    }
}
impl ToValue for Ts4dmoon {
    fn to_value(&self) -> Value {
        Value::Seq(vec![
            Some(self.f0.to_value()),
            Some(self.f1.to_value()),
            self.f2.as_ref().map(|x| x.to_value()),
            self.f3.as_ref().map(|x| x.to_value()),
        ])
    }
}
impl FromValue for Ts4dmooe0 {
    fn from_value(v: &Value) -> Self {
        let s = match v { Value::Seq(s) => s, other => panic!("Ts4dmooe0: expected Seq, got {other:?}") };
        assert_eq!(s.len(), 4, "Ts4dmooe0: component count");
        let _ = s;
        Ts4dmooe0 {
            f0: FromValue::from_value(s[0].as_ref().expect("component f0 of Ts4dmooe0 must be present")),
            f1: s[1].as_ref().map(FromValue::from_value),
            f2: s[2].as_ref().map(FromValue::from_value),
            f3: s[3].as_ref().map(FromValue::from_value),
        }
    }
}
impl ToValue for Ts4dmooe0 {
    fn to_value(&self) -> Value {
        Value::Seq(vec![
            Some(self.f0.to_value()),
            self.f1.as_ref().map(|x| x.to_value()),
            self.f2.as_ref().map(|x| x.to_value()),
            self.f3.as_ref().map(|x| x.to_value()),
        ])
    }
}
impl FromValue for Ts4dmooe1 {
    fn from_value(v: &Value) -> Self {
        let s = match v { Value::Seq(s) => s, other => panic!("Ts4dmooe1: expected Seq, got {other:?}") };
        assert_eq!(s.len(), 4, "Ts4dmooe1: component count");
        let _ = s;
        Ts4dmooe1 {
            f0: FromValue::from_value(s[0].as_ref().expect("component f0 of Ts4dmooe1 must be present")),
            f1: s[1].as_ref().map(FromValue::from_value),
            f2: s[2].as_ref().map(FromValue::from_value),
            f3: s[3].as_ref().map(FromValue::from_value),
        }
    }
}
impl ToValue for Ts4dmooe1 {
    fn to_value(&self) -> Value {
        Value::Seq(vec![
            Some(self.f0.to_value()),
            self.f1.as_ref().map(|x| x.to_value()),
            self.f2.as_ref().map(|x| x.to_value()),
            self.f3.as_ref().map(|x| x.to_value()),
        ])
    }
}
impl FromValue for Ts4dmooe2 {
    fn from_value(v: &Value) -> Self {
        let s = match v { Value::Seq(s) => s, other => panic!("Ts4dmooe2: expected Seq, got {other:?}") };
        assert_eq!(s.len(), 4, "Ts4dmooe2: component count");
        let _ = s;
        Ts4dmooe2 {
            f0: FromValue::from_value(s[0].as_ref().expect("component f0 of Ts4dmooe2 must be present")),
            f1: FromValue::from_value(s[1].as_ref().expect("component f1 of Ts4dmooe2 must be present")),
            f2: s[2].as_ref().map(FromValue::from_value),
            f3: s[3].as_ref().map(FromValue::from_value),
        }
    }
}
impl ToValue for Ts4dmooe2 {
    fn to_value(&self) -> Value {
        Value::Seq(vec![
            Some(self.f0.to_value()),
            Some(self.f1.to_value()),
            self.f2.as_ref().map(|x| x.to_value()),
            self.f3.as_ref().map(|x| x.to_value()),
        ])
    }
}
impl FromValue for Ts4dmooe3 {
    fn from_value(v: &Value) -> Self {
        let s = match v { Value::Seq(s) => s, other => panic!("Ts4dmooe3: expected Seq, got {other:?}") };
        assert_eq!(s.len(), 4, "Ts4dmooe3: component count");
        let _ = s;
        Ts4dmooe3 {
            f0: FromValue::from_value(s[0].as_ref().expect("component f0 of Ts4dmooe3 must be present")),
            f1: FromValue::from_value(s[1].as_ref().expect("component f1 of Ts4dmooe3 must be present")),
            f2: s[2].as_ref().map(FromValue::from_value),
            f3: s[3].as_ref().map(FromValue::from_value),
        }
    }
}
impl ToValue for Ts4dmooe3 {
    fn to_value(&self) -> Value {
        Value::Seq(vec![
            Some(self.f0.to_value()),
            Some(self.f1.to_value()),
            self.f2.as_ref().map(|x| x.to_value()),
            self.f3.as_ref().map(|x| x.to_value()),
        ])
    }
}
impl FromValue for Ts4dmooe4 {
    fn from_value(v: &Value) -> Self {
        let s = match v { Value::Seq(s) => s, other => panic!("Ts4dmooe4: expected Seq, got {other:?}") };
        assert_eq!(s.len(), 4, "Ts4dmooe4: component count");
        let _ = s;
        Ts4dmooe4 {
            f0: FromValue::from_value(s[0].as_ref().expect("component f0 of Ts4dmooe4 must be present")),
            f1: FromValue::from_value(s[1].as_ref().expect("component f1 of Ts4dmooe4 must be present")),
            f2: s[2].as_ref().map(FromValue::from_value),
            f3: s[3].as_ref().map(FromValue::from_value),
        }
    }
}
impl ToValue for Ts4dmooe4 {
    fn to_value(&self) -> Value {
        Value::Seq(vec![
            Some(self.f0.to_value()),
            Some(self.f1.to_value()),
            self.f2.as_ref().map(|x| x.to_value()),
            self.f3.as_ref().map(|x| x.to_value()),
        ])
    }
}
impl FromValue for Ts4mooon {
    fn from_value(v: &Value) -> Self {
        let s = match v { Value::Seq(s) => s, other => panic!("Ts4mooon: expected Seq, got {other:?}") };
        assert_eq!(s.len(), 4, "Ts4mooon: component count");
        let _ = s;
        Ts4mooon {
            f0: FromValue::from_value(s[0].as_ref().expect("component f0 of Ts4mooon must be present")),
            f1: s[1].as_ref().map(FromValue::from_value),
            f2: s[2].as_ref().map(FromValue::from_value),
            f3: s[3].as_ref().map(FromValue::from_value),
        }
    }
}
impl ToValue for Ts4mooon {
    fn to_value(&self) -> Value {
        Value::Seq(vec![
            Some(self.f0.to_value()),
            self.f1.as_ref().map(|x| x.to_value()),
            self.f2.as_ref().map(|x| x.to_value()),
            self.f3.as_ref().map(|x| x.to_value()),
        ])
    }
}
impl FromValue for Ts4moooe0 {
    fn from_value(v: &Value) -> Self {
        let s = match v { Value::Seq(s) => s, other => panic!("Ts4moooe0: expected Seq, got {other:?}") };
        assert_eq!(s.len(), 4, "Ts4moooe0: component count");
        let _ = s;
        Ts4moooe0 {
            f0: FromValue::from_value(s[0].as_ref().expect("component f0 of Ts4moooe0 must be present")),
            f1: s[1].as_ref().map(FromValue::from_value),
            f2: s[2].as_ref().map(FromValue::from_value),
            f3: s[3].as_ref().map(FromValue::from_value),
        }
    }
}
impl ToValue for Ts4moooe0 {
    fn to_value(&self) -> Value {
        Value::Seq(vec![
            Some(self.f0.to_value()),
            self.f1.as_ref().map(|x| x.to_value()),
            self.f2.as_ref().map(|x| x.to_value()),
            self.f3.as_ref().map(|x| x.to_value()),
        ])
    }
}
impl FromValue for Ts4moooe1 {
    fn from_value(v: &Value) -> Self {
        let s = match v { Value::Seq(s) => s, other => panic!("Ts4moooe1: expected Seq, got {other:?}") };
        assert_eq!(s.len(), 4, "Ts4moooe1: component count");
        let _ = s;
        Ts4moooe1 {
            f0: FromValue::from_value(s[0].as_ref().expect("component f0 of Ts4moooe1 must be present")),
            f1: s[1].as_ref().map(FromValue::from_value),
            f2: s[2].as_ref().map(FromValue::from_value),
            f3: s[3].as_ref().map(FromValue::from_value),
        }
    }
}
impl ToValue for Ts4moooe1 {
    fn to_value(&self) -> Value {
        Value::Seq(vec![
            Some(self.f0.to_value()),
            self.f1.as_ref().map(|x| x.to_value()),
            self.f2.as_ref().map(|x| x.to_value()),
            self.f3.as_ref().map(|x| x.to_value()),
        ])
    }
}
impl FromValue for Ts4moooe2 {
    fn from_value(v: &Value) -> Self {
        let s = match v { Value::Seq(s) => s, other => panic!("Ts4moooe2: expected Seq, got {other:?}") };
        assert_eq!(s.len(), 4, "Ts4moooe2: component count");
        let _ = s;
        Ts4moooe2 {
            f0: FromValue::from_value(s[0].as_ref().expect("component f0 of Ts4moooe2 must be present")),
            f1: s[1].as_ref().map(FromValue::from_value),
            f2: s[2].as_ref().map(FromValue::from_value),
            f3: s[3].as_ref().map(FromValue::from_value),
        }
    }
}
impl ToValue for Ts4moooe2 {
    fn to_value(&self) -> Value {
        Value::Seq(vec![
            Some(self.f0.to_value()),
            self.f1.as_ref().map(|x| x.to_value()),
            self.f2.as_ref().map(|x| x.to_value()),
            self.f3.as_ref().map(|x| x.to_value()),
        ])
    }
}
impl FromValue for Ts4moooe3 {
    fn from_value(v: &Value) -> Self {
        let s = match v { Value::Seq(s) => s, other => panic!("Ts4moooe3: expected Seq, got {other:?}") };
        assert_eq!(s.len(), 4, "Ts4moooe3: component count");
        let _ = s;
        Ts4moooe3 {
            f0: FromValue::from_value(s[0].as_ref().expect("component f0 of Ts4moooe3 must be present")),
            f1: s[1].as_ref().map(FromValue::from_value),
            f2: s[2].as_ref().map(FromValue::from_value),
            f3: s[3].as_ref().map(FromValue::from_value),
        }
    }
}
impl ToValue for Ts4moooe3 {
    fn to_value(&self) -> Value {
        Value::Seq(vec![
            Some(self.f0.to_value()),
            self.f1.as_ref().map(|x| x.to_value()),
            self.f2.as_ref().map(|x| x.to_value()),
            self.f3.as_ref().map(|x| x.to_value()),
        ])
    }
}
impl FromValue for Ts4moooe4 {
    fn from_value(v: &Value) -> Self {
        let s = match v { Value::Seq(s) => s, other => panic!("Ts4moooe4: expected Seq, got {other:?}") };
        assert_eq!(s.len(), 4, "Ts4moooe4: component count");
        let _ = s;
        Ts4moooe4 {
            f0: FromValue::from_value(s[0].as_ref().expect("component f0 of Ts4moooe4 must be present")),
            f1: s[1].as_ref().map(FromValue::from_value),
            f2: s[2].as_ref().map(FromValue::from_value),
            f3: s[3].as_ref().map(FromValue::from_value),
        }
    }
}
impl ToValue for Ts4moooe4 {
    fn to_value(&self) -> Value {
        Value::Seq(vec![
            Some(self.f0.to_value()),
            self.f1.as_ref().map(|x| x.to_value()),
            self.f2.as_ref().map(|x| x.to_value()),
            self.f3.as_ref().map(|x| x.to_value()),
        ])
    }
}

use asn1rs::prelude::*;

#[asn(sequence, extensible_after(f0))]

#[derive(Default, Debug, Clone, PartialEq, Hash)]
pub struct Ts5ddomme0 {
    #[asn(default(integer(0..7), 5))] pub f0: u8,
    #[asn(default(integer(0..7), 5))] pub f1: u8,
    #[asn(optional(integer(0..7)))] pub f2: Option<u8>,
    #[asn(optional(integer(0..7)))] pub f3: Option<u8>,
    #[asn(optional(integer(0..7)))] pub f4: Option<u8>,
}

impl Ts5ddomme0 {
    pub const fn f0_min() -> u8 {
        0
    }

    pub const fn f0_max() -> u8 {
        7
    }

    pub const fn f1_min() -> u8 {
        0
    }

    pub const fn f1_max() -> u8 {
        7
    }

    pub const fn f2_min() -> u8 {
        0
    }

    pub const fn f2_max() -> u8 {
        7
    }

    pub const fn f3_min() -> u8 {
        0
    }

    pub const fn f3_max() -> u8 {
        7
    }

    pub const fn f4_min() -> u8 {
        0
    }

    pub const fn f4_max() -> u8 {
        7
    }
}

#[asn(sequence, extensible_after(f0))]

#[derive(Default, Debug, Clone, PartialEq, Hash)]
pub struct Ts5ddomme1 {
    #[asn(default(integer(0..7), 5))] pub f0: u8,
    #[asn(default(integer(0..7), 5))] pub f1: u8,
    #[asn(optional(integer(0..7)))] pub f2: Option<u8>,
    #[asn(optional(integer(0..7)))] pub f3: Option<u8>,
    #[asn(optional(integer(0..7)))] pub f4: Option<u8>,
}

impl Ts5ddomme1 {
    pub const fn f0_min() -> u8 {
        0
    }

    pub const fn f0_max() -> u8 {
        7
    }

    pub const fn f1_min() -> u8 {
        0
    }

    pub const fn f1_max() -> u8 {
        7
    }

    pub const fn f2_min() -> u8 {
        0
    }

    pub const fn f2_max() -> u8 {
        7
    }

    pub const fn f3_min() -> u8 {
        0
    }

    pub const fn f3_max() -> u8 {
        7
    }

    pub const fn f4_min() -> u8 {
        0
    }

    pub const fn f4_max() -> u8 {
        7
    }
}

#[asn(sequence, extensible_after(f1))]

#[derive(Default, Debug, Clone, PartialEq, Hash)]
pub struct Ts5ddomme2 {
    #[asn(default(integer(0..7), 5))] pub f0: u8,
    #[asn(default(integer(0..7), 5))] pub f1: u8,
    #[asn(optional(integer(0..7)))] pub f2: Option<u8>,
    #[asn(optional(integer(0..7)))] pub f3: Option<u8>,
    #[asn(optional(integer(0..7)))] pub f4: Option<u8>,
}

impl Ts5ddomme2 {
    pub const fn f0_min() -> u8 {
        0
    }

    pub const fn f0_max() -> u8 {
        7
    }

    pub const fn f1_min() -> u8 {
        0
    }

    pub const fn f1_max() -> u8 {
        7
    }

    pub const fn f2_min() -> u8 {
        0
    }

    pub const fn f2_max() -> u8 {
        7
    }

    pub const fn f3_min() -> u8 {
        0
    }

    pub const fn f3_max() -> u8 {
        7
    }

    pub const fn f4_min() -> u8 {
        0
    }

    pub const fn f4_max() -> u8 {
        7
    }
}

#[asn(sequence, extensible_after(f2))]

#[derive(Default, Debug, Clone, PartialEq, Hash)]
pub struct Ts5ddomme3 {
    #[asn(default(integer(0..7), 5))] pub f0: u8,
    #[asn(default(integer(0..7), 5))] pub f1: u8,
    #[asn(optional(integer(0..7)))] pub f2: Option<u8>,
    #[asn(optional(integer(0..7)))] pub f3: Option<u8>,
    #[asn(optional(integer(0..7)))] pub f4: Option<u8>,
}

impl Ts5ddomme3 {
    pub const fn f0_min() -> u8 {
        0
    }

    pub const fn f0_max() -> u8 {
        7
    }

    pub const fn f1_min() -> u8 {
        0
    }

    pub const fn f1_max() -> u8 {
        7
    }

    pub const fn f2_min() -> u8 {
        0
    }

    pub const fn f2_max() -> u8 {
        7
    }

    pub const fn f3_min() -> u8 {
        0
    }

    pub const fn f3_max() -> u8 {
        7
    }

    pub const fn f4_min() -> u8 {
        0
    }

    pub const fn f4_max() -> u8 {
        7
    }
}

#[asn(sequence, extensible_after(f3))]

#[derive(Default, Debug, Clone, PartialEq, Hash)]
pub struct Ts5ddomme4 {
    #[asn(default(integer(0..7), 5))] pub f0: u8,
    #[asn(default(integer(0..7), 5))] pub f1: u8,
    #[asn(optional(integer(0..7)))] pub f2: Option<u8>,
    #[asn(integer(0..7))] pub f3: u8,
    #[asn(optional(integer(0..7)))] pub f4: Option<u8>,
}

impl Ts5ddomme4 {
    pub const fn f0_min() -> u8 {
        0
    }

    pub const fn f0_max() -> u8 {
        7
    }

    pub const fn f1_min() -> u8 {
        0
    }

    pub const fn f1_max() -> u8 {
        7
    }

    pub const fn f2_min() -> u8 {
        0
    }

    pub const fn f2_max() -> u8 {
        7
    }

    pub const fn f3_min() -> u8 {
        0
    }

    pub const fn f3_max() -> u8 {
        7
    }

    pub const fn f4_min() -> u8 {
        0
    }

    pub const fn f4_max() -> u8 {
        7
    }
}

#[asn(sequence, extensible_after(f4))]

#[derive(Default, Debug, Clone, PartialEq, Hash)]
pub struct Ts5ddomme5 {
    #[asn(default(integer(0..7), 5))] pub f0: u8,
    #[asn(default(integer(0..7), 5))] pub f1: u8,
    #[asn(optional(integer(0..7)))] pub f2: Option<u8>,
    #[asn(integer(0..7))] pub f3: u8,
    #[asn(integer(0..7))] pub f4: u8,
}

impl Ts5ddomme5 {
    pub const fn f0_min() -> u8 {
        0
    }

    pub const fn f0_max() -> u8 {
        7
    }

    pub const fn f1_min() -> u8 {
        0
    }

    pub const fn f1_max() -> u8 {
        7
    }

    pub const fn f2_min() -> u8 {
        0
    }

    pub const fn f2_max() -> u8 {
        7
    }

    pub const fn f3_min() -> u8 {
        0
    }

    pub const fn f3_max() -> u8 {
        7
    }

    pub const fn f4_min() -> u8 {
        0
    }

    pub const fn f4_max() -> u8 {
        7
    }
}

#[asn(sequence)]

#[derive(Default, Debug, Clone, PartialEq, Hash)]
pub struct Ts5mmdmmn {
    #[asn(integer(0..7))] pub f0: u8,
    #[asn(integer(0..7))] pub f1: u8,
    #[asn(default(integer(0..7), 5))] pub f2: u8,
    #[asn(integer(0..7))] pub f3: u8,
    #[asn(integer(0..7))] pub f4: u8,
}

impl Ts5mmdmmn {
    pub const fn f0_min() -> u8 {
        0
    }

    pub const fn f0_max() -> u8 {
        7
    }

    pub const fn f1_min() -> u8 {
        0
    }

    pub const fn f1_max() -> u8 {
        7
    }

    pub const fn f2_min() -> u8 {
        0
    }

    pub const fn f2_max() -> u8 {
        7
    }

    pub const fn f3_min() -> u8 {
        0
    }

    pub const fn f3_max() -> u8 {
        7
    }

    pub const fn f4_min() -> u8 {
        0
    }

    pub const fn f4_max() -> u8 {
        7
    }
}

#[asn(sequence, extensible_after(f0))]

#[derive(Default, Debug, Clone, PartialEq, Hash)]
pub struct Ts5mmdmme0 {
    #[asn(integer(0..7))] pub f0: u8,
    #[asn(optional(integer(0..7)))] pub f1: Option<u8>,
    #[asn(default(integer(0..7), 5))] pub f2: u8,
    #[asn(optional(integer(0..7)))] pub f3: Option<u8>,
    #[asn(optional(integer(0..7)))] pub f4: Option<u8>,
}

impl Ts5mmdmme0 {
    pub const fn f0_min() -> u8 {
        0
    }

    pub const fn f0_max() -> u8 {
        7
    }

    pub const fn f1_min() -> u8 {
        0
    }

    pub const fn f1_max() -> u8 {
        7
    }

    pub const fn f2_min() -> u8 {
        0
    }

    pub const fn f2_max() -> u8 {
        7
    }

    pub const fn f3_min() -> u8 {
        0
    }

    pub const fn f3_max() -> u8 {
        7
    }

    pub const fn f4_min() -> u8 {
        0
    }

    pub const fn f4_max() -> u8 {
        7
    }
}

#[asn(sequence, extensible_after(f0))]

#[derive(Default, Debug, Clone, PartialEq, Hash)]
pub struct Ts5mmdmme1 {
    #[asn(integer(0..7))] pub f0: u8,
    #[asn(optional(integer(0..7)))] pub f1: Option<u8>,
    #[asn(default(integer(0..7), 5))] pub f2: u8,
    #[asn(optional(integer(0..7)))] pub f3: Option<u8>,
    #[asn(optional(integer(0..7)))] pub f4: Option<u8>,
}

impl Ts5mmdmme1 {
    pub const fn f0_min() -> u8 {
        0
    }

    pub const fn f0_max() -> u8 {
        7
    }

    pub const fn f1_min() -> u8 {
        0
    }

    pub const fn f1_max() -> u8 {
        7
    }

    pub const fn f2_min() -> u8 {
        0
    }

    pub const fn f2_max() -> u8 {
        7
    }

    pub const fn f3_min() -> u8 {
        0
    }

    pub const fn f3_max() -> u8 {
        7
    }

    pub const fn f4_min() -> u8 {
        0
    }

    pub const fn f4_max() -> u8 {
        7
    }
}

#[asn(sequence, extensible_after(f1))]

#[derive(Default, Debug, Clone, PartialEq, Hash)]
pub struct Ts5mmdmme2 {
    #[asn(integer(0..7))] pub f0: u8,
    #[asn(integer(0..7))] pub f1: u8,
    #[asn(default(integer(0..7), 5))] pub f2: u8,
    #[asn(optional(integer(0..7)))] pub f3: Option<u8>,
    #[asn(optional(integer(0..7)))] pub f4: Option<u8>,
}

impl Ts5mmdmme2 {
    pub const fn f0_min() -> u8 {
        0
    }

    pub const fn f0_max() -> u8 {
        7
    }

    pub const fn f1_min() -> u8 {
        0
    }

    pub const fn f1_max() -> u8 {
        7
    }

    pub const fn f2_min() -> u8 {
        0
    }

    pub const fn f2_max() -> u8 {
        7
    }

    pub const fn f3_min() -> u8 {
        0
    }

    pub const fn f3_max() -> u8 {
        7
    }

    pub const fn f4_min() -> u8 {
        0
    }

    pub const fn f4_max() -> u8 {
        7
    }
}

#[asn(sequence, extensible_after(f2))]

#[derive(Default, Debug, Clone, PartialEq, Hash)]
pub struct Ts5mmdmme3 {
    #[asn(integer(0..7))] pub f0: u8,
    #[asn(integer(0..7))] pub f1: u8,
    #[asn(default(integer(0..7), 5))] pub f2: u8,
    #[asn(optional(integer(0..7)))] pub f3: Option<u8>,
    #[asn(optional(integer(0..7)))] pub f4: Option<u8>,
}

impl Ts5mmdmme3 {
    pub const fn f0_min() -> u8 {
        0
    }

    pub const fn f0_max() -> u8 {
        7
    }

    pub const fn f1_min() -> u8 {
        0
    }

    pub const fn f1_max() -> u8 {
        7
    }

    pub const fn f2_min() -> u8 {
        0
    }

    pub const fn f2_max() -> u8 {
        7
    }

    pub const fn f3_min() -> u8 {
        0
    }

    pub const fn f3_max() -> u8 {
        7
    }

    pub const fn f4_min() -> u8 {
        0
    }

    pub const fn f4_max() -> u8 {
        7
    }
}

#[asn(sequence, extensible_after(f3))]

#[derive(Default, Debug, Clone, PartialEq, Hash)]
pub struct Ts5mmdmme4 {
    #[asn(integer(0..7))] pub f0: u8,
    #[asn(integer(0..7))] pub f1: u8,
    #[asn(default(integer(0..7), 5))] pub f2: u8,
    #[asn(integer(0..7))] pub f3: u8,
    #[asn(optional(integer(0..7)))] pub f4: Option<u8>,
}

impl Ts5mmdmme4 {
    pub const fn f0_min() -> u8 {
        0
    }

    pub const fn f0_max() -> u8 {
        7
    }

    pub const fn f1_min() -> u8 {
        0
    }

    pub const fn f1_max() -> u8 {
        7
    }

    pub const fn f2_min() -> u8 {
        0
    }

    pub const fn f2_max() -> u8 {
        7
    }

    pub const fn f3_min() -> u8 {
        0
    }

    pub const fn f3_max() -> u8 {
        7
    }

    pub const fn f4_min() -> u8 {
        0
    }

    pub const fn f4_max() -> u8 {
        7
    }
}

#[asn(sequence, extensible_after(f4))]

#[derive(Default, Debug, Clone, PartialEq, Hash)]
pub struct Ts5mmdmme5 {
    #[asn(integer(0..7))] pub f0: u8,
    #[asn(integer(0..7))] pub f1: u8,
    #[asn(default(integer(0..7), 5))] pub f2: u8,
    #[asn(integer(0..7))] pub f3: u8,
    #[asn(integer(0..7))] pub f4: u8,
}

impl Ts5mmdmme5 {
    pub const fn f0_min() -> u8 {
        0
    }

    pub const fn f0_max() -> u8 {
        7
    }

    pub const fn f1_min() -> u8 {
        0
    }

    pub const fn f1_max() -> u8 {
        7
    }

    pub const fn f2_min() -> u8 {
        0
    }

    pub const fn f2_max() -> u8 {
        7
    }

    pub const fn f3_min() -> u8 {
        0
    }

    pub const fn f3_max() -> u8 {
        7
    }

    pub const fn f4_min() -> u8 {
        0
    }

    pub const fn f4_max() -> u8 {
        7
    }
}

#[asn(sequence)]

#[derive(Default, Debug, Clone, PartialEq, Hash)]
pub struct Ts5omdmmn {
    #[asn(optional(integer(0..7)))] pub f0: Option<u8>,
    #[asn(integer(0..7))] pub f1: u8,
    #[asn(default(integer(0..7), 5))] pub f2: u8,
    #[asn(integer(0..7))] pub f3: u8,
    #[asn(integer(0..7))] pub f4: u8,
}

impl Ts5omdmmn {
    pub const fn f0_min() -> u8 {
        0
    }

    pub const fn f0_max() -> u8 {
        7
    }

    pub const fn f1_min() -> u8 {
        0
    }

    pub const fn f1_max() -> u8 {
        7
    }

    pub const fn f2_min() -> u8 {
        0
    }

    pub const fn f2_max() -> u8 {
        7
    }

    pub const fn f3_min() -> u8 {
        0
    }

    pub const fn f3_max() -> u8 {
        7
    }

    pub const fn f4_min() -> u8 {
        0
    }

    pub const fn f4_max() -> u8 {
        7
    }
}

#[asn(sequence, extensible_after(f0))]

#[derive(Default, Debug, Clone, PartialEq, Hash)]
pub struct Ts5omdmme0 {
    #[asn(optional(integer(0..7)))] pub f0: Option<u8>,
    #[asn(optional(integer(0..7)))] pub f1: Option<u8>,
    #[asn(default(integer(0..7), 5))] pub f2: u8,
    #[asn(optional(integer(0..7)))] pub f3: Option<u8>,
    #[asn(optional(integer(0..7)))] pub f4: Option<u8>,
}

impl Ts5omdmme0 {
    pub const fn f0_min() -> u8 {
        0
    }

    pub const fn f0_max() -> u8 {
        7
    }

    pub const fn f1_min() -> u8 {
        0
    }

    pub const fn f1_max() -> u8 {
        7
    }

    pub const fn f2_min() -> u8 {
        0
    }

    pub const fn f2_max() -> u8 {
        7
    }

    pub const fn f3_min() -> u8 {
        0
    }

    pub const fn f3_max() -> u8 {
        7
    }

    pub const fn f4_min() -> u8 {
        0
    }

    pub const fn f4_max() -> u8 {
        7
    }
}

#[asn(sequence, extensible_after(f0))]

#[derive(Default, Debug, Clone, PartialEq, Hash)]
pub struct Ts5omdmme1 {
    #[asn(optional(integer(0..7)))] pub f0: Option<u8>,
    #[asn(optional(integer(0..7)))] pub f1: Option<u8>,
    #[asn(default(integer(0..7), 5))] pub f2: u8,
    #[asn(optional(integer(0..7)))] pub f3: Option<u8>,
    #[asn(optional(integer(0..7)))] pub f4: Option<u8>,
}

impl Ts5omdmme1 {
    pub const fn f0_min() -> u8 {
        0
    }

    pub const fn f0_max() -> u8 {
        7
    }

    pub const fn f1_min() -> u8 {
        0
    }

    pub const fn f1_max() -> u8 {
        7
    }

    pub const fn f2_min() -> u8 {
        0
    }

    pub const fn f2_max() -> u8 {
        7
    }

    pub const fn f3_min() -> u8 {
        0
    }

    pub const fn f3_max() -> u8 {
        7
    }

    pub const fn f4_min() -> u8 {
        0
    }

    pub const fn f4_max() -> u8 {
        7
    }
}

#[asn(sequence, extensible_after(f1))]

#[derive(Default, Debug, Clone, PartialEq, Hash)]
pub struct Ts5omdmme2 {
    #[asn(optional(integer(0..7)))] pub f0: Option<u8>,
    #[asn(integer(0..7))] pub f1: u8,
    #[asn(default(integer(0..7), 5))] pub f2: u8,
    #[asn(optional(integer(0..7)))] pub f3: Option<u8>,
    #[asn(optional(integer(0..7)))] pub f4: Option<u8>,
}

impl Ts5omdmme2 {
    pub const fn f0_min() -> u8 {
        0
    }

    pub const fn f0_max() -> u8 {
        7
    }

    pub const fn f1_min() -> u8 {
        0
    }

    pub const fn f1_max() -> u8 {
        7
    }

    pub const fn f2_min() -> u8 {
        0
    }

    pub const fn f2_max() -> u8 {
        7
    }

    pub const fn f3_min() -> u8 {
        0
    }

    pub const fn f3_max() -> u8 {
        7
    }

    pub const fn f4_min() -> u8 {
        0
    }

    pub const fn f4_max() -> u8 {
        7
    }
}

#[asn(sequence, extensible_after(f2))]

#[derive(Default, Debug, Clone, PartialEq, Hash)]
pub struct Ts5omdmme3 {
    #[asn(optional(integer(0..7)))] pub f0: Option<u8>,
    #[asn(integer(0..7))] pub f1: u8,
    #[asn(default(integer(0..7), 5))] pub f2: u8,
    #[asn(optional(integer(0..7)))] pub f3: Option<u8>,
    #[asn(optional(integer(0..7)))] pub f4: Option<u8>,
}

impl Ts5omdmme3 {
    pub const fn f0_min() -> u8 {
        0
    }

    pub const fn f0_max() -> u8 {
        7
    }

    pub const fn f1_min() -> u8 {
        0
    }

    pub const fn f1_max() -> u8 {
        7
    }

    pub const fn f2_min() -> u8 {
        0
    }

    pub const fn f2_max() -> u8 {
        7
    }

    pub const fn f3_min() -> u8 {
        0
    }

    pub const fn f3_max() -> u8 {
        7
    }

    pub const fn f4_min() -> u8 {
        0
    }

    pub const fn f4_max() -> u8 {
        7
    }
}

#[asn(sequence, extensible_after(f3))]

#[derive(Default, Debug, Clone, PartialEq, Hash)]
pub struct Ts5omdmme4 {
    #[asn(optional(integer(0..7)))] pub f0: Option<u8>,
    #[asn(integer(0..7))] pub f1: u8,
    #[asn(default(integer(0..7), 5))] pub f2: u8,
    #[asn(integer(0..7))] pub f3: u8,
    #[asn(optional(integer(0..7)))] pub f4: Option<u8>,
}

impl Ts5omdmme4 {
    pub const fn f0_min() -> u8 {
        0
    }

    pub const fn f0_max() -> u8 {
        7
    }

    pub const fn f1_min() -> u8 {
        0
    }

    pub const fn f1_max() -> u8 {
        7
    }

    pub const fn f2_min() -> u8 {
        0
    }

    pub const fn f2_max() -> u8 {
        7
    }

    pub const fn f3_min() -> u8 {
        0
    }

    pub const fn f3_max() -> u8 {
        7
    }

    pub const fn f4_min() -> u8 {
        0
    }

    pub const fn f4_max() -> u8 {
        7
    }
}

#[asn(sequence, extensible_after(f4))]

#[derive(Default, Debug, Clone, PartialEq, Hash)]
pub struct Ts5omdmme5 {
    #[asn(optional(integer(0..7)))] pub f0: Option<u8>,
    #[asn(integer(0..7))] pub f1: u8,
    #[asn(default(integer(0..7), 5))] pub f2: u8,
    #[asn(integer(0..7))] pub f3: u8,
    #[asn(integer(0..7))] pub f4: u8,
}

impl Ts5omdmme5 {
    pub const fn f0_min() -> u8 {
        0
    }

    pub const fn f0_max() -> u8 {
        7
    }

    pub const fn f1_min() -> u8 {
        0
    }

    pub const fn f1_max() -> u8 {
        7
    }

    pub const fn f2_min() -> u8 {
        0
    }

    pub const fn f2_max() -> u8 {
        7
    }

    pub const fn f3_min() -> u8 {
        0
    }

    pub const fn f3_max() -> u8 {
        7
    }

    pub const fn f4_min() -> u8 {
        0
    }

    pub const fn f4_max() -> u8 {
        7
    }
}

#[asn(sequence)]

#[derive(Default, Debug, Clone, PartialEq, Hash)]
pub struct Ts5dmdmmn {
    #[asn(default(integer(0..7), 5))] pub f0: u8,
    #[asn(integer(0..7))] pub f1: u8,
    #[asn(default(integer(0..7), 5))] pub f2: u8,
    #[asn(integer(0..7))] pub f3: u8,
    #[asn(integer(0..7))] pub f4: u8,
}

impl Ts5dmdmmn {
    pub const fn f0_min() -> u8 {
        0
    }

    pub const fn f0_max() -> u8 {
        7
    }

    pub const fn f1_min() -> u8 {
        0
    }

    pub const fn f1_max() -> u8 {
        7
    }

    pub const fn f2_min() -> u8 {
        0
    }

    pub const fn f2_max() -> u8 {
        7
    }

    pub const fn f3_min() -> u8 {
        0
    }

    pub const fn f3_max() -> u8 {
        7
    }

    pub const fn f4_min() -> u8 {
        0
    }

    pub const fn f4_max() -> u8 {
        7
    }
}

#[asn(sequence, extensible_after(f0))]

#[derive(Default, Debug, Clone, PartialEq, Hash)]
pub struct Ts5dmdmme0 {
    #[asn(default(integer(0..7), 5))] pub f0: u8,
    #[asn(optional(integer(0..7)))] pub f1: Option<u8>,
    #[asn(default(integer(0..7), 5))] pub f2: u8,
    #[asn(optional(integer(0..7)))] pub f3: Option<u8>,
    #[asn(optional(integer(0..7)))] pub f4: Option<u8>,
}

impl Ts5dmdmme0 {
    pub const fn f0_min() -> u8 {
        0
    }

    pub const fn f0_max() -> u8 {
        7
    }

    pub const fn f1_min() -> u8 {
        0
    }

    pub const fn f1_max() -> u8 {
        7
    }

    pub const fn f2_min() -> u8 {
        0
    }

    pub const fn f2_max() -> u8 {
        7
    }

    pub const fn f3_min() -> u8 {
        0
    }

    pub const fn f3_max() -> u8 {
        7
    }

    pub const fn f4_min() -> u8 {
        0
    }

    pub const fn f4_max() -> u8 {
        7
    }
}

#[asn(sequence, extensible_after(f0))]

#[derive(Default, Debug, Clone, PartialEq, Hash)]
pub struct Ts5dmdmme1 {
    #[asn(default(integer(0..7), 5))] pub f0: u8,
    #[asn(optional(integer(0..7)))] pub f1: Option<u8>,
    #[asn(default(integer(0..7), 5))] pub f2: u8,
    #[asn(optional(integer(0..7)))] pub f3: Option<u8>,
    #[asn(optional(integer(0..7)))] pub f4: Option<u8>,
}

impl Ts5dmdmme1 {
    pub const fn f0_min() -> u8 {
        0
    }

    pub const fn f0_max() -> u8 {
        7
    }

    pub const fn f1_min() -> u8 {
        0
    }

    pub const fn f1_max() -> u8 {
        7
    }

    pub const fn f2_min() -> u8 {
        0
    }

    pub const fn f2_max() -> u8 {
        7
    }

    pub const fn f3_min() -> u8 {
        0
    }

    pub const fn f3_max() -> u8 {
        7
    }

    pub const fn f4_min() -> u8 {
        0
    }

    pub const fn f4_max() -> u8 {
        7
    }
}

#[asn(sequence, extensible_after(f1))]

#[derive(Default, Debug, Clone, PartialEq, Hash)]
pub struct Ts5dmdmme2 {
    #[asn(default(integer(0..7), 5))] pub f0: u8,
    #[asn(integer(0..7))] pub f1: u8,
    #[asn(default(integer(0..7), 5))] pub f2: u8,
    #[asn(optional(integer(0..7)))] pub f3: Option<u8>,
    #[asn(optional(integer(0..7)))] pub f4: Option<u8>,
}

impl Ts5dmdmme2 {
    pub const fn f0_min() -> u8 {
        0
    }

    pub const fn f0_max() -> u8 {
        7
    }

    pub const fn f1_min() -> u8 {
        0
    }

    pub const fn f1_max() -> u8 {
        7
    }

    pub const fn f2_min() -> u8 {
        0
    }

    pub const fn f2_max() -> u8 {
        7
    }

    pub const fn f3_min() -> u8 {
        0
    }

    pub const fn f3_max() -> u8 {
        7
    }

    pub const fn f4_min() -> u8 {
        0
    }

    pub const fn f4_max() -> u8 {
        7
    }
}

#[asn(sequence, extensible_after(f2))]

#[derive(Default, Debug, Clone, PartialEq, Hash)]
pub struct Ts5dmdmme3 {
    #[asn(default(integer(0..7), 5))] pub f0: u8,
    #[asn(integer(0..7))] pub f1: u8,
    #[asn(default(integer(0..7), 5))] pub f2: u8,
    #[asn(optional(integer(0..7)))] pub f3: Option<u8>,
    #[asn(optional(integer(0..7)))] pub f4: Option<u8>,
}

impl Ts5dmdmme3 {
    pub const fn f0_min() -> u8 {
        0
    }

    pub const fn f0_max() -> u8 {
        7
    }

    pub const fn f1_min() -> u8 {
        0
    }

    pub const fn f1_max() -> u8 {
        7
    }

    pub const fn f2_min() -> u8 {
        0
    }

    pub const fn f2_max() -> u8 {
        7
    }

    pub const fn f3_min() -> u8 {
        0
    }

    pub const fn f3_max() -> u8 {
        7
    }

    pub const fn f4_min() -> u8 {
        0
    }

    pub const fn f4_max() -> u8 {
        7
    }
}

#[asn(sequence, extensible_after(f3))]

#[derive(Default, Debug, Clone, PartialEq, Hash)]
pub struct Ts5dmdmme4 {
    #[asn(default(integer(0..7), 5))] pub f0: u8,
    #[asn(integer(0..7))] pub f1: u8,
    #[asn(default(integer(0..7), 5))] pub f2: u8,
    #[asn(integer(0..7))] pub f3: u8,
    #[asn(optional(integer(0..7)))] pub f4: Option<u8>,
}

impl Ts5dmdmme4 {
    pub const fn f0_min() -> u8 {
        0
    }

    pub const fn f0_max() -> u8 {
        7
    }

    pub const fn f1_min() -> u8 {
        0
    }

    pub const fn f1_max() -> u8 {
        7
    }

    pub const fn f2_min() -> u8 {
        0
    }

    pub const fn f2_max() -> u8 {
        7
    }

    pub const fn f3_min() -> u8 {
        0
    }

    pub const fn f3_max() -> u8 {
        7
    }

    pub const fn f4_min() -> u8 {
        0
    }

    pub const fn f4_max() -> u8 {
        7
    }
}

#[asn(sequence, extensible_after(f4))]

#[derive(Default, Debug, Clone, PartialEq, Hash)]
pub struct Ts5dmdmme5 {
    #[asn(default(integer(0..7), 5))] pub f0: u8,
    #[asn(integer(0..7))] pub f1: u8,
    #[asn(default(integer(0..7), 5))] pub f2: u8,
    #[asn(integer(0..7))] pub f3: u8,
    #[asn(integer(0..7))] pub f4: u8,
}

impl Ts5dmdmme5 {
    pub const fn f0_min() -> u8 {
        0
    }

    pub const fn f0_max() -> u8 {
        7
    }

    pub const fn f1_min() -> u8 {
        0
    }

    pub const fn f1_max() -> u8 {
        7
    }

    pub const fn f2_min() -> u8 {
        0
    }

    pub const fn f2_max() -> u8 {
        7
    }

    pub const fn f3_min() -> u8 {
        0
    }

    pub const fn f3_max() -> u8 {
        7
    }

    pub const fn f4_min() -> u8 {
        0
    }

    pub const fn f4_max() -> u8 {
        7
    }
}

#[asn(sequence)]

#[derive(Default, Debug, Clone, PartialEq, Hash)]
pub struct Ts5modmmn {
    #[asn(integer(0..7))] pub f0: u8,
    #[asn(optional(integer(0..7)))] pub f1: Option<u8>,
    #[asn(default(integer(0..7), 5))] pub f2: u8,
    #[asn(integer(0..7))] pub f3: u8,
    #[asn(integer(0..7))] pub f4: u8,
}

impl Ts5modmmn {
    pub const fn f0_min() -> u8 {
        0
    }

    pub const fn f0_max() -> u8 {
        7
    }

    pub const fn f1_min() -> u8 {
        0
    }

    pub const fn f1_max() -> u8 {
        7
    }

    pub const fn f2_min() -> u8 {
        0
    }

    pub const fn f2_max() -> u8 {
        7
    }

    pub const fn f3_min() -> u8 {
        0
    }

    pub const fn f3_max() -> u8 {
        7
    }

    pub const fn f4_min() -> u8 {
        0
    }

    pub const fn f4_max() -> u8 {
        7
    }
}

#[asn(sequence, extensible_after(f0))]

#[derive(Default, Debug, Clone, PartialEq, Hash)]
pub struct Ts5modmme0 {
    #[asn(integer(0..7))] pub f0: u8,
    #[asn(optional(integer(0..7)))] pub f1: Option<u8>,
    #[asn(default(integer(0..7), 5))] pub f2: u8,
    #[asn(optional(integer(0..7)))] pub f3: Option<u8>,
    #[asn(optional(integer(0..7)))] pub f4: Option<u8>,
}

impl Ts5modmme0 {
    pub const fn f0_min() -> u8 {
        0
    }

    pub const fn f0_max() -> u8 {
        7
    }

    pub const fn f1_min() -> u8 {
        0
    }

    pub const fn f1_max() -> u8 {
        7
    }

    pub const fn f2_min() -> u8 {
        0
    }

    pub const fn f2_max() -> u8 {
        7
    }

    pub const fn f3_min() -> u8 {
        0
    }

    pub const fn f3_max() -> u8 {
        7
    }

    pub const fn f4_min() -> u8 {
        0
    }

    pub const fn f4_max() -> u8 {
        7
    }
}

#[asn(sequence, extensible_after(f0))]

#[derive(Default, Debug, Clone, PartialEq, Hash)]
pub struct Ts5modmme1 {
    #[asn(integer(0..7))] pub f0: u8,
    #[asn(optional(integer(0..7)))] pub f1: Option<u8>,
    #[asn(default(integer(0..7), 5))] pub f2: u8,
    #[asn(optional(integer(0..7)))] pub f3: Option<u8>,
    #[asn(optional(integer(0..7)))] pub f4: Option<u8>,
}

impl Ts5modmme1 {
    pub const fn f0_min() -> u8 {
        0
    }

    pub const fn f0_max() -> u8 {
        7
    }

    pub const fn f1_min() -> u8 {
        0
    }

    pub const fn f1_max() -> u8 {
        7
    }

    pub const fn f2_min() -> u8 {
        0
    }

    pub const fn f2_max() -> u8 {
        7
    }

    pub const fn f3_min() -> u8 {
        0
    }

    pub const fn f3_max() -> u8 {
        7
    }

    pub const fn f4_min() -> u8 {
        0
    }

    pub const fn f4_max() -> u8 {
        7
    }
}

#[asn(sequence, extensible_after(f1))]

#[derive(Default, Debug, Clone, PartialEq, Hash)]
pub struct Ts5modmme2 {
    #[asn(integer(0..7))] pub f0: u8,
    #[asn(optional(integer(0..7)))] pub f1: Option<u8>,
    #[asn(default(integer(0..7), 5))] pub f2: u8,
    #[asn(optional(integer(0..7)))] pub f3: Option<u8>,
    #[asn(optional(integer(0..7)))] pub f4: Option<u8>,
}

impl Ts5modmme2 {
    pub const fn f0_min() -> u8 {
        0
    }

    pub const fn f0_max() -> u8 {
        7
    }

    pub const fn f1_min() -> u8 {
        0
    }

    pub const fn f1_max() -> u8 {
        7
    }

    pub const fn f2_min() -> u8 {
        0
    }

    pub const fn f2_max() -> u8 {
        7
    }

    pub const fn f3_min() -> u8 {
        0
    }

    pub const fn f3_max() -> u8 {
        7
    }

    pub const fn f4_min() -> u8 {
        0
    }

    pub const fn f4_max() -> u8 {
        7
    }
}

#[asn(sequence, extensible_after(f2))]

#[derive(Default, Debug, Clone, PartialEq, Hash)]
pub struct Ts5modmme3 {
    #[asn(integer(0..7))] pub f0: u8,
    #[asn(optional(integer(0..7)))] pub f1: Option<u8>,
    #[asn(default(integer(0..7), 5))] pub f2: u8,
    #[asn(optional(integer(0..7)))] pub f3: Option<u8>,
    #[asn(optional(integer(0..7)))] pub f4: Option<u8>,
}

impl Ts5modmme3 {
    pub const fn f0_min() -> u8 {
        0
    }

    pub const fn f0_max() -> u8 {
        7
    }

    pub const fn f1_min() -> u8 {
        0
    }

    pub const fn f1_max() -> u8 {
        7
    }

    pub const fn f2_min() -> u8 {
        0
    }

    pub const fn f2_max() -> u8 {
        7
    }

    pub const fn f3_min() -> u8 {
        0
    }

    pub const fn f3_max() -> u8 {
        7
    }

    pub const fn f4_min() -> u8 {
        0
    }

    pub const fn f4_max() -> u8 {
        7
    }
}

#[asn(sequence, extensible_after(f3))]

#[derive(Default, Debug, Clone, PartialEq, Hash)]
pub struct Ts5modmme4 {
    #[asn(integer(0..7))] pub f0: u8,
    #[asn(optional(integer(0..7)))] pub f1: Option<u8>,
    #[asn(default(integer(0..7), 5))] pub f2: u8,
    #[asn(integer(0..7))] pub f3: u8,
    #[asn(optional(integer(0..7)))] pub f4: Option<u8>,
}

impl Ts5modmme4 {
    pub const fn f0_min() -> u8 {
        0
    }

    pub const fn f0_max() -> u8 {
        7
    }

    pub const fn f1_min() -> u8 {
        0
    }

    pub const fn f1_max() -> u8 {
        7
    }

    pub const fn f2_min() -> u8 {
        0
    }

    pub const fn f2_max() -> u8 {
        7
    }

    pub const fn f3_min() -> u8 {
        0
    }

    pub const fn f3_max() -> u8 {
        7
    }

    pub const fn f4_min() -> u8 {
        0
    }

    pub const fn f4_max() -> u8 {
        7
    }
}

#[asn(sequence, extensible_after(f4))]

#[derive(Default, Debug, Clone, PartialEq, Hash)]
pub struct Ts5modmme5 {
    #[asn(integer(0..7))] pub f0: u8,
    #[asn(optional(integer(0..7)))] pub f1: Option<u8>,
    #[asn(default(integer(0..7), 5))] pub f2: u8,
    #[asn(integer(0..7))] pub f3: u8,
    #[asn(integer(0..7))] pub f4: u8,
}

impl Ts5modmme5 {
    pub const fn f0_min() -> u8 {
        0
    }

    pub const fn f0_max() -> u8 {
        7
    }

    pub const fn f1_min() -> u8 {
        0
    }

    pub const fn f1_max() -> u8 {
        7
    }

    pub const fn f2_min() -> u8 {
        0
    }

    pub const fn f2_max() -> u8 {
        7
    }

    pub const fn f3_min() -> u8 {
        0
    }

    pub const fn f3_max() -> u8 {
        7
    }

    pub const fn f4_min() -> u8 {
        0
    }

    pub const fn f4_max() -> u8 {
        7
    }
}

#[asn(sequence)]

#[derive(Default, Debug, Clone, PartialEq, Hash)]
pub struct Ts5oodmmn {
    #[asn(optional(integer(0..7)))] pub f0: Option<u8>,
    #[asn(optional(integer(0..7)))] pub f1: Option<u8>,
    #[asn(default(integer(0..7), 5))] pub f2: u8,
    #[asn(integer(0..7))] pub f3: u8,
    #[asn(integer(0..7))] pub f4: u8,
}

impl Ts5oodmmn {
    pub const fn f0_min() -> u8 {
        0
    }

    pub const fn f0_max() -> u8 {
        7
    }

    pub const fn f1_min() -> u8 {
        0
    }

    pub const fn f1_max() -> u8 {
        7
    }

    pub const fn f2_min() -> u8 {
        0
    }

    pub const fn f2_max() -> u8 {
        7
    }

    pub const fn f3_min() -> u8 {
        0
    }

    pub const fn f3_max() -> u8 {
        7
    }

    pub const fn f4_min() -> u8 {
        0
    }

    pub const fn f4_max() -> u8 {
        7
    }
}

#[asn(sequence, extensible_after(f0))]

#[derive(Default, Debug, Clone, PartialEq, Hash)]
pub struct Ts5oodmme0 {
    #[asn(optional(integer(0..7)))] pub f0: Option<u8>,
    #[asn(optional(integer(0..7)))] pub f1: Option<u8>,
    #[asn(default(integer(0..7), 5))] pub f2: u8,
    #[asn(optional(integer(0..7)))] pub f3: Option<u8>,
    #[asn(optional(integer(0..7)))] pub f4: Option<u8>,
}

impl Ts5oodmme0 {
    pub const fn f0_min() -> u8 {
        0
    }

    pub const fn f0_max() -> u8 {
        7
    }

    pub const fn f1_min() -> u8 {
        0
    }

    pub const fn f1_max() -> u8 {
        7
    }

    pub const fn f2_min() -> u8 {
        0
    }

    pub const fn f2_max() -> u8 {
        7
    }

    pub const fn f3_min() -> u8 {
        0
    }

    pub const fn f3_max() -> u8 {
        7
    }

    pub const fn f4_min() -> u8 {
        0
    }

    pub const fn f4_max() -> u8 {
        7
    }
}

#[asn(sequence, extensible_after(f0))]

#[derive(Default, Debug, Clone, PartialEq, Hash)]
pub struct Ts5oodmme1 {
    #[asn(optional(integer(0..7)))] pub f0: Option<u8>,
    #[asn(optional(integer(0..7)))] pub f1: Option<u8>,
    #[asn(default(integer(0..7), 5))] pub f2: u8,
    #[asn(optional(integer(0..7)))] pub f3: Option<u8>,
    #[asn(optional(integer(0..7)))] pub f4: Option<u8>,
}

impl Ts5oodmme1 {
    pub const fn f0_min() -> u8 {
        0
    }

    pub const fn f0_max() -> u8 {
        7
    }

    pub const fn f1_min() -> u8 {
        0
    }

    pub const fn f1_max() -> u8 {
        7
    }

    pub const fn f2_min() -> u8 {
        0
    }

    pub const fn f2_max() -> u8 {
        7
    }

    pub const fn f3_min() -> u8 {
        0
    }

    pub const fn f3_max() -> u8 {
        7
    }

    pub const fn f4_min() -> u8 {
        0
    }

    pub const fn f4_max() -> u8 {
        7
    }
}

#[asn(sequence, extensible_after(f1))]

#[derive(Default, Debug, Clone, PartialEq, Hash)]
pub struct Ts5oodmme2 {
    #[asn(optional(integer(0..7)))] pub f0: Option<u8>,
    #[asn(optional(integer(0..7)))] pub f1: Option<u8>,
    #[asn(default(integer(0..7), 5))] pub f2: u8,
    #[asn(optional(integer(0..7)))] pub f3: Option<u8>,
    #[asn(optional(integer(0..7)))] pub f4: Option<u8>,
}

impl Ts5oodmme2 {
    pub const fn f0_min() -> u8 {
        0
    }

    pub const fn f0_max() -> u8 {
        7
    }

    pub const fn f1_min() -> u8 {
        0
    }

    pub const fn f1_max() -> u8 {
        7
    }

    pub const fn f2_min() -> u8 {
        0
    }

    pub const fn f2_max() -> u8 {
        7
    }

    pub const fn f3_min() -> u8 {
        0
    }

    pub const fn f3_max() -> u8 {
        7
    }

    pub const fn f4_min() -> u8 {
        0
    }

    pub const fn f4_max() -> u8 {
        7
    }
}

#[asn(sequence, extensible_after(f2))]

#[derive(Default, Debug, Clone, PartialEq, Hash)]
pub struct Ts5oodmme3 {
    #[asn(optional(integer(0..7)))] pub f0: Option<u8>,
    #[asn(optional(integer(0..7)))] pub f1: Option<u8>,
    #[asn(default(integer(0..7), 5))] pub f2: u8,
    #[asn(optional(integer(0..7)))] pub f3: Option<u8>,
    #[asn(optional(integer(0..7)))] pub f4: Option<u8>,
}

impl Ts5oodmme3 {
    pub const fn f0_min() -> u8 {
        0
    }

    pub const fn f0_max() -> u8 {
        7
    }

    pub const fn f1_min() -> u8 {
        0
    }

    pub const fn f1_max() -> u8 {
        7
    }

    pub const fn f2_min() -> u8 {
        0
    }

    pub const fn f2_max() -> u8 {
        7
    }

    pub const fn f3_min() -> u8 {
        0
    }

    pub const fn f3_max() -> u8 {
        7
    }

    pub const fn f4_min() -> u8 {
        0
    }

    pub const fn f4_max() -> u8 {
        7
    }
}

#[asn(sequence, extensible_after(f3))]

#[derive(Default, Debug, Clone, PartialEq, Hash)]
pub struct Ts5oodmme4 {
    #[asn(optional(integer(0..7)))] pub f0: Option<u8>,
    #[asn(optional(integer(0..7)))] pub f1: Option<u8>,
    #[asn(default(integer(0..7), 5))] pub f2: u8,
    #[asn(integer(0..7))] pub f3: u8,
    #[asn(optional(integer(0..7)))] pub f4: Option<u8>,
}

impl Ts5oodmme4 {
    pub const fn f0_min() -> u8 {
        0
    }

    pub const fn f0_max() -> u8 {
        7
    }

    pub const fn f1_min() -> u8 {
        0
    }

    pub const fn f1_max() -> u8 {
        7
    }

    pub const fn f2_min() -> u8 {
        0
    }

    pub const fn f2_max() -> u8 {
        7
    }

    pub const fn f3_min() -> u8 {
        0
    }

    pub const fn f3_max() -> u8 {
        7
    }

    pub const fn f4_min() -> u8 {
        0
    }

    pub const fn f4_max() -> u8 {
        7
    }
}

#[asn(sequence, extensible_after(f4))]

#[derive(Default, Debug, Clone, PartialEq, Hash)]
pub struct Ts5oodmme5 {
    #[asn(optional(integer(0..7)))] pub f0: Option<u8>,
    #[asn(optional(integer(0..7)))] pub f1: Option<u8>,
    #[asn(default(integer(0..7), 5))] pub f2: u8,
    #[asn(integer(0..7))] pub f3: u8,
    #[asn(integer(0..7))] pub f4: u8,
}

impl Ts5oodmme5 {
    pub const fn f0_min() -> u8 {
        0
    }

    pub const fn f0_max() -> u8 {
        7
    }

    pub const fn f1_min() -> u8 {
        0
    }

    pub const fn f1_max() -> u8 {
        7
    }

    pub const fn f2_min() -> u8 {
        0
    }

    pub const fn f2_max() -> u8 {
        7
    }

    pub const fn f3_min() -> u8 {
        0
    }

    pub const fn f3_max() -> u8 {
        7
    }

    pub const fn f4_min() -> u8 {
        0
    }

    pub const fn f4_max() -> u8 {
        7
    }
}

#[asn(sequence)]

#[derive(Default, Debug, Clone, PartialEq, Hash)]
pub struct Ts5dodmmn {
    #[asn(default(integer(0..7), 5))] pub f0: u8,
    #[asn(optional(integer(0..7)))] pub f1: Option<u8>,
    #[asn(default(integer(0..7), 5))] pub f2: u8,
    #[asn(integer(0..7))] pub f3: u8,
    #[asn(integer(0..7))] pub f4: u8,
}

impl Ts5dodmmn {
    pub const fn f0_min() -> u8 {
        0
    }

    pub const fn f0_max() -> u8 {
        7
    }

    pub const fn f1_min() -> u8 {
        0
    }

    pub const fn f1_max() -> u8 {
        7
    }

    pub const fn f2_min() -> u8 {
        0
    }

    pub const fn f2_max() -> u8 {
        7
    }

    pub const fn f3_min() -> u8 {
        0
    }

    pub const fn f3_max() -> u8 {
        7
    }

    pub const fn f4_min() -> u8 {
        0
    }

    pub const fn f4_max() -> u8 {
        7
    }
}

#[asn(sequence, extensible_after(f0))]

#[derive(Default, Debug, Clone, PartialEq, Hash)]
pub struct Ts5dodmme0 {
    #[asn(default(integer(0..7), 5))] pub f0: u8,
    #[asn(optional(integer(0..7)))] pub f1: Option<u8>,
    #[asn(default(integer(0..7), 5))] pub f2: u8,
    #[asn(optional(integer(0..7)))] pub f3: Option<u8>,
    #[asn(optional(integer(0..7)))] pub f4: Option<u8>,
}

impl Ts5dodmme0 {
    pub const fn f0_min() -> u8 {
        0
    }

    pub const fn f0_max() -> u8 {
        7
    }

    pub const fn f1_min() -> u8 {
        0
    }

    pub const fn f1_max() -> u8 {
        7
    }

    pub const fn f2_min() -> u8 {
        0
    }

    pub const fn f2_max() -> u8 {
        7
    }

    pub const fn f3_min() -> u8 {
        0
    }

    pub const fn f3_max() -> u8 {
        7
    }

    pub const fn f4_min() -> u8 {
        0
    }

    pub const fn f4_max() -> u8 {
        7
    }
}

#[asn(sequence, extensible_after(f0))]

#[derive(Default, Debug, Clone, PartialEq, Hash)]
pub struct Ts5dodmme1 {
    #[asn(default(integer(0..7), 5))] pub f0: u8,
    #[asn(optional(integer(0..7)))] pub f1: Option<u8>,
    #[asn(default(integer(0..7), 5))] pub f2: u8,
    #[asn(optional(integer(0..7)))] pub f3: Option<u8>,
    #[asn(optional(integer(0..7)))] pub f4: Option<u8>,
}

impl Ts5dodmme1 {
    pub const fn f0_min() -> u8 {
        0
    }

    pub const fn f0_max() -> u8 {
        7
    }

    pub const fn f1_min() -> u8 {
        0
    }

    pub const fn f1_max() -> u8 {
        7
    }

    pub const fn f2_min() -> u8 {
        0
    }

    pub const fn f2_max() -> u8 {
        7
    }

    pub const fn f3_min() -> u8 {
        0
    }

    pub const fn f3_max() -> u8 {
        7
    }

    pub const fn f4_min() -> u8 {
        0
    }

    pub const fn f4_max() -> u8 {
        7
    }
}

#[asn(sequence, extensible_after(f1))]

#[derive(Default, Debug, Clone, PartialEq, Hash)]
pub struct Ts5dodmme2 {
    #[asn(default(integer(0..7), 5))] pub f0: u8,
    #[asn(optional(integer(0..7)))] pub f1: Option<u8>,
    #[asn(default(integer(0..7), 5))] pub f2: u8,
    #[asn(optional(integer(0..7)))] pub f3: Option<u8>,
    #[asn(optional(integer(0..7)))] pub f4: Option<u8>,
}

impl Ts5dodmme2 {
    pub const fn f0_min() -> u8 {
        0
    }

    pub const fn f0_max() -> u8 {
        7
    }

    pub const fn f1_min() -> u8 {
        0
    }

    pub const fn f1_max() -> u8 {
        7
    }

    pub const fn f2_min() -> u8 {
        0
    }

    pub const fn f2_max() -> u8 {
        7
    }

    pub const fn f3_min() -> u8 {
        0
    }

    pub const fn f3_max() -> u8 {
        7
    }

    pub const fn f4_min() -> u8 {
        0
    }

    pub const fn f4_max() -> u8 {
        7
    }
}

#[asn(sequence, extensible_after(f2))]

#[derive(Default, Debug, Clone, PartialEq, Hash)]
pub struct Ts5dodmme3 {
    #[asn(default(integer(0..7), 5))] pub f0: u8,
    #[asn(optional(integer(0..7)))] pub f1: Option<u8>,
    #[asn(default(integer(0..7), 5))] pub f2: u8,
    #[asn(optional(integer(0..7)))] pub f3: Option<u8>,
    #[asn(optional(integer(0..7)))] pub f4: Option<u8>,
}

impl Ts5dodmme3 {
    pub const fn f0_min() -> u8 {
        0
    }

    pub const fn f0_max() -> u8 {
        7
    }

    pub const fn f1_min() -> u8 {
        0
    }

    pub const fn f1_max() -> u8 {
        7
    }

    pub const fn f2_min() -> u8 {
        0
    }

    pub const fn f2_max() -> u8 {
        7
    }

    pub const fn f3_min() -> u8 {
        0
    }

    pub const fn f3_max() -> u8 {
        7
    }

    pub const fn f4_min() -> u8 {
        0
    }

    pub const fn f4_max() -> u8 {
        7
    }
}

#[asn(sequence, extensible_after(f3))]

#[derive(Default, Debug, Clone, PartialEq, Hash)]
pub struct Ts5dodmme4 {
    #[asn(default(integer(0..7), 5))] pub f0: u8,
    #[asn(optional(integer(0..7)))] pub f1: Option<u8>,
    #[asn(default(integer(0..7), 5))] pub f2: u8,
    #[asn(integer(0..7))] pub f3: u8,
    #[asn(optional(integer(0..7)))] pub f4: Option<u8>,
}

impl Ts5dodmme4 {
    pub const fn f0_min() -> u8 {
        0
    }

    pub const fn f0_max() -> u8 {
        7
    }

    pub const fn f1_min() -> u8 {
        0
    }

    pub const fn f1_max() -> u8 {
        7
    }

    pub const fn f2_min() -> u8 {
        0
    }

    pub const fn f2_max() -> u8 {
        7
    }

    pub const fn f3_min() -> u8 {
        0
    }

    pub const fn f3_max() -> u8 {
        7
    }

    pub const fn f4_min() -> u8 {
        0
    }

    pub const fn f4_max() -> u8 {
        7
    }
}

#[asn(sequence, extensible_after(f4))]

#[derive(Default, Debug, Clone, PartialEq, Hash)]
pub struct Ts5dodmme5 {
    #[asn(default(integer(0..7), 5))] pub f0: u8,
    #[asn(optional(integer(0..7)))] pub f1: Option<u8>,
    #[asn(default(integer(0..7), 5))] pub f2: u8,
    #[asn(integer(0..7))] pub f3: u8,
    #[asn(integer(0..7))] pub f4: u8,
}

impl Ts5dodmme5 {
    pub const fn f0_min() -> u8 {
        0
    }

    pub const fn f0_max() -> u8 {
        7
    }

    pub const fn f1_min() -> u8 {
        0
    }

    pub const fn f1_max() -> u8 {
        7
    }

    pub const fn f2_min() -> u8 {
        0
    }

    pub const fn f2_max() -> u8 {
        7
    }

    pub const fn f3_min() -> u8 {
        0
    }

    pub const fn f3_max() -> u8 {
        7
    }

    pub const fn f4_min() -> u8 {
        0
    }

    pub const fn f4_max() -> u8 {
        7
    }
}

#[asn(sequence)]

#[derive(Default, Debug, Clone, PartialEq, Hash)]
pub struct Ts5mddmmn {
    #[asn(integer(0..7))] pub f0: u8,
    #[asn(default(integer(0..7), 5))] pub f1: u8,
    #[asn(default(integer(0..7), 5))] pub f2: u8,
    #[asn(integer(0..7))] pub f3: u8,
    #[asn(integer(0..7))] pub f4: u8,
}

impl Ts5mddmmn {
    pub const fn f0_min() -> u8 {
        0
    }

    pub const fn f0_max() -> u8 {
        7
    }

    pub const fn f1_min() -> u8 {
        0
    }

    pub const fn f1_max() -> u8 {
        7
    }

    pub const fn f2_min() -> u8 {
        0
    }

    pub const fn f2_max() -> u8 {
        7
    }

    pub const fn f3_min() -> u8 {
        0
    }

    pub const fn f3_max() -> u8 {
        7
    }

    pub const fn f4_min() -> u8 {
        0
    }

    pub const fn f4_max() -> u8 {
        7
    }
}

#[asn(sequence, extensible_after(f0))]

#[derive(Default, Debug, Clone, PartialEq, Hash)]
pub struct Ts5mddmme0 {
    #[asn(integer(0..7))] pub f0: u8,
    #[asn(default(integer(0..7), 5))] pub f1: u8,
    #[asn(default(integer(0..7), 5))] pub f2: u8,
    #[asn(optional(integer(0..7)))] pub f3: Option<u8>,
    #[asn(optional(integer(0..7)))] pub f4: Option<u8>,
}

impl Ts5mddmme0 {
    pub const fn f0_min() -> u8 {
        0
    }

    pub const fn f0_max() -> u8 {
        7
    }

    pub const fn f1_min() -> u8 {
        0
    }

    pub const fn f1_max() -> u8 {
        7
    }

    pub const fn f2_min() -> u8 {
        0
    }

    pub const fn f2_max() -> u8 {
        7
    }

    pub const fn f3_min() -> u8 {
        0
    }

    pub const fn f3_max() -> u8 {
        7
    }

    pub const fn f4_min() -> u8 {
        0
    }

    pub const fn f4_max() -> u8 {
        7
    }
}

#[asn(sequence, extensible_after(f0))]

#[derive(Default, Debug, Clone, PartialEq, Hash)]
pub struct Ts5mddmme1 {
    #[asn(integer(0..7))] pub f0: u8,
    #[asn(default(integer(0..7), 5))] pub f1: u8,
    #[asn(default(integer(0..7), 5))] pub f2: u8,
    #[asn(optional(integer(0..7)))] pub f3: Option<u8>,
    #[asn(optional(integer(0..7)))] pub f4: Option<u8>,
}

impl Ts5mddmme1 {
    pub const fn f0_min() -> u8 {
        0
    }

    pub const fn f0_max() -> u8 {
        7
    }

    pub const fn f1_min() -> u8 {
        0
    }

    pub const fn f1_max() -> u8 {
        7
    }

    pub const fn f2_min() -> u8 {
        0
    }

    pub const fn f2_max() -> u8 {
        7
    }

    pub const fn f3_min() -> u8 {
        0
    }

    pub const fn f3_max() -> u8 {
        7
    }

    pub const fn f4_min() -> u8 {
        0
    }

    pub const fn f4_max() -> u8 {
        7
    }
}

#[asn(sequence, extensible_after(f1))]

#[derive(Default, Debug, Clone, PartialEq, Hash)]
pub struct Ts5mddmme2 {
    #[asn(integer(0..7))] pub f0: u8,
    #[asn(default(integer(0..7), 5))] pub f1: u8,
    #[asn(default(integer(0..7), 5))] pub f2: u8,
    #[asn(optional(integer(0..7)))] pub f3: Option<u8>,
    #[asn(optional(integer(0..7)))] pub f4: Option<u8>,
}

impl Ts5mddmme2 {
    pub const fn f0_min() -> u8 {
        0
    }

    pub const fn f0_max() -> u8 {
        7
    }

    pub const fn f1_min() -> u8 {
        0
    }

    pub const fn f1_max() -> u8 {
        7
    }

    pub const fn f2_min() -> u8 {
        0
    }

    pub const fn f2_max() -> u8 {
        7
    }

    pub const fn f3_min() -> u8 {
        0
    }

    pub const fn f3_max() -> u8 {
        7
    }

    pub const fn f4_min() -> u8 {
        0
    }

    pub const fn f4_max() -> u8 {
        7
    }
}

#[asn(sequence, extensible_after(f2))]

#[derive(Default, Debug, Clone, PartialEq, Hash)]
pub struct Ts5mddmme3 {
    #[asn(integer(0..7))] pub f0: u8,
    #[asn(default(integer(0..7), 5))] pub f1: u8,
    #[asn(default(integer(0..7), 5))] pub f2: u8,
    #[asn(optional(integer(0..7)))] pub f3: Option<u8>,
    #[asn(optional(integer(0..7)))] pub f4: Option<u8>,
}

impl Ts5mddmme3 {
    pub const fn f0_min() -> u8 {
        0
    }

    pub const fn f0_max() -> u8 {
        7
    }

    pub const fn f1_min() -> u8 {
        0
    }

    pub const fn f1_max() -> u8 {
        7
    }

    pub const fn f2_min() -> u8 {
        0
    }

    pub const fn f2_max() -> u8 {
        7
    }

    pub const fn f3_min() -> u8 {
        0
    }

    pub const fn f3_max() -> u8 {
        7
    }

    pub const fn f4_min() -> u8 {
        0
    }

    pub const fn f4_max() -> u8 {
        7
    }
}

#[asn(sequence, extensible_after(f3))]

#[derive(Default, Debug, Clone, PartialEq, Hash)]
pub struct Ts5mddmme4 {
    #[asn(integer(0..7))] pub f0: u8,
    #[asn(default(integer(0..7), 5))] pub f1: u8,
    #[asn(default(integer(0..7), 5))] pub f2: u8,
    #[asn(integer(0..7))] pub f3: u8,
    #[asn(optional(integer(0..7)))] pub f4: Option<u8>,
}

impl Ts5mddmme4 {
    pub const fn f0_min() -> u8 {
        0
    }

    pub const fn f0_max() -> u8 {
        7
    }

    pub const fn f1_min() -> u8 {
        0
    }

    pub const fn f1_max() -> u8 {
        7
    }

    pub const fn f2_min() -> u8 {
        0
    }

    pub const fn f2_max() -> u8 {
        7
    }

    pub const fn f3_min() -> u8 {
        0
    }

    pub const fn f3_max() -> u8 {
        7
    }

    pub const fn f4_min() -> u8 {
        0
    }

    pub const fn f4_max() -> u8 {
        7
    }
}

#[asn(sequence, extensible_after(f4))]

#[derive(Default, Debug, Clone, PartialEq, Hash)]
pub struct Ts5mddmme5 {
    #[asn(integer(0..7))] pub f0: u8,
    #[asn(default(integer(0..7), 5))] pub f1: u8,
    #[asn(default(integer(0..7), 5))] pub f2: u8,
    #[asn(integer(0..7))] pub f3: u8,
    #[asn(integer(0..7))] pub f4: u8,
}

impl Ts5mddmme5 {
    pub const fn f0_min() -> u8 {
        0
    }

    pub const fn f0_max() -> u8 {
        7
    }

    pub const fn f1_min() -> u8 {
        0
    }

    pub const fn f1_max() -> u8 {
        7
    }

    pub const fn f2_min() -> u8 {
        0
    }

    pub const fn f2_max() -> u8 {
        7
    }

    pub const fn f3_min() -> u8 {
        0
    }

    pub const fn f3_max() -> u8 {
        7
    }

    pub const fn f4_min() -> u8 {
        0
    }

    pub const fn f4_max() -> u8 {
        7
    }
}

#[asn(sequence)]

#[derive(Default, Debug, Clone, PartialEq, Hash)]
pub struct Ts5oddmmn {
    #[asn(optional(integer(0..7)))] pub f0: Option<u8>,
    #[asn(default(integer(0..7), 5))] pub f1: u8,
    #[asn(default(integer(0..7), 5))] pub f2: u8,
    #[asn(integer(0..7))] pub f3: u8,
    #[asn(integer(0..7))] pub f4: u8,
}

impl Ts5oddmmn {
    pub const fn f0_min() -> u8 {
        0
    }

    pub const fn f0_max() -> u8 {
        7
    }

    pub const fn f1_min() -> u8 {
        0
    }

    pub const fn f1_max() -> u8 {
        7
    }

    pub const fn f2_min() -> u8 {
        0
    }

    pub const fn f2_max() -> u8 {
        7
    }

    pub const fn f3_min() -> u8 {
        0
    }

    pub const fn f3_max() -> u8 {
        7
    }

    pub const fn f4_min() -> u8 {
        0
    }

    pub const fn f4_max() -> u8 {
        7
    }
}

#[asn(sequence, extensible_after(f0))]

#[derive(Default, Debug, Clone, PartialEq, Hash)]
pub struct Ts5oddmme0 {
    #[asn(optional(integer(0..7)))] pub f0: Option<u8>,
    #[asn(default(integer(0..7), 5))] pub f1: u8,
    #[asn(default(integer(0..7), 5))] pub f2: u8,
    #[asn(optional(integer(0..7)))] pub f3: Option<u8>,
    #[asn(optional(integer(0..7)))] pub f4: Option<u8>,
}

impl Ts5oddmme0 {
    pub const fn f0_min() -> u8 {
        0
    }

    pub const fn f0_max() -> u8 {
        7
    }

    pub const fn f1_min() -> u8 {
        0
    }

    pub const fn f1_max() -> u8 {
        7
    }

    pub const fn f2_min() -> u8 {
        0
    }

    pub const fn f2_max() -> u8 {
        7
    }

    pub const fn f3_min() -> u8 {
        0
    }

    pub const fn f3_max() -> u8 {
        7
    }

    pub const fn f4_min() -> u8 {
        0
    }

    pub const fn f4_max() -> u8 {
        7
    }
}

#[asn(sequence, extensible_after(f0))]

#[derive(Default, Debug, Clone, PartialEq, Hash)]
pub struct Ts5oddmme1 {
    #[asn(optional(integer(0..7)))] pub f0: Option<u8>,
    #[asn(default(integer(0..7), 5))] pub f1: u8,
    #[asn(default(integer(0..7), 5))] pub f2: u8,
    #[asn(optional(integer(0..7)))] pub f3: Option<u8>,
    #[asn(optional(integer(0..7)))] pub f4: Option<u8>,
}

impl Ts5oddmme1 {
    pub const fn f0_min() -> u8 {
        0
    }

    pub const fn f0_max() -> u8 {
        7
    }

    pub const fn f1_min() -> u8 {
        0
    }

    pub const fn f1_max() -> u8 {
        7
    }

    pub const fn f2_min() -> u8 {
        0
    }

    pub const fn f2_max() -> u8 {
        7
    }

    pub const fn f3_min() -> u8 {
        0
    }

    pub const fn f3_max() -> u8 {
        7
    }

    pub const fn f4_min() -> u8 {
        0
    }

    pub const fn f4_max() -> u8 {
        7
    }
}

#[asn(sequence, extensible_after(f1))]

#[derive(Default, Debug, Clone, PartialEq, Hash)]
pub struct Ts5oddmme2 {
    #[asn(optional(integer(0..7)))] pub f0: Option<u8>,
    #[asn(default(integer(0..7), 5))] pub f1: u8,
    #[asn(default(integer(0..7), 5))] pub f2: u8,
    #[asn(optional(integer(0..7)))] pub f3: Option<u8>,
    #[asn(optional(integer(0..7)))] pub f4: Option<u8>,
}

impl Ts5oddmme2 {
    pub const fn f0_min() -> u8 {
        0
    }

    pub const fn f0_max() -> u8 {
        7
    }

    pub const fn f1_min() -> u8 {
        0
    }

    pub const fn f1_max() -> u8 {
        7
    }

    pub const fn f2_min() -> u8 {
        0
    }

    pub const fn f2_max() -> u8 {
        7
    }

    pub const fn f3_min() -> u8 {
        0
    }

    pub const fn f3_max() -> u8 {
        7
    }

    pub const fn f4_min() -> u8 {
        0
    }

    pub const fn f4_max() -> u8 {
        7
    }
}

#[asn(sequence, extensible_after(f2))]

#[derive(Default, Debug, Clone, PartialEq, Hash)]
pub struct Ts5oddmme3 {
    #[asn(optional(integer(0..7)))] pub f0: Option<u8>,
    #[asn(default(integer(0..7), 5))] pub f1: u8,
    #[asn(default(integer(0..7), 5))] pub f2: u8,
    #[asn(optional(integer(0..7)))] pub f3: Option<u8>,
    #[asn(optional(integer(0..7)))] pub f4: Option<u8>,
}

impl Ts5oddmme3 {
    pub const fn f0_min() -> u8 {
        0
    }

    pub const fn f0_max() -> u8 {
        7
    }

    pub const fn f1_min() -> u8 {
        0
    }

    pub const fn f1_max() -> u8 {
        7
    }

    pub const fn f2_min() -> u8 {
        0
    }

    pub const fn f2_max() -> u8 {
        7
    }

    pub const fn f3_min() -> u8 {
        0
    }

    pub const fn f3_max() -> u8 {
        7
    }

    pub const fn f4_min() -> u8 {
        0
    }

    pub const fn f4_max() -> u8 {
        7
    }
}

#[asn(sequence, extensible_after(f3))]

#[derive(Default, Debug, Clone, PartialEq, Hash)]
pub struct Ts5oddmme4 {
    #[asn(optional(integer(0..7)))] pub f0: Option<u8>,
    #[asn(default(integer(0..7), 5))] pub f1: u8,
    #[asn(default(integer(0..7), 5))] pub f2: u8,
    #[asn(integer(0..7))] pub f3: u8,
    #[asn(optional(integer(0..7)))] pub f4: Option<u8>,
}

impl Ts5oddmme4 {
    pub const fn f0_min() -> u8 {
        0
    }

    pub const fn f0_max() -> u8 {
        7
    }

    pub const fn f1_min() -> u8 {
        0
    }

    pub const fn f1_max() -> u8 {
        7
    }

    pub const fn f2_min() -> u8 {
        0
    }

    pub const fn f2_max() -> u8 {
        7
    }

    pub const fn f3_min() -> u8 {
        0
    }

    pub const fn f3_max() -> u8 {
        7
    }

    pub const fn f4_min() -> u8 {
        0
    }

    pub const fn f4_max() -> u8 {
        7
    }
}

#[asn(sequence, extensible_after(f4))]

#[derive(Default, Debug, Clone, PartialEq, Hash)]
pub struct Ts5oddmme5 {
    #[asn(optional(integer(0..7)))] pub f0: Option<u8>,
    #[asn(default(integer(0..7), 5))] pub f1: u8,
    #[asn(default(integer(0..7), 5))] pub f2: u8,
    #[asn(integer(0..7))] pub f3: u8,
    #[asn(integer(0..7))] pub f4: u8,
}

impl Ts5oddmme5 {
    pub const fn f0_min() -> u8 {
        0
    }

    pub const fn f0_max() -> u8 {
        7
    }

    pub const fn f1_min() -> u8 {
        0
    }

    pub const fn f1_max() -> u8 {
        7
    }

    pub const fn f2_min() -> u8 {
        0
    }

    pub const fn f2_max() -> u8 {
        7
    }

    pub const fn f3_min() -> u8 {
        0
    }

    pub const fn f3_max() -> u8 {
        7
    }

    pub const fn f4_min() -> u8 {
        0
    }

    pub const fn f4_max() -> u8 {
        7
    }
}

#[asn(sequence)]

#[derive(Default, Debug, Clone, PartialEq, Hash)]
pub struct Ts5dddmmn {
    #[asn(default(integer(0..7), 5))] pub f0: u8,
    #[asn(default(integer(0..7), 5))] pub f1: u8,
    #[asn(default(integer(0..7), 5))] pub f2: u8,
    #[asn(integer(0..7))] pub f3: u8,
    #[asn(integer(0..7))] pub f4: u8,
}

impl Ts5dddmmn {
    pub const fn f0_min() -> u8 {
        0
    }

    pub const fn f0_max() -> u8 {
        7
    }

    pub const fn f1_min() -> u8 {
        0
    }

    pub const fn f1_max() -> u8 {
        7
    }

    pub const fn f2_min() -> u8 {
        0
    }

    pub const fn f2_max() -> u8 {
        7
    }

    pub const fn f3_min() -> u8 {
        0
    }

    pub const fn f3_max() -> u8 {
        7
    }

    pub const fn f4_min() -> u8 {
        0
    }

    pub const fn f4_max() -> u8 {
        7
    }
}

#[asn(sequence, extensible_after(f0))]

#[derive(Default, Debug, Clone, PartialEq, Hash)]
pub struct Ts5dddmme0 {
    #[asn(default(integer(0..7), 5))] pub f0: u8,
    #[asn(default(integer(0..7), 5))] pub f1: u8,
    #[asn(default(integer(0..7), 5))] pub f2: u8,
    #[asn(optional(integer(0..7)))] pub f3: Option<u8>,
    #[asn(optional(integer(0..7)))] pub f4: Option<u8>,
}

impl Ts5dddmme0 {
    pub const fn f0_min() -> u8 {
        0
    }

    pub const fn f0_max() -> u8 {
        7
    }

    pub const fn f1_min() -> u8 {
        0
    }

    pub const fn f1_max() -> u8 {
        7
    }

    pub const fn f2_min() -> u8 {
        0
    }

    pub const fn f2_max() -> u8 {
        7
    }

    pub const fn f3_min() -> u8 {
        0
    }

    pub const fn f3_max() -> u8 {
        7
    }

    pub const fn f4_min() -> u8 {
        0
    }

    pub const fn f4_max() -> u8 {
        7
    }
}

#[asn(sequence, extensible_after(f0))]

#[derive(Default, Debug, Clone, PartialEq, Hash)]
pub struct Ts5dddmme1 {
    #[asn(default(integer(0..7), 5))] pub f0: u8,
    #[asn(default(integer(0..7), 5))] pub f1: u8,
    #[asn(default(integer(0..7), 5))] pub f2: u8,
    #[asn(optional(integer(0..7)))] pub f3: Option<u8>,
    #[asn(optional(integer(0..7)))] pub f4: Option<u8>,
}

impl Ts5dddmme1 {
    pub const fn f0_min() -> u8 {
        0
    }

    pub const fn f0_max() -> u8 {
        7
    }

    pub const fn f1_min() -> u8 {
        0
    }

    pub const fn f1_max() -> u8 {
        7
    }

    pub const fn f2_min() -> u8 {
        0
    }

    pub const fn f2_max() -> u8 {
        7
    }

    pub const fn f3_min() -> u8 {
        0
    }

    pub const fn f3_max() -> u8 {
        7
    }

    pub const fn f4_min() -> u8 {
        0
    }

    pub const fn f4_max() -> u8 {
        7
    }
}

#[asn(sequence, extensible_after(f1))]

#[derive(Default, Debug, Clone, PartialEq, Hash)]
pub struct Ts5dddmme2 {
    #[asn(default(integer(0..7), 5))] pub f0: u8,
    #[asn(default(integer(0..7), 5))] pub f1: u8,
    #[asn(default(integer(0..7), 5))] pub f2: u8,
    #[asn(optional(integer(0..7)))] pub f3: Option<u8>,
    #[asn(optional(integer(0..7)))] pub f4: Option<u8>,
}

impl Ts5dddmme2 {
    pub const fn f0_min() -> u8 {
        0
    }

    pub const fn f0_max() -> u8 {
        7
    }

    pub const fn f1_min() -> u8 {
        0
    }

    pub const fn f1_max() -> u8 {
        7
    }

    pub const fn f2_min() -> u8 {
        0
    }

    pub const fn f2_max() -> u8 {
        7
    }

    pub const fn f3_min() -> u8 {
        0
    }

    pub const fn f3_max() -> u8 {
        7
    }

    pub const fn f4_min() -> u8 {
        0
    }

    pub const fn f4_max() -> u8 {
        7
    }
}

#[asn(sequence, extensible_after(f2))]

#[derive(Default, Debug, Clone, PartialEq, Hash)]
pub struct Ts5dddmme3 {
    #[asn(default(integer(0..7), 5))] pub f0: u8,
    #[asn(default(integer(0..7), 5))] pub f1: u8,
    #[asn(default(integer(0..7), 5))] pub f2: u8,
    #[asn(optional(integer(0..7)))] pub f3: Option<u8>,
    #[asn(optional(integer(0..7)))] pub f4: Option<u8>,
}

impl Ts5dddmme3 {
    pub const fn f0_min() -> u8 {
        0
    }

    pub const fn f0_max() -> u8 {
        7
    }

    pub const fn f1_min() -> u8 {
        0
    }

    pub const fn f1_max() -> u8 {
        7
    }

    pub const fn f2_min() -> u8 {
        0
    }

    pub const fn f2_max() -> u8 {
        7
    }

    pub const fn f3_min() -> u8 {
        0
    }

    pub const fn f3_max() -> u8 {
        7
    }

    pub const fn f4_min() -> u8 {
        0
    }

    pub const fn f4_max() -> u8 {
        7
    }
}

#[asn(sequence, extensible_after(f3))]

#[derive(Default, Debug, Clone, PartialEq, Hash)]
pub struct Ts5dddmme4 {
    #[asn(default(integer(0..7), 5))] pub f0: u8,
    #[asn(default(integer(0..7), 5))] pub f1: u8,
    #[asn(default(integer(0..7), 5))] pub f2: u8,
    #[asn(integer(0..7))] pub f3: u8,
    #[asn(optional(integer(0..7)))] pub f4: Option<u8>,
}

impl Ts5dddmme4 {
    pub const fn f0_min() -> u8 {
        0
    }

    pub const fn f0_max() -> u8 {
        7
    }

    pub const fn f1_min() -> u8 {
        0
    }

    pub const fn f1_max() -> u8 {
        7
    }

    pub const fn f2_min() -> u8 {
        0
    }

    pub const fn f2_max() -> u8 {
        7
    }

    pub const fn f3_min() -> u8 {
        0
    }

    pub const fn f3_max() -> u8 {
        7
    }

    pub const fn f4_min() -> u8 {
        0
    }

    pub const fn f4_max() -> u8 {
        7
    }
}

#[asn(sequence, extensible_after(f4))]

#[derive(Default, Debug, Clone, PartialEq, Hash)]
pub struct Ts5dddmme5 {
    #[asn(default(integer(0..7), 5))] pub f0: u8,
    #[asn(default(integer(0..7), 5))] pub f1: u8,
    #[asn(default(integer(0..7), 5))] pub f2: u8,
    #[asn(integer(0..7))] pub f3: u8,
    #[asn(integer(0..7))] pub f4: u8,
}

impl Ts5dddmme5 {
    pub const fn f0_min() -> u8 {
        0
    }

    pub const fn f0_max() -> u8 {
        7
    }

    pub const fn f1_min() -> u8 {
        0
    }

    pub const fn f1_max() -> u8 {
        7
    }

    pub const fn f2_min() -> u8 {
        0
    }

    pub const fn f2_max() -> u8 {
        7
    }

    pub const fn f3_min() -> u8 {
        0
    }

    pub const fn f3_max() -> u8 {
        7
    }

    pub const fn f4_min() -> u8 {
        0
    }

    pub const fn f4_max() -> u8 {
        7
    }
}

#[asn(sequence)]

#[derive(Default, Debug, Clone, PartialEq, Hash)]
pub struct Ts5mmmomn {
    #[asn(integer(0..7))] pub f0: u8,
    #[asn(integer(0..7))] pub f1: u8,
    #[asn(integer(0..7))] pub f2: u8,
    #[asn(optional(integer(0..7)))] pub f3: Option<u8>,
    #[asn(integer(0..7))] pub f4: u8,
}

impl Ts5mmmomn {
    pub const fn f0_min() -> u8 {
        0
    }

    pub const fn f0_max() -> u8 {
        7
    }

    pub const fn f1_min() -> u8 {
        0
    }

    pub const fn f1_max() -> u8 {
        7
    }

    pub const fn f2_min() -> u8 {
        0
    }

    pub const fn f2_max() -> u8 {
        7
    }

    pub const fn f3_min() -> u8 {
        0
    }

    pub const fn f3_max() -> u8 {
        7
    }

    pub const fn f4_min() -> u8 {
        0
    }

    pub const fn f4_max() -> u8 {
        7
    }
}

#[asn(sequence, extensible_after(f0))]

#[derive(Default, Debug, Clone, PartialEq, Hash)]
pub struct Ts5mmmome0 {
    #[asn(integer(0..7))] pub f0: u8,
    #[asn(optional(integer(0..7)))] pub f1: Option<u8>,
    #[asn(optional(integer(0..7)))] pub f2: Option<u8>,
    #[asn(optional(integer(0..7)))] pub f3: Option<u8>,
    #[asn(optional(integer(0..7)))] pub f4: Option<u8>,
}

impl Ts5mmmome0 {
    pub const fn f0_min() -> u8 {
        0
    }

    pub const fn f0_max() -> u8 {
        7
    }

    pub const fn f1_min() -> u8 {
        0
    }

    pub const fn f1_max() -> u8 {
        7
    }

    pub const fn f2_min() -> u8 {
        0
    }

    pub const fn f2_max() -> u8 {
        7
    }

    pub const fn f3_min() -> u8 {
        0
    }

    pub const fn f3_max() -> u8 {
        7
    }

    pub const fn f4_min() -> u8 {
        0
    }

    pub const fn f4_max() -> u8 {
        7
    }
}

#[asn(sequence, extensible_after(f0))]

#[derive(Default, Debug, Clone, PartialEq, Hash)]
pub struct Ts5mmmome1 {
    #[asn(integer(0..7))] pub f0: u8,
    #[asn(optional(integer(0..7)))] pub f1: Option<u8>,
    #[asn(optional(integer(0..7)))] pub f2: Option<u8>,
    #[asn(optional(integer(0..7)))] pub f3: Option<u8>,
    #[asn(optional(integer(0..7)))] pub f4: Option<u8>,
}

impl Ts5mmmome1 {
    pub const fn f0_min() -> u8 {
        0
    }

    pub const fn f0_max() -> u8 {
        7
    }

    pub const fn f1_min() -> u8 {
        0
    }

    pub const fn f1_max() -> u8 {
        7
    }

    pub const fn f2_min() -> u8 {
        0
    }

    pub const fn f2_max() -> u8 {
        7
    }

    pub const fn f3_min() -> u8 {
        0
    }

    pub const fn f3_max() -> u8 {
        7
    }

    pub const fn f4_min() -> u8 {
        0
    }

    pub const fn f4_max() -> u8 {
        7
    }
}

#[asn(sequence, extensible_after(f1))]

#[derive(Default, Debug, Clone, PartialEq, Hash)]
pub struct Ts5mmmome2 {
    #[asn(integer(0..7))] pub f0: u8,
    #[asn(integer(0..7))] pub f1: u8,
    #[asn(optional(integer(0..7)))] pub f2: Option<u8>,
    #[asn(optional(integer(0..7)))] pub f3: Option<u8>,
    #[asn(optional(integer(0..7)))] pub f4: Option<u8>,
}

impl Ts5mmmome2 {
    pub const fn f0_min() -> u8 {
        0
    }

    pub const fn f0_max() -> u8 {
        7
    }

    pub const fn f1_min() -> u8 {
        0
    }

    pub const fn f1_max() -> u8 {
        7
    }

    pub const fn f2_min() -> u8 {
        0
    }

    pub const fn f2_max() -> u8 {
        7
    }

    pub const fn f3_min() -> u8 {
        0
    }

    pub const fn f3_max() -> u8 {
        7
    }

    pub const fn f4_min() -> u8 {
        0
    }

    pub const fn f4_max() -> u8 {
        7
    }
}

#[asn(sequence, extensible_after(f2))]

#[derive(Default, Debug, Clone, PartialEq, Hash)]
pub struct Ts5mmmome3 {
    #[asn(integer(0..7))] pub f0: u8,
    #[asn(integer(0..7))] pub f1: u8,
    #[asn(integer(0..7))] pub f2: u8,
    #[asn(optional(integer(0..7)))] pub f3: Option<u8>,
    #[asn(optional(integer(0..7)))] pub f4: Option<u8>,
}

impl Ts5mmmome3 {
    pub const fn f0_min() -> u8 {
        0
    }

    pub const fn f0_max() -> u8 {
        7
    }

    pub const fn f1_min() -> u8 {
        0
    }

    pub const fn f1_max() -> u8 {
        7
    }

    pub const fn f2_min() -> u8 {
        0
    }

    pub const fn f2_max() -> u8 {
        7
    }

    pub const fn f3_min() -> u8 {
        0
    }

    pub const fn f3_max() -> u8 {
        7
    }

    pub const fn f4_min() -> u8 {
        0
    }

    pub const fn f4_max() -> u8 {
        7
    }
}

#[asn(sequence, extensible_after(f3))]

#[derive(Default, Debug, Clone, PartialEq, Hash)]
pub struct Ts5mmmome4 {
    #[asn(integer(0..7))] pub f0: u8,
    #[asn(integer(0..7))] pub f1: u8,
    #[asn(integer(0..7))] pub f2: u8,
    #[asn(optional(integer(0..7)))] pub f3: Option<u8>,
    #[asn(optional(integer(0..7)))] pub f4: Option<u8>,
}

impl Ts5mmmome4 {
    pub const fn f0_min() -> u8 {
        0
    }

    pub const fn f0_max() -> u8 {
        7
    }

    pub const fn f1_min() -> u8 {
        0
    }

    pub const fn f1_max() -> u8 {
        7
    }

    pub const fn f2_min() -> u8 {
        0
    }

    pub const fn f2_max() -> u8 {
        7
    }

    pub const fn f3_min() -> u8 {
        0
    }

    pub const fn f3_max() -> u8 {
        7
    }

    pub const fn f4_min() -> u8 {
        0
    }

    pub const fn f4_max() -> u8 {
        7
    }
}

#[asn(sequence, extensible_after(f4))]

#[derive(Default, Debug, Clone, PartialEq, Hash)]
pub struct Ts5mmmome5 {
    #[asn(integer(0..7))] pub f0: u8,
    #[asn(integer(0..7))] pub f1: u8,
    #[asn(integer(0..7))] pub f2: u8,
    #[asn(optional(integer(0..7)))] pub f3: Option<u8>,
    #[asn(integer(0..7))] pub f4: u8,
}

impl Ts5mmmome5 {
    pub const fn f0_min() -> u8 {
        0
    }

    pub const fn f0_max() -> u8 {
        7
    }

    pub const fn f1_min() -> u8 {
        0
    }

    pub const fn f1_max() -> u8 {
        7
    }

    pub const fn f2_min() -> u8 {
        0
    }

    pub const fn f2_max() -> u8 {
        7
    }

    pub const fn f3_min() -> u8 {
        0
    }

    pub const fn f3_max() -> u8 {
        7
    }

    pub const fn f4_min() -> u8 {
        0
    }

    pub const fn f4_max() -> u8 {
        7
    }
}

#[asn(sequence)]

#[derive(Default, Debug, Clone, PartialEq, Hash)]
pub struct Ts5ommomn {
    #[asn(optional(integer(0..7)))] pub f0: Option<u8>,
    #[asn(integer(0..7))] pub f1: u8,
    #[asn(integer(0..7))] pub f2: u8,
    #[asn(optional(integer(0..7)))] pub f3: Option<u8>,
    #[asn(integer(0..7))] pub f4: u8,
}

impl Ts5ommomn {
    pub const fn f0_min() -> u8 {
        0
    }

    pub const fn f0_max() -> u8 {
        7
    }

    pub const fn f1_min() -> u8 {
        0
    }

    pub const fn f1_max() -> u8 {
        7
    }

    pub const fn f2_min() -> u8 {
        0
    }

    pub const fn f2_max() -> u8 {
        7
    }

    pub const fn f3_min() -> u8 {
        0
    }

    pub const fn f3_max() -> u8 {
        7
    }

    pub const fn f4_min() -> u8 {
        0
    }

    pub const fn f4_max() -> u8 {
        7
    }
}

#[asn(sequence, extensible_after(f0))]

#[derive(Default, Debug, Clone, PartialEq, Hash)]
pub struct Ts5ommome0 {
    #[asn(optional(integer(0..7)))] pub f0: Option<u8>,
    #[asn(optional(integer(0..7)))] pub f1: Option<u8>,
    #[asn(optional(integer(0..7)))] pub f2: Option<u8>,
    #[asn(optional(integer(0..7)))] pub f3: Option<u8>,
    #[asn(optional(integer(0..7)))] pub f4: Option<u8>,
}

impl Ts5ommome0 {
    pub const fn f0_min() -> u8 {
        0
    }

    pub const fn f0_max() -> u8 {
        7
    }

    pub const fn f1_min() -> u8 {
        0
    }

    pub const fn f1_max() -> u8 {
        7
    }

    pub const fn f2_min() -> u8 {
        0
    }

    pub const fn f2_max() -> u8 {
        7
    }

    pub const fn f3_min() -> u8 {
        0
    }

    pub const fn f3_max() -> u8 {
        7
    }

    pub const fn f4_min() -> u8 {
        0
    }

    pub const fn f4_max() -> u8 {
        7
    }
}

#[asn(sequence, extensible_after(f0))]

#[derive(Default, Debug, Clone, PartialEq, Hash)]
pub struct Ts5ommome1 {
    #[asn(optional(integer(0..7)))] pub f0: Option<u8>,
    #[asn(optional(integer(0..7)))] pub f1: Option<u8>,
    #[asn(optional(integer(0..7)))] pub f2: Option<u8>,
    #[asn(optional(integer(0..7)))] pub f3: Option<u8>,
    #[asn(optional(integer(0..7)))] pub f4: Option<u8>,
}

impl Ts5ommome1 {
    pub const fn f0_min() -> u8 {
        0
    }

    pub const fn f0_max() -> u8 {
        7
    }

    pub const fn f1_min() -> u8 {
        0
    }

    pub const fn f1_max() -> u8 {
        7
    }

    pub const fn f2_min() -> u8 {
        0
    }

    pub const fn f2_max() -> u8 {
        7
    }

    pub const fn f3_min() -> u8 {
        0
    }

    pub const fn f3_max() -> u8 {
        7
    }

    pub const fn f4_min() -> u8 {
        0
    }

    pub const fn f4_max() -> u8 {
        7
    }
}

#[asn(sequence, extensible_after(f1))]

#[derive(Default, Debug, Clone, PartialEq, Hash)]
pub struct Ts5ommome2 {
    #[asn(optional(integer(0..7)))] pub f0: Option<u8>,
    #[asn(integer(0..7))] pub f1: u8,
    #[asn(optional(integer(0..7)))] pub f2: Option<u8>,
    #[asn(optional(integer(0..7)))] pub f3: Option<u8>,
    #[asn(optional(integer(0..7)))] pub f4: Option<u8>,
}

impl Ts5ommome2 {
    pub const fn f0_min() -> u8 {
        0
    }

    pub const fn f0_max() -> u8 {
        7
    }

    pub const fn f1_min() -> u8 {
        0
    }

    pub const fn f1_max() -> u8 {
        7
    }

    pub const fn f2_min() -> u8 {
        0
    }

    pub const fn f2_max() -> u8 {
        7
    }

    pub const fn f3_min() -> u8 {
        0
    }

    pub const fn f3_max() -> u8 {
        7
    }

    pub const fn f4_min() -> u8 {
        0
    }

    pub const fn f4_max() -> u8 {
        7
    }
}

#[asn(sequence, extensible_after(f2))]

#[derive(Default, Debug, Clone, PartialEq, Hash)]
pub struct Ts5ommome3 {
    #[asn(optional(integer(0..7)))] pub f0: Option<u8>,
    #[asn(integer(0..7))] pub f1: u8,
    #[asn(integer(0..7))] pub f2: u8,
    #[asn(optional(integer(0..7)))] pub f3: Option<u8>,
    #[asn(optional(integer(0..7)))] pub f4: Option<u8>,
}

impl Ts5ommome3 {
    pub const fn f0_min() -> u8 {
        0
    }

    pub const fn f0_max() -> u8 {
        7
    }

    pub const fn f1_min() -> u8 {
        0
    }

    pub const fn f1_max() -> u8 {
        7
    }

    pub const fn f2_min() -> u8 {
        0
    }

    pub const fn f2_max() -> u8 {
        7
    }

    pub const fn f3_min() -> u8 {
        0
    }

    pub const fn f3_max() -> u8 {
        7
    }

    pub const fn f4_min() -> u8 {
        0
    }

    pub const fn f4_max() -> u8 {
        7
    }
}

#[asn(sequence, extensible_after(f3))]

#[derive(Default, Debug, Clone, PartialEq, Hash)]
pub struct Ts5ommome4 {
    #[asn(optional(integer(0..7)))] pub f0: Option<u8>,
    #[asn(integer(0..7))] pub f1: u8,
    #[asn(integer(0..7))] pub f2: u8,
    #[asn(optional(integer(0..7)))] pub f3: Option<u8>,
    #[asn(optional(integer(0..7)))] pub f4: Option<u8>,
}

impl Ts5ommome4 {
    pub const fn f0_min() -> u8 {
        0
    }

    pub const fn f0_max() -> u8 {
        7
    }

    pub const fn f1_min() -> u8 {
        0
    }

    pub const fn f1_max() -> u8 {
        7
    }

    pub const fn f2_min() -> u8 {
        0
    }

    pub const fn f2_max() -> u8 {
        7
    }

    pub const fn f3_min() -> u8 {
        0
    }

    pub const fn f3_max() -> u8 {
        7
    }

    pub const fn f4_min() -> u8 {
        0
    }

    pub const fn f4_max() -> u8 {
        7
    }
}

#[asn(sequence, extensible_after(f4))]

#[derive(Default, Debug, Clone, PartialEq, Hash)]
pub struct Ts5ommome5 {
    #[asn(optional(integer(0..7)))] pub f0: Option<u8>,
    #[asn(integer(0..7))] pub f1: u8,
    #[asn(integer(0..7))] pub f2: u8,
    #[asn(optional(integer(0..7)))] pub f3: Option<u8>,
    #[asn(integer(0..7))] pub f4: u8,
}

impl Ts5ommome5 {
    pub const fn f0_min() -> u8 {
        0
    }

    pub const fn f0_max() -> u8 {
        7
    }

    pub const fn f1_min() -> u8 {
        0
    }

    pub const fn f1_max() -> u8 {
        7
    }

    pub const fn f2_min() -> u8 {
        0
    }

    pub const fn f2_max() -> u8 {
        7
    }

    pub const fn f3_min() -> u8 {
        0
    }

    pub const fn f3_max() -> u8 {
        7
    }

    pub const fn f4_min() -> u8 {
        0
    }

    pub const fn f4_max() -> u8 {
        7
    }
}

#[asn(sequence)]

#[derive(Default, Debug, Clone, PartialEq, Hash)]
pub struct Ts5dmmomn {
    #[asn(default(integer(0..7), 5))] pub f0: u8,
    #[asn(integer(0..7))] pub f1: u8,
    #[asn(integer(0..7))] pub f2: u8,
    #[asn(optional(integer(0..7)))] pub f3: Option<u8>,
    #[asn(integer(0..7))] pub f4: u8,
}

impl Ts5dmmomn {
    pub const fn f0_min() -> u8 {
        0
    }

    pub const fn f0_max() -> u8 {
        7
    }

    pub const fn f1_min() -> u8 {
        0
    }

    pub const fn f1_max() -> u8 {
        7
    }

    pub const fn f2_min() -> u8 {
        0
    }

    pub const fn f2_max() -> u8 {
        7
    }

    pub const fn f3_min() -> u8 {
        0
    }

    pub const fn f3_max() -> u8 {
        7
    }

    pub const fn f4_min() -> u8 {
        0
    }

    pub const fn f4_max() -> u8 {
        7
    }
}

#[asn(sequence, extensible_after(f0))]

#[derive(Default, Debug, Clone, PartialEq, Hash)]
pub struct Ts5dmmome0 {
    #[asn(default(integer(0..7), 5))] pub f0: u8,
    #[asn(optional(integer(0..7)))] pub f1: Option<u8>,
    #[asn(optional(integer(0..7)))] pub f2: Option<u8>,
    #[asn(optional(integer(0..7)))] pub f3: Option<u8>,
    #[asn(optional(integer(0..7)))] pub f4: Option<u8>,
}

impl Ts5dmmome0 {
    pub const fn f0_min() -> u8 {
        0
    }

    pub const fn f0_max() -> u8 {
        7
    }

    pub const fn f1_min() -> u8 {
        0
    }

    pub const fn f1_max() -> u8 {
        7
    }

    pub const fn f2_min() -> u8 {
        0
    }

    pub const fn f2_max() -> u8 {
        7
    }

    pub const fn f3_min() -> u8 {
        0
    }

    pub const fn f3_max() -> u8 {
        7
    }

    pub const fn f4_min() -> u8 {
        0
    }

    pub const fn f4_max() -> u8 {
        7
    }
}

#[asn(sequence, extensible_after(f0))]

#[derive(Default, Debug, Clone, PartialEq, Hash)]
pub struct Ts5dmmome1 {
    #[asn(default(integer(0..7), 5))] pub f0: u8,
    #[asn(optional(integer(0..7)))] pub f1: Option<u8>,
    #[asn(optional(integer(0..7)))] pub f2: Option<u8>,
    #[asn(optional(integer(0..7)))] pub f3: Option<u8>,
    #[asn(optional(integer(0..7)))] pub f4: Option<u8>,
}

impl Ts5dmmome1 {
    pub const fn f0_min() -> u8 {
        0
    }

    pub const fn f0_max() -> u8 {
        7
    }

    pub const fn f1_min() -> u8 {
        0
    }

    pub const fn f1_max() -> u8 {
        7
    }

    pub const fn f2_min() -> u8 {
        0
    }

    pub const fn f2_max() -> u8 {
        7
    }

    pub const fn f3_min() -> u8 {
        0
    }

    pub const fn f3_max() -> u8 {
        7
    }

    pub const fn f4_min() -> u8 {
        0
    }

    pub const fn f4_max() -> u8 {
        7
    }
}

#[asn(sequence, extensible_after(f1))]

#[derive(Default, Debug, Clone, PartialEq, Hash)]
pub struct Ts5dmmome2 {
    #[asn(default(integer(0..7), 5))] pub f0: u8,
    #[asn(integer(0..7))] pub f1: u8,
    #[asn(optional(integer(0..7)))] pub f2: Option<u8>,
    #[asn(optional(integer(0..7)))] pub f3: Option<u8>,
    #[asn(optional(integer(0..7)))] pub f4: Option<u8>,
}

impl Ts5dmmome2 {
    pub const fn f0_min() -> u8 {
        0
    }

    pub const fn f0_max() -> u8 {
        7
    }

    pub const fn f1_min() -> u8 {
        0
    }

    pub const fn f1_max() -> u8 {
        7
    }

    pub const fn f2_min() -> u8 {
        0
    }

    pub const fn f2_max() -> u8 {
        7
    }

    pub const fn f3_min() -> u8 {
        0
    }

    pub const fn f3_max() -> u8 {
        7
    }

    pub const fn f4_min() -> u8 {
        0
    }

    pub const fn f4_max() -> u8 {
        7
    }
}

#[asn(sequence, extensible_after(f2))]

#[derive(Default, Debug, Clone, PartialEq, Hash)]
pub struct Ts5dmmome3 {
    #[asn(default(integer(0..7), 5))] pub f0: u8,
    #[asn(integer(0..7))] pub f1: u8,
    #[asn(integer(0..7))] pub f2: u8,
    #[asn(optional(integer(0..7)))] pub f3: Option<u8>,
    #[asn(optional(integer(0..7)))] pub f4: Option<u8>,
}

impl Ts5dmmome3 {
    pub const fn f0_min() -> u8 {
        0
    }

    pub const fn f0_max() -> u8 {
        7
    }

    pub const fn f1_min() -> u8 {
        0
    }

    pub const fn f1_max() -> u8 {
        7
    }

    pub const fn f2_min() -> u8 {
        0
    }

    pub const fn f2_max() -> u8 {
        7
    }

    pub const fn f3_min() -> u8 {
        0
    }

    pub const fn f3_max() -> u8 {
        7
    }

    pub const fn f4_min() -> u8 {
        0
    }

    pub const fn f4_max() -> u8 {
        7
    }
}

#[asn(sequence, extensible_after(f3))]

#[derive(Default, Debug, Clone, PartialEq, Hash)]
pub struct Ts5dmmome4 {
    #[asn(default(integer(0..7), 5))] pub f0: u8,
    #[asn(integer(0..7))] pub f1: u8,
    #[asn(integer(0..7))] pub f2: u8,
    #[asn(optional(integer(0..7)))] pub f3: Option<u8>,
    #[asn(optional(integer(0..7)))] pub f4: Option<u8>,
}

impl Ts5dmmome4 {
    pub const fn f0_min() -> u8 {
        0
    }

    pub const fn f0_max() -> u8 {
        7
    }

    pub const fn f1_min() -> u8 {
        0
    }

    pub const fn f1_max() -> u8 {
        7
    }

    pub const fn f2_min() -> u8 {
        0
    }

    pub const fn f2_max() -> u8 {
        7
    }

    pub const fn f3_min() -> u8 {
        0
    }

    pub const fn f3_max() -> u8 {
        7
    }

    pub const fn f4_min() -> u8 {
        0
    }

    pub const fn f4_max() -> u8 {
        7
    }
}

#[asn(sequence, extensible_after(f4))]

#[derive(Default, Debug, Clone, PartialEq, Hash)]
pub struct Ts5dmmome5 {
    #[asn(default(integer(0..7), 5))] pub f0: u8,
    #[asn(integer(0..7))] pub f1: u8,
    #[asn(integer(0..7))] pub f2: u8,
    #[asn(optional(integer(0..7)))] pub f3: Option<u8>,
    #[asn(integer(0..7))] pub f4: u8,
}

impl Ts5dmmome5 {
    pub const fn f0_min() -> u8 {
        0
    }

    pub const fn f0_max() -> u8 {
        7
    }

    pub const fn f1_min() -> u8 {
        0
    }

    pub const fn f1_max() -> u8 {
        7
    }

    pub const fn f2_min() -> u8 {
        0
    }

    pub const fn f2_max() -> u8 {
        7
    }

    pub const fn f3_min() -> u8 {
        0
    }

    pub const fn f3_max() -> u8 {
        7
    }

    pub const fn f4_min() -> u8 {
        0
    }

    pub const fn f4_max() -> u8 {
        7
    }
}

#[asn(sequence)]

#[derive(Default, Debug, Clone, PartialEq, Hash)]
pub struct Ts5momomn {
    #[asn(integer(0..7))] pub f0: u8,
    #[asn(optional(integer(0..7)))] pub f1: Option<u8>,
    #[asn(integer(0..7))] pub f2: u8,
    #[asn(optional(integer(0..7)))] pub f3: Option<u8>,
    #[asn(integer(0..7))] pub f4: u8,
}

impl Ts5momomn {
    pub const fn f0_min() -> u8 {
        0
    }

    pub const fn f0_max() -> u8 {
        7
    }

    pub const fn f1_min() -> u8 {
        0
    }

    pub const fn f1_max() -> u8 {
        7
    }

    pub const fn f2_min() -> u8 {
        0
    }

    pub const fn f2_max() -> u8 {
        7
    }

    pub const fn f3_min() -> u8 {
        0
    }

    pub const fn f3_max() -> u8 {
        7
    }

    pub const fn f4_min() -> u8 {
        0
    }

    pub const fn f4_max() -> u8 {
        7
    }
}

#[asn(sequence, extensible_after(f0))]

#[derive(Default, Debug, Clone, PartialEq, Hash)]
pub struct Ts5momome0 {
    #[asn(integer(0..7))] pub f0: u8,
    #[asn(optional(integer(0..7)))] pub f1: Option<u8>,
    #[asn(optional(integer(0..7)))] pub f2: Option<u8>,
    #[asn(optional(integer(0..7)))] pub f3: Option<u8>,
    #[asn(optional(integer(0..7)))] pub f4: Option<u8>,
}

impl Ts5momome0 {
    pub const fn f0_min() -> u8 {
        0
    }

    pub const fn f0_max() -> u8 {
        7
    }

    pub const fn f1_min() -> u8 {
        0
    }

    pub const fn f1_max() -> u8 {
        7
    }

    pub const fn f2_min() -> u8 {
        0
    }

    pub const fn f2_max() -> u8 {
        7
    }

    pub const fn f3_min() -> u8 {
        0
    }

    pub const fn f3_max() -> u8 {
        7
    }

    pub const fn f4_min() -> u8 {
        0
    }

    pub const fn f4_max() -> u8 {
        7
    }
}

#[asn(sequence, extensible_after(f0))]

#[derive(Default, Debug, Clone, PartialEq, Hash)]
pub struct Ts5momome1 {
    #[asn(integer(0..7))] pub f0: u8,
    #[asn(optional(integer(0..7)))] pub f1: Option<u8>,
    #[asn(optional(integer(0..7)))] pub f2: Option<u8>,
    #[asn(optional(integer(0..7)))] pub f3: Option<u8>,
    #[asn(optional(integer(0..7)))] pub f4: Option<u8>,
}

impl Ts5momome1 {
    pub const fn f0_min() -> u8 {
        0
    }

    pub const fn f0_max() -> u8 {
        7
    }

    pub const fn f1_min() -> u8 {
        0
    }

    pub const fn f1_max() -> u8 {
        7
    }

    pub const fn f2_min() -> u8 {
        0
    }

    pub const fn f2_max() -> u8 {
        7
    }

    pub const fn f3_min() -> u8 {
        0
    }

    pub const fn f3_max() -> u8 {
        7
    }

    pub const fn f4_min() -> u8 {
        0
    }

    pub const fn f4_max() -> u8 {
        7
    }
}

#[asn(sequence, extensible_after(f1))]

#[derive(Default, Debug, Clone, PartialEq, Hash)]
pub struct Ts5momome2 {
    #[asn(integer(0..7))] pub f0: u8,
    #[asn(optional(integer(0..7)))] pub f1: Option<u8>,
    #[asn(optional(integer(0..7)))] pub f2: Option<u8>,
    #[asn(optional(integer(0..7)))] pub f3: Option<u8>,
    #[asn(optional(integer(0..7)))] pub f4: Option<u8>,
}

impl Ts5momome2 {
    pub const fn f0_min() -> u8 {
        0
    }

    pub const fn f0_max() -> u8 {
        7
    }

    pub const fn f1_min() -> u8 {
        0
    }

    pub const fn f1_max() -> u8 {
        7
    }

    pub const fn f2_min() -> u8 {
        0
    }

    pub const fn f2_max() -> u8 {
        7
    }

    pub const fn f3_min() -> u8 {
        0
    }

    pub const fn f3_max() -> u8 {
        7
    }

    pub const fn f4_min() -> u8 {
        0
    }

    pub const fn f4_max() -> u8 {
        7
    }
}

#[asn(sequence, extensible_after(f2))]

#[derive(Default, Debug, Clone, PartialEq, Hash)]
pub struct Ts5momome3 {
    #[asn(integer(0..7))] pub f0: u8,
    #[asn(optional(integer(0..7)))] pub f1: Option<u8>,
    #[asn(integer(0..7))] pub f2: u8,
    #[asn(optional(integer(0..7)))] pub f3: Option<u8>,
    #[asn(optional(integer(0..7)))] pub f4: Option<u8>,
}

impl Ts5momome3 {
    pub const fn f0_min() -> u8 {
        0
    }

    pub const fn f0_max() -> u8 {
        7
    }

    pub const fn f1_min() -> u8 {
        0
    }

    pub const fn f1_max() -> u8 {
        7
    }

    pub const fn f2_min() -> u8 {
        0
    }

    pub const fn f2_max() -> u8 {
        7
    }

    pub const fn f3_min() -> u8 {
        0
    }

    pub const fn f3_max() -> u8 {
        7
    }

    pub const fn f4_min() -> u8 {
        0
    }

    pub const fn f4_max() -> u8 {
        7
    }
}

#[asn(sequence, extensible_after(f3))]

#[derive(Default, Debug, Clone, PartialEq, Hash)]
pub struct Ts5momome4 {
    #[asn(integer(0..7))] pub f0: u8,
    #[asn(optional(integer(0..7)))] pub f1: Option<u8>,
    #[asn(integer(0..7))] pub f2: u8,
    #[asn(optional(integer(0..7)))] pub f3: Option<u8>,
    #[asn(optional(integer(0..7)))] pub f4: Option<u8>,
}

impl Ts5momome4 {
    pub const fn f0_min() -> u8 {
        0
    }

    pub const fn f0_max() -> u8 {
        7
    }

    pub const fn f1_min() -> u8 {
        0
    }

    pub const fn f1_max() -> u8 {
        7
    }

    pub const fn f2_min() -> u8 {
        0
    }

    pub const fn f2_max() -> u8 {
        7
    }

    pub const fn f3_min() -> u8 {
        0
    }

    pub const fn f3_max() -> u8 {
        7
    }

    pub const fn f4_min() -> u8 {
        0
    }

    pub const fn f4_max() -> u8 {
        7
    }
}

#[asn(sequence, extensible_after(f4))]

#[derive(Default, Debug, Clone, PartialEq, Hash)]
pub struct Ts5momome5 {
    #[asn(integer(0..7))] pub f0: u8,
    #[asn(optional(integer(0..7)))] pub f1: Option<u8>,
    #[asn(integer(0..7))] pub f2: u8,
    #[asn(optional(integer(0..7)))] pub f3: Option<u8>,
    #[asn(integer(0..7))] pub f4: u8,
}

impl Ts5momome5 {
    pub const fn f0_min() -> u8 {
        0
    }

    pub const fn f0_max() -> u8 {
        7
    }

    pub const fn f1_min() -> u8 {
        0
    }

    pub const fn f1_max() -> u8 {
        7
    }

    pub const fn f2_min() -> u8 {
        0
    }

    pub const fn f2_max() -> u8 {
        7
    }

    pub const fn f3_min() -> u8 {
        0
    }

    pub const fn f3_max() -> u8 {
        7
    }

    pub const fn f4_min() -> u8 {
        0
    }

    pub const fn f4_max() -> u8 {
        7
    }
}

#[asn(sequence)]

#[derive(Default, Debug, Clone, PartialEq, Hash)]
pub struct Ts5oomomn {
    #[asn(optional(integer(0..7)))] pub f0: Option<u8>,
    #[asn(optional(integer(0..7)))] pub f1: Option<u8>,
    #[asn(integer(0..7))] pub f2: u8,
    #[asn(optional(integer(0..7)))] pub f3: Option<u8>,
    #[asn(integer(0..7))] pub f4: u8,
}

impl Ts5oomomn {
    pub const fn f0_min() -> u8 {
        0
    }

    pub const fn f0_max() -> u8 {
        7
    }

    pub const fn f1_min() -> u8 {
        0
    }

    pub const fn f1_max() -> u8 {
        7
    }

    pub const fn f2_min() -> u8 {
        0
    }

    pub const fn f2_max() -> u8 {
        7
    }

    pub const fn f3_min() -> u8 {
        0
    }

    pub const fn f3_max() -> u8 {
        7
    }

    pub const fn f4_min() -> u8 {
        0
    }

    pub const fn f4_max() -> u8 {
        7
    }
}

#[asn(sequence, extensible_after(f0))]

#[derive(Default, Debug, Clone, PartialEq, Hash)]
pub struct Ts5oomome0 {
    #[asn(optional(integer(0..7)))] pub f0: Option<u8>,
    #[asn(optional(integer(0..7)))] pub f1: Option<u8>,
    #[asn(optional(integer(0..7)))] pub f2: Option<u8>,
    #[asn(optional(integer(0..7)))] pub f3: Option<u8>,
    #[asn(optional(integer(0..7)))] pub f4: Option<u8>,
}

impl Ts5oomome0 {
    pub const fn f0_min() -> u8 {
        0
    }

    pub const fn f0_max() -> u8 {
        7
    }

    pub const fn f1_min() -> u8 {
        0
    }

    pub const fn f1_max() -> u8 {
        7
    }

    pub const fn f2_min() -> u8 {
        0
    }

    pub const fn f2_max() -> u8 {
        7
    }

    pub const fn f3_min() -> u8 {
        0
    }

    pub const fn f3_max() -> u8 {
        7
    }

    pub const fn f4_min() -> u8 {
        0
    }

    pub const fn f4_max() -> u8 {
        7
    }
}

#[asn(sequence, extensible_after(f0))]

#[derive(Default, Debug, Clone, PartialEq, Hash)]
pub struct Ts5oomome1 {
    #[asn(optional(integer(0..7)))] pub f0: Option<u8>,
    #[asn(optional(integer(0..7)))] pub f1: Option<u8>,
    #[asn(optional(integer(0..7)))] pub f2: Option<u8>,
    #[asn(optional(integer(0..7)))] pub f3: Option<u8>,
    #[asn(optional(integer(0..7)))] pub f4: Option<u8>,
}

impl Ts5oomome1 {
    pub const fn f0_min() -> u8 {
        0
    }

    pub const fn f0_max() -> u8 {
        7
    }

    pub const fn f1_min() -> u8 {
        0
    }

    pub const fn f1_max() -> u8 {
        7
    }

    pub const fn f2_min() -> u8 {
        0
    }

    pub const fn f2_max() -> u8 {
        7
    }

    pub const fn f3_min() -> u8 {
        0
    }

    pub const fn f3_max() -> u8 {
        7
    }

    pub const fn f4_min() -> u8 {
        0
    }

    pub const fn f4_max() -> u8 {
        7
    }
}

#[asn(sequence, extensible_after(f1))]

#[derive(Default, Debug, Clone, PartialEq, Hash)]
pub struct Ts5oomome2 {
    #[asn(optional(integer(0..7)))] pub f0: Option<u8>,
    #[asn(optional(integer(0..7)))] pub f1: Option<u8>,
    #[asn(optional(integer(0..7)))] pub f2: Option<u8>,
    #[asn(optional(integer(0..7)))] pub f3: Option<u8>,
    #[asn(optional(integer(0..7)))] pub f4: Option<u8>,
}

impl Ts5oomome2 {
    pub const fn f0_min() -> u8 {
        0
    }

    pub const fn f0_max() -> u8 {
        7
    }

    pub const fn f1_min() -> u8 {
        0
    }

    pub const fn f1_max() -> u8 {
        7
    }

    pub const fn f2_min() -> u8 {
        0
    }

    pub const fn f2_max() -> u8 {
        7
    }

    pub const fn f3_min() -> u8 {
        0
    }

    pub const fn f3_max() -> u8 {
        7
    }

    pub const fn f4_min() -> u8 {
        0
    }

    pub const fn f4_max() -> u8 {
        7
    }
}

#[asn(sequence, extensible_after(f2))]

#[derive(Default, Debug, Clone, PartialEq, Hash)]
pub struct Ts5oomome3 {
    #[asn(optional(integer(0..7)))] pub f0: Option<u8>,
    #[asn(optional(integer(0..7)))] pub f1: Option<u8>,
    #[asn(integer(0..7))] pub f2: u8,
    #[asn(optional(integer(0..7)))] pub f3: Option<u8>,
    #[asn(optional(integer(0..7)))] pub f4: Option<u8>,
}

impl Ts5oomome3 {
    pub const fn f0_min() -> u8 {
        0
    }

    pub const fn f0_max() -> u8 {
        7
    }

    pub const fn f1_min() -> u8 {
        0
    }

    pub const fn f1_max() -> u8 {
        7
    }

    pub const fn f2_min() -> u8 {
        0
    }

    pub const fn f2_max() -> u8 {
        7
    }

    pub const fn f3_min() -> u8 {
        0
    }

    pub const fn f3_max() -> u8 {
        7
    }

    pub const fn f4_min() -> u8 {
        0
    }

    pub const fn f4_max() -> u8 {
        7
    }
}

#[asn(sequence, extensible_after(f3))]

#[derive(Default, Debug, Clone, PartialEq, Hash)]
pub struct Ts5oomome4 {
    #[asn(optional(integer(0..7)))] pub f0: Option<u8>,
    #[asn(optional(integer(0..7)))] pub f1: Option<u8>,
    #[asn(integer(0..7))] pub f2: u8,
    #[asn(optional(integer(0..7)))] pub f3: Option<u8>,
    #[asn(optional(integer(0..7)))] pub f4: Option<u8>,
}

impl Ts5oomome4 {
    pub const fn f0_min() -> u8 {
        0
    }

    pub const fn f0_max() -> u8 {
        7
    }

    pub const fn f1_min() -> u8 {
        0
    }

    pub const fn f1_max() -> u8 {
        7
    }

    pub const fn f2_min() -> u8 {
        0
    }

    pub const fn f2_max() -> u8 {
        7
    }

    pub const fn f3_min() -> u8 {
        0
    }

    pub const fn f3_max() -> u8 {
        7
    }

    pub const fn f4_min() -> u8 {
        0
    }

    pub const fn f4_max() -> u8 {
        7
    }
}

#[asn(sequence, extensible_after(f4))]

#[derive(Default, Debug, Clone, PartialEq, Hash)]
pub struct Ts5oomome5 {
    #[asn(optional(integer(0..7)))] pub f0: Option<u8>,
    #[asn(optional(integer(0..7)))] pub f1: Option<u8>,
    #[asn(integer(0..7))] pub f2: u8,
    #[asn(optional(integer(0..7)))] pub f3: Option<u8>,
    #[asn(integer(0..7))] pub f4: u8,
}

impl Ts5oomome5 {
    pub const fn f0_min() -> u8 {
        0
    }

    pub const fn f0_max() -> u8 {
        7
    }

    pub const fn f1_min() -> u8 {
        0
    }

    pub const fn f1_max() -> u8 {
        7
    }

    pub const fn f2_min() -> u8 {
        0
    }

    pub const fn f2_max() -> u8 {
        7
    }

    pub const fn f3_min() -> u8 {
        0
    }

    pub const fn f3_max() -> u8 {
        7
    }

    pub const fn f4_min() -> u8 {
        0
    }

    pub const fn f4_max() -> u8 {
        7
    }
}

#[asn(sequence)]

#[derive(Default, Debug, Clone, PartialEq, Hash)]
pub struct Ts5domomn {
    #[asn(default(integer(0..7), 5))] pub f0: u8,
    #[asn(optional(integer(0..7)))] pub f1: Option<u8>,
    #[asn(integer(0..7))] pub f2: u8,
    #[asn(optional(integer(0..7)))] pub f3: Option<u8>,
    #[asn(integer(0..7))] pub f4: u8,
}

impl Ts5domomn {
    pub const fn f0_min() -> u8 {
        0
    }

    pub const fn f0_max() -> u8 {
        7
    }

    pub const fn f1_min() -> u8 {
        0
    }

    pub const fn f1_max() -> u8 {
        7
    }

    pub const fn f2_min() -> u8 {
        0
    }

    pub const fn f2_max() -> u8 {
        7
    }

    pub const fn f3_min() -> u8 {
        0
    }

    pub const fn f3_max() -> u8 {
        7
    }

    pub const fn f4_min() -> u8 {
        0
    }

    pub const fn f4_max() -> u8 {
        7
    }
}

#[asn(sequence, extensible_after(f0))]

#[derive(Default, Debug, Clone, PartialEq, Hash)]
pub struct Ts5domome0 {
    #[asn(default(integer(0..7), 5))] pub f0: u8,
    #[asn(optional(integer(0..7)))] pub f1: Option<u8>,
    #[asn(optional(integer(0..7)))] pub f2: Option<u8>,
    #[asn(optional(integer(0..7)))] pub f3: Option<u8>,
    #[asn(optional(integer(0..7)))] pub f4: Option<u8>,
}

impl Ts5domome0 {
    pub const fn f0_min() -> u8 {
        0
    }

    pub const fn f0_max() -> u8 {
        7
    }

    pub const fn f1_min() -> u8 {
        0
    }

    pub const fn f1_max() -> u8 {
        7
    }

    pub const fn f2_min() -> u8 {
        0
    }

    pub const fn f2_max() -> u8 {
        7
    }

    pub const fn f3_min() -> u8 {
        0
    }

    pub const fn f3_max() -> u8 {
        7
    }

    pub const fn f4_min() -> u8 {
        0
    }

    pub const fn f4_max() -> u8 {
        7
    }
}

#[asn(sequence, extensible_after(f0))]

#[derive(Default, Debug, Clone, PartialEq, Hash)]
pub struct Ts5domome1 {
    #[asn(default(integer(0..7), 5))] pub f0: u8,
    #[asn(optional(integer(0..7)))] pub f1: Option<u8>,
    #[asn(optional(integer(0..7)))] pub f2: Option<u8>,
    #[asn(optional(integer(0..7)))] pub f3: Option<u8>,
    #[asn(optional(integer(0..7)))] pub f4: Option<u8>,
}

impl Ts5domome1 {
    pub const fn f0_min() -> u8 {
        0
    }

    pub const fn f0_max() -> u8 {
        7
    }

    pub const fn f1_min() -> u8 {
        0
    }

    pub const fn f1_max() -> u8 {
        7
    }

    pub const fn f2_min() -> u8 {
        0
    }

    pub const fn f2_max() -> u8 {
        7
    }

    pub const fn f3_min() -> u8 {
        0
    }

    pub const fn f3_max() -> u8 {
        7
    }

    pub const fn f4_min() -> u8 {
        0
    }

    pub const fn f4_max() -> u8 {
        7
    }
}

#[asn(sequence, extensible_after(f1))]

#[derive(Default, Debug, Clone, PartialEq, Hash)]
pub struct Ts5domome2 {
    #[asn(default(integer(0..7), 5))] pub f0: u8,
    #[asn(optional(integer(0..7)))] pub f1: Option<u8>,
    #[asn(optional(integer(0..7)))] pub f2: Option<u8>,
    #[asn(optional(integer(0..7)))] pub f3: Option<u8>,
    #[asn(optional(integer(0..7)))] pub f4: Option<u8>,
}

impl Ts5domome2 {
    pub const fn f0_min() -> u8 {
        0
    }

    pub const fn f0_max() -> u8 {
        7
    }

    pub const fn f1_min() -> u8 {
        0
    }

    pub const fn f1_max() -> u8 {
        7
    }

    pub const fn f2_min() -> u8 {
        0
    }

    pub const fn f2_max() -> u8 {
        7
    }

    pub const fn f3_min() -> u8 {
        0
    }

    pub const fn f3_max() -> u8 {
        7
    }

    pub const fn f4_min() -> u8 {
        0
    }

    pub const fn f4_max() -> u8 {
        7
    }
}

#[asn(sequence, extensible_after(f2))]

#[derive(Default, Debug, Clone, PartialEq, Hash)]
pub struct Ts5domome3 {
    #[asn(default(integer(0..7), 5))] pub f0: u8,
    #[asn(optional(integer(0..7)))] pub f1: Option<u8>,
    #[asn(integer(0..7))] pub f2: u8,
    #[asn(optional(integer(0..7)))] pub f3: Option<u8>,
    #[asn(optional(integer(0..7)))] pub f4: Option<u8>,
}

impl Ts5domome3 {
    pub const fn f0_min() -> u8 {
        0
    }

    pub const fn f0_max() -> u8 {
        7
    }

    pub const fn f1_min() -> u8 {
        0
    }

    pub const fn f1_max() -> u8 {
        7
    }

    pub const fn f2_min() -> u8 {
        0
    }

    pub const fn f2_max() -> u8 {
        7
    }

    pub const fn f3_min() -> u8 {
        0
    }

    pub const fn f3_max() -> u8 {
        7
    }

    pub const fn f4_min() -> u8 {
        0
    }

    pub const fn f4_max() -> u8 {
        7
    }
}

#[asn(sequence, extensible_after(f3))]

#[derive(Default, Debug, Clone, PartialEq, Hash)]
pub struct Ts5domome4 {
    #[asn(default(integer(0..7), 5))] pub f0: u8,
    #[asn(optional(integer(0..7)))] pub f1: Option<u8>,
    #[asn(integer(0..7))] pub f2: u8,
    #[asn(optional(integer(0..7)))] pub f3: Option<u8>,
    #[asn(optional(integer(0..7)))] pub f4: Option<u8>,
}

impl Ts5domome4 {
    pub const fn f0_min() -> u8 {
        0
    }

    pub const fn f0_max() -> u8 {
        7
    }

    pub const fn f1_min() -> u8 {
        0
    }

    pub const fn f1_max() -> u8 {
        7
    }

    pub const fn f2_min() -> u8 {
        0
    }

    pub const fn f2_max() -> u8 {
        7
    }

    pub const fn f3_min() -> u8 {
        0
    }

    pub const fn f3_max() -> u8 {
        7
    }

    pub const fn f4_min() -> u8 {
        0
    }

    pub const fn f4_max() -> u8 {
        7
    }
}

#[asn(sequence, extensible_after(f4))]

#[derive(Default, Debug, Clone, PartialEq, Hash)]
pub struct Ts5domome5 {
    #[asn(default(integer(0..7), 5))] pub f0: u8,
    #[asn(optional(integer(0..7)))] pub f1: Option<u8>,
    #[asn(integer(0..7))] pub f2: u8,
    #[asn(optional(integer(0..7)))] pub f3: Option<u8>,
    #[asn(integer(0..7))] pub f4: u8,
}

impl Ts5domome5 {
    pub const fn f0_min() -> u8 {
        0
    }

    pub const fn f0_max() -> u8 {
        7
    }

    pub const fn f1_min() -> u8 {
        0
    }

    pub const fn f1_max() -> u8 {
        7
    }

    pub const fn f2_min() -> u8 {
        0
    }

    pub const fn f2_max() -> u8 {
        7
    }

    pub const fn f3_min() -> u8 {
        0
    }

    pub const fn f3_max() -> u8 {
        7
    }

    pub const fn f4_min() -> u8 {
        0
    }

    pub const fn f4_max() -> u8 {
        7
    }
}

#[asn(sequence)]

#[derive(Default, Debug, Clone, PartialEq, Hash)]
pub struct Ts5mdmomn {
    #[asn(integer(0..7))] pub f0: u8,
    #[asn(default(integer(0..7), 5))] pub f1: u8,
    #[asn(integer(0..7))] pub f2: u8,
    #[asn(optional(integer(0..7)))] pub f3: Option<u8>,
    #[asn(integer(0..7))] pub f4: u8,
}

impl Ts5mdmomn {
    pub const fn f0_min() -> u8 {
        0
    }

    pub const fn f0_max() -> u8 {
        7
    }

    pub const fn f1_min() -> u8 {
        0
    }

    pub const fn f1_max() -> u8 {
        7
    }

    pub const fn f2_min() -> u8 {
        0
    }

    pub const fn f2_max() -> u8 {
        7
    }

    pub const fn f3_min() -> u8 {
        0
    }

    pub const fn f3_max() -> u8 {
        7
    }

    pub const fn f4_min() -> u8 {
        0
    }

    pub const fn f4_max() -> u8 {
        7
    }
}

#[asn(sequence, extensible_after(f0))]

#[derive(Default, Debug, Clone, PartialEq, Hash)]
pub struct Ts5mdmome0 {
    #[asn(integer(0..7))] pub f0: u8,
    #[asn(default(integer(0..7), 5))] pub f1: u8,
    #[asn(optional(integer(0..7)))] pub f2: Option<u8>,
    #[asn(optional(integer(0..7)))] pub f3: Option<u8>,
    #[asn(optional(integer(0..7)))] pub f4: Option<u8>,
}

impl Ts5mdmome0 {
    pub const fn f0_min() -> u8 {
        0
    }

    pub const fn f0_max() -> u8 {
        7
    }

    pub const fn f1_min() -> u8 {
        0
    }

    pub const fn f1_max() -> u8 {
        7
    }

    pub const fn f2_min() -> u8 {
        0
    }

    pub const fn f2_max() -> u8 {
        7
    }

    pub const fn f3_min() -> u8 {
        0
    }

    pub const fn f3_max() -> u8 {
        7
    }

    pub const fn f4_min() -> u8 {
        0
    }

    pub const fn f4_max() -> u8 {
        7
    }
}

#[asn(sequence, extensible_after(f0))]

#[derive(Default, Debug, Clone, PartialEq, Hash)]
pub struct Ts5mdmome1 {
    #[asn(integer(0..7))] pub f0: u8,
    #[asn(default(integer(0..7), 5))] pub f1: u8,
    #[asn(optional(integer(0..7)))] pub f2: Option<u8>,
    #[asn(optional(integer(0..7)))] pub f3: Option<u8>,
    #[asn(optional(integer(0..7)))] pub f4: Option<u8>,
}

impl Ts5mdmome1 {
    pub const fn f0_min() -> u8 {
        0
    }

    pub const fn f0_max() -> u8 {
        7
    }

    pub const fn f1_min() -> u8 {
        0
    }

    pub const fn f1_max() -> u8 {
        7
    }

    pub const fn f2_min() -> u8 {
        0
    }

    pub const fn f2_max() -> u8 {
        7
    }

    pub const fn f3_min() -> u8 {
        0
    }

    pub const fn f3_max() -> u8 {
        7
    }

    pub const fn f4_min() -> u8 {
        0
    }

    pub const fn f4_max() -> u8 {
        7
    }
}

#[asn(sequence, extensible_after(f1))]

#[derive(Default, Debug, Clone, PartialEq, Hash)]
pub struct Ts5mdmome2 {
    #[asn(integer(0..7))] pub f0: u8,
    #[asn(default(integer(0..7), 5))] pub f1: u8,
    #[asn(optional(integer(0..7)))] pub f2: Option<u8>,
    #[asn(optional(integer(0..7)))] pub f3: Option<u8>,
    #[asn(optional(integer(0..7)))] pub f4: Option<u8>,
}

impl Ts5mdmome2 {
    pub const fn f0_min() -> u8 {
        0
    }

    pub const fn f0_max() -> u8 {
        7
    }

    pub const fn f1_min() -> u8 {
        0
    }

    pub const fn f1_max() -> u8 {
        7
    }

    pub const fn f2_min() -> u8 {
        0
    }

    pub const fn f2_max() -> u8 {
        7
    }

    pub const fn f3_min() -> u8 {
        0
    }

    pub const fn f3_max() -> u8 {
        7
    }

    pub const fn f4_min() -> u8 {
        0
    }

    pub const fn f4_max() -> u8 {
        7
    }
}

#[asn(sequence, extensible_after(f2))]

#[derive(Default, Debug, Clone, PartialEq, Hash)]
pub struct Ts5mdmome3 {
    #[asn(integer(0..7))] pub f0: u8,
    #[asn(default(integer(0..7), 5))] pub f1: u8,
    #[asn(integer(0..7))] pub f2: u8,
    #[asn(optional(integer(0..7)))] pub f3: Option<u8>,
    #[asn(optional(integer(0..7)))] pub f4: Option<u8>,
}

impl Ts5mdmome3 {
    pub const fn f0_min() -> u8 {
        0
    }

    pub const fn f0_max() -> u8 {
        7
    }

    pub const fn f1_min() -> u8 {
        0
    }

    pub const fn f1_max() -> u8 {
        7
    }

    pub const fn f2_min() -> u8 {
        0
    }

    pub const fn f2_max() -> u8 {
        7
    }

    pub const fn f3_min() -> u8 {
        0
    }

    pub const fn f3_max() -> u8 {
        7
    }

    pub const fn f4_min() -> u8 {
        0
    }

    pub const fn f4_max() -> u8 {
        7
    }
}

#[asn(sequence, extensible_after(f3))]

#[derive(Default, Debug, Clone, PartialEq, Hash)]
pub struct Ts5mdmome4 {
    #[asn(integer(0..7))] pub f0: u8,
    #[asn(default(integer(0..7), 5))] pub f1: u8,
    #[asn(integer(0..7))] pub f2: u8,
    #[asn(optional(integer(0..7)))] pub f3: Option<u8>,
    #[asn(optional(integer(0..7)))] pub f4: Option<u8>,
}

impl Ts5mdmome4 {
    pub const fn f0_min() -> u8 {
        0
    }

    pub const fn f0_max() -> u8 {
        7
    }

    pub const fn f1_min() -> u8 {
        0
    }

    pub const fn f1_max() -> u8 {
        7
    }

    pub const fn f2_min() -> u8 {
        0
    }

    pub const fn f2_max() -> u8 {
        7
    }

    pub const fn f3_min() -> u8 {
        0
    }

    pub const fn f3_max() -> u8 {
        7
    }

    pub const fn f4_min() -> u8 {
        0
    }

    pub const fn f4_max() -> u8 {
        7
    }
}

#[asn(sequence, extensible_after(f4))]

#[derive(Default, Debug, Clone, PartialEq, Hash)]
pub struct Ts5mdmome5 {
    #[asn(integer(0..7))] pub f0: u8,
    #[asn(default(integer(0..7), 5))] pub f1: u8,
    #[asn(integer(0..7))] pub f2: u8,
    #[asn(optional(integer(0..7)))] pub f3: Option<u8>,
    #[asn(integer(0..7))] pub f4: u8,
}

impl Ts5mdmome5 {
    pub const fn f0_min() -> u8 {
        0
    }

    pub const fn f0_max() -> u8 {
        7
    }

    pub const fn f1_min() -> u8 {
        0
    }

    pub const fn f1_max() -> u8 {
        7
    }

    pub const fn f2_min() -> u8 {
        0
    }

    pub const fn f2_max() -> u8 {
        7
    }

    pub const fn f3_min() -> u8 {
        0
    }

    pub const fn f3_max() -> u8 {
        7
    }

    pub const fn f4_min() -> u8 {
        0
    }

    pub const fn f4_max() -> u8 {
        7
    }
}

#[asn(sequence)]

#[derive(Default, Debug, Clone, PartialEq, Hash)]
pub struct Ts5odmomn {
    #[asn(optional(integer(0..7)))] pub f0: Option<u8>,
    #[asn(default(integer(0..7), 5))] pub f1: u8,
    #[asn(integer(0..7))] pub f2: u8,
    #[asn(optional(integer(0..7)))] pub f3: Option<u8>,
    #[asn(integer(0..7))] pub f4: u8,
}

impl Ts5odmomn {
    pub const fn f0_min() -> u8 {
        0
    }

    pub const fn f0_max() -> u8 {
        7
    }

    pub const fn f1_min() -> u8 {
        0
    }

    pub const fn f1_max() -> u8 {
        7
    }

    pub const fn f2_min() -> u8 {
        0
    }

    pub const fn f2_max() -> u8 {
        7
    }

    pub const fn f3_min() -> u8 {
        0
    }

    pub const fn f3_max() -> u8 {
        7
    }

    pub const fn f4_min() -> u8 {
        0
    }

    pub const fn f4_max() -> u8 {
        7
    }
}

#[asn(sequence, extensible_after(f0))]

#[derive(Default, Debug, Clone, PartialEq, Hash)]
pub struct Ts5odmome0 {
    #[asn(optional(integer(0..7)))] pub f0: Option<u8>,
    #[asn(default(integer(0..7), 5))] pub f1: u8,
    #[asn(optional(integer(0..7)))] pub f2: Option<u8>,
    #[asn(optional(integer(0..7)))] pub f3: Option<u8>,
    #[asn(optional(integer(0..7)))] pub f4: Option<u8>,
}

impl Ts5odmome0 {
    pub const fn f0_min() -> u8 {
        0
    }

    pub const fn f0_max() -> u8 {
        7
    }

    pub const fn f1_min() -> u8 {
        0
    }

    pub const fn f1_max() -> u8 {
        7
    }

    pub const fn f2_min() -> u8 {
        0
    }

    pub const fn f2_max() -> u8 {
        7
    }

    pub const fn f3_min() -> u8 {
        0
    }

    pub const fn f3_max() -> u8 {
        7
    }

    pub const fn f4_min() -> u8 {
        0
    }

    pub const fn f4_max() -> u8 {
        7
    }
}
// ---- harness conversions (generated by the zoo build script from the items above) ----
impl FromValue for Ts5ddomme0 {
    fn from_value(v: &Value) -> Self {
        let s = match v { Value::Seq(s) => s, other => panic!("Ts5ddomme0: expected Seq, got {other:?}") };
        assert_eq!(s.len(), 5, "Ts5ddomme0: component count");
        let _ = s;
        Ts5ddomme0 {
            f0: FromValue::from_value(s[0].as_ref().expect("component f0 of Ts5ddomme0 must be present")),
            f1: FromValue::from_value(s[1].as_ref().expect("component f1 of Ts5ddomme0 must be present")),
            f2: s[2].as_ref().map(FromValue::from_value),
            f3: s[3].as_ref().map(FromValue::from_value),
            f4: s[4].as_ref().map(FromValue::from_value),
        }
    }
}
impl ToValue for Ts5ddomme0 {
    fn to_value(&self) -> Value {
        Value::Seq(vec![
            Some(self.f0.to_value()),
            Some(self.f1.to_value()),
            self.f2.as_ref().map(|x| x.to_value()),
            self.f3.as_ref().map(|x| x.to_value()),
            self.f4.as_ref().map(|x| x.to_value()),
        ])
    }
}
impl FromValue for Ts5ddomme1 {
    fn from_value(v: &Value) -> Self {
        let s = match v { Value::Seq(s) => s, other => panic!("Ts5ddomme1: expected Seq, got {other:?}") };
        assert_eq!(s.len(), 5, "Ts5ddomme1: component count");
        let _ = s;
        Ts5ddomme1 {
            f0: FromValue::from_value(s[0].as_ref().expect("component f0 of Ts5ddomme1 must be present")),
            f1: FromValue::from_value(s[1].as_ref().expect("component f1 of Ts5ddomme1 must be present")),
            f2: s[2].as_ref().map(FromValue::from_value),
            f3: s[3].as_ref().map(FromValue::from_value),
            f4: s[4].as_ref().map(FromValue::from_value),
        }
    }
}
impl ToValue for Ts5ddomme1 {
    fn to_value(&self) -> Value {
        Value::Seq(vec![
            Some(self.f0.to_value()),
            Some(self.f1.to_value()),
            self.f2.as_ref().map(|x| x.to_value()),
            self.f3.as_ref().map(|x| x.to_value()),
            self.f4.as_ref().map(|x| x.to_value()),
        ])
    }
}
impl FromValue for Ts5ddomme2 {
    fn from_value(v: &Value) -> Self {
        let s = match v { Value::Seq(s) => s, other => panic!("Ts5ddomme2: expected Seq, got {other:?}") };
        assert_eq!(s.len(), 5, "Ts5ddomme2: component count");
        let _ = s;
        Ts5ddomme2 {
            f0: FromValue::from_value(s[0].as_ref().expect("component f0 of Ts5ddomme2 must be present")),
            f1: FromValue::from_value(s[1].as_ref().expect("component f1 of Ts5ddomme2 must be present")),
            f2: s[2].as_ref().map(FromValue::from_value),
            f3: s[3].as_ref().map(FromValue::from_value),
            f4: s[4].as_ref().map(FromValue::from_value),
        }
    }
}
impl ToValue for Ts5ddomme2 {
    fn to_value(&self) -> Value {
        Value::Seq(vec![
            Some(self.f0.to_value()),
            Some(self.f1.to_value()),
            self.f2.as_ref().map(|x| x.to_value()),
            self.f3.as_ref().map(|x| x.to_value()),
            self.f4.as_ref().map(|x| x.to_value()),
        ])
    }
}
impl FromValue for Ts5ddomme3 {
    fn from_value(v: &Value) -> Self {
        let s = match v { Value::Seq(s) => s, other => panic!("Ts5ddomme3: expected Seq, got {other:?}") };
        assert_eq!(s.len(), 5, "Ts5ddomme3: component count");
        let _ = s;
        Ts5ddomme3 {
            f0: FromValue::from_value(s[0].as_ref().expect("component f0 of Ts5ddomme3 must be present")),
            f1: FromValue::from_value(s[1].as_ref().expect("component f1 of Ts5ddomme3 must be present")),
            f2: s[2].as_ref().map(FromValue::from_value),
            f3: s[3].as_ref().map(FromValue::from_value),
            f4: s[4].as_ref().map(FromValue::from_value),
        }
    }
}
impl ToValue for Ts5ddomme3 {
    fn to_value(&self) -> Value {
        Value::Seq(vec![
            Some(self.f0.to_value()),
            Some(self.f1.to_value()),
            self.f2.as_ref().map(|x| x.to_value()),
            self.f3.as_ref().map(|x| x.to_value()),
            self.f4.as_ref().map(|x| x.to_value()),
        ])
    }
}
impl FromValue for Ts5ddomme4 {
    fn from_value(v: &Value) -> Self {
        let s = match v { Value::Seq(s) => s, other => panic!("Ts5ddomme4: expected Seq, got {other:?}") };
        assert_eq!(s.len(), 5, "Ts5ddomme4: component count");
        let _ = s;
        Ts5ddomme4 {
            f0: FromValue::from_value(s[0].as_ref().expect("component f0 of Ts5ddomme4 must be present")),
            f1: FromValue::from_value(s[1].as_ref().expect("component f1 of Ts5ddomme4 must be present")),
            f2: s[2].as_ref().map(FromValue::from_value),
            f3: FromValue::from_value(s[3].as_ref().expect("component f3 of Ts5ddomme4 must be present")),
            f4: s[4].as_ref().map(FromValue::from_value),
        }
    }
}
impl ToValue for Ts5ddomme4 {
    fn to_value(&self) -> Value {
        Value::Seq(vec![
            Some(self.f0.to_value()),
            Some(self.f1.to_value()),
            self.f2.as_ref().map(|x| x.to_value()),
            Some(self.f3.to_value()),
            self.f4.as_ref().map(|x| x.to_value()),
        ])
    }
}
impl FromValue for Ts5ddomme5 {
    fn from_value(v: &Value) -> Self {
        let s = match v { Value::Seq(s) => s, other => panic!("Ts5ddomme5: expected Seq, got {other:?}") };
        assert_eq!(s.len(), 5, "Ts5ddomme5: component count");
        let _ = s;
        Ts5ddomme5 {
            f0: FromValue::from_value(s[0].as_ref().expect("component f0 of Ts5ddomme5 must be present")),
            f1: FromValue::from_value(s[1].as_ref().expect("component f1 of Ts5ddomme5 must be present")),
            f2: s[2].as_ref().map(FromValue::from_value),
            f3: FromValue::from_value(s[3].as_ref().expect("component f3 of Ts5ddomme5 must be present")),
            f4: FromValue::from_value(s[4].as_ref().expect("component f4 of Ts5ddomme5 must be present")),
        }
    }
}
impl ToValue for Ts5ddomme5 {
    fn to_value(&self) -> Value {
        Value::Seq(vec![
            Some(self.f0.to_value()),
            Some(self.f1.to_value()),
            self.f2.as_ref().map(|x| x.to_value()),
            Some(self.f3.to_value()),
            Some(self.f4.to_value()),
        ])
    }
}
impl FromValue for Ts5mmdmmn {
    fn from_value(v: &Value) -> Self {
        let s = match v { Value::Seq(s) => s, other => panic!("Ts5mmdmmn: expected Seq, got {other:?}") };
        assert_eq!(s.len(), 5, "Ts5mmdmmn: component count");
        let _ = s;
        Ts5mmdmmn {
            f0: FromValue::from_value(s[0].as_ref().expect("component f0 of Ts5mmdmmn must be present")),
            f1: FromValue::from_value(s[1].as_ref().expect("component f1 of Ts5mmdmmn must be present")),
            f2: FromValue::from_value(s[2].as_ref().expect("component f2 of Ts5mmdmmn must be present")),
            f3: FromValue::from_value(s[3].as_ref().expect("component f3 of Ts5mmdmmn must be present")),
            f4: FromValue::from_value(s[4].as_ref().expect("component f4 of Ts5mmdmmn must be present")),
        }
    }
}
impl ToValue for Ts5mmdmmn {
    fn to_value(&self) -> Value {
        Value::Seq(vec![
            Some(self.f0.to_value()),
            Some(self.f1.to_value()),
            Some(self.f2.to_value()),
            Some(self.f3.to_value()),
            Some(self.f4.to_value()),
        ])
    }
}
impl FromValue for Ts5mmdmme0 {
    fn from_value(v: &Value) -> Self {
        let s = match v { Value::Seq(s) => s, other => panic!("Ts5mmdmme0: expected Seq, got {other:?}") };
        assert_eq!(s.len(), 5, "Ts5mmdmme0: component count");
        let _ = s;
        Ts5mmdmme0 {
            f0: FromValue::from_value(s[0].as_ref().expect("component f0 of Ts5mmdmme0 must be present")),
            f1: s[1].as_ref().map(FromValue::from_value),
            f2: FromValue::from_value(s[2].as_ref().expect("component f2 of Ts5mmdmme0 must be present")),
            f3: s[3].as_ref().map(FromValue::from_value),
            f4: s[4].as_ref().map(FromValue::from_value),
        }
    }
}
impl ToValue for Ts5mmdmme0 {
    fn to_value(&self) -> Value {
        Value::Seq(vec![
            Some(self.f0.to_value()),
            self.f1.as_ref().map(|x| x.to_value()),
            Some(self.f2.to_value()),
            self.f3.as_ref().map(|x| x.to_value()),
            self.f4.as_ref().map(|x| x.to_value()),
        ])
    }
}
impl FromValue for Ts5mmdmme1 {
    fn from_value(v: &Value) -> Self {
        let s = match v { Value::Seq(s) => s, other => panic!("Ts5mmdmme1: expected Seq, got {other:?}") };
        assert_eq!(s.len(), 5, "Ts5mmdmme1: component count");
        let _ = s;
        Ts5mmdmme1 {
            f0: FromValue::from_value(s[0].as_ref().expect("component f0 of Ts5mmdmme1 must be present")),
            f1: s[1].as_ref().map(FromValue::from_value),
            f2: FromValue::from_value(s[2].as_ref().expect("component f2 of Ts5mmdmme1 must be present")),
            f3: s[3].as_ref().map(FromValue::from_value),
            f4: s[4].as_ref().map(FromValue::from_value),
        }
    }
}
impl ToValue for Ts5mmdmme1 {
    fn to_value(&self) -> Value {
        Value::Seq(vec![
            Some(self.f0.to_value()),
            self.f1.as_ref().map(|x| x.to_value()),
            Some(self.f2.to_value()),
            self.f3.as_ref().map(|x| x.to_value()),
            self.f4.as_ref().map(|x| x.to_value()),
        ])
    }
}
impl FromValue for Ts5mmdmme2 {
    fn from_value(v: &Value) -> Self {
        let s = match v { Value::Seq(s) => s, other => panic!("Ts5mmdmme2: expected Seq, got {other:?}") };
        assert_eq!(s.len(), 5, "Ts5mmdmme2: component count");
        let _ = s;
        Ts5mmdmme2 {
            f0: FromValue::from_value(s[0].as_ref().expect("component f0 of Ts5mmdmme2 must be present")),
            f1: FromValue::from_value(s[1].as_ref().expect("component f1 of Ts5mmdmme2 must be present")),
            f2: FromValue::from_value(s[2].as_ref().expect("component f2 of Ts5mmdmme2 must be present")),
            f3: s[3].as_ref().map(FromValue::from_value),
            f4: s[4].as_ref().map(FromValue::from_value),
        }
    }
}
impl ToValue for Ts5mmdmme2 {
    fn to_value(&self) -> Value {
        Value::Seq(vec![
            Some(self.f0.to_value()),
            Some(self.f1.to_value()),
            Some(self.f2.to_value()),
            self.f3.as_ref().map(|x| x.to_value()),
            self.f4.as_ref().map(|x| x.to_value()),
        ])
    }
}
impl FromValue for Ts5mmdmme3 {
    fn from_value(v: &Value) -> Self {
        let s = match v { Value::Seq(s) => s, other => panic!("Ts5mmdmme3: expected Seq, got {other:?}") };
        assert_eq!(s.len(), 5, "Ts5mmdmme3: component count");
        let _ = s;
        Ts5mmdmme3 {
            f0: FromValue::from_value(s[0].as_ref().expect("component f0 of Ts5mmdmme3 must be present")),
            f1: FromValue::from_value(s[1].as_ref().expect("component f1 of Ts5mmdmme3 must be present")),
            f2: FromValue::from_value(s[2].as_ref().expect("component f2 of Ts5mmdmme3 must be present")),
            f3: s[3].as_ref().map(FromValue::from_value),
            f4: s[4].as_ref().map(FromValue::from_value),
        }
    }
}
impl ToValue for Ts5mmdmme3 {
    fn to_value(&self) -> Value {
        Value::Seq(vec![
            Some(self.f0.to_value()),
            Some(self.f1.to_value()),
            Some(self.f2.to_value()),
            self.f3.as_ref().map(|x| x.to_value()),
            self.f4.as_ref().map(|x| x.to_value()),
        ])
    }
}
impl FromValue for Ts5mmdmme4 {
    fn from_value(v: &Value) -> Self {
        let s = match v { Value::Seq(s) => s, other => panic!("Ts5mmdmme4: expected Seq, got {other:?}") };
        assert_eq!(s.len(), 5, "Ts5mmdmme4: component count");
        let _ = s;
        Ts5mmdmme4 {
            f0: FromValue::from_value(s[0].as_ref().expect("component f0 of Ts5mmdmme4 must be present")),
            f1: FromValue::from_value(s[1].as_ref().expect("component f1 of Ts5mmdmme4 must be present")),
            f2: FromValue::from_value(s[2].as_ref().expect("component f2 of Ts5mmdmme4 must be present")),
            f3: FromValue::from_value(s[3].as_ref().expect("component f3 of Ts5mmdmme4 must be present")),
            f4: s[4].as_ref().map(FromValue::from_value),
        }
    }
}
impl ToValue for Ts5mmdmme4 {
    fn to_value(&self) -> Value {
        Value::Seq(vec![
            Some(self.f0.to_value()),
            Some(self.f1.to_value()),
            Some(self.f2.to_value()),
            Some(self.f3.to_value()),
            self.f4.as_ref().map(|x| x.to_value()),
        ])
    }
}
impl FromValue for Ts5mmdmme5 {
    fn from_value(v: &Value) -> Self {
        let s = match v { Value::Seq(s) => s, other => panic!("Ts5mmdmme5: expected Seq, got {other:?}") };
        assert_eq!(s.len(), 5, "Ts5mmdmme5: component count");
        let _ = s;
        Ts5mmdmme5 {
            f0: FromValue::from_value(s[0].as_ref().expect("component f0 of Ts5mmdmme5 must be present")),
            f1: FromValue::from_value(s[1].as_ref().expect("component f1 of Ts5mmdmme5 must be present")),
            f2: FromValue::from_value(s[2].as_ref().expect("component f2 of Ts5mmdmme5 must be present")),
            f3: FromValue::from_value(s[3].as_ref().expect("component f3 of Ts5mmdmme5 must be present")),
            f4: FromValue::from_value(s[4].as_ref().expect("component f4 of Ts5mmdmme5 must be present")),
        }
    }
}
impl ToValue for Ts5mmdmme5 {
    fn to_value(&self) -> Value {
        Value::Seq(vec![
            Some(self.f0.to_value()),
            Some(self.f1.to_value()),
            Some(self.f2.to_value()),
            Some(self.f3.to_value()),
            Some(self.f4.to_value()),
        ])
    }
}
impl FromValue for Ts5omdmmn {
    fn from_value(v: &Value) -> Self {
        let s = match v { Value::Seq(s) => s, other => panic!("Ts5omdmmn: expected Seq, got {other:?}") };
        assert_eq!(s.len(), 5, "Ts5omdmmn: component count");
        let _ = s;
        Ts5omdmmn {
            f0: s[0].as_ref().map(FromValue::from_value),
            f1: FromValue::from_value(s[1].as_ref().expect("component f1 of Ts5omdmmn must be present")),
            f2: FromValue::from_value(s[2].as_ref().expect("component f2 of Ts5omdmmn must be present")),
            f3: FromValue::from_value(s[3].as_ref().expect("component f3 of Ts5omdmmn must be present")),
            f4: FromValue::from_value(s[4].as_ref().expect("component f4 of Ts5omdmmn must be present")),
        }
    }
}
impl ToValue for Ts5omdmmn {
    fn to_value(&self) -> Value {
        Value::Seq(vec![
            self.f0.as_ref().map(|x| x.to_value()),
            Some(self.f1.to_value()),
            Some(self.f2.to_value()),
            Some(self.f3.to_value()),
            Some(self.f4.to_value()),
        ])
    }
}
impl FromValue for Ts5omdmme0 {
    fn from_value(v: &Value) -> Self {
        let s = match v { Value::Seq(s) => s, other => panic!("Ts5omdmme0: expected Seq, got {other:?}") };
        assert_eq!(s.len(), 5, "Ts5omdmme0: component count");
        let _ = s;
        Ts5omdmme0 {
            f0: s[0].as_ref().map(FromValue::from_value),
            f1: s[1].as_ref().map(FromValue::from_value),
            f2: FromValue::from_value(s[2].as_ref().expect("component f2 of Ts5omdmme0 must be present")),
            f3: s[3].as_ref().map(FromValue::from_value),
            f4: s[4].as_ref().map(FromValue::from_value),
        }
    }
}
impl ToValue for Ts5omdmme0 {
    fn to_value(&self) -> Value {
        Value::Seq(vec![
            self.f0.as_ref().map(|x| x.to_value()),
            self.f1.as_ref().map(|x| x.to_value()),
            Some(self.f2.to_value()),
            self.f3.as_ref().map(|x| x.to_value()),
            self.f4.as_ref().map(|x| x.to_value()),
        ])
    }
}
impl FromValue for Ts5omdmme1 {
    fn from_value(v: &Value) -> Self {
        let s = match v { Value::Seq(s) => s, other => panic!("Ts5omdmme1: expected Seq, got {other:?}") };
        assert_eq!(s.len(), 5, "Ts5omdmme1: component count");
        let _ = s;
        Ts5omdmme1 {
            f0: s[0].as_ref().map(FromValue::from_value),
            f1: s[1].as_ref().map(FromValue::from_value),
            f2: FromValue::from_value(s[2].as_ref().expect("component f2 of Ts5omdmme1 must be present")),
            f3: s[3].as_ref().map(FromValue::from_value),
            f4: s[4].as_ref().map(FromValue::from_value),
        }
    }
}
impl ToValue for Ts5omdmme1 {
    fn to_value(&self) -> Value {
        Value::Seq(vec![
            self.f0.as_ref().map(|x| x.to_value()),
            self.f1.as_ref().map(|x| x.to_value()),
            Some(self.f2.to_value()),
            self.f3.as_ref().map(|x| x.to_value()),
            self.f4.as_ref().map(|x| x.to_value()),
        ])
    }
}
impl FromValue for Ts5omdmme2 {
    fn from_value(v: &Value) -> Self {
        let s = match v { Value::Seq(s) => s, other => panic!("Ts5omdmme2: expected Seq, got {other:?}") };
        assert_eq!(s.len(), 5, "Ts5omdmme2: component count");
        let _ = s;
        Ts5omdmme2 {
            f0: s[0].as_ref().map(FromValue::from_value),
            f1: FromValue::from_value(s[1].as_ref().expect("component f1 of Ts5omdmme2 must be present")),
            f2: FromValue::from_value(s[2].as_ref().expect("component f2 of Ts5omdmme2 must be present")),
            f3: s[3].as_ref().map(FromValue::from_value),
            f4: s[4].as_ref().map(FromValue::from_value),
        }
    }
}
impl ToValue for Ts5omdmme2 {
    fn to_value(&self) -> Value {
        Value::Seq(vec![
            self.f0.as_ref().map(|x| x.to_value()),
            Some(self.f1.to_value()),
            Some(self.f2.to_value()),
            self.f3.as_ref().map(|x| x.to_value()),
            self.f4.as_ref().map(|x| x.to_value()),
        ])
    }
}
impl FromValue for Ts5omdmme3 {
    fn from_value(v: &Value) -> Self {
        let s = match v { Value::Seq(s) => s, other => panic!("Ts5omdmme3: expected Seq, got {other:?}") };
        assert_eq!(s.len(), 5, "Ts5omdmme3: component count");
        let _ = s;
        Ts5omdmme3 {
            f0: s[0].as_ref().map(FromValue::from_value),
            f1: FromValue::from_value(s[1].as_ref().expect("component f1 of Ts5omdmme3 must be present")),
            f2: FromValue::from_value(s[2].as_ref().expect("component f2 of Ts5omdmme3 must be present")),
            f3: s[3].as_ref().map(FromValue::from_value),
            f4: s[4].as_ref().map(FromValue::from_value),
        }
    }
}
impl ToValue for Ts5omdmme3 {
    fn to_value(&self) -> Value {
        Value::Seq(vec![
            self.f0.as_ref().map(|x| x.to_value()),
            Some(self.f1.to_value()),
            Some(self.f2.to_value()),
            self.f3.as_ref().map(|x| x.to_value()),
            self.f4.as_ref().map(|x| x.to_value()),
        ])
    }
}
impl FromValue for Ts5omdmme4 {
    fn from_value(v: &Value) -> Self {
        let s = match v { Value::Seq(s) => s, other => panic!("Ts5omdmme4: expected Seq, got {other:?}") };
        assert_eq!(s.len(), 5, "Ts5omdmme4: component count");
        let _ = s;
        Ts5omdmme4 {
            f0: s[0].as_ref().map(FromValue::from_value),
            f1: FromValue::from_value(s[1].as_ref().expect("component f1 of Ts5omdmme4 must be present")),
            f2: FromValue::from_value(s[2].as_ref().expect("component f2 of Ts5omdmme4 must be present")),
            f3: FromValue::from_value(s[3].as_ref().expect("component f3 of Ts5omdmme4 must be present")),
            f4: s[4].as_ref().map(FromValue::from_value),
        }
    }
}
impl ToValue for Ts5omdmme4 {
    fn to_value(&self) -> Value {
        Value::Seq(vec![
            self.f0.as_ref().map(|x| x.to_value()),
            Some(self.f1.to_value()),
            Some(self.f2.to_value()),
            Some(self.f3.to_value()),
            self.f4.as_ref().map(|x| x.to_value()),
        ])
    }
}
impl FromValue for Ts5omdmme5 {
    fn from_value(v: &Value) -> Self {
        let s = match v { Value::Seq(s) => s, other => panic!("Ts5omdmme5: expected Seq, got {other:?}") };
        assert_eq!(s.len(), 5, "Ts5omdmme5: component count");
        let _ = s;
        Ts5omdmme5 {
            f0: s[0].as_ref().map(FromValue::from_value),
            f1: FromValue::from_value(s[1].as_ref().expect("component f1 of Ts5omdmme5 must be present")),
            f2: FromValue::from_value(s[2].as_ref().expect("component f2 of Ts5omdmme5 must be present")),
            f3: FromValue::from_value(s[3].as_ref().expect("component f3 of Ts5omdmme5 must be present")),
            f4: FromValue::from_value(s[4].as_ref().expect("component f4 of Ts5omdmme5 must be present")),
        }
    }
}
impl ToValue for Ts5omdmme5 {
    fn to_value(&self) -> Value {
        Value::Seq(vec![
            self.f0.as_ref().map(|x| x.to_value()),
            Some(self.f1.to_value()),
            Some(self.f2.to_value()),
            Some(self.f3.to_value()),
            Some(self.f4.to_value()),
        ])
    }
}
impl FromValue for Ts5dmdmmn {
    fn from_value(v: &Value) -> Self {
        let s = match v { Value::Seq(s) => s, other => panic!("Ts5dmdmmn: expected Seq, got {other:?}") };
        assert_eq!(s.len(), 5, "Ts5dmdmmn: component count");
        let _ = s;
        Ts5dmdmmn {
            f0: FromValue::from_value(s[0].as_ref().expect("component f0 of Ts5dmdmmn must be present")),
            f1: FromValue::from_value(s[1].as_ref().expect("component f1 of Ts5dmdmmn must be present")),
            f2: FromValue::from_value(s[2].as_ref().expect("component f2 of Ts5dmdmmn must be present")),
            f3: FromValue::from_value(s[3].as_ref().expect("component f3 of Ts5dmdmmn must be present")),
            f4: FromValue::from_value(s[4].as_ref().expect("component f4 of Ts5dmdmmn must be present")),
        }
    }
}
impl ToValue for Ts5dmdmmn {
    fn to_value(&self) -> Value {
        Value::Seq(vec![
            Some(self.f0.to_value()),
            Some(self.f1.to_value()),
            Some(self.f2.to_value()),
            Some(self.f3.to_value()),
            Some(self.f4.to_value()),
        ])
    }
}
impl FromValue for Ts5dmdmme0 {
    fn from_value(v: &Value) -> Self {
        let s = match v { Value::Seq(s) => s, other => panic!("Ts5dmdmme0: expected Seq, got {other:?}") };
        assert_eq!(s.len(), 5, "Ts5dmdmme0: component count");
        let _ = s;
        Ts5dmdmme0 {
            f0: FromValue::from_value(s[0].as_ref().expect("component f0 of Ts5dmdmme0 must be present")),
            f1: s[1].as_ref().map(FromValue::from_value),
            f2: FromValue::from_value(s[2].as_ref().expect("component f2 of Ts5dmdmme0 must be present")),
            f3: s[3].as_ref().map(FromValue::from_value),
            f4: s[4].as_ref().map(FromValue::from_value),
        }
    }
}
impl ToValue for Ts5dmdmme0 {
    fn to_value(&self) -> Value {
        Value::Seq(vec![
            Some(self.f0.to_value()),
            self.f1.as_ref().map(|x| x.to_value()),
            Some(self.f2.to_value()),
            self.f3.as_ref().map(|x| x.to_value()),
            self.f4.as_ref().map(|x| x.to_value()),
        ])
    }
}
impl FromValue for Ts5dmdmme1 {
    fn from_value(v: &Value) -> Self {
        let s = match v { Value::Seq(s) => s, other => panic!("Ts5dmdmme1: expected Seq, got {other:?}") };
        assert_eq!(s.len(), 5, "Ts5dmdmme1: component count");
        let _ = s;
        Ts5dmdmme1 {
            f0: FromValue::from_value(s[0].as_ref().expect("component f0 of Ts5dmdmme1 must be present")),
            f1: s[1].as_ref().map(FromValue::from_value),
            f2: FromValue::from_value(s[2].as_ref().expect("component f2 of Ts5dmdmme1 must be present")),
            f3: s[3].as_ref().map(FromValue::from_value),
            f4: s[4].as_ref().map(FromValue::from_value),
        }
    }
}
impl ToValue for Ts5dmdmme1 {
    fn to_value(&self) -> Value {
        Value::Seq(vec![
            Some(self.f0.to_value()),
            self.f1.as_ref().map(|x| x.to_value()),
            Some(self.f2.to_value()),
            self.f3.as_ref().map(|x| x.to_value()),
            self.f4.as_ref().map(|x| x.to_value()),
        ])
    }
}
impl FromValue for Ts5dmdmme2 {
    fn from_value(v: &Value) -> Self {
        let s = match v { Value::Seq(s) => s, other => panic!("Ts5dmdmme2: expected Seq, got {other:?}") };
        assert_eq!(s.len(), 5, "Ts5dmdmme2: component count");
        let _ = s;
        Ts5dmdmme2 {
            f0: FromValue::from_value(s[0].as_ref().expect("component f0 of Ts5dmdmme2 must be present")),
            f1: FromValue::from_value(s[1].as_ref().expect("component f1 of Ts5dmdmme2 must be present")),
            f2: FromValue::from_value(s[2].as_ref().expect("component f2 of Ts5dmdmme2 must be present")),
            f3: s[3].as_ref().map(FromValue::from_value),
            f4: s[4].as_ref().map(FromValue::from_value),
        }
    }
}
impl ToValue for Ts5dmdmme2 {
    fn to_value(&self) -> Value {
        Value::Seq(vec![
            Some(self.f0.to_value()),
            Some(self.f1.to_value()),
            Some(self.f2.to_value()),
            self.f3.as_ref().map(|x| x.to_value()),
            self.f4.as_ref().map(|x| x.to_value()),
        ])
    }
}
impl FromValue for Ts5dmdmme3 {
    fn from_value(v: &Value) -> Self {
        let s = match v { Value::Seq(s) => s, other => panic!("Ts5dmdmme3: expected Seq, got {other:?}") };
        assert_eq!(s.len(), 5, "Ts5dmdmme3: component count");
        let _ = s;
        Ts5dmdmme3 {
            f0: FromValue::from_value(s[0].as_ref().expect("component f0 of Ts5dmdmme3 must be present")),
            f1: FromValue::from_value(s[1].as_ref().expect("component f1 of Ts5dmdmme3 must be present")),
            f2: FromValue::from_value(s[2].as_ref().expect("component f2 of Ts5dmdmme3 must be present")),
            f3: s[3].as_ref().map(FromValue::from_value),
            f4: s[4].as_ref().map(FromValue::from_value),
        }
    }
}
impl ToValue for Ts5dmdmme3 {
    fn to_value(&self) -> Value {
        Value::Seq(vec![
            Some(self.f0.to_value()),
            Some(self.f1.to_value()),
            Some(self.f2.to_value()),
            self.f3.as_ref().map(|x| x.to_value()),
            self.f4.as_ref().map(|x| x.to_value()),
        ])
    }
}
impl FromValue for Ts5dmdmme4 {
    fn from_value(v: &Value) -> Self {
        let s = match v { Value::Seq(s) => s, other => panic!("Ts5dmdmme4: expected Seq, got {other:?}") };
        assert_eq!(s.len(), 5, "Ts5dmdmme4: component count");
        let _ = s;
        Ts5dmdmme4 {
            f0: FromValue::from_value(s[0].as_ref().expect("component f0 of Ts5dmdmme4 must be present")),
            f1: FromValue::from_value(s[1].as_ref().expect("component f1 of Ts5dmdmme4 must be present")),
            f2: FromValue::from_value(s[2].as_ref().expect("component f2 of Ts5dmdmme4 must be present")),
            f3: FromValue::from_value(s[3].as_ref().expect("component f3 of Ts5dmdmme4 must be present")),
            f4: s[4].as_ref().map(FromValue::from_value),
        }
    }
}
impl ToValue for Ts5dmdmme4 {
    fn to_value(&self) -> Value {
        Value::Seq(vec![
            Some(self.f0.to_value()),
            Some(self.f1.to_value()),
            Some(self.f2.to_value()),
            Some(self.f3.to_value()),
            self.f4.as_ref().map(|x| x.to_value()),
        ])
    }
}
impl FromValue for Ts5dmdmme5 {
    fn from_value(v: &Value) -> Self {
        let s = match v { Value::Seq(s) => s, other => panic!("Ts5dmdmme5: expected Seq, got {other:?}") };
        assert_eq!(s.len(), 5, "Ts5dmdmme5: component count");
        let _ = s;
        Ts5dmdmme5 {
            f0: FromValue::from_value(s[0].as_ref().expect("component f0 of Ts5dmdmme5 must be present")),
            f1: FromValue::from_value(s[1].as_ref().expect("component f1 of Ts5dmdmme5 must be present")),
            f2: FromValue::from_value(s[2].as_ref().expect("component f2 of Ts5dmdmme5 must be present")),
            f3: FromValue::from_value(s[3].as_ref().expect("component f3 of Ts5dmdmme5 must be present")),
            f4: FromValue::from_value(s[4].as_ref().expect("component f4 of Ts5dmdmme5 must be present")),
        }
    }
}
impl ToValue for Ts5dmdmme5 {
    fn to_value(&self) -> Value {
        Value::Seq(vec![
            Some(self.f0.to_value()),
            Some(self.f1.to_value()),
            Some(self.f2.to_value()),
            Some(self.f3.to_value()),
            Some(self.f4.to_value()),
        ])
    }
}
impl FromValue for Ts5modmmn {
    fn from_value(v: &Value) -> Self {
        let s = match v { Value::Seq(s) => s, other => panic!("Ts5modmmn: expected Seq, got {other:?}") };
        assert_eq!(s.len(), 5, "Ts5modmmn: component count");
        let _ = s;
        Ts5modmmn {
            f0: FromValue::from_value(s[0].as_ref().expect("component f0 of Ts5modmmn must be present")),
            f1: s[1].as_ref().map(FromValue::from_value),
            f2: FromValue::from_value(s[2].as_ref().expect("component f2 of Ts5modmmn must be present")),
            f3: FromValue::from_value(s[3].as_ref().expect("component f3 of Ts5modmmn must be present")),
            f4: FromValue::from_value(s[4].as_ref().expect("component f4 of Ts5modmmn must be present")),
        }
    }
}
impl ToValue for Ts5modmmn {
    fn to_value(&self) -> Value {
        Value::Seq(vec![
            Some(self.f0.to_value()),
            self.f1.as_ref().map(|x| x.to_value()),
            Some(self.f2.to_value()),
            Some(self.f3.to_value()),
            Some(self.f4.to_value()),
        ])
    }
}
impl FromValue for Ts5modmme0 {
    fn from_value(v: &Value) -> Self {
        let s = match v { Value::Seq(s) => s, other => panic!("Ts5modmme0: expected Seq, got {other:?}") };
        assert_eq!(s.len(), 5, "Ts5modmme0: component count");
        let _ = s;
        Ts5modmme0 {
            f0: FromValue::from_value(s[0].as_ref().expect("component f0 of Ts5modmme0 must be present")),
            f1: s[1].as_ref().map(FromValue::from_value),
            f2: FromValue::from_value(s[2].as_ref().expect("component f2 of Ts5modmme0 must be present")),
            f3: s[3].as_ref().map(FromValue::from_value),
            f4: s[4].as_ref().map(FromValue::from_value),
        }
    }
}
impl ToValue for Ts5modmme0 {
    fn to_value(&self) -> Value {
        Value::Seq(vec![
            Some(self.f0.to_value()),
            self.f1.as_ref().map(|x| x.to_value()),
            Some(self.f2.to_value()),
            self.f3.as_ref().map(|x| x.to_value()),
            self.f4.as_ref().map(|x| x.to_value()),
        ])
    }
}
impl FromValue for Ts5modmme1 {
    fn from_value(v: &Value) -> Self {
        let s = match v { Value::Seq(s) => s, other => panic!("Ts5modmme1: expected Seq, got {other:?}") };
        assert_eq!(s.len(), 5, "Ts5modmme1: component count");
        let _ = s;
        Ts5modmme1 {
            f0: FromValue::from_value(s[0].as_ref().expect("component f0 of Ts5modmme1 must be present")),
            f1: s[1].as_ref().map(FromValue::from_value),
            f2: FromValue::from_value(s[2].as_ref().expect("component f2 of Ts5modmme1 must be present")),
            f3: s[3].as_ref().map(FromValue::from_value),
            f4: s[4].as_ref().map(FromValue::from_value),
        }
    }
}
impl ToValue for Ts5modmme1 {
    fn to_value(&self) -> Value {
        Value::Seq(vec![
            Some(self.f0.to_value()),
            self.f1.as_ref().map(|x| x.to_value()),
            Some(self.f2.to_value()),
            self.f3.as_ref().map(|x| x.to_value()),
            self.f4.as_ref().map(|x| x.to_value()),
        ])
    }
}
impl FromValue for Ts5modmme2 {
    fn from_value(v: &Value) -> Self {
        let s = match v { Value::Seq(s) => s, other => panic!("Ts5modmme2: expected Seq, got {other:?}") };
        assert_eq!(s.len(), 5, "Ts5modmme2: component count");
        let _ = s;
        Ts5modmme2 {
            f0: FromValue::from_value(s[0].as_ref().expect("component f0 of Ts5modmme2 must be present")),
            f1: s[1].as_ref().map(FromValue::from_value),
            f2: FromValue::from_value(s[2].as_ref().expect("component f2 of Ts5modmme2 must be present")),
            f3: s[3].as_ref().map(FromValue::from_value),
            f4: s[4].as_ref().map(FromValue::from_value),
        }
    }
}
impl ToValue for Ts5modmme2 {
    fn to_value(&self) -> Value {
        Value::Seq(vec![
            Some(self.f0.to_value()),
            self.f1.as_ref().map(|x| x.to_value()),
            Some(self.f2.to_value()),
            self.f3.as_ref().map(|x| x.to_value()),
            self.f4.as_ref().map(|x| x.to_value()),
        ])
    }
}
impl FromValue for Ts5modmme3 {
    fn from_value(v: &Value) -> Self {
        let s = match v { Value::Seq(s) => s, other => panic!("Ts5modmme3: expected Seq, got {other:?}") };
        assert_eq!(s.len(), 5, "Ts5modmme3: component count");
        let _ = s;
        Ts5modmme3 {
            f0: FromValue::from_value(s[0].as_ref().expect("component f0 of Ts5modmme3 must be present")),
            f1: s[1].as_ref().map(FromValue::from_value),
            f2: FromValue::from_value(s[2].as_ref().expect("component f2 of Ts5modmme3 must be present")),
            f3: s[3].as_ref().map(FromValue::from_value),
            f4: s[4].as_ref().map(FromValue::from_value),
        }
    }
}
impl ToValue for Ts5modmme3 {
    fn to_value(&self) -> Value {
        Value::Seq(vec![
            Some(self.f0.to_value()),
            self.f1.as_ref().map(|x| x.to_value()),
            Some(self.f2.to_value()),
            self.f3.as_ref().map(|x| x.to_value()),
            self.f4.as_ref().map(|x| x.to_value()),
        ])
    }
}
impl FromValue for Ts5modmme4 {
    fn from_value(v: &Value) -> Self {
        let s = match v { Value::Seq(s) => s, other => panic!("Ts5modmme4: expected Seq, got {other:?}") };
        assert_eq!(s.len(), 5, "Ts5modmme4: component count");
        let _ = s;
        Ts5modmme4 {
            f0: FromValue::from_value(s[0].as_ref().expect("component f0 of Ts5modmme4 must be present")),
            f1: s[1].as_ref().map(FromValue::from_value),
            f2: FromValue::from_value(s[2].as_ref().expect("component f2 of Ts5modmme4 must be present")),
            f3: FromValue::from_value(s[3].as_ref().expect("component f3 of Ts5modmme4 must be present")),
            f4: s[4].as_ref().map(FromValue::from_value),
        }
    }
}
impl ToValue for Ts5modmme4 {
    fn to_value(&self) -> Value {
        Value::Seq(vec![
            Some(self.f0.to_value()),
            self.f1.as_ref().map(|x| x.to_value()),
            Some(self.f2.to_value()),
            Some(self.f3.to_value()),
            self.f4.as_ref().map(|x| x.to_value()),
        ])
    }
}
impl FromValue for Ts5modmme5 {
    fn from_value(v: &Value) -> Self {
        let s = match v { Value::Seq(s) => s, other => panic!("Ts5modmme5: expected Seq, got {other:?}") };
        assert_eq!(s.len(), 5, "Ts5modmme5: component count");
        let _ = s;
        Ts5modmme5 {
            f0: FromValue::from_value(s[0].as_ref().expect("component f0 of Ts5modmme5 must be present")),
            f1: s[1].as_ref().map(FromValue::from_value),
            f2: FromValue::from_value(s[2].as_ref().expect("component f2 of Ts5modmme5 must be present")),
            f3: FromValue::from_value(s[3].as_ref().expect("component f3 of Ts5modmme5 must be present")),
            f4: FromValue::from_value(s[4].as_ref().expect("component f4 of Ts5modmme5 must be present")),
        }
    }
}
impl ToValue for Ts5modmme5 {
    fn to_value(&self) -> Value {
        Value::Seq(vec![
            Some(self.f0.to_value()),
            self.f1.as_ref().map(|x| x.to_value()),
            Some(self.f2.to_value()),
            Some(self.f3.to_value()),
            Some(self.f4.to_value()),
        ])
    }
}
impl FromValue for Ts5oodmmn {
    fn from_value(v: &Value) -> Self {
        let s = match v { Value::Seq(s) => s, other => panic!("Ts5oodmmn: expected Seq, got {other:?}") };
        assert_eq!(s.len(), 5, "Ts5oodmmn: component count");
        let _ = s;
        Ts5oodmmn {
            f0: s[0].as_ref().map(FromValue::from_value),
            f1: s[1].as_ref().map(FromValue::from_value),
            f2: FromValue::from_value(s[2].as_ref().expect("component f2 of Ts5oodmmn must be present")),
            f3: FromValue::from_value(s[3].as_ref().expect("component f3 of Ts5oodmmn must be present")),
            f4: FromValue::from_value(s[4].as_ref().expect("component f4 of Ts5oodmmn must be present")),
        }
    }
}
impl ToValue for Ts5oodmmn {
    fn to_value(&self) -> Value {
        Value::Seq(vec![
            self.f0.as_ref().map(|x| x.to_value()),
            self.f1.as_ref().map(|x| x.to_value()),
            Some(self.f2.to_value()),
            Some(self.f3.to_value()),
            Some(self.f4.to_value()),
        ])
    }
}
impl FromValue for Ts5oodmme0 {
    fn from_value(v: &Value) -> Self {
        let s = match v { Value::Seq(s) => s, other => panic!("Ts5oodmme0: expected Seq, got {other:?}") };
        assert_eq!(s.len(), 5, "Ts5oodmme0: component count");
        let _ = s;
        Ts5oodmme0 {
            f0: s[0].as_ref().map(FromValue::from_value),
            f1: s[1].as_ref().map(FromValue::from_value),
            f2: FromValue::from_value(s[2].as_ref().expect("component f2 of Ts5oodmme0 must be present")),
            f3: s[3].as_ref().map(FromValue::from_value),
            f4: s[4].as_ref().map(FromValue::from_value),
        }
    }
}
impl ToValue for Ts5oodmme0 {
    fn to_value(&self) -> Value {
        Value::Seq(vec![
            self.f0.as_ref().map(|x| x.to_value()),
            self.f1.as_ref().map(|x| x.to_value()),
            Some(self.f2.to_value()),
            self.f3.as_ref().map(|x| x.to_value()),
            self.f4.as_ref().map(|x| x.to_value()),
        ])
    }
}
impl FromValue for Ts5oodmme1 {
    fn from_value(v: &Value) -> Self {
        let s = match v { Value::Seq(s) => s, other => panic!("Ts5oodmme1: expected Seq, got {other:?}") };
        assert_eq!(s.len(), 5, "Ts5oodmme1: component count");
        let _ = s;
        Ts5oodmme1 {
            f0: s[0].as_ref().map(FromValue::from_value),
            f1: s[1].as_ref().map(FromValue::from_value),
            f2: FromValue::from_value(s[2].as_ref().expect("component f2 of Ts5oodmme1 must be present")),
            f3: s[3].as_ref().map(FromValue::from_value),
            f4: s[4].as_ref().map(FromValue::from_value),
        }
    }
}
impl ToValue for Ts5oodmme1 {
    fn to_value(&self) -> Value {
        Value::Seq(vec![
            self.f0.as_ref().map(|x| x.to_value()),
            self.f1.as_ref().map(|x| x.to_value()),
            Some(self.f2.to_value()),
            self.f3.as_ref().map(|x| x.to_value()),
            self.f4.as_ref().map(|x| x.to_value()),
        ])
    }
}
impl FromValue for Ts5oodmme2 {
    fn from_value(v: &Value) -> Self {
        let s = match v { Value::Seq(s) => s, other => panic!("Ts5oodmme2: expected Seq, got {other:?}") };
        assert_eq!(s.len(), 5, "Ts5oodmme2: component count");
        let _ = s;
        Ts5oodmme2 {
            f0: s[0].as_ref().map(FromValue::from_value),
            f1: s[1].as_ref().map(FromValue::from_value),
            f2: FromValue::from_value(s[2].as_ref().expect("component f2 of Ts5oodmme2 must be present")),
            f3: s[3].as_ref().map(FromValue::from_value),
            f4: s[4].as_ref().map(FromValue::from_value),
        }
    }
}
impl ToValue for Ts5oodmme2 {
    fn to_value(&self) -> Value {
        Value::Seq(vec![
            self.f0.as_ref().map(|x| x.to_value()),
            self.f1.as_ref().map(|x| x.to_value()),
            Some(self.f2.to_value()),
            self.f3.as_ref().map(|x| x.to_value()),
            self.f4.as_ref().map(|x| x.to_value()),
        ])
    }
}
impl FromValue for Ts5oodmme3 {
    fn from_value(v: &Value) -> Self {
        let s = match v { Value::Seq(s) => s, other => panic!("Ts5oodmme3: expected Seq, got {other:?}") };
        assert_eq!(s.len(), 5, "Ts5oodmme3: component count");
        let _ = s;
        Ts5oodmme3 {
            f0: s[0].as_ref().map(FromValue::from_value),
            f1: s[1].as_ref().map(FromValue::from_value),
            f2: FromValue::from_value(s[2].as_ref().expect("component f2 of Ts5oodmme3 must be present")),
            f3: s[3].as_ref().map(FromValue::from_value),
            f4: s[4].as_ref().map(FromValue::from_value),
        }
    }
}
impl ToValue for Ts5oodmme3 {
    fn to_value(&self) -> Value {
        Value::Seq(vec![
            self.f0.as_ref().map(|x| x.to_value()),
            self.f1.as_ref().map(|x| x.to_value()),
            Some(self.f2.to_value()),
            self.f3.as_ref().map(|x| x.to_value()),
            self.f4.as_ref().map(|x| x.to_value()),
        ])
    }
}
impl FromValue for Ts5oodmme4 {
    fn from_value(v: &Value) -> Self {
        let s = match v { Value::Seq(s) => s, other => panic!("Ts5oodmme4: expected Seq, got {other:?}") };
        assert_eq!(s.len(), 5, "Ts5oodmme4: component count");
        let _ = s;
        Ts5oodmme4 {
            f0: s[0].as_ref().map(FromValue::from_value),
            f1: s[1].as_ref().map(FromValue::from_value),
            f2: FromValue::from_value(s[2].as_ref().expect("component f2 of Ts5oodmme4 must be present")),
            f3: FromValue::from_value(s[3].as_ref().expect("component f3 of Ts5oodmme4 must be present")),
            f4: s[4].as_ref().map(FromValue::from_value),
        }
    }
}
impl ToValue for Ts5oodmme4 {
    fn to_value(&self) -> Value {
        Value::Seq(vec![
            self.f0.as_ref().map(|x| x.to_value()),
            self.f1.as_ref().map(|x| x.to_value()),
            Some(self.f2.to_value()),
            Some(self.f3.to_value()),
            self.f4.as_ref().map(|x| x.to_value()),
        ])
    }
}
impl FromValue for Ts5oodmme5 {
    fn from_value(v: &Value) -> Self {
        let s = match v { Value::Seq(s) => s, other => panic!("Ts5oodmme5: expected Seq, got {other:?}") };
        assert_eq!(s.len(), 5, "Ts5oodmme5: component count");
        let _ = s;
        Ts5oodmme5 {
            f0: s[0].as_ref().map(FromValue::from_value),
            f1: s[1].as_ref().map(FromValue::from_value),
            f2: FromValue::from_value(s[2].as_ref().expect("component f2 of Ts5oodmme5 must be present")),
            f3: FromValue::from_value(s[3].as_ref().expect("component f3 of Ts5oodmme5 must be present")),
            f4: FromValue::from_value(s[4].as_ref().expect("component f4 of Ts5oodmme5 must be present")),
        }
    }
}
impl ToValue for Ts5oodmme5 {
    fn to_value(&self) -> Value {
        Value::Seq(vec![
            self.f0.as_ref().map(|x| x.to_value()),
            self.f1.as_ref().map(|x| x.to_value()),
            Some(self.f2.to_value()),
            Some(self.f3.to_value()),
            Some(self.f4.to_value()),
        ])
    }
}
impl FromValue for Ts5dodmmn {
    fn from_value(v: &Value) -> Self {
        let s = match v { Value::Seq(s) => s, other => panic!("Ts5dodmmn: expected Seq, got {other:?}") };
        assert_eq!(s.len(), 5, "Ts5dodmmn: component count");
        let _ = s;
        Ts5dodmmn {
            f0: FromValue::from_value(s[0].as_ref().expect("component f0 of Ts5dodmmn must be present")),
            f1: s[1].as_ref().map(FromValue::from_value),
            f2: FromValue::from_value(s[2].as_ref().expect("component f2 of Ts5dodmmn must be present")),
            f3: FromValue::from_value(s[3].as_ref().expect("component f3 of Ts5dodmmn must be present")),
            f4: FromValue::from_value(s[4].as_ref().expect("component f4 of Ts5dodmmn must be present")),
        }
    }
}
impl ToValue for Ts5dodmmn {
    fn to_value(&self) -> Value {
        Value::Seq(vec![
            Some(self.f0.to_value()),
            self.f1.as_ref().map(|x| x.to_value()),
            Some(self.f2.to_value()),
            Some(self.f3.to_value()),
            Some(self.f4.to_value()),
        ])
    }
}
impl FromValue for Ts5dodmme0 {
    fn from_value(v: &Value) -> Self {
        let s = match v { Value::Seq(s) => s, other => panic!("Ts5dodmme0: expected Seq, got {other:?}") };
        assert_eq!(s.len(), 5, "Ts5dodmme0: component count");
        let _ = s;
        Ts5dodmme0 {
            f0: FromValue::from_value(s[0].as_ref().expect("component f0 of Ts5dodmme0 must be present")),
            f1: s[1].as_ref().map(FromValue::from_value),
            f2: FromValue::from_value(s[2].as_ref().expect("component f2 of Ts5dodmme0 must be present")),
            f3: s[3].as_ref().map(FromValue::from_value),
            f4: s[4].as_ref().map(FromValue::from_value),
        }
    }
}
impl ToValue for Ts5dodmme0 {
    fn to_value(&self) -> Value {
        Value::Seq(vec![
            Some(self.f0.to_value()),
            self.f1.as_ref().map(|x| x.to_value()),
            Some(self.f2.to_value()),
            self.f3.as_ref().map(|x| x.to_value()),
            self.f4.as_ref().map(|x| x.to_value()),
        ])
    }
}
impl FromValue for Ts5dodmme1 {
    fn from_value(v: &Value) -> Self {
        let s = match v { Value::Seq(s) => s, other => panic!("Ts5dodmme1: expected Seq, got {other:?}") };
        assert_eq!(s.len(), 5, "Ts5dodmme1: component count");
        let _ = s;
        Ts5dodmme1 {
            f0: FromValue::from_value(s[0].as_ref().expect("component f0 of Ts5dodmme1 must be present")),
            f1: s[1].as_ref().map(FromValue::from_value),
            f2: FromValue::from_value(s[2].as_ref().expect("component f2 of Ts5dodmme1 must be present")),
            f3: s[3].as_ref().map(FromValue::from_value),
            f4: s[4].as_ref().map(FromValue::from_value),
        }
    }
}
impl ToValue for Ts5dodmme1 {
    fn to_value(&self) -> Value {
        Value::Seq(vec![
            Some(self.f0.to_value()),
            self.f1.as_ref().map(|x| x.to_value()),
            Some(self.f2.to_value()),
            self.f3.as_ref().map(|x| x.to_value()),
            self.f4.as_ref().map(|x| x.to_value()),
        ])
    }
}
impl FromValue for Ts5dodmme2 {
    fn from_value(v: &Value) -> Self {
        let s = match v { Value::Seq(s) => s, other => panic!("Ts5dodmme2: expected Seq, got {other:?}") };
        assert_eq!(s.len(), 5, "Ts5dodmme2: component count");
        let _ = s;
        Ts5dodmme2 {
            f0: FromValue::from_value(s[0].as_ref().expect("component f0 of Ts5dodmme2 must be present")),
            f1: s[1].as_ref().map(FromValue::from_value),
            f2: FromValue::from_value(s[2].as_ref().expect("component f2 of Ts5dodmme2 must be present")),
            f3: s[3].as_ref().map(FromValue::from_value),
            f4: s[4].as_ref().map(FromValue::from_value),
        }
    }
}
impl ToValue for Ts5dodmme2 {
    fn to_value(&self) -> Value {
        Value::Seq(vec![
            Some(self.f0.to_value()),
            self.f1.as_ref().map(|x| x.to_value()),
            Some(self.f2.to_value()),
            self.f3.as_ref().map(|x| x.to_value()),
            self.f4.as_ref().map(|x| x.to_value()),
        ])
    }
}
impl FromValue for Ts5dodmme3 {
    fn from_value(v: &Value) -> Self {
        let s = match v { Value::Seq(s) => s, other => panic!("Ts5dodmme3: expected Seq, got {other:?}") };
        assert_eq!(s.len(), 5, "Ts5dodmme3: component count");
        let _ = s;
        Ts5dodmme3 {
            f0: FromValue::from_value(s[0].as_ref().expect("component f0 of Ts5dodmme3 must be present")),
            f1: s[1].as_ref().map(FromValue::from_value),
            f2: FromValue::from_value(s[2].as_ref().expect("component f2 of Ts5dodmme3 must be present")),
            f3: s[3].as_ref().map(FromValue::from_value),
            f4: s[4].as_ref().map(FromValue::from_value),
        }
    }
}
impl ToValue for Ts5dodmme3 {
    fn to_value(&self) -> Value {
        Value::Seq(vec![
            Some(self.f0.to_value()),
            self.f1.as_ref().map(|x| x.to_value()),
            Some(self.f2.to_value()),
            self.f3.as_ref().map(|x| x.to_value()),
            self.f4.as_ref().map(|x| x.to_value()),
        ])
    }
}
impl FromValue for Ts5dodmme4 {
    fn from_value(v: &Value) -> Self {
        let s = match v { Value::Seq(s) => s, other => panic!("Ts5dodmme4: expected Seq, got {other:?}") };
        assert_eq!(s.len(), 5, "Ts5dodmme4: component count");
        let _ = s;
        Ts5dodmme4 {
            f0: FromValue::from_value(s[0].as_ref().expect("component f0 of Ts5dodmme4 must be present")),
            f1: s[1].as_ref().map(FromValue::from_value),
            f2: FromValue::from_value(s[2].as_ref().expect("component f2 of Ts5dodmme4 must be present")),
            f3: FromValue::from_value(s[3].as_ref().expect("component f3 of Ts5dodmme4 must be present")),
            f4: s[4].as_ref().map(FromValue::from_value),
        }
    }
}
impl ToValue for Ts5dodmme4 {
    fn to_value(&self) -> Value {
        Value::Seq(vec![
            Some(self.f0.to_value()),
            self.f1.as_ref().map(|x| x.to_value()),
            Some(self.f2.to_value()),
            Some(self.f3.to_value()),
            self.f4.as_ref().map(|x| x.to_value()),
        ])
    }
}
impl FromValue for Ts5dodmme5 {
    fn from_value(v: &Value) -> Self {
        let s = match v { Value::Seq(s) => s, other => panic!("Ts5dodmme5: expected Seq, got {other:?}") };
        assert_eq!(s.len(), 5, "Ts5dodmme5: component count");
        let _ = s;
        Ts5dodmme5 {
            f0: FromValue::from_value(s[0].as_ref().expect("component f0 of Ts5dodmme5 must be present")),
            f1: s[1].as_ref().map(FromValue::from_value),
            f2: FromValue::from_value(s[2].as_ref().expect("component f2 of Ts5dodmme5 must be present")),
            f3: FromValue::from_value(s[3].as_ref().expect("component f3 of Ts5dodmme5 must be present")),
            f4: FromValue::from_value(s[4].as_ref().expect("component f4 of Ts5dodmme5 must be present")),
        }
    }
}
impl ToValue for Ts5dodmme5 {
    fn to_value(&self) -> Value {
        Value::Seq(vec![
            Some(self.f0.to_value()),
            self.f1.as_ref().map(|x| x.to_value()),
            Some(self.f2.to_value()),
            Some(self.f3.to_value()),
            Some(self.f4.to_value()),
        ])
    }
}
impl FromValue for Ts5mddmmn {
    fn from_value(v: &Value) -> Self {
        let s = match v { Value::Seq(s) => s, other => panic!("Ts5mddmmn: expected Seq, got {other:?}") };
        assert_eq!(s.len(), 5, "Ts5mddmmn: component count");
        let _ = s;
        Ts5mddmmn {
            f0: FromValue::from_value(s[0].as_ref().expect("component f0 of Ts5mddmmn must be present")),
            f1: FromValue::from_value(s[1].as_ref().expect("component f1 of Ts5mddmmn must be present")),
            f2: FromValue::from_value(s[2].as_ref().expect("component f2 of Ts5mddmmn must be present")),
            f3: FromValue::from_value(s[3].as_ref().expect("component f3 of Ts5mddmmn must be present")),
            f4: FromValue::from_value(s[4].as_ref().expect("component f4 of Ts5mddmmn must be present")),
        }
    }
}
impl ToValue for Ts5mddmmn {
    fn to_value(&self) -> Value {
        Value::Seq(vec![
            Some(self.f0.to_value()),
            Some(self.f1.to_value()),
            Some(self.f2.to_value()),
            Some(self.f3.to_value()),
            Some(self.f4.to_value()),
        ])
    }
}
impl FromValue for Ts5mddmme0 {
    fn from_value(v: &Value) -> Self {
        let s = match v { Value::Seq(s) => s, other => panic!("Ts5mddmme0: expected Seq, got {other:?}") };
        assert_eq!(s.len(), 5, "Ts5mddmme0: component count");
        let _ = s;
        Ts5mddmme0 {
            f0: FromValue::from_value(s[0].as_ref().expect("component f0 of Ts5mddmme0 must be present")),
            f1: FromValue::from_value(s[1].as_ref().expect("component f1 of Ts5mddmme0 must be present")),
            f2: FromValue::from_value(s[2].as_ref().expect("component f2 of Ts5mddmme0 must be present")),
            f3: s[3].as_ref().map(FromValue::from_value),
            f4: s[4].as_ref().map(FromValue::from_value),
        }
    }
}
impl ToValue for Ts5mddmme0 {
    fn to_value(&self) -> Value {
        Value::Seq(vec![
            Some(self.f0.to_value()),
            Some(self.f1.to_value()),
            Some(self.f2.to_value()),
            self.f3.as_ref().map(|x| x.to_value()),
            self.f4.as_ref().map(|x| x.to_value()),
        ])
    }
}
impl FromValue for Ts5mddmme1 {
    fn from_value(v: &Value) -> Self {
        let s = match v { Value::Seq(s) => s, other => panic!("Ts5mddmme1: expected Seq, got {other:?}") };
        assert_eq!(s.len(), 5, "Ts5mddmme1: component count");
        let _ = s;
        Ts5mddmme1 {
            f0: FromValue::from_value(s[0].as_ref().expect("component f0 of Ts5mddmme1 must be present")),
            f1: FromValue::from_value(s[1].as_ref().expect("component f1 of Ts5mddmme1 must be present")),
            f2: FromValue::from_value(s[2].as_ref().expect("component f2 of Ts5mddmme1 must be present")),
            f3: s[3].as_ref().map(FromValue::from_value),
            f4: s[4].as_ref().map(FromValue::from_value),
        }
    }
}
impl ToValue for Ts5mddmme1 {
    fn to_value(&self) -> Value {
        Value::Seq(vec![
            Some(self.f0.to_value()),
            Some(self.f1.to_value()),
            Some(self.f2.to_value()),
            self.f3.as_ref().map(|x| x.to_value()),
            self.f4.as_ref().map(|x| x.to_value()),
        ])
    }
}
impl FromValue for Ts5mddmme2 {
    fn from_value(v: &Value) -> Self {
        let s = match v { Value::Seq(s) => s, other => panic!("Ts5mddmme2: expected Seq, got {other:?}") };
        assert_eq!(s.len(), 5, "Ts5mddmme2: component count");
        let _ = s;
        Ts5mddmme2 {
            f0: FromValue::from_value(s[0].as_ref().expect("component f0 of Ts5mddmme2 must be present")),
            f1: FromValue::from_value(s[1].as_ref().expect("component f1 of Ts5mddmme2 must be present")),
            f2: FromValue::from_value(s[2].as_ref().expect("component f2 of Ts5mddmme2 must be present")),
            f3: s[3].as_ref().map(FromValue::from_value),
            f4: s[4].as_ref().map(FromValue::from_value),
        }
    }
}
impl ToValue for Ts5mddmme2 {
    fn to_value(&self) -> Value {
        Value::Seq(vec![
            Some(self.f0.to_value()),
            Some(self.f1.to_value()),
            Some(self.f2.to_value()),
            self.f3.as_ref().map(|x| x.to_value()),
            self.f4.as_ref().map(|x| x.to_value()),
        ])
    }
}
impl FromValue for Ts5mddmme3 {
    fn from_value(v: &Value) -> Self {
        let s = match v { Value::Seq(s) => s, other => panic!("Ts5mddmme3: expected Seq, got {other:?}") };
        assert_eq!(s.len(), 5, "Ts5mddmme3: component count");
        let _ = s;
        Ts5mddmme3 {
            f0: FromValue::from_value(s[0].as_ref().expect("component f0 of Ts5mddmme3 must be present")),
            f1: FromValue::from_value(s[1].as_ref().expect("component f1 of Ts5mddmme3 must be present")),
            f2: FromValue::from_value(s[2].as_ref().expect("component f2 of Ts5mddmme3 must be present")),
            f3: s[3].as_ref().map(FromValue::from_value),
            f4: s[4].as_ref().map(FromValue::from_value),
        }
    }
}
impl ToValue for Ts5mddmme3 {
    fn to_value(&self) -> Value {
        Value::Seq(vec![
            Some(self.f0.to_value()),
            Some(self.f1.to_value()),
            Some(self.f2.to_value()),
            self.f3.as_ref().map(|x| x.to_value()),
            self.f4.as_ref().map(|x| x.to_value()),
        ])
    }
}
impl FromValue for Ts5mddmme4 {
    fn from_value(v: &Value) -> Self {
        let s = match v { Value::Seq(s) => s, other => panic!("Ts5mddmme4: expected Seq, got {other:?}") };
        assert_eq!(s.len(), 5, "Ts5mddmme4: component count");
        let _ = s;
        Ts5mddmme4 {
            f0: FromValue::from_value(s[0].as_ref().expect("component f0 of Ts5mddmme4 must be present")),
            f1: FromValue::from_value(s[1].as_ref().expect("component f1 of Ts5mddmme4 must be present")),
            f2: FromValue::from_value(s[2].as_ref().expect("component f2 of Ts5mddmme4 must be present")),
            f3: FromValue::from_value(s[3].as_ref().expect("component f3 of Ts5mddmme4 must be present")),
            f4: s[4].as_ref().map(FromValue::from_value),
        }
    }
}
impl ToValue for Ts5mddmme4 {
    fn to_value(&self) -> Value {
        Value::Seq(vec![
            Some(self.f0.to_value()),
            Some(self.f1.to_value()),
            Some(self.f2.to_value()),
            Some(self.f3.to_value()),
            self.f4.as_ref().map(|x| x.to_value()),
        ])
    }
}
impl FromValue for Ts5mddmme5 {
    fn from_value(v: &Value) -> Self {
        let s = match v { Value::Seq(s) => s, other => panic!("Ts5mddmme5: expected Seq, got {other:?}") };
        assert_eq!(s.len(), 5, "Ts5mddmme5: component count");
        let _ = s;
        Ts5mddmme5 {
            f0: FromValue::from_value(s[0].as_ref().expect("component f0 of Ts5mddmme5 must be present")),
            f1: FromValue::from_value(s[1].as_ref().expect("component f1 of Ts5mddmme5 must be present")),
            f2: FromValue::from_value(s[2].as_ref().expect("component f2 of Ts5mddmme5 must be present")),
            f3: FromValue::from_value(s[3].as_ref().expect("component f3 of Ts5mddmme5 must be present")),
            f4: FromValue::from_value(s[4].as_ref().expect("component f4 of Ts5mddmme5 must be present")),
        }
    }
}
impl ToValue for Ts5mddmme5 {
    fn to_value(&self) -> Value {
        Value::Seq(vec![
            Some(self.f0.to_value()),
            Some(self.f1.to_value()),
            Some(self.f2.to_value()),
            Some(self.f3.to_value()),
            Some(self.f4.to_value()),
        ])
    }
}
impl FromValue for Ts5oddmmn {
    fn from_value(v: &Value) -> Self {
        let s = match v { Value::Seq(s) => s, other => panic!("Ts5oddmmn: expected Seq, got {other:?}") };
        assert_eq!(s.len(), 5, "Ts5oddmmn: component count");
        let _ = s;
        Ts5oddmmn {
            f0: s[0].as_ref().map(FromValue::from_value),
            f1: FromValue::from_value(s[1].as_ref().expect("component f1 of Ts5oddmmn must be present")),
            f2: FromValue::from_value(s[2].as_ref().expect("component f2 of Ts5oddmmn must be present")),
            f3: FromValue::from_value(s[3].as_ref().expect("component f3 of Ts5oddmmn must be present")),
            f4: FromValue::from_value(s[4].as_ref().expect("component f4 of Ts5oddmmn must be present")),
        }
    }
}
impl ToValue for Ts5oddmmn {
    fn to_value(&self) -> Value {
        Value::Seq(vec![
            self.f0.as_ref().map(|x| x.to_value()),
            Some(self.f1.to_value()),
            Some(self.f2.to_value()),
            Some(self.f3.to_value()),
            Some(self.f4.to_value()),
        ])
    }
}
impl FromValue for Ts5oddmme0 {
    fn from_value(v: &Value) -> Self {
        let s = match v { Value::Seq(s) => s, other => panic!("Ts5oddmme0: expected Seq, got {other:?}") };
        assert_eq!(s.len(), 5, "Ts5oddmme0: component count");
        let _ = s;
        Ts5oddmme0 {
            f0: s[0].as_ref().map(FromValue::from_value),
            f1: FromValue::from_value(s[1].as_ref().expect("component f1 of Ts5oddmme0 must be present")),
            f2: FromValue::from_value(s[2].as_ref().expect("component f2 of Ts5oddmme0 must be present")),
            f3: s[3].as_ref().map(FromValue::from_value),
            f4: s[4].as_ref().map(FromValue::from_value),
        }
    }
}
impl ToValue for Ts5oddmme0 {
    fn to_value(&self) -> Value {
        Value::Seq(vec![
            self.f0.as_ref().map(|x| x.to_value()),
            Some(self.f1.to_value()),
            Some(self.f2.to_value()),
            self.f3.as_ref().map(|x| x.to_value()),
            self.f4.as_ref().map(|x| x.to_value()),
        ])
    }
}
impl FromValue for Ts5oddmme1 {
    fn from_value(v: &Value) -> Self {
        let s = match v { Value::Seq(s) => s, other => panic!("Ts5oddmme1: expected Seq, got {other:?}") };
        assert_eq!(s.len(), 5, "Ts5oddmme1: component count");
        let _ = s;
        Ts5oddmme1 {
            f0: s[0].as_ref().map(FromValue::from_value),
            f1: FromValue::from_value(s[1].as_ref().expect("component f1 of Ts5oddmme1 must be present")),
            f2: FromValue::from_value(s[2].as_ref().expect("component f2 of Ts5oddmme1 must be present")),
            f3: s[3].as_ref().map(FromValue::from_value),
            f4: s[4].as_ref().map(FromValue::from_value),
        }
    }
}
impl ToValue for Ts5oddmme1 {
    fn to_value(&self) -> Value {
        Value::Seq(vec![
            self.f0.as_ref().map(|x| x.to_value()),
            Some(self.f1.to_value()),
            Some(self.f2.to_value()),
            self.f3.as_ref().map(|x| x.to_value()),
            self.f4.as_ref().map(|x| x.to_value()),
        ])
    }
}
impl FromValue for Ts5oddmme2 {
    fn from_value(v: &Value) -> Self {
        let s = match v { Value::Seq(s) => s, other => panic!("Ts5oddmme2: expected Seq, got {other:?}") };
        assert_eq!(s.len(), 5, "Ts5oddmme2: component count");
        let _ = s;
        Ts5oddmme2 {
            f0: s[0].as_ref().map(FromValue::from_value),
            f1: FromValue::from_value(s[1].as_ref().expect("component f1 of Ts5oddmme2 must be present")),
            f2: FromValue::from_value(s[2].as_ref().expect("component f2 of Ts5oddmme2 must be present")),
            f3: s[3].as_ref().map(FromValue::from_value),
            f4: s[4].as_ref().map(FromValue::from_value),
        }
    }
}
impl ToValue for Ts5oddmme2 {
    fn to_value(&self) -> Value {
        Value::Seq(vec![
            self.f0.as_ref().map(|x| x.to_value()),
            Some(self.f1.to_value()),
            Some(self.f2.to_value()),
            self.f3.as_ref().map(|x| x.to_value()),
            self.f4.as_ref().map(|x| x.to_value()),
        ])
    }
}
impl FromValue for Ts5oddmme3 {
    fn from_value(v: &Value) -> Self {
        let s = match v { Value::Seq(s) => s, other => panic!("Ts5oddmme3: expected Seq, got {other:?}") };
        assert_eq!(s.len(), 5, "Ts5oddmme3: component count");
        let _ = s;
        Ts5oddmme3 {
            f0: s[0].as_ref().map(FromValue::from_value),
            f1: FromValue::from_value(s[1].as_ref().expect("component f1 of Ts5oddmme3 must be present")),
            f2: FromValue::from_value(s[2].as_ref().expect("component f2 of Ts5oddmme3 must be present")),
            f3: s[3].as_ref().map(FromValue::from_value),
            f4: s[4].as_ref().map(FromValue::from_value),
        }
    }
}
impl ToValue for Ts5oddmme3 {
    fn to_value(&self) -> Value {
        Value::Seq(vec![
            self.f0.as_ref().map(|x| x.to_value()),
            Some(self.f1.to_value()),
            Some(self.f2.to_value()),
            self.f3.as_ref().map(|x| x.to_value()),
            self.f4.as_ref().map(|x| x.to_value()),
        ])
    }
}
impl FromValue for Ts5oddmme4 {
    fn from_value(v: &Value) -> Self {
        let s = match v { Value::Seq(s) => s, other => panic!("Ts5oddmme4: expected Seq, got {other:?}") };
        assert_eq!(s.len(), 5, "Ts5oddmme4: component count");
        let _ = s;
        Ts5oddmme4 {
            f0: s[0].as_ref().map(FromValue::from_value),
            f1: FromValue::from_value(s[1].as_ref().expect("component f1 of Ts5oddmme4 must be present")),
            f2: FromValue::from_value(s[2].as_ref().expect("component f2 of Ts5oddmme4 must be present")),
            f3: FromValue::from_value(s[3].as_ref().expect("component f3 of Ts5oddmme4 must be present")),
            f4: s[4].as_ref().map(FromValue::from_value),
        }
    }
}
impl ToValue for Ts5oddmme4 {
    fn to_value(&self) -> Value {
        Value::Seq(vec![
            self.f0.as_ref().map(|x| x.to_value()),
            Some(self.f1.to_value()),
            Some(self.f2.to_value()),
            Some(self.f3.to_value()),
            self.f4.as_ref().map(|x| x.to_value()),
        ])
    }
}
impl FromValue for Ts5oddmme5 {
    fn from_value(v: &Value) -> Self {
        let s = match v { Value::Seq(s) => s, other => panic!("Ts5oddmme5: expected Seq, got {other:?}") };
        assert_eq!(s.len(), 5, "Ts5oddmme5: component count");
        let _ = s;
        Ts5oddmme5 {
            f0: s[0].as_ref().map(FromValue::from_value),
            f1: FromValue::from_value(s[1].as_ref().expect("component f1 of Ts5oddmme5 must be present")),
            f2: FromValue::from_value(s[2].as_ref().expect("component f2 of Ts5oddmme5 must be present")),
            f3: FromValue::from_value(s[3].as_ref().expect("component f3 of Ts5oddmme5 must be present")),
            f4: FromValue::from_value(s[4].as_ref().expect("component f4 of Ts5oddmme5 must be present")),
        }
    }
}
impl ToValue for Ts5oddmme5 {
    fn to_value(&self) -> Value {
        Value::Seq(vec![
            self.f0.as_ref().map(|x| x.to_value()),
            Some(self.f1.to_value()),
            Some(self.f2.to_value()),
            Some(self.f3.to_value()),
            Some(self.f4.to_value()),
        ])
    }
}
impl FromValue for Ts5dddmmn {
    fn from_value(v: &Value) -> Self {
        let s = match v { Value::Seq(s) => s, other => panic!("Ts5dddmmn: expected Seq, got {other:?}") };
        assert_eq!(s.len(), 5, "Ts5dddmmn: component count");
        let _ = s;
        Ts5dddmmn {
            f0: FromValue::from_value(s[0].as_ref().expect("component f0 of Ts5dddmmn must be present")),
            f1: FromValue::from_value(s[1].as_ref().expect("component f1 of Ts5dddmmn must be present")),
            f2: FromValue::from_value(s[2].as_ref().expect("component f2 of Ts5dddmmn must be present")),
            f3: FromValue::from_value(s[3].as_ref().expect("component f3 of Ts5dddmmn must be present")),
            f4: FromValue::from_value(s[4].as_ref().expect("component f4 of Ts5dddmmn must be present")),
        }
    }
}
impl ToValue for Ts5dddmmn {
    fn to_value(&self) -> Value {
        Value::Seq(vec![
            Some(self.f0.to_value()),
            Some(self.f1.to_value()),
            Some(self.f2.to_value()),
            Some(self.f3.to_value()),
            Some(self.f4.to_value()),
        ])
    }
}
impl FromValue for Ts5dddmme0 {
    fn from_value(v: &Value) -> Self {
        let s = match v { Value::Seq(s) => s, other => panic!("Ts5dddmme0: expected Seq, got {other:?}") };
        assert_eq!(s.len(), 5, "Ts5dddmme0: component count");
        let _ = s;
        Ts5dddmme0 {
            f0: FromValue::from_value(s[0].as_ref().expect("component f0 of Ts5dddmme0 must be present")),
            f1: FromValue::from_value(s[1].as_ref().expect("component f1 of Ts5dddmme0 must be present")),
            f2: FromValue::from_value(s[2].as_ref().expect("component f2 of Ts5dddmme0 must be present")),
            f3: s[3].as_ref().map(FromValue::from_value),
            f4: s[4].as_ref().map(FromValue::from_value),
        }
    }
}
impl ToValue for Ts5dddmme0 {
    fn to_value(&self) -> Value {
        Value::Seq(vec![
            Some(self.f0.to_value()),
            Some(self.f1.to_value()),
            Some(self.f2.to_value()),
            self.f3.as_ref().map(|x| x.to_value()),
            self.f4.as_ref().map(|x| x.to_value()),
        ])
    }
}
impl FromValue for Ts5dddmme1 {
    fn from_value(v: &Value) -> Self {
        let s = match v { Value::Seq(s) => s, other => panic!("Ts5dddmme1: expected Seq, got {other:?}") };
        assert_eq!(s.len(), 5, "Ts5dddmme1: component count");
        let _ = s;
        Ts5dddmme1 {
            f0: FromValue::from_value(s[0].as_ref().expect("component f0 of Ts5dddmme1 must be present")),
            f1: FromValue::from_value(s[1].as_ref().expect("component f1 of Ts5dddmme1 must be present")),
            f2: FromValue::from_value(s[2].as_ref().expect("component f2 of Ts5dddmme1 must be present")),
            f3: s[3].as_ref().map(FromValue::from_value),
            f4: s[4].as_ref().map(FromValue::from_value),
        }
    }
}
impl ToValue for Ts5dddmme1 {
    fn to_value(&self) -> Value {
        Value::Seq(vec![
            Some(self.f0.to_value()),
            Some(self.f1.to_value()),
            Some(self.f2.to_value()),
            self.f3.as_ref().map(|x| x.to_value()),
            self.f4.as_ref().map(|x| x.to_value()),
        ])
    }
}
impl FromValue for Ts5dddmme2 {
    fn from_value(v: &Value) -> Self {
        let s = match v { Value::Seq(s) => s, other => panic!("Ts5dddmme2: expected Seq, got {other:?}") };
        assert_eq!(s.len(), 5, "Ts5dddmme2: component count");
        let _ = s;
        Ts5dddmme2 {
            f0: FromValue::from_value(s[0].as_ref().expect("component f0 of Ts5dddmme2 must be present")),
            f1: FromValue::from_value(s[1].as_ref().expect("component f1 of Ts5dddmme2 must be present")),
            f2: FromValue::from_value(s[2].as_ref().expect("component f2 of Ts5dddmme2 must be present")),
            f3: s[3].as_ref().map(FromValue::from_value),
            f4: s[4].as_ref().map(FromValue::from_value),
        }
    }
}
impl ToValue for Ts5dddmme2 {
    fn to_value(&self) -> Value {
        Value::Seq(vec![
            Some(self.f0.to_value()),
            Some(self.f1.to_value()),
            Some(self.f2.to_value()),
            self.f3.as_ref().map(|x| x.to_value()),
            self.f4.as_ref().map(|x| x.to_value()),
        ])
    }
}
impl FromValue for Ts5dddmme3 {
    fn from_value(v: &Value) -> Self {
        let s = match v { Value::Seq(s) => s, other => panic!("Ts5dddmme3: expected Seq, got {other:?}") };
        assert_eq!(s.len(), 5, "Ts5dddmme3: component count");
        let _ = s;
        Ts5dddmme3 {
            f0: FromValue::from_value(s[0].as_ref().expect("component f0 of Ts5dddmme3 must be present")),
            f1: FromValue::from_value(s[1].as_ref().expect("component f1 of Ts5dddmme3 must be present")),
            f2: FromValue::from_value(s[2].as_ref().expect("component f2 of Ts5dddmme3 must be present")),
            f3: s[3].as_ref().map(FromValue::from_value),
            f4: s[4].as_ref().map(FromValue::from_value),
        }
    }
}
impl ToValue for Ts5dddmme3 {
    fn to_value(&self) -> Value {
        Value::Seq(vec![
            Some(self.f0.to_value()),
            Some(self.f1.to_value()),
            Some(self.f2.to_value()),
            self.f3.as_ref().map(|x| x.to_value()),
            self.f4.as_ref().map(|x| x.to_value()),
        ])
    }
}
impl FromValue for Ts5dddmme4 {
    fn from_value(v: &Value) -> Self {
        let s = match v { Value::Seq(s) => s, other => panic!("Ts5dddmme4: expected Seq, got {other:?}") };
        assert_eq!(s.len(), 5, "Ts5dddmme4: component count");
        let _ = s;
        Ts5dddmme4 {
            f0: FromValue::from_value(s[0].as_ref().expect("component f0 of Ts5dddmme4 must be present")),
            f1: FromValue::from_value(s[1].as_ref().expect("component f1 of Ts5dddmme4 must be present")),
            f2: FromValue::from_value(s[2].as_ref().expect("component f2 of Ts5dddmme4 must be present")),
            f3: FromValue::from_value(s[3].as_ref().expect("component f3 of Ts5dddmme4 must be present")),
            f4: s[4].as_ref().map(FromValue::from_value),
        }
    }
}
impl ToValue for Ts5dddmme4 {
    fn to_value(&self) -> Value {
        Value::Seq(vec![
            Some(self.f0.to_value()),
            Some(self.f1.to_value()),
            Some(self.f2.to_value()),
            Some(self.f3.to_value()),
            self.f4.as_ref().map(|x| x.to_value()),
        ])
    }
}
impl FromValue for Ts5dddmme5 {
    fn from_value(v: &Value) -> Self {
        let s = match v { Value::Seq(s) => s, other => panic!("Ts5dddmme5: expected Seq, got {other:?}") };
        assert_eq!(s.len(), 5, "Ts5dddmme5: component count");
        let _ = s;
        Ts5dddmme5 {
            f0: FromValue::from_value(s[0].as_ref().expect("component f0 of Ts5dddmme5 must be present")),
            f1: FromValue::from_value(s[1].as_ref().expect("component f1 of Ts5dddmme5 must be present")),
            f2: FromValue::from_value(s[2].as_ref().expect("component f2 of Ts5dddmme5 must be present")),
            f3: FromValue::from_value(s[3].as_ref().expect("component f3 of Ts5dddmme5 must be present")),
            f4: FromValue::from_value(s[4].as_ref().expect("component f4 of Ts5dddmme5 must be present")),
        }
    }
}
impl ToValue for Ts5dddmme5 {
    fn to_value(&self) -> Value {
        Value::Seq(vec![
            Some(self.f0.to_value()),
            Some(self.f1.to_value()),
            Some(self.f2.to_value()),
            Some(self.f3.to_value()),
            Some(self.f4.to_value()),
        ])
    }
}
impl FromValue for Ts5mmmomn {
    fn from_value(v: &Value) -> Self {
        let s = match v { Value::Seq(s) => s, other => panic!("Ts5mmmomn: expected Seq, got {other:?}") };
        assert_eq!(s.len(), 5, "Ts5mmmomn: component count");
        let _ = s;
        Ts5mmmomn {
            f0: FromValue::from_value(s[0].as_ref().expect("component f0 of Ts5mmmomn must be present")),
            f1: FromValue::from_value(s[1].as_ref().expect("component f1 of Ts5mmmomn must be present")),
            f2: FromValue::from_value(s[2].as_ref().expect("component f2 of Ts5mmmomn must be present")),
            f3: s[3].as_ref().map(FromValue::from_value),
            f4: FromValue::from_value(s[4].as_ref().expect("component f4 of Ts5mmmomn must be present")),
        }
    }
}
impl ToValue for Ts5mmmomn {
    fn to_value(&self) -> Value {
        Value::Seq(vec![
            Some(self.f0.to_value()),
            Some(self.f1.to_value()),
            Some(self.f2.to_value()),
            self.f3.as_ref().map(|x| x.to_value()),
            Some(self.f4.to_value()),
        ])
    }
}
impl FromValue for Ts5mmmome0 {
    fn from_value(v: &Value) -> Self {
        let s = match v { Value::Seq(s) => s, other => panic!("Ts5mmmome0: expected Seq, got {other:?}") };
        assert_eq!(s.len(), 5, "Ts5mmmome0: component count");
        let _ = s;
        Ts5mmmome0 {
            f0: FromValue::from_value(s[0].as_ref().expect("component f0 of Ts5mmmome0 must be present")),
            f1: s[1].as_ref().map(FromValue::from_value),
            f2: s[2].as_ref().map(FromValue::from_value),
            f3: s[3].as_ref().map(FromValue::from_value),
            f4: s[4].as_ref().map(FromValue::from_value),
        }
    }
}
impl ToValue for Ts5mmmome0 {
    fn to_value(&self) -> Value {
        Value::Seq(vec![
            Some(self.f0.to_value()),
            self.f1.as_ref().map(|x| x.to_value()),
            self.f2.as_ref().map(|x| x.to_value()),
            self.f3.as_ref().map(|x| x.to_value()),
            self.f4.as_ref().map(|x| x.to_value()),
        ])
    }
}
impl FromValue for Ts5mmmome1 {
    fn from_value(v: &Value) -> Self {
        let s = match v { Value::Seq(s) => s, other => panic!("Ts5mmmome1: expected Seq, got {other:?}") };
        assert_eq!(s.len(), 5, "Ts5mmmome1: component count");
        let _ = s;
        Ts5mmmome1 {
            f0: FromValue::from_value(s[0].as_ref().expect("component f0 of Ts5mmmome1 must be present")),
            f1: s[1].as_ref().map(FromValue::from_value),
            f2: s[2].as_ref().map(FromValue::from_value),
            f3: s[3].as_ref().map(FromValue::from_value),
            f4: s[4].as_ref().map(FromValue::from_value),
        }
    }
}
impl ToValue for Ts5mmmome1 {
    fn to_value(&self) -> Value {
        Value::Seq(vec![
            Some(self.f0.to_value()),
            self.f1.as_ref().map(|x| x.to_value()),
            self.f2.as_ref().map(|x| x.to_value()),
            self.f3.as_ref().map(|x| x.to_value()),
            self.f4.as_ref().map(|x| x.to_value()),
        ])
    }
}
impl FromValue for Ts5mmmome2 {
    fn from_value(v: &Value) -> Self {
        let s = match v { Value::Seq(s) => s, other => panic!("Ts5mmmome2: expected Seq, got {other:?}") };
        assert_eq!(s.len(), 5, "Ts5mmmome2: component count");
        let _ = s;
        Ts5mmmome2 {
            f0: FromValue::from_value(s[0].as_ref().expect("component f0 of Ts5mmmome2 must be present")),
            f1: FromValue::from_value(s[1].as_ref().expect("component f1 of Ts5mmmome2 must be present")),
            f2: s[2].as_ref().map(FromValue::from_value),
            f3: s[3].as_ref().map(FromValue::from_value),
            f4: s[4].as_ref().map(FromValue::from_value),
        }
    }
}
impl ToValue for Ts5mmmome2 {
    fn to_value(&self) -> Value {
        Value::Seq(vec![
            Some(self.f0.to_value()),
            Some(self.f1.to_value()),
            self.f2.as_ref().map(|x| x.to_value()),
            self.f3.as_ref().map(|x| x.to_value()),
            self.f4.as_ref().map(|x| x.to_value()),
        ])
    }
}
impl FromValue for Ts5mmmome3 {
    fn from_value(v: &Value) -> Self {
        let s = match v { Value::Seq(s) => s, other => panic!("Ts5mmmome3: expected Seq, got {other:?}") };
        assert_eq!(s.len(), 5, "Ts5mmmome3: component count");
        let _ = s;
        Ts5mmmome3 {
            f0: FromValue::from_value(s[0].as_ref().expect("component f0 of Ts5mmmome3 must be present")),
            f1: FromValue::from_value(s[1].as_ref().expect("component f1 of Ts5mmmome3 must be present")),
            f2: FromValue::from_value(s[2].as_ref().expect("component f2 of Ts5mmmome3 must be present")),
            f3: s[3].as_ref().map(FromValue::from_value),
            f4: s[4].as_ref().map(FromValue::from_value),
        }
    }
}
impl ToValue for Ts5mmmome3 {
    fn to_value(&self) -> Value {
        Value::Seq(vec![
            Some(self.f0.to_value()),
            Some(self.f1.to_value()),
            Some(self.f2.to_value()),
            self.f3.as_ref().map(|x| x.to_value()),
            self.f4.as_ref().map(|x| x.to_value()),
        ])
    }
}
impl FromValue for Ts5mmmome4 {
    fn from_value(v: &Value) -> Self {
        let s = match v { Value::Seq(s) => s, other => panic!("Ts5mmmome4: expected Seq, got {other:?}") };
        assert_eq!(s.len(), 5, "Ts5mmmome4: component count");
        let _ = s;
        Ts5mmmome4 {
            f0: FromValue::from_value(s[0].as_ref().expect("component f0 of Ts5mmmome4 must be present")),
            f1: FromValue::from_value(s[1].as_ref().expect("component f1 of Ts5mmmome4 must be present")),
            f2: FromValue::from_value(s[2].as_ref().expect("component f2 of Ts5mmmome4 must be present")),
            f3: s[3].as_ref().map(FromValue::from_value),
            f4: s[4].as_ref().map(FromValue::from_value),
        }
    }
}
impl ToValue for Ts5mmmome4 {
    fn to_value(&self) -> Value {
        Value::Seq(vec![
            Some(self.f0.to_value()),
            Some(self.f1.to_value()),
            Some(self.f2.to_value()),
            self.f3.as_ref().map(|x| x.to_value()),
            self.f4.as_ref().map(|x| x.to_value()),
        ])
    }
}
impl FromValue for Ts5mmmome5 {
    fn from_value(v: &Value) -> Self {
        let s = match v { Value::Seq(s) => s, other => panic!("Ts5mmmome5: expected Seq, got {other:?}") };
        assert_eq!(s.len(), 5, "Ts5mmmome5: component count");
        let _ = s;
        Ts5mmmome5 {
            f0: FromValue::from_value(s[0].as_ref().expect("component f0 of Ts5mmmome5 must be present")),
            f1: FromValue::from_value(s[1].as_ref().expect("component f1 of Ts5mmmome5 must be present")),
            f2: FromValue::from_value(s[2].as_ref().expect("component f2 of Ts5mmmome5 must be present")),
            f3: s[3].as_ref().map(FromValue::from_value),
            f4: FromValue::from_value(s[4].as_ref().expect("component f4 of Ts5mmmome5 must be present")),
        }
    }
}
impl ToValue for Ts5mmmome5 {
    fn to_value(&self) -> Value {
        Value::Seq(vec![
            Some(self.f0.to_value()),
            Some(self.f1.to_value()),
            Some(self.f2.to_value()),
            self.f3.as_ref().map(|x| x.to_value()),
            Some(self.f4.to_value()),
        ])
    }
}
impl FromValue for Ts5ommomn {
    fn from_value(v: &Value) -> Self {
        let s = match v { Value::Seq(s) => s, other => panic!("Ts5ommomn: expected Seq, got {other:?}") };
        assert_eq!(s.len(), 5, "Ts5ommomn: component count");
        let _ = s;
        Ts5ommomn {
            f0: s[0].as_ref().map(FromValue::from_value),
            f1: FromValue::from_value(s[1].as_ref().expect("component f1 of Ts5ommomn must be present")),
            f2: FromValue::from_value(s[2].as_ref().expect("component f2 of Ts5ommomn must be present")),
            f3: s[3].as_ref().map(FromValue::from_value),
            f4: FromValue::from_value(s[4].as_ref().expect("component f4 of Ts5ommomn must be present")),
        }
    }
}
impl ToValue for Ts5ommomn {
    fn to_value(&self) -> Value {
        Value::Seq(vec![
            self.f0.as_ref().map(|x| x.to_value()),
            Some(self.f1.to_value()),
            Some(self.f2.to_value()),
            self.f3.as_ref().map(|x| x.to_value()),
            Some(self.f4.to_value()),
        ])
    }
}
impl FromValue for Ts5ommome0 {
    fn from_value(v: &Value) -> Self {
        let s = match v { Value::Seq(s) => s, other => panic!("Ts5ommome0: expected Seq, got {other:?}") };
        assert_eq!(s.len(), 5, "Ts5ommome0: component count");
        let _ = s;
        Ts5ommome0 {
            f0: s[0].as_ref().map(FromValue::from_value),
            f1: s[1].as_ref().map(FromValue::from_value),
            f2: s[2].as_ref().map(FromValue::from_value),
            f3: s[3].as_ref().map(FromValue::from_value),
            f4: s[4].as_ref().map(FromValue::from_value),
        }
    }
}
impl ToValue for Ts5ommome0 {
    fn to_value(&self) -> Value {
        Value::Seq(vec![
            self.f0.as_ref().map(|x| x.to_value()),
            self.f1.as_ref().map(|x| x.to_value()),
            self.f2.as_ref().map(|x| x.to_value()),
            self.f3.as_ref().map(|x| x.to_value()),
            self.f4.as_ref().map(|x| x.to_value()),
        ])
    }
}
impl FromValue for Ts5ommome1 {
    fn from_value(v: &Value) -> Self {
        let s = match v { Value::Seq(s) => s, other => panic!("Ts5ommome1: expected Seq, got {other:?}") };
        assert_eq!(s.len(), 5, "Ts5ommome1: component count");
        let _ = s;
        Ts5ommome1 {
            f0: s[0].as_ref().map(FromValue::from_value),
            f1: s[1].as_ref().map(FromValue::from_value),
            f2: s[2].as_ref().map(FromValue::from_value),
            f3: s[3].as_ref().map(FromValue::from_value),
            f4: s[4].as_ref().map(FromValue::from_value),
        }
    }
}
impl ToValue for Ts5ommome1 {
    fn to_value(&self) -> Value {
        Value::Seq(vec![
            self.f0.as_ref().map(|x| x.to_value()),
            self.f1.as_ref().map(|x| x.to_value()),
            self.f2.as_ref().map(|x| x.to_value()),
            self.f3.as_ref().map(|x| x.to_value()),
            self.f4.as_ref().map(|x| x.to_value()),
        ])
    }
}
impl FromValue for Ts5ommome2 {
    fn from_value(v: &Value) -> Self {
        let s = match v { Value::Seq(s) => s, other => panic!("Ts5ommome2: expected Seq, got {other:?}") };
        assert_eq!(s.len(), 5, "Ts5ommome2: component count");
        let _ = s;
        Ts5ommome2 {
            f0: s[0].as_ref().map(FromValue::from_value),
            f1: FromValue::from_value(s[1].as_ref().expect("component f1 of Ts5ommome2 must be present")),
            f2: s[2].as_ref().map(FromValue::from_value),
            f3: s[3].as_ref().map(FromValue::from_value),
            f4: s[4].as_ref().map(FromValue::from_value),
        }
    }
}
impl ToValue for Ts5ommome2 {
    fn to_value(&self) -> Value {
        Value::Seq(vec![
            self.f0.as_ref().map(|x| x.to_value()),
            Some(self.f1.to_value()),
            self.f2.as_ref().map(|x| x.to_value()),
            self.f3.as_ref().map(|x| x.to_value()),
            self.f4.as_ref().map(|x| x.to_value()),
        ])
    }
}
impl FromValue for Ts5ommome3 {
    fn from_value(v: &Value) -> Self {
        let s = match v { Value::Seq(s) => s, other => panic!("Ts5ommome3: expected Seq, got {other:?}") };
        assert_eq!(s.len(), 5, "Ts5ommome3: component count");
        let _ = s;
        Ts5ommome3 {
            f0: s[0].as_ref().map(FromValue::from_value),
            f1: FromValue::from_value(s[1].as_ref().expect("component f1 of Ts5ommome3 must be present")),
            f2: FromValue::from_value(s[2].as_ref().expect("component f2 of Ts5ommome3 must be present")),
            f3: s[3].as_ref().map(FromValue::from_value),
            f4: s[4].as_ref().map(FromValue::from_value),
        }
    }
}
impl ToValue for Ts5ommome3 {
    fn to_value(&self) -> Value {
        Value::Seq(vec![
            self.f0.as_ref().map(|x| x.to_value()),
            Some(self.f1.to_value()),
            Some(self.f2.to_value()),
            self.f3.as_ref().map(|x| x.to_value()),
            self.f4.as_ref().map(|x| x.to_value()),
        ])
    }
}
impl FromValue for Ts5ommome4 {
    fn from_value(v: &Value) -> Self {
        let s = match v { Value::Seq(s) => s, other => panic!("Ts5ommome4: expected Seq, got {other:?}") };
        assert_eq!(s.len(), 5, "Ts5ommome4: component count");
        let _ = s;
        Ts5ommome4 {
            f0: s[0].as_ref().map(FromValue::from_value),
            f1: FromValue::from_value(s[1].as_ref().expect("component f1 of Ts5ommome4 must be present")),
            f2: FromValue::from_value(s[2].as_ref().expect("component f2 of Ts5ommome4 must be present")),
            f3: s[3].as_ref().map(FromValue::from_value),
            f4: s[4].as_ref().map(FromValue::from_value),
        }
    }
}
impl ToValue for Ts5ommome4 {
    fn to_value(&self) -> Value {
        Value::Seq(vec![
            self.f0.as_ref().map(|x| x.to_value()),
            Some(self.f1.to_value()),
            Some(self.f2.to_value()),
            self.f3.as_ref().map(|x| x.to_value()),
            self.f4.as_ref().map(|x| x.to_value()),
        ])
    }
}
impl FromValue for Ts5ommome5 {
    fn from_value(v: &Value) -> Self {
        let s = match v { Value::Seq(s) => s, other => panic!("Ts5ommome5: expected Seq, got {other:?}") };
        assert_eq!(s.len(), 5, "Ts5ommome5: component count");
        let _ = s;
        Ts5ommome5 {
            f0: s[0].as_ref().map(FromValue::from_value),
            f1: FromValue::from_value(s[1].as_ref().expect("component f1 of Ts5ommome5 must be present")),
            f2: FromValue::from_value(s[2].as_ref().expect("component f2 of Ts5ommome5 must be present")),
            f3: s[3].as_ref().map(FromValue::from_value),
            f4: FromValue::from_value(s[4].as_ref().expect("component f4 of Ts5ommome5 must be present")),
        }
    }
}
impl ToValue for Ts5ommome5 {
    fn to_value(&self) -> Value {
        Value::Seq(vec![
            self.f0.as_ref().map(|x| x.to_value()),
            Some(self.f1.to_value()),
            Some(self.f2.to_value()),
            self.f3.as_ref().map(|x| x.to_value()),
            Some(self.f4.to_value()),
        ])
    }
}
impl FromValue for Ts5dmmomn {
    fn from_value(v: &Value) -> Self {
        let s = match v { Value::Seq(s) => s, other => panic!("Ts5dmmomn: expected Seq, got {other:?}") };
        assert_eq!(s.len(), 5, "Ts5dmmomn: component count");
        let _ = s;
        Ts5dmmomn {
            f0: FromValue::from_value(s[0].as_ref().expect("component f0 of Ts5dmmomn must be present")),
            f1: FromValue::from_value(s[1].as_ref().expect("component f1 of Ts5dmmomn must be present")),
            f2: FromValue::from_value(s[2].as_ref().expect("component f2 of Ts5dmmomn must be present")),
            f3: s[3].as_ref().map(FromValue::from_value),
            f4: FromValue::from_value(s[4].as_ref().expect("component f4 of Ts5dmmomn must be present")),
        }
    }
}
impl ToValue for Ts5dmmomn {
    fn to_value(&self) -> Value {
        Value::Seq(vec![
            Some(self.f0.to_value()),
            Some(self.f1.to_value()),
            Some(self.f2.to_value()),
            self.f3.as_ref().map(|x| x.to_value()),
            Some(self.f4.to_value()),
        ])
    }
}
impl FromValue for Ts5dmmome0 {
    fn from_value(v: &Value) -> Self {
        let s = match v { Value::Seq(s) => s, other => panic!("Ts5dmmome0: expected Seq, got {other:?}") };
        assert_eq!(s.len(), 5, "Ts5dmmome0: component count");
        let _ = s;
        Ts5dmmome0 {
            f0: FromValue::from_value(s[0].as_ref().expect("component f0 of Ts5dmmome0 must be present")),
            f1: s[1].as_ref().map(FromValue::from_value),
            f2: s[2].as_ref().map(FromValue::from_value),
            f3: s[3].as_ref().map(FromValue::from_value),
            f4: s[4].as_ref().map(FromValue::from_value),
        }
    }
}
impl ToValue for Ts5dmmome0 {
    fn to_value(&self) -> Value {
        Value::Seq(vec![
            Some(self.f0.to_value()),
            self.f1.as_ref().map(|x| x.to_value()),
            self.f2.as_ref().map(|x| x.to_value()),
            self.f3.as_ref().map(|x| x.to_value()),
            self.f4.as_ref().map(|x| x.to_value()),
        ])
    }
}
impl FromValue for Ts5dmmome1 {
    fn from_value(v: &Value) -> Self {
        let s = match v { Value::Seq(s) => s, other => panic!("Ts5dmmome1: expected Seq, got {other:?}") };
        assert_eq!(s.len(), 5, "Ts5dmmome1: component count");
        let _ = s;
        Ts5dmmome1 {
            f0: FromValue::from_value(s[0].as_ref().expect("component f0 of Ts5dmmome1 must be present")),
            f1: s[1].as_ref().map(FromValue::from_value),
            f2: s[2].as_ref().map(FromValue::from_value),
            f3: s[3].as_ref().map(FromValue::from_value),
            f4: s[4].as_ref().map(FromValue::from_value),
        }
    }
}
impl ToValue for Ts5dmmome1 {
    fn to_value(&self) -> Value {
        Value::Seq(vec![
            Some(self.f0.to_value()),
            self.f1.as_ref().map(|x| x.to_value()),
            self.f2.as_ref().map(|x| x.to_value()),
            self.f3.as_ref().map(|x| x.to_value()),
            self.f4.as_ref().map(|x| x.to_value()),
        ])
    }
}
impl FromValue for Ts5dmmome2 {
    fn from_value(v: &Value) -> Self {
        let s = match v { Value::Seq(s) => s, other => panic!("Ts5dmmome2: expected Seq, got {other:?}") };
        assert_eq!(s.len(), 5, "Ts5dmmome2: component count");
        let _ = s;
        Ts5dmmome2 {
            f0: FromValue::from_value(s[0].as_ref().expect("component f0 of Ts5dmmome2 must be present")),
            f1: FromValue::from_value(s[1].as_ref().expect("component f1 of Ts5dmmome2 must be present")),
            f2: s[2].as_ref().map(FromValue::from_value),
            f3: s[3].as_ref().map(FromValue::from_value),
            f4: s[4].as_ref().map(FromValue::from_value),
        }
    }
}
impl ToValue for Ts5dmmome2 {
    fn to_value(&self) -> Value {
        Value::Seq(vec![
            Some(self.f0.to_value()),
            Some(self.f1.to_value()),
            self.f2.as_ref().map(|x| x.to_value()),
            self.f3.as_ref().map(|x| x.to_value()),
            self.f4.as_ref().map(|x| x.to_value()),
        ])
    }
}
impl FromValue for Ts5dmmome3 {
    fn from_value(v: &Value) -> Self {
        let s = match v { Value::Seq(s) => s, other => panic!("Ts5dmmome3: expected Seq, got {other:?}") };
        assert_eq!(s.len(), 5, "Ts5dmmome3: component count");
        let _ = s;
        Ts5dmmome3 {
            f0: FromValue::from_value(s[0].as_ref().expect("component f0 of Ts5dmmome3 must be present")),
            f1: FromValue::from_value(s[1].as_ref().expect("component f1 of Ts5dmmome3 must be present")),
            f2: FromValue::from_value(s[2].as_ref().expect("component f2 of Ts5dmmome3 must be present")),
            f3: s[3].as_ref().map(FromValue::from_value),
            f4: s[4].as_ref().map(FromValue::from_value),
        }
    }
}
impl ToValue for Ts5dmmome3 {
    fn to_value(&self) -> Value {
        Value::Seq(vec![
            Some(self.f0.to_value()),
            Some(self.f1.to_value()),
            Some(self.f2.to_value()),
            self.f3.as_ref().map(|x| x.to_value()),
            self.f4.as_ref().map(|x| x.to_value()),
        ])
    }
}
impl FromValue for Ts5dmmome4 {
    fn from_value(v: &Value) -> Self {
        let s = match v { Value::Seq(s) => s, other => panic!("Ts5dmmome4: expected Seq, got {other:?}") };
        assert_eq!(s.len(), 5, "Ts5dmmome4: component count");
        let _ = s;
        Ts5dmmome4 {
            f0: FromValue::from_value(s[0].as_ref().expect("component f0 of Ts5dmmome4 must be present")),
            f1: FromValue::from_value(s[1].as_ref().expect("component f1 of Ts5dmmome4 must be present")),
            f2: FromValue::from_value(s[2].as_ref().expect("component f2 of Ts5dmmome4 must be present")),
            f3: s[3].as_ref().map(FromValue::from_value),
            f4: s[4].as_ref().map(FromValue::from_value),
        }
    }
}
impl ToValue for Ts5dmmome4 {
    fn to_value(&self) -> Value {
        Value::Seq(vec![
            Some(self.f0.to_value()),
            Some(self.f1.to_value()),
            Some(self.f2.to_value()),
            self.f3.as_ref().map(|x| x.to_value()),
            self.f4.as_ref().map(|x| x.to_value()),
        ])
    }
}
impl FromValue for Ts5dmmome5 {
    fn from_value(v: &Value) -> Self {
        let s = match v { Value::Seq(s) => s, other => panic!("Ts5dmmome5: expected Seq, got {other:?}") };
        assert_eq!(s.len(), 5, "Ts5dmmome5: component count");
        let _ = s;
        Ts5dmmome5 {
            f0: FromValue::from_value(s[0].as_ref().expect("component f0 of Ts5dmmome5 must be present")),
            f1: FromValue::from_value(s[1].as_ref().expect("component f1 of Ts5dmmome5 must be present")),
            f2: FromValue::from_value(s[2].as_ref().expect("component f2 of Ts5dmmome5 must be present")),
            f3: s[3].as_ref().map(FromValue::from_value),
            f4: FromValue::from_value(s[4].as_ref().expect("component f4 of Ts5dmmome5 must be present")),
        }
    }
}
impl ToValue for Ts5dmmome5 {
    fn to_value(&self) -> Value {
        Value::Seq(vec![
            Some(self.f0.to_value()),
            Some(self.f1.to_value()),
            Some(self.f2.to_value()),
            self.f3.as_ref().map(|x| x.to_value()),
            Some(self.f4.to_value()),
        ])
    }
}
impl FromValue for Ts5momomn {
    fn from_value(v: &Value) -> Self {
        let s = match v { Value::Seq(s) => s, other => panic!("Ts5momomn: expected Seq, got {other:?}") };
        assert_eq!(s.len(), 5, "Ts5momomn: component count");
        let _ = s;
        Ts5momomn {
            f0: FromValue::from_value(s[0].as_ref().expect("component f0 of Ts5momomn must be present")),
            f1: s[1].as_ref().map(FromValue::from_value),
            f2: FromValue::from_value(s[2].as_ref().expect("component f2 of Ts5momomn must be present")),
            f3: s[3].as_ref().map(FromValue::from_value),
            f4: FromValue::from_value(s[4].as_ref().expect("component f4 of Ts5momomn must be present")),
        }
    }
}
impl ToValue for Ts5momomn {
    fn to_value(&self) -> Value {
        Value::Seq(vec![
            Some(self.f0.to_value()),
            self.f1.as_ref().map(|x| x.to_value()),
            Some(self.f2.to_value()),
            self.f3.as_ref().map(|x| x.to_value()),
            Some(self.f4.to_value()),
        ])
    }
}
impl FromValue for Ts5momome0 {
    fn from_value(v: &Value) -> Self {
        let s = match v { Value::Seq(s) => s, other => panic!("Ts5momome0: expected Seq, got {other:?}") };
        assert_eq!(s.len(), 5, "Ts5momome0: component count");
        let _ = s;
        Ts5momome0 {
            f0: FromValue::from_value(s[0].as_ref().expect("component f0 of Ts5momome0 must be present")),
            f1: s[1].as_ref().map(FromValue::from_value),
            f2: s[2].as_ref().map(FromValue::from_value),
            f3: s[3].as_ref().map(FromValue::from_value),
            f4: s[4].as_ref().map(FromValue::from_value),
        }
    }
}
impl ToValue for Ts5momome0 {
    fn to_value(&self) -> Value {
        Value::Seq(vec![
            Some(self.f0.to_value()),
            self.f1.as_ref().map(|x| x.to_value()),
            self.f2.as_ref().map(|x| x.to_value()),
            self.f3.as_ref().map(|x| x.to_value()),
            self.f4.as_ref().map(|x| x.to_value()),
        ])
    }
}
impl FromValue for Ts5momome1 {
    fn from_value(v: &Value) -> Self {
        let s = match v { Value::Seq(s) => s, other => panic!("Ts5momome1: expected Seq, got {other:?}") };
        assert_eq!(s.len(), 5, "Ts5momome1: component count");
        let _ = s;
        Ts5momome1 {
            f0: FromValue::from_value(s[0].as_ref().expect("component f0 of Ts5momome1 must be present")),
            f1: s[1].as_ref().map(FromValue::from_value),
            f2: s[2].as_ref().map(FromValue::from_value),
            f3: s[3].as_ref().map(FromValue::from_value),
            f4: s[4].as_ref().map(FromValue::from_value),
        }
    }
}
impl ToValue for Ts5momome1 {
    fn to_value(&self) -> Value {
        Value::Seq(vec![
            Some(self.f0.to_value()),
            self.f1.as_ref().map(|x| x.to_value()),
            self.f2.as_ref().map(|x| x.to_value()),
            self.f3.as_ref().map(|x| x.to_value()),
            self.f4.as_ref().map(|x| x.to_value()),
        ])
    }
}
impl FromValue for Ts5momome2 {
    fn from_value(v: &Value) -> Self {
        let s = match v { Value::Seq(s) => s, other => panic!("Ts5momome2: expected Seq, got {other:?}") };
        assert_eq!(s.len(), 5, "Ts5momome2: component count");
        let _ = s;
        Ts5momome2 {
            f0: FromValue::from_value(s[0].as_ref().expect("component f0 of Ts5momome2 must be present")),
            f1: s[1].as_ref().map(FromValue::from_value),
            f2: s[2].as_ref().map(FromValue::from_value),
            f3: s[3].as_ref().map(FromValue::from_value),
            f4: s[4].as_ref().map(FromValue::from_value),
        }
    }
}
impl ToValue for Ts5momome2 {
    fn to_value(&self) -> Value {
        Value::Seq(vec![
            Some(self.f0.to_value()),
            self.f1.as_ref().map(|x| x.to_value()),
            self.f2.as_ref().map(|x| x.to_value()),
            self.f3.as_ref().map(|x| x.to_value()),
            self.f4.as_ref().map(|x| x.to_value()),
        ])
    }
}
impl FromValue for Ts5momome3 {
    fn from_value(v: &Value) -> Self {
        let s = match v { Value::Seq(s) => s, other => panic!("Ts5momome3: expected Seq, got {other:?}") };
        assert_eq!(s.len(), 5, "Ts5momome3: component count");
        let _ = s;
        Ts5momome3 {
            f0: FromValue::from_value(s[0].as_ref().expect("component f0 of Ts5momome3 must be present")),
            f1: s[1].as_ref().map(FromValue::from_value),
            f2: FromValue::from_value(s[2].as_ref().expect("component f2 of Ts5momome3 must be present")),
            f3: s[3].as_ref().map(FromValue::from_value),
            f4: s[4].as_ref().map(FromValue::from_value),
        }
    }
}
impl ToValue for Ts5momome3 {
    fn to_value(&self) -> Value {
        Value::Seq(vec![
            Some(self.f0.to_value()),
            self.f1.as_ref().map(|x| x.to_value()),
            Some(self.f2.to_value()),
            self.f3.as_ref().map(|x| x.to_value()),
            self.f4.as_ref().map(|x| x.to_value()),
        ])
    }
}
impl FromValue for Ts5momome4 {
    fn from_value(v: &Value) -> Self {
        let s = match v { Value::Seq(s) => s, other => panic!("Ts5momome4: expected Seq, got {other:?}") };
        assert_eq!(s.len(), 5, "Ts5momome4: component count");
        let _ = s;
        Ts5momome4 {
            f0: FromValue::from_value(s[0].as_ref().expect("component f0 of Ts5momome4 must be present")),
            f1: s[1].as_ref().map(FromValue::from_value),
            f2: FromValue::from_value(s[2].as_ref().expect("component f2 of Ts5momome4 must be present")),
            f3: s[3].as_ref().map(FromValue::from_value),
            f4: s[4].as_ref().map(FromValue::from_value),
        }
    }
}
impl ToValue for Ts5momome4 {
    fn to_value(&self) -> Value {
        Value::Seq(vec![
            Some(self.f0.to_value()),
            self.f1.as_ref().map(|x| x.to_value()),
            Some(self.f2.to_value()),
            self.f3.as_ref().map(|x| x.to_value()),
            self.f4.as_ref().map(|x| x.to_value()),
        ])
    }
}
impl FromValue for Ts5momome5 {
    fn from_value(v: &Value) -> Self {
        let s = match v { Value::Seq(s) => s, other => panic!("Ts5momome5: expected Seq, got {other:?}") };
        assert_eq!(s.len(), 5, "Ts5momome5: component count");
        let _ = s;
        Ts5momome5 {
            f0: FromValue::from_value(s[0].as_ref().expect("component f0 of Ts5momome5 must be present")),
            f1: s[1].as_ref().map(FromValue::from_value),
            f2: FromValue::from_value(s[2].as_ref().expect("component f2 of Ts5momome5 must be present")),
            f3: s[3].as_ref().map(FromValue::from_value),
            f4: FromValue::from_value(s[4].as_ref().expect("component f4 of Ts5momome5 must be present")),
        }
    }
}
impl ToValue for Ts5momome5 {
    fn to_value(&self) -> Value {
        Value::Seq(vec![
            Some(self.f0.to_value()),
            self.f1.as_ref().map(|x| x.to_value()),
            Some(self.f2.to_value()),
            self.f3.as_ref().map(|x| x.to_value()),
            Some(self.f4.to_value()),
        ])
    }
}
impl FromValue for Ts5oomomn {
    fn from_value(v: &Value) -> Self {
        let s = match v { Value::Seq(s) => s, other => panic!("Ts5oomomn: expected Seq, got {other:?}") };
        assert_eq!(s.len(), 5, "Ts5oomomn: component count");
        let _ = s;
        Ts5oomomn {
            f0: s[0].as_ref().map(FromValue::from_value),
            f1: s[1].as_ref().map(FromValue::from_value),
            f2: FromValue::from_value(s[2].as_ref().expect("component f2 of Ts5oomomn must be present")),
            f3: s[3].as_ref().map(FromValue::from_value),
            f4: FromValue::from_value(s[4].as_ref().expect("component f4 of Ts5oomomn must be present")),
        }
    }
}
impl ToValue for Ts5oomomn {
    fn to_value(&self) -> Value {
        Value::Seq(vec![
            self.f0.as_ref().map(|x| x.to_value()),
            self.f1.as_ref().map(|x| x.to_value()),
            Some(self.f2.to_value()),
            self.f3.as_ref().map(|x| x.to_value()),
            Some(self.f4.to_value()),
        ])
    }
}
impl FromValue for Ts5oomome0 {
    fn from_value(v: &Value) -> Self {
        let s = match v { Value::Seq(s) => s, other => panic!("Ts5oomome0: expected Seq, got {other:?}") };
        assert_eq!(s.len(), 5, "Ts5oomome0: component count");
        let _ = s;
        Ts5oomome0 {
            f0: s[0].as_ref().map(FromValue::from_value),
            f1: s[1].as_ref().map(FromValue::from_value),
            f2: s[2].as_ref().map(FromValue::from_value),
            f3: s[3].as_ref().map(FromValue::from_value),
            f4: s[4].as_ref().map(FromValue::from_value),
        }
    }
}
impl ToValue for Ts5oomome0 {
    fn to_value(&self) -> Value {
        Value::Seq(vec![
            self.f0.as_ref().map(|x| x.to_value()),
            self.f1.as_ref().map(|x| x.to_value()),
            self.f2.as_ref().map(|x| x.to_value()),
            self.f3.as_ref().map(|x| x.to_value()),
            self.f4.as_ref().map(|x| x.to_value()),
        ])
    }
}
impl FromValue for Ts5oomome1 {
    fn from_value(v: &Value) -> Self {
        let s = match v { Value::Seq(s) => s, other => panic!("Ts5oomome1: expected Seq, got {other:?}") };
        assert_eq!(s.len(), 5, "Ts5oomome1: component count");
        let _ = s;
        Ts5oomome1 {
            f0: s[0].as_ref().map(FromValue::from_value),
            f1: s[1].as_ref().map(FromValue::from_value),
            f2: s[2].as_ref().map(FromValue::from_value),
            f3: s[3].as_ref().map(FromValue::from_value),
            f4: s[4].as_ref().map(FromValue::from_value),
        }
    }
}
impl ToValue for Ts5oomome1 {
    fn to_value(&self) -> Value {
        Value::Seq(vec![
            self.f0.as_ref().map(|x| x.to_value()),
            self.f1.as_ref().map(|x| x.to_value()),
            self.f2.as_ref().map(|x| x.to_value()),
            self.f3.as_ref().map(|x| x.to_value()),
            self.f4.as_ref().map(|x| x.to_value()),
        ])
    }
}
impl FromValue for Ts5oomome2 {
    fn from_value(v: &Value) -> Self {
        let s = match v { Value::Seq(s) => s, other => panic!("Ts5oomome2: expected Seq, got {other:?}") };
        assert_eq!(s.len(), 5, "Ts5oomome2: component count");
        let _ = s;
        Ts5oomome2 {
            f0: s[0].as_ref().map(FromValue::from_value),
            f1: s[1].as_ref().map(FromValue::from_value),
            f2: s[2].as_ref().map(FromValue::from_value),
            f3: s[3].as_ref().map(FromValue::from_value),
            f4: s[4].as_ref().map(FromValue::from_value),
        }
    }
}
impl ToValue for Ts5oomome2 {
    fn to_value(&self) -> Value {
        Value::Seq(vec![
            self.f0.as_ref().map(|x| x.to_value()),
            self.f1.as_ref().map(|x| x.to_value()),
            self.f2.as_ref().map(|x| x.to_value()),
            self.f3.as_ref().map(|x| x.to_value()),
            self.f4.as_ref().map(|x| x.to_value()),
        ])
    }
}
impl FromValue for Ts5oomome3 {
    fn from_value(v: &Value) -> Self {
        let s = match v { Value::Seq(s) => s, other => panic!("Ts5oomome3: expected Seq, got {other:?}") };
        assert_eq!(s.len(), 5, "Ts5oomome3: component count");
        let _ = s;
        Ts5oomome3 {
            f0: s[0].as_ref().map(FromValue::from_value),
            f1: s[1].as_ref().map(FromValue::from_value),
            f2: FromValue::from_value(s[2].as_ref().expect("component f2 of Ts5oomome3 must be present")),
            f3: s[3].as_ref().map(FromValue::from_value),
            f4: s[4].as_ref().map(FromValue::from_value),
        }
    }
}
impl ToValue for Ts5oomome3 {
    fn to_value(&self) -> Value {
        Value::Seq(vec![
            self.f0.as_ref().map(|x| x.to_value()),
            self.f1.as_ref().map(|x| x.to_value()),
            Some(self.f2.to_value()),
            self.f3.as_ref().map(|x| x.to_value()),
            self.f4.as_ref().map(|x| x.to_value()),
        ])
    }
}
impl FromValue for Ts5oomome4 {
    fn from_value(v: &Value) -> Self {
        let s = match v { Value::Seq(s) => s, other => panic!("Ts5oomome4: expected Seq, got {other:?}") };
        assert_eq!(s.len(), 5, "Ts5oomome4: component count");
        let _ = s;
        Ts5oomome4 {
            f0: s[0].as_ref().map(FromValue::from_value),
            f1: s[1].as_ref().map(FromValue::from_value),
            f2: FromValue::from_value(s[2].as_ref().expect("component f2 of Ts5oomome4 must be present")),
            f3: s[3].as_ref().map(FromValue::from_value),
            f4: s[4].as_ref().map(FromValue::from_value),
        }
    }
}
impl ToValue for Ts5oomome4 {
    fn to_value(&self) -> Value {
        Value::Seq(vec![
            self.f0.as_ref().map(|x| x.to_value()),
            self.f1.as_ref().map(|x| x.to_value()),
            Some(self.f2.to_value()),
            self.f3.as_ref().map(|x| x.to_value()),
            self.f4.as_ref().map(|x| x.to_value()),
        ])
    }
}
impl FromValue for Ts5oomome5 {
    fn from_value(v: &Value) -> Self {
        let s = match v { Value::Seq(s) => s, other => panic!("Ts5oomome5: expected Seq, got {other:?}") };
        assert_eq!(s.len(), 5, "Ts5oomome5: component count");
        let _ = s;
        Ts5oomome5 {
            f0: s[0].as_ref().map(FromValue::from_value),
            f1: s[1].as_ref().map(FromValue::from_value),
            f2: FromValue::from_value(s[2].as_ref().expect("component f2 of Ts5oomome5 must be present")),
            f3: s[3].as_ref().map(FromValue::from_value),
            f4: FromValue::from_value(s[4].as_ref().expect("component f4 of Ts5oomome5 must be present")),
        }
    }
}
impl ToValue for Ts5oomome5 {
    fn to_value(&self) -> Value {
        Value::Seq(vec![
            self.f0.as_ref().map(|x| x.to_value()),
            self.f1.as_ref().map(|x| x.to_value()),
            Some(self.f2.to_value()),
            self.f3.as_ref().map(|x| x.to_value()),
            Some(self.f4.to_value()),
        ])
    }
}
impl FromValue for Ts5domomn {
    fn from_value(v: &Value) -> Self {
        let s = match v { Value::Seq(s) => s, other => panic!("Ts5domomn: expected Seq, got {other:?}") };
        assert_eq!(s.len(), 5, "Ts5domomn: component count");
        let _ = s;
        Ts5domomn {
            f0: FromValue::from_value(s[0].as_ref().expect("component f0 of Ts5domomn must be present")),
            f1: s[1].as_ref().map(FromValue::from_value),
            f2: FromValue::from_value(s[2].as_ref().expect("component f2 of Ts5domomn must be present")),
            f3: s[3].as_ref().map(FromValue::from_value),
            f4: FromValue::from_value(s[4].as_ref().expect("component f4 of Ts5domomn must be present")),
        }
    }
}
impl ToValue for Ts5domomn {
    fn to_value(&self) -> Value {
        Value::Seq(vec![
            Some(self.f0.to_value()),
            self.f1.as_ref().map(|x| x.to_value()),
            Some(self.f2.to_value()),
            self.f3.as_ref().map(|x| x.to_value()),
            Some(self.f4.to_value()),
        ])
    }
}
impl FromValue for Ts5domome0 {
    fn from_value(v: &Value) -> Self {
        let s = match v { Value::Seq(s) => s, other => panic!("Ts5domome0: expected Seq, got {other:?}") };
        assert_eq!(s.len(), 5, "Ts5domome0: component count");
        let _ = s;
        Ts5domome0 {
            f0: FromValue::from_value(s[0].as_ref().expect("component f0 of Ts5domome0 must be present")),
            f1: s[1].as_ref().map(FromValue::from_value),
            f2: s[2].as_ref().map(FromValue::from_value),
            f3: s[3].as_ref().map(FromValue::from_value),
            f4: s[4].as_ref().map(FromValue::from_value),
        }
    }
}
impl ToValue for Ts5domome0 {
    fn to_value(&self) -> Value {
        Value::Seq(vec![
            Some(self.f0.to_value()),
            self.f1.as_ref().map(|x| x.to_value()),
            self.f2.as_ref().map(|x| x.to_value()),
            self.f3.as_ref().map(|x| x.to_value()),
            self.f4.as_ref().map(|x| x.to_value()),
        ])
    }
}
impl FromValue for Ts5domome1 {
    fn from_value(v: &Value) -> Self {
        let s = match v { Value::Seq(s) => s, other => panic!("Ts5domome1: expected Seq, got {other:?}") };
        assert_eq!(s.len(), 5, "Ts5domome1: component count");
        let _ = s;
        Ts5domome1 {
            f0: FromValue::from_value(s[0].as_ref().expect("component f0 of Ts5domome1 must be present")),
            f1: s[1].as_ref().map(FromValue::from_value),
            f2: s[2].as_ref().map(FromValue::from_value),
            f3: s[3].as_ref().map(FromValue::from_value),
            f4: s[4].as_ref().map(FromValue::from_value),
        }
    }
}
impl ToValue for Ts5domome1 {
    fn to_value(&self) -> Value {
        Value::Seq(vec![
            Some(self.f0.to_value()),
            self.f1.as_ref().map(|x| x.to_value()),
            self.f2.as_ref().map(|x| x.to_value()),
            self.f3.as_ref().map(|x| x.to_value()),
            self.f4.as_ref().map(|x| x.to_value()),
        ])
    }
}
impl FromValue for Ts5domome2 {
    fn from_value(v: &Value) -> Self {
        let s = match v { Value::Seq(s) => s, other => panic!("Ts5domome2: expected Seq, got {other:?}") };
        assert_eq!(s.len(), 5, "Ts5domome2: component count");
        let _ = s;
        Ts5domome2 {
            f0: FromValue::from_value(s[0].as_ref().expect("component f0 of Ts5domome2 must be present")),
            f1: s[1].as_ref().map(FromValue::from_value),
            f2: s[2].as_ref().map(FromValue::from_value),
            f3: s[3].as_ref().map(FromValue::from_value),
            f4: s[4].as_ref().map(FromValue::from_value),
        }
    }
}
impl ToValue for Ts5domome2 {
    fn to_value(&self) -> Value {
        Value::Seq(vec![
            Some(self.f0.to_value()),
            self.f1.as_ref().map(|x| x.to_value()),
            self.f2.as_ref().map(|x| x.to_value()),
            self.f3.as_ref().map(|x| x.to_value()),
            self.f4.as_ref().map(|x| x.to_value()),
        ])
    }
}
impl FromValue for Ts5domome3 {
    fn from_value(v: &Value) -> Self {
        let s = match v { Value::Seq(s) => s, other => panic!("Ts5domome3: expected Seq, got {other:?}") };
        assert_eq!(s.len(), 5, "Ts5domome3: component count");
        let _ = s;
        Ts5domome3 {
            f0: FromValue::from_value(s[0].as_ref().expect("component f0 of Ts5domome3 must be present")),
            f1: s[1].as_ref().map(FromValue::from_value),
            f2: FromValue::from_value(s[2].as_ref().expect("component f2 of Ts5domome3 must be present")),
            f3: s[3].as_ref().map(FromValue::from_value),
            f4: s[4].as_ref().map(FromValue::from_value),
        }
    }
}
impl ToValue for Ts5domome3 {
    fn to_value(&self) -> Value {
        Value::Seq(vec![
            Some(self.f0.to_value()),
            self.f1.as_ref().map(|x| x.to_value()),
            Some(self.f2.to_value()),
            self.f3.as_ref().map(|x| x.to_value()),
            self.f4.as_ref().map(|x| x.to_value()),
        ])
    }
}
impl FromValue for Ts5domome4 {
    fn from_value(v: &Value) -> Self {
        let s = match v { Value::Seq(s) => s, other => panic!("Ts5domome4: expected Seq, got {other:?}") };
        assert_eq!(s.len(), 5, "Ts5domome4: component count");
        let _ = s;
        Ts5domome4 {
            f0: FromValue::from_value(s[0].as_ref().expect("component f0 of Ts5domome4 must be present")),
            f1: s[1].as_ref().map(FromValue::from_value),
            f2: FromValue::from_value(s[2].as_ref().expect("component f2 of Ts5domome4 must be present")),
            f3: s[3].as_ref().map(FromValue::from_value),
            f4: s[4].as_ref().map(FromValue::from_value),
        }
    }
}
impl ToValue for Ts5domome4 {
    fn to_value(&self) -> Value {
        Value::Seq(vec![
            Some(self.f0.to_value()),
            self.f1.as_ref().map(|x| x.to_value()),
            Some(self.f2.to_value()),
            self.f3.as_ref().map(|x| x.to_value()),
            self.f4.as_ref().map(|x| x.to_value()),
        ])
    }
}
impl FromValue for Ts5domome5 {
    fn from_value(v: &Value) -> Self {
        let s = match v { Value::Seq(s) => s, other => panic!("Ts5domome5: expected Seq, got {other:?}") };
        assert_eq!(s.len(), 5, "Ts5domome5: component count");
        let _ = s;
        Ts5domome5 {
            f0: FromValue::from_value(s[0].as_ref().expect("component f0 of Ts5domome5 must be present")),
            f1: s[1].as_ref().map(FromValue::from_value),
            f2: FromValue::from_value(s[2].as_ref().expect("component f2 of Ts5domome5 must be present")),
            f3: s[3].as_ref().map(FromValue::from_value),
            f4: FromValue::from_value(s[4].as_ref().expect("component f4 of Ts5domome5 must be present")),
        }
    }
}
impl ToValue for Ts5domome5 {
    fn to_value(&self) -> Value {
        Value::Seq(vec![
            Some(self.f0.to_value()),
            self.f1.as_ref().map(|x| x.to_value()),
            Some(self.f2.to_value()),
            self.f3.as_ref().map(|x| x.to_value()),
            Some(self.f4.to_value()),
        ])
    }
}
impl FromValue for Ts5mdmomn {
    fn from_value(v: &Value) -> Self {
        let s = match v { Value::Seq(s) => s, other => panic!("Ts5mdmomn: expected Seq, got {other:?}") };
        assert_eq!(s.len(), 5, "Ts5mdmomn: component count");
        let _ = s;
        Ts5mdmomn {
            f0: FromValue::from_value(s[0].as_ref().expect("component f0 of Ts5mdmomn must be present")),
            f1: FromValue::from_value(s[1].as_ref().expect("component f1 of Ts5mdmomn must be present")),
            f2: FromValue::from_value(s[2].as_ref().expect("component f2 of Ts5mdmomn must be present")),
            f3: s[3].as_ref().map(FromValue::from_value),
            f4: FromValue::from_value(s[4].as_ref().expect("component f4 of Ts5mdmomn must be present")),
        }
    }
}
impl ToValue for Ts5mdmomn {
    fn to_value(&self) -> Value {
        Value::Seq(vec![
            Some(self.f0.to_value()),
            Some(self.f1.to_value()),
            Some(self.f2.to_value()),
            self.f3.as_ref().map(|x| x.to_value()),
            Some(self.f4.to_value()),
        ])
    }
}
impl FromValue for Ts5mdmome0 {
    fn from_value(v: &Value) -> Self {
        let s = match v { Value::Seq(s) => s, other => panic!("Ts5mdmome0: expected Seq, got {other:?}") };
        assert_eq!(s.len(), 5, "Ts5mdmome0: component count");
        let _ = s;
        Ts5mdmome0 {
            f0: FromValue::from_value(s[0].as_ref().expect("component f0 of Ts5mdmome0 must be present")),
            f1: FromValue::from_value(s[1].as_ref().expect("component f1 of Ts5mdmome0 must be present")),
            f2: s[2].as_ref().map(FromValue::from_value),
            f3: s[3].as_ref().map(FromValue::from_value),
            f4: s[4].as_ref().map(FromValue::from_value),
        }
    }
}
impl ToValue for Ts5mdmome0 {
    fn to_value(&self) -> Value {
        Value::Seq(vec![
            Some(self.f0.to_value()),
            Some(self.f1.to_value()),
            self.f2.as_ref().map(|x| x.to_value()),
            self.f3.as_ref().map(|x| x.to_value()),
            self.f4.as_ref().map(|x| x.to_value()),
        ])
    }
}
impl FromValue for Ts5mdmome1 {
    fn from_value(v: &Value) -> Self {
        let s = match v { Value::Seq(s) => s, other => panic!("Ts5mdmome1: expected Seq, got {other:?}") };
        assert_eq!(s.len(), 5, "Ts5mdmome1: component count");
        let _ = s;
        Ts5mdmome1 {
            f0: FromValue::from_value(s[0].as_ref().expect("component f0 of Ts5mdmome1 must be present")),
            f1: FromValue::from_value(s[1].as_ref().expect("component f1 of Ts5mdmome1 must be present")),
            f2: s[2].as_ref().map(FromValue::from_value),
            f3: s[3].as_ref().map(FromValue::from_value),
            f4: s[4].as_ref().map(FromValue::from_value),
        }
    }
}
impl ToValue for Ts5mdmome1 {
    fn to_value(&self) -> Value {
        Value::Seq(vec![
            Some(self.f0.to_value()),
            Some(self.f1.to_value()),
            self.f2.as_ref().map(|x| x.to_value()),
            self.f3.as_ref().map(|x| x.to_value()),
            self.f4.as_ref().map(|x| x.to_value()),
        ])
    }
}
impl FromValue for Ts5mdmome2 {
    fn from_value(v: &Value) -> Self {
        let s = match v { Value::Seq(s) => s, other => panic!("Ts5mdmome2: expected Seq, got {other:?}") };
        assert_eq!(s.len(), 5, "Ts5mdmome2: component count");
        let _ = s;
        Ts5mdmome2 {
            f0: FromValue::from_value(s[0].as_ref().expect("component f0 of Ts5mdmome2 must be present")),
            f1: FromValue::from_value(s[1].as_ref().expect("component f1 of Ts5mdmome2 must be present")),
            f2: s[2].as_ref().map(FromValue::from_value),
            f3: s[3].as_ref().map(FromValue::from_value),
            f4: s[4].as_ref().map(FromValue::from_value),
        }
    }
}
impl ToValue for Ts5mdmome2 {
    fn to_value(&self) -> Value {
        Value::Seq(vec![
            Some(self.f0.to_value()),
            Some(self.f1.to_value()),
            self.f2.as_ref().map(|x| x.to_value()),
            self.f3.as_ref().map(|x| x.to_value()),
            self.f4.as_ref().map(|x| x.to_value()),
        ])
    }
}
impl FromValue for Ts5mdmome3 {
    fn from_value(v: &Value) -> Self {
        let s = match v { Value::Seq(s) => s, other => panic!("Ts5mdmome3: expected Seq, got {other:?}") };
        assert_eq!(s.len(), 5, "Ts5mdmome3: component count");
        let _ = s;
        Ts5mdmome3 {
            f0: FromValue::from_value(s[0].as_ref().expect("component f0 of Ts5mdmome3 must be present")),
            f1: FromValue::from_value(s[1].as_ref().expect("component f1 of Ts5mdmome3 must be present")),
            f2: FromValue::from_value(s[2].as_ref().expect("component f2 of Ts5mdmome3 must be present")),
            f3: s[3].as_ref().map(FromValue::from_value),
            f4: s[4].as_ref().map(FromValue::from_value),
        }
    }
}
impl ToValue for Ts5mdmome3 {
    fn to_value(&self) -> Value {
        Value::Seq(vec![
            Some(self.f0.to_value()),
            Some(self.f1.to_value()),
            Some(self.f2.to_value()),
            self.f3.as_ref().map(|x| x.to_value()),
            self.f4.as_ref().map(|x| x.to_value()),
        ])
    }
}
impl FromValue for Ts5mdmome4 {
    fn from_value(v: &Value) -> Self {
        let s = match v { Value::Seq(s) => s, other => panic!("Ts5mdmome4: expected Seq, got {other:?}") };
        assert_eq!(s.len(), 5, "Ts5mdmome4: component count");
        let _ = s;
        Ts5mdmome4 {
            f0: FromValue::from_value(s[0].as_ref().expect("component f0 of Ts5mdmome4 must be present")),
            f1: FromValue::from_value(s[1].as_ref().expect("component f1 of Ts5mdmome4 must be present")),
            f2: FromValue::from_value(s[2].as_ref().expect("component f2 of Ts5mdmome4 must be present")),
            f3: s[3].as_ref().map(FromValue::from_value),
            f4: s[4].as_ref().map(FromValue::from_value),
        }
    }
}
impl ToValue for Ts5mdmome4 {
    fn to_value(&self) -> Value {
        Value::Seq(vec![
            Some(self.f0.to_value()),
            Some(self.f1.to_value()),
            Some(self.f2.to_value()),
            self.f3.as_ref().map(|x| x.to_value()),
            self.f4.as_ref().map(|x| x.to_value()),
        ])
    }
}
impl FromValue for Ts5mdmome5 {
    fn from_value(v: &Value) -> Self {
        let s = match v { Value::Seq(s) => s, other => panic!("Ts5mdmome5: expected Seq, got {other:?}") };
        assert_eq!(s.len(), 5, "Ts5mdmome5: component count");
        let _ = s;
        Ts5mdmome5 {
            f0: FromValue::from_value(s[0].as_ref().expect("component f0 of Ts5mdmome5 must be present")),
            f1: FromValue::from_value(s[1].as_ref().expect("component f1 of Ts5mdmome5 must be present")),
            f2: FromValue::from_value(s[2].as_ref().expect("component f2 of Ts5mdmome5 must be present")),
            f3: s[3].as_ref().map(FromValue::from_value),
            f4: FromValue::from_value(s[4].as_ref().expect("component f4 of Ts5mdmome5 must be present")),
        }
    }
}
impl ToValue for Ts5mdmome5 {
    fn to_value(&self) -> Value {
        Value::Seq(vec![
            Some(self.f0.to_value()),
            Some(self.f1.to_value()),
            Some(self.f2.to_value()),
            self.f3.as_ref().map(|x| x.to_value()),
            Some(self.f4.to_value()),
        ])
    }
}
impl FromValue for Ts5odmomn {
    fn from_value(v: &Value) -> Self {
        let s = match v { Value::Seq(s) => s, other => panic!("Ts5odmomn: expected Seq, got {other:?}") };
        assert_eq!(s.len(), 5, "Ts5odmomn: component count");
        let _ = s;
        Ts5odmomn {
            f0: s[0].as_ref().map(FromValue::from_value),
            f1: FromValue::from_value(s[1].as_ref().expect("component f1 of Ts5odmomn must be present")),
            f2: FromValue::from_value(s[2].as_ref().expect("component f2 of Ts5odmomn must be present")),
            f3: s[3].as_ref().map(FromValue::from_value),
            f4: FromValue::from_value(s[4].as_ref().expect("component f4 of Ts5odmomn must be present")),
        }
    }
}
impl ToValue for Ts5odmomn {
    fn to_value(&self) -> Value {
        Value::Seq(vec![
            self.f0.as_ref().map(|x| x.to_value()),
            Some(self.f1.to_value()),
            Some(self.f2.to_value()),
            self.f3.as_ref().map(|x| x.to_value()),
            Some(self.f4.to_value()),
        ])
    }
}
impl FromValue for Ts5odmome0 {
    fn from_value(v: &Value) -> Self {
        let s = match v { Value::Seq(s) => s, other => panic!("Ts5odmome0: expected Seq, got {other:?}") };
        assert_eq!(s.len(), 5, "Ts5odmome0: component count");
        let _ = s;
        Ts5odmome0 {
            f0: s[0].as_ref().map(FromValue::from_value),
            f1: FromValue::from_value(s[1].as_ref().expect("component f1 of Ts5odmome0 must be present")),
            f2: s[2].as_ref().map(FromValue::from_value),
            f3: s[3].as_ref().map(FromValue::from_value),
            f4: s[4].as_ref().map(FromValue::from_value),
        }
    }
}
impl ToValue for Ts5odmome0 {
    fn to_value(&self) -> Value {
        Value::Seq(vec![
            self.f0.as_ref().map(|x| x.to_value()),
            Some(self.f1.to_value()),
            self.f2.as_ref().map(|x| x.to_value()),
            self.f3.as_ref().map(|x| x.to_value()),
            self.f4.as_ref().map(|x| x.to_value()),
        ])
    }
}

use asn1rs::prelude::*;

#[asn(sequence, extensible_after(f0))]

#[derive(Default, Debug, Clone, PartialEq, Hash)]
pub struct Ts5omddoe1 {
    #[asn(optional(integer(0..7)))] pub f0: Option<u8>,
    #[asn(optional(integer(0..7)))] pub f1: Option<u8>,
    #[asn(default(integer(0..7), 5))] pub f2: u8,
    #[asn(default(integer(0..7), 5))] pub f3: u8,
    #[asn(optional(integer(0..7)))] pub f4: Option<u8>,
}

impl Ts5omddoe1 {
    pub const fn f0_min() -> u8 {
        0
    }

    pub const fn f0_max() -> u8 {
        7
    }

    pub const fn f1_min() -> u8 {
        0
    }

    pub const fn f1_max() -> u8 {
        7
    }

    pub const fn f2_min() -> u8 {
        0
    }

    pub const fn f2_max() -> u8 {
        7
    }

    pub const fn f3_min() -> u8 {
        0
    }

    pub const fn f3_max() -> u8 {
        7
    }

    pub const fn f4_min() -> u8 {
        0
    }

    pub const fn f4_max() -> u8 {
        7
    }
}

#[asn(sequence, extensible_after(f1))]

#[derive(Default, Debug, Clone, PartialEq, Hash)]
pub struct Ts5omddoe2 {
    #[asn(optional(integer(0..7)))] pub f0: Option<u8>,
    #[asn(integer(0..7))] pub f1: u8,
    #[asn(default(integer(0..7), 5))] pub f2: u8,
    #[asn(default(integer(0..7), 5))] pub f3: u8,
    #[asn(optional(integer(0..7)))] pub f4: Option<u8>,
}

impl Ts5omddoe2 {
    pub const fn f0_min() -> u8 {
        0
    }

    pub const fn f0_max() -> u8 {
        7
    }

    pub const fn f1_min() -> u8 {
        0
    }

    pub const fn f1_max() -> u8 {
        7
    }

    pub const fn f2_min() -> u8 {
        0
    }

    pub const fn f2_max() -> u8 {
        7
    }

    pub const fn f3_min() -> u8 {
        0
    }

    pub const fn f3_max() -> u8 {
        7
    }

    pub const fn f4_min() -> u8 {
        0
    }

    pub const fn f4_max() -> u8 {
        7
    }
}

#[asn(sequence, extensible_after(f2))]

#[derive(Default, Debug, Clone, PartialEq, Hash)]
pub struct Ts5omddoe3 {
    #[asn(optional(integer(0..7)))] pub f0: Option<u8>,
    #[asn(integer(0..7))] pub f1: u8,
    #[asn(default(integer(0..7), 5))] pub f2: u8,
    #[asn(default(integer(0..7), 5))] pub f3: u8,
    #[asn(optional(integer(0..7)))] pub f4: Option<u8>,
}

impl Ts5omddoe3 {
    pub const fn f0_min() -> u8 {
        0
    }

    pub const fn f0_max() -> u8 {
        7
    }

    pub const fn f1_min() -> u8 {
        0
    }

    pub const fn f1_max() -> u8 {
        7
    }

    pub const fn f2_min() -> u8 {
        0
    }

    pub const fn f2_max() -> u8 {
        7
    }

    pub const fn f3_min() -> u8 {
        0
    }

    pub const fn f3_max() -> u8 {
        7
    }

    pub const fn f4_min() -> u8 {
        0
    }

    pub const fn f4_max() -> u8 {
        7
    }
}

#[asn(sequence, extensible_after(f3))]

#[derive(Default, Debug, Clone, PartialEq, Hash)]
pub struct Ts5omddoe4 {
    #[asn(optional(integer(0..7)))] pub f0: Option<u8>,
    #[asn(integer(0..7))] pub f1: u8,
    #[asn(default(integer(0..7), 5))] pub f2: u8,
    #[asn(default(integer(0..7), 5))] pub f3: u8,
    #[asn(optional(integer(0..7)))] pub f4: Option<u8>,
}

impl Ts5omddoe4 {
    pub const fn f0_min() -> u8 {
        0
    }

    pub const fn f0_max() -> u8 {
        7
    }

    pub const fn f1_min() -> u8 {
        0
    }

    pub const fn f1_max() -> u8 {
        7
    }

    pub const fn f2_min() -> u8 {
        0
    }

    pub const fn f2_max() -> u8 {
        7
    }

    pub const fn f3_min() -> u8 {
        0
    }

    pub const fn f3_max() -> u8 {
        7
    }

    pub const fn f4_min() -> u8 {
        0
    }

    pub const fn f4_max() -> u8 {
        7
    }
}

#[asn(sequence, extensible_after(f4))]

#[derive(Default, Debug, Clone, PartialEq, Hash)]
pub struct Ts5omddoe5 {
    #[asn(optional(integer(0..7)))] pub f0: Option<u8>,
    #[asn(integer(0..7))] pub f1: u8,
    #[asn(default(integer(0..7), 5))] pub f2: u8,
    #[asn(default(integer(0..7), 5))] pub f3: u8,
    #[asn(optional(integer(0..7)))] pub f4: Option<u8>,
}

impl Ts5omddoe5 {
    pub const fn f0_min() -> u8 {
        0
    }

    pub const fn f0_max() -> u8 {
        7
    }

    pub const fn f1_min() -> u8 {
        0
    }

    pub const fn f1_max() -> u8 {
        7
    }

    pub const fn f2_min() -> u8 {
        0
    }

    pub const fn f2_max() -> u8 {
        7
    }

    pub const fn f3_min() -> u8 {
        0
    }

    pub const fn f3_max() -> u8 {
        7
    }

    pub const fn f4_min() -> u8 {
        0
    }

    pub const fn f4_max() -> u8 {
        7
    }
}

#[asn(sequence)]

#[derive(Default, Debug, Clone, PartialEq, Hash)]
pub struct Ts5dmddon {
    #[asn(default(integer(0..7), 5))] pub f0: u8,
    #[asn(integer(0..7))] pub f1: u8,
    #[asn(default(integer(0..7), 5))] pub f2: u8,
    #[asn(default(integer(0..7), 5))] pub f3: u8,
    #[asn(optional(integer(0..7)))] pub f4: Option<u8>,
}

impl Ts5dmddon {
    pub const fn f0_min() -> u8 {
        0
    }

    pub const fn f0_max() -> u8 {
        7
    }

    pub const fn f1_min() -> u8 {
        0
    }

    pub const fn f1_max() -> u8 {
        7
    }

    pub const fn f2_min() -> u8 {
        0
    }

    pub const fn f2_max() -> u8 {
        7
    }

    pub const fn f3_min() -> u8 {
        0
    }

    pub const fn f3_max() -> u8 {
        7
    }

    pub const fn f4_min() -> u8 {
        0
    }

    pub const fn f4_max() -> u8 {
        7
    }
}

#[asn(sequence, extensible_after(f0))]

#[derive(Default, Debug, Clone, PartialEq, Hash)]
pub struct Ts5dmddoe0 {
    #[asn(default(integer(0..7), 5))] pub f0: u8,
    #[asn(optional(integer(0..7)))] pub f1: Option<u8>,
    #[asn(default(integer(0..7), 5))] pub f2: u8,
    #[asn(default(integer(0..7), 5))] pub f3: u8,
    #[asn(optional(integer(0..7)))] pub f4: Option<u8>,
}

impl Ts5dmddoe0 {
    pub const fn f0_min() -> u8 {
        0
    }

    pub const fn f0_max() -> u8 {
        7
    }

    pub const fn f1_min() -> u8 {
        0
    }

    pub const fn f1_max() -> u8 {
        7
    }

    pub const fn f2_min() -> u8 {
        0
    }

    pub const fn f2_max() -> u8 {
        7
    }

    pub const fn f3_min() -> u8 {
        0
    }

    pub const fn f3_max() -> u8 {
        7
    }

    pub const fn f4_min() -> u8 {
        0
    }

    pub const fn f4_max() -> u8 {
        7
    }
}

#[asn(sequence, extensible_after(f0))]

#[derive(Default, Debug, Clone, PartialEq, Hash)]
pub struct Ts5dmddoe1 {
    #[asn(default(integer(0..7), 5))] pub f0: u8,
    #[asn(optional(integer(0..7)))] pub f1: Option<u8>,
    #[asn(default(integer(0..7), 5))] pub f2: u8,
    #[asn(default(integer(0..7), 5))] pub f3: u8,
    #[asn(optional(integer(0..7)))] pub f4: Option<u8>,
}

impl Ts5dmddoe1 {
    pub const fn f0_min() -> u8 {
        0
    }

    pub const fn f0_max() -> u8 {
        7
    }

    pub const fn f1_min() -> u8 {
        0
    }

    pub const fn f1_max() -> u8 {
        7
    }

    pub const fn f2_min() -> u8 {
        0
    }

    pub const fn f2_max() -> u8 {
        7
    }

    pub const fn f3_min() -> u8 {
        0
    }

    pub const fn f3_max() -> u8 {
        7
    }

    pub const fn f4_min() -> u8 {
        0
    }

    pub const fn f4_max() -> u8 {
        7
    }
}

#[asn(sequence, extensible_after(f1))]

#[derive(Default, Debug, Clone, PartialEq, Hash)]
pub struct Ts5dmddoe2 {
    #[asn(default(integer(0..7), 5))] pub f0: u8,
    #[asn(integer(0..7))] pub f1: u8,
    #[asn(default(integer(0..7), 5))] pub f2: u8,
    #[asn(default(integer(0..7), 5))] pub f3: u8,
    #[asn(optional(integer(0..7)))] pub f4: Option<u8>,
}

impl Ts5dmddoe2 {
    pub const fn f0_min() -> u8 {
        0
    }

    pub const fn f0_max() -> u8 {
        7
    }

    pub const fn f1_min() -> u8 {
        0
    }

    pub const fn f1_max() -> u8 {
        7
    }

    pub const fn f2_min() -> u8 {
        0
    }

    pub const fn f2_max() -> u8 {
        7
    }

    pub const fn f3_min() -> u8 {
        0
    }

    pub const fn f3_max() -> u8 {
        7
    }

    pub const fn f4_min() -> u8 {
        0
    }

    pub const fn f4_max() -> u8 {
        7
    }
}

#[asn(sequence, extensible_after(f2))]

#[derive(Default, Debug, Clone, PartialEq, Hash)]
pub struct Ts5dmddoe3 {
    #[asn(default(integer(0..7), 5))] pub f0: u8,
    #[asn(integer(0..7))] pub f1: u8,
    #[asn(default(integer(0..7), 5))] pub f2: u8,
    #[asn(default(integer(0..7), 5))] pub f3: u8,
    #[asn(optional(integer(0..7)))] pub f4: Option<u8>,
}

impl Ts5dmddoe3 {
    pub const fn f0_min() -> u8 {
        0
    }

    pub const fn f0_max() -> u8 {
        7
    }

    pub const fn f1_min() -> u8 {
        0
    }

    pub const fn f1_max() -> u8 {
        7
    }

    pub const fn f2_min() -> u8 {
        0
    }

    pub const fn f2_max() -> u8 {
        7
    }

    pub const fn f3_min() -> u8 {
        0
    }

    pub const fn f3_max() -> u8 {
        7
    }

    pub const fn f4_min() -> u8 {
        0
    }

    pub const fn f4_max() -> u8 {
        7
    }
}

#[asn(sequence, extensible_after(f3))]

#[derive(Default, Debug, Clone, PartialEq, Hash)]
pub struct Ts5dmddoe4 {
    #[asn(default(integer(0..7), 5))] pub f0: u8,
    #[asn(integer(0..7))] pub f1: u8,
    #[asn(default(integer(0..7), 5))] pub f2: u8,
    #[asn(default(integer(0..7), 5))] pub f3: u8,
    #[asn(optional(integer(0..7)))] pub f4: Option<u8>,
}

impl Ts5dmddoe4 {
    pub const fn f0_min() -> u8 {
        0
    }

    pub const fn f0_max() -> u8 {
        7
    }

    pub const fn f1_min() -> u8 {
        0
    }

    pub const fn f1_max() -> u8 {
        7
    }

    pub const fn f2_min() -> u8 {
        0
    }

    pub const fn f2_max() -> u8 {
        7
    }

    pub const fn f3_min() -> u8 {
        0
    }

    pub const fn f3_max() -> u8 {
        7
    }

    pub const fn f4_min() -> u8 {
        0
    }

    pub const fn f4_max() -> u8 {
        7
    }
}

#[asn(sequence, extensible_after(f4))]

#[derive(Default, Debug, Clone, PartialEq, Hash)]
pub struct Ts5dmddoe5 {
    #[asn(default(integer(0..7), 5))] pub f0: u8,
    #[asn(integer(0..7))] pub f1: u8,
    #[asn(default(integer(0..7), 5))] pub f2: u8,
    #[asn(default(integer(0..7), 5))] pub f3: u8,
    #[asn(optional(integer(0..7)))] pub f4: Option<u8>,
}

impl Ts5dmddoe5 {
    pub const fn f0_min() -> u8 {
        0
    }

    pub const fn f0_max() -> u8 {
        7
    }

    pub const fn f1_min() -> u8 {
        0
    }

    pub const fn f1_max() -> u8 {
        7
    }

    pub const fn f2_min() -> u8 {
        0
    }

    pub const fn f2_max() -> u8 {
        7
    }

    pub const fn f3_min() -> u8 {
        0
    }

    pub const fn f3_max() -> u8 {
        7
    }

    pub const fn f4_min() -> u8 {
        0
    }

    pub const fn f4_max() -> u8 {
        7
    }
}

#[asn(sequence)]

#[derive(Default, Debug, Clone, PartialEq, Hash)]
pub struct Ts5moddon {
    #[asn(integer(0..7))] pub f0: u8,
    #[asn(optional(integer(0..7)))] pub f1: Option<u8>,
    #[asn(default(integer(0..7), 5))] pub f2: u8,
    #[asn(default(integer(0..7), 5))] pub f3: u8,
    #[asn(optional(integer(0..7)))] pub f4: Option<u8>,
}

impl Ts5moddon {
    pub const fn f0_min() -> u8 {
        0
    }

    pub const fn f0_max() -> u8 {
        7
    }

    pub const fn f1_min() -> u8 {
        0
    }

    pub const fn f1_max() -> u8 {
        7
    }

    pub const fn f2_min() -> u8 {
        0
    }

    pub const fn f2_max() -> u8 {
        7
    }

    pub const fn f3_min() -> u8 {
        0
    }

    pub const fn f3_max() -> u8 {
        7
    }

    pub const fn f4_min() -> u8 {
        0
    }

    pub const fn f4_max() -> u8 {
        7
    }
}

#[asn(sequence, extensible_after(f0))]

#[derive(Default, Debug, Clone, PartialEq, Hash)]
pub struct Ts5moddoe0 {
    #[asn(integer(0..7))] pub f0: u8,
    #[asn(optional(integer(0..7)))] pub f1: Option<u8>,
    #[asn(default(integer(0..7), 5))] pub f2: u8,
    #[asn(default(integer(0..7), 5))] pub f3: u8,
    #[asn(optional(integer(0..7)))] pub f4: Option<u8>,
}

impl Ts5moddoe0 {
    pub const fn f0_min() -> u8 {
        0
    }

    pub const fn f0_max() -> u8 {
        7
    }

    pub const fn f1_min() -> u8 {
        0
    }

    pub const fn f1_max() -> u8 {
        7
    }

    pub const fn f2_min() -> u8 {
        0
    }

    pub const fn f2_max() -> u8 {
        7
    }

    pub const fn f3_min() -> u8 {
        0
    }

    pub const fn f3_max() -> u8 {
        7
    }

    pub const fn f4_min() -> u8 {
        0
    }

    pub const fn f4_max() -> u8 {
        7
    }
}

#[asn(sequence, extensible_after(f0))]

#[derive(Default, Debug, Clone, PartialEq, Hash)]
pub struct Ts5moddoe1 {
    #[asn(integer(0..7))] pub f0: u8,
    #[asn(optional(integer(0..7)))] pub f1: Option<u8>,
    #[asn(default(integer(0..7), 5))] pub f2: u8,
    #[asn(default(integer(0..7), 5))] pub f3: u8,
    #[asn(optional(integer(0..7)))] pub f4: Option<u8>,
}

impl Ts5moddoe1 {
    pub const fn f0_min() -> u8 {
        0
    }

    pub const fn f0_max() -> u8 {
        7
    }

    pub const fn f1_min() -> u8 {
        0
    }

    pub const fn f1_max() -> u8 {
        7
    }

    pub const fn f2_min() -> u8 {
        0
    }

    pub const fn f2_max() -> u8 {
        7
    }

    pub const fn f3_min() -> u8 {
        0
    }

    pub const fn f3_max() -> u8 {
        7
    }

    pub const fn f4_min() -> u8 {
        0
    }

    pub const fn f4_max() -> u8 {
        7
    }
}

#[asn(sequence, extensible_after(f1))]

#[derive(Default, Debug, Clone, PartialEq, Hash)]
pub struct Ts5moddoe2 {
    #[asn(integer(0..7))] pub f0: u8,
    #[asn(optional(integer(0..7)))] pub f1: Option<u8>,
    #[asn(default(integer(0..7), 5))] pub f2: u8,
    #[asn(default(integer(0..7), 5))] pub f3: u8,
    #[asn(optional(integer(0..7)))] pub f4: Option<u8>,
}

impl Ts5moddoe2 {
    pub const fn f0_min() -> u8 {
        0
    }

    pub const fn f0_max() -> u8 {
        7
    }

    pub const fn f1_min() -> u8 {
        0
    }

    pub const fn f1_max() -> u8 {
        7
    }

    pub const fn f2_min() -> u8 {
        0
    }

    pub const fn f2_max() -> u8 {
        7
    }

    pub const fn f3_min() -> u8 {
        0
    }

    pub const fn f3_max() -> u8 {
        7
    }

    pub const fn f4_min() -> u8 {
        0
    }

    pub const fn f4_max() -> u8 {
        7
    }
}

#[asn(sequence, extensible_after(f2))]

#[derive(Default, Debug, Clone, PartialEq, Hash)]
pub struct Ts5moddoe3 {
    #[asn(integer(0..7))] pub f0: u8,
    #[asn(optional(integer(0..7)))] pub f1: Option<u8>,
    #[asn(default(integer(0..7), 5))] pub f2: u8,
    #[asn(default(integer(0..7), 5))] pub f3: u8,
    #[asn(optional(integer(0..7)))] pub f4: Option<u8>,
}

impl Ts5moddoe3 {
    pub const fn f0_min() -> u8 {
        0
    }

    pub const fn f0_max() -> u8 {
        7
    }

    pub const fn f1_min() -> u8 {
        0
    }

    pub const fn f1_max() -> u8 {
        7
    }

    pub const fn f2_min() -> u8 {
        0
    }

    pub const fn f2_max() -> u8 {
        7
    }

    pub const fn f3_min() -> u8 {
        0
    }

    pub const fn f3_max() -> u8 {
        7
    }

    pub const fn f4_min() -> u8 {
        0
    }

    pub const fn f4_max() -> u8 {
        7
    }
}

#[asn(sequence, extensible_after(f3))]

#[derive(Default, Debug, Clone, PartialEq, Hash)]
pub struct Ts5moddoe4 {
    #[asn(integer(0..7))] pub f0: u8,
    #[asn(optional(integer(0..7)))] pub f1: Option<u8>,
    #[asn(default(integer(0..7), 5))] pub f2: u8,
    #[asn(default(integer(0..7), 5))] pub f3: u8,
    #[asn(optional(integer(0..7)))] pub f4: Option<u8>,
}

impl Ts5moddoe4 {
    pub const fn f0_min() -> u8 {
        0
    }

    pub const fn f0_max() -> u8 {
        7
    }

    pub const fn f1_min() -> u8 {
        0
    }

    pub const fn f1_max() -> u8 {
        7
    }

    pub const fn f2_min() -> u8 {
        0
    }

    pub const fn f2_max() -> u8 {
        7
    }

    pub const fn f3_min() -> u8 {
        0
    }

    pub const fn f3_max() -> u8 {
        7
    }

    pub const fn f4_min() -> u8 {
        0
    }

    pub const fn f4_max() -> u8 {
        7
    }
}

#[asn(sequence, extensible_after(f4))]

#[derive(Default, Debug, Clone, PartialEq, Hash)]
pub struct Ts5moddoe5 {
    #[asn(integer(0..7))] pub f0: u8,
    #[asn(optional(integer(0..7)))] pub f1: Option<u8>,
    #[asn(default(integer(0..7), 5))] pub f2: u8,
    #[asn(default(integer(0..7), 5))] pub f3: u8,
    #[asn(optional(integer(0..7)))] pub f4: Option<u8>,
}

impl Ts5moddoe5 {
    pub const fn f0_min() -> u8 {
        0
    }

    pub const fn f0_max() -> u8 {
        7
    }

    pub const fn f1_min() -> u8 {
        0
    }

    pub const fn f1_max() -> u8 {
        7
    }

    pub const fn f2_min() -> u8 {
        0
    }

    pub const fn f2_max() -> u8 {
        7
    }

    pub const fn f3_min() -> u8 {
        0
    }

    pub const fn f3_max() -> u8 {
        7
    }

    pub const fn f4_min() -> u8 {
        0
    }

    pub const fn f4_max() -> u8 {
        7
    }
}

#[asn(sequence)]

#[derive(Default, Debug, Clone, PartialEq, Hash)]
pub struct Ts5ooddon {
    #[asn(optional(integer(0..7)))] pub f0: Option<u8>,
    #[asn(optional(integer(0..7)))] pub f1: Option<u8>,
    #[asn(default(integer(0..7), 5))] pub f2: u8,
    #[asn(default(integer(0..7), 5))] pub f3: u8,
    #[asn(optional(integer(0..7)))] pub f4: Option<u8>,
}

impl Ts5ooddon {
    pub const fn f0_min() -> u8 {
        0
    }

    pub const fn f0_max() -> u8 {
        7
    }

    pub const fn f1_min() -> u8 {
        0
    }

    pub const fn f1_max() -> u8 {
        7
    }

    pub const fn f2_min() -> u8 {
        0
    }

    pub const fn f2_max() -> u8 {
        7
    }

    pub const fn f3_min() -> u8 {
        0
    }

    pub const fn f3_max() -> u8 {
        7
    }

    pub const fn f4_min() -> u8 {
        0
    }

    pub const fn f4_max() -> u8 {
        7
    }
}

#[asn(sequence, extensible_after(f0))]

#[derive(Default, Debug, Clone, PartialEq, Hash)]
pub struct Ts5ooddoe0 {
    #[asn(optional(integer(0..7)))] pub f0: Option<u8>,
    #[asn(optional(integer(0..7)))] pub f1: Option<u8>,
    #[asn(default(integer(0..7), 5))] pub f2: u8,
    #[asn(default(integer(0..7), 5))] pub f3: u8,
    #[asn(optional(integer(0..7)))] pub f4: Option<u8>,
}

impl Ts5ooddoe0 {
    pub const fn f0_min() -> u8 {
        0
    }

    pub const fn f0_max() -> u8 {
        7
    }

    pub const fn f1_min() -> u8 {
        0
    }

    pub const fn f1_max() -> u8 {
        7
    }

    pub const fn f2_min() -> u8 {
        0
    }

    pub const fn f2_max() -> u8 {
        7
    }

    pub const fn f3_min() -> u8 {
        0
    }

    pub const fn f3_max() -> u8 {
        7
    }

    pub const fn f4_min() -> u8 {
        0
    }

    pub const fn f4_max() -> u8 {
        7
    }
}

#[asn(sequence, extensible_after(f0))]

#[derive(Default, Debug, Clone, PartialEq, Hash)]
pub struct Ts5ooddoe1 {
    #[asn(optional(integer(0..7)))] pub f0: Option<u8>,
    #[asn(optional(integer(0..7)))] pub f1: Option<u8>,
    #[asn(default(integer(0..7), 5))] pub f2: u8,
    #[asn(default(integer(0..7), 5))] pub f3: u8,
    #[asn(optional(integer(0..7)))] pub f4: Option<u8>,
}

impl Ts5ooddoe1 {
    pub const fn f0_min() -> u8 {
        0
    }

    pub const fn f0_max() -> u8 {
        7
    }

    pub const fn f1_min() -> u8 {
        0
    }

    pub const fn f1_max() -> u8 {
        7
    }

    pub const fn f2_min() -> u8 {
        0
    }

    pub const fn f2_max() -> u8 {
        7
    }

    pub const fn f3_min() -> u8 {
        0
    }

    pub const fn f3_max() -> u8 {
        7
    }

    pub const fn f4_min() -> u8 {
        0
    }

    pub const fn f4_max() -> u8 {
        7
    }
}

#[asn(sequence, extensible_after(f1))]

#[derive(Default, Debug, Clone, PartialEq, Hash)]
pub struct Ts5ooddoe2 {
    #[asn(optional(integer(0..7)))] pub f0: Option<u8>,
    #[asn(optional(integer(0..7)))] pub f1: Option<u8>,
    #[asn(default(integer(0..7), 5))] pub f2: u8,
    #[asn(default(integer(0..7), 5))] pub f3: u8,
    #[asn(optional(integer(0..7)))] pub f4: Option<u8>,
}

impl Ts5ooddoe2 {
    pub const fn f0_min() -> u8 {
        0
    }

    pub const fn f0_max() -> u8 {
        7
    }

    pub const fn f1_min() -> u8 {
        0
    }

    pub const fn f1_max() -> u8 {
        7
    }

    pub const fn f2_min() -> u8 {
        0
    }

    pub const fn f2_max() -> u8 {
        7
    }

    pub const fn f3_min() -> u8 {
        0
    }

    pub const fn f3_max() -> u8 {
        7
    }

    pub const fn f4_min() -> u8 {
        0
    }

    pub const fn f4_max() -> u8 {
        7
    }
}

#[asn(sequence, extensible_after(f2))]

#[derive(Default, Debug, Clone, PartialEq, Hash)]
pub struct Ts5ooddoe3 {
    #[asn(optional(integer(0..7)))] pub f0: Option<u8>,
    #[asn(optional(integer(0..7)))] pub f1: Option<u8>,
    #[asn(default(integer(0..7), 5))] pub f2: u8,
    #[asn(default(integer(0..7), 5))] pub f3: u8,
    #[asn(optional(integer(0..7)))] pub f4: Option<u8>,
}

impl Ts5ooddoe3 {
    pub const fn f0_min() -> u8 {
        0
    }

    pub const fn f0_max() -> u8 {
        7
    }

    pub const fn f1_min() -> u8 {
        0
    }

    pub const fn f1_max() -> u8 {
        7
    }

    pub const fn f2_min() -> u8 {
        0
    }

    pub const fn f2_max() -> u8 {
        7
    }

    pub const fn f3_min() -> u8 {
        0
    }

    pub const fn f3_max() -> u8 {
        7
    }

    pub const fn f4_min() -> u8 {
        0
    }

    pub const fn f4_max() -> u8 {
        7
    }
}

#[asn(sequence, extensible_after(f3))]

#[derive(Default, Debug, Clone, PartialEq, Hash)]
pub struct Ts5ooddoe4 {
    #[asn(optional(integer(0..7)))] pub f0: Option<u8>,
    #[asn(optional(integer(0..7)))] pub f1: Option<u8>,
    #[asn(default(integer(0..7), 5))] pub f2: u8,
    #[asn(default(integer(0..7), 5))] pub f3: u8,
    #[asn(optional(integer(0..7)))] pub f4: Option<u8>,
}

impl Ts5ooddoe4 {
    pub const fn f0_min() -> u8 {
        0
    }

    pub const fn f0_max() -> u8 {
        7
    }

    pub const fn f1_min() -> u8 {
        0
    }

    pub const fn f1_max() -> u8 {
        7
    }

    pub const fn f2_min() -> u8 {
        0
    }

    pub const fn f2_max() -> u8 {
        7
    }

    pub const fn f3_min() -> u8 {
        0
    }

    pub const fn f3_max() -> u8 {
        7
    }

    pub const fn f4_min() -> u8 {
        0
    }

    pub const fn f4_max() -> u8 {
        7
    }
}

#[asn(sequence, extensible_after(f4))]

#[derive(Default, Debug, Clone, PartialEq, Hash)]
pub struct Ts5ooddoe5 {
    #[asn(optional(integer(0..7)))] pub f0: Option<u8>,
    #[asn(optional(integer(0..7)))] pub f1: Option<u8>,
    #[asn(default(integer(0..7), 5))] pub f2: u8,
    #[asn(default(integer(0..7), 5))] pub f3: u8,
    #[asn(optional(integer(0..7)))] pub f4: Option<u8>,
}

impl Ts5ooddoe5 {
    pub const fn f0_min() -> u8 {
        0
    }

    pub const fn f0_max() -> u8 {
        7
    }

    pub const fn f1_min() -> u8 {
        0
    }

    pub const fn f1_max() -> u8 {
        7
    }

    pub const fn f2_min() -> u8 {
        0
    }

    pub const fn f2_max() -> u8 {
        7
    }

    pub const fn f3_min() -> u8 {
        0
    }

    pub const fn f3_max() -> u8 {
        7
    }

    pub const fn f4_min() -> u8 {
        0
    }

    pub const fn f4_max() -> u8 {
        7
    }
}

#[asn(sequence)]

#[derive(Default, Debug, Clone, PartialEq, Hash)]
pub struct Ts5doddon {
    #[asn(default(integer(0..7), 5))] pub f0: u8,
    #[asn(optional(integer(0..7)))] pub f1: Option<u8>,
    #[asn(default(integer(0..7), 5))] pub f2: u8,
    #[asn(default(integer(0..7), 5))] pub f3: u8,
    #[asn(optional(integer(0..7)))] pub f4: Option<u8>,
}

impl Ts5doddon {
    pub const fn f0_min() -> u8 {
        0
    }

    pub const fn f0_max() -> u8 {
        7
    }

    pub const fn f1_min() -> u8 {
        0
    }

    pub const fn f1_max() -> u8 {
        7
    }

    pub const fn f2_min() -> u8 {
        0
    }

    pub const fn f2_max() -> u8 {
        7
    }

    pub const fn f3_min() -> u8 {
        0
    }

    pub const fn f3_max() -> u8 {
        7
    }

    pub const fn f4_min() -> u8 {
        0
    }

    pub const fn f4_max() -> u8 {
        7
    }
}

#[asn(sequence, extensible_after(f0))]

#[derive(Default, Debug, Clone, PartialEq, Hash)]
pub struct Ts5doddoe0 {
    #[asn(default(integer(0..7), 5))] pub f0: u8,
    #[asn(optional(integer(0..7)))] pub f1: Option<u8>,
    #[asn(default(integer(0..7), 5))] pub f2: u8,
    #[asn(default(integer(0..7), 5))] pub f3: u8,
    #[asn(optional(integer(0..7)))] pub f4: Option<u8>,
}

impl Ts5doddoe0 {
    pub const fn f0_min() -> u8 {
        0
    }

    pub const fn f0_max() -> u8 {
        7
    }

    pub const fn f1_min() -> u8 {
        0
    }

    pub const fn f1_max() -> u8 {
        7
    }

    pub const fn f2_min() -> u8 {
        0
    }

    pub const fn f2_max() -> u8 {
        7
    }

    pub const fn f3_min() -> u8 {
        0
    }

    pub const fn f3_max() -> u8 {
        7
    }

    pub const fn f4_min() -> u8 {
        0
    }

    pub const fn f4_max() -> u8 {
        7
    }
}

#[asn(sequence, extensible_after(f0))]

#[derive(Default, Debug, Clone, PartialEq, Hash)]
pub struct Ts5doddoe1 {
    #[asn(default(integer(0..7), 5))] pub f0: u8,
    #[asn(optional(integer(0..7)))] pub f1: Option<u8>,
    #[asn(default(integer(0..7), 5))] pub f2: u8,
    #[asn(default(integer(0..7), 5))] pub f3: u8,
    #[asn(optional(integer(0..7)))] pub f4: Option<u8>,
}

impl Ts5doddoe1 {
    pub const fn f0_min() -> u8 {
        0
    }

    pub const fn f0_max() -> u8 {
        7
    }

    pub const fn f1_min() -> u8 {
        0
    }

    pub const fn f1_max() -> u8 {
        7
    }

    pub const fn f2_min() -> u8 {
        0
    }

    pub const fn f2_max() -> u8 {
        7
    }

    pub const fn f3_min() -> u8 {
        0
    }

    pub const fn f3_max() -> u8 {
        7
    }

    pub const fn f4_min() -> u8 {
        0
    }

    pub const fn f4_max() -> u8 {
        7
    }
}

#[asn(sequence, extensible_after(f1))]

#[derive(Default, Debug, Clone, PartialEq, Hash)]
pub struct Ts5doddoe2 {
    #[asn(default(integer(0..7), 5))] pub f0: u8,
    #[asn(optional(integer(0..7)))] pub f1: Option<u8>,
    #[asn(default(integer(0..7), 5))] pub f2: u8,
    #[asn(default(integer(0..7), 5))] pub f3: u8,
    #[asn(optional(integer(0..7)))] pub f4: Option<u8>,
}

impl Ts5doddoe2 {
    pub const fn f0_min() -> u8 {
        0
    }

    pub const fn f0_max() -> u8 {
        7
    }

    pub const fn f1_min() -> u8 {
        0
    }

    pub const fn f1_max() -> u8 {
        7
    }

    pub const fn f2_min() -> u8 {
        0
    }

    pub const fn f2_max() -> u8 {
        7
    }

    pub const fn f3_min() -> u8 {
        0
    }

    pub const fn f3_max() -> u8 {
        7
    }

    pub const fn f4_min() -> u8 {
        0
    }

    pub const fn f4_max() -> u8 {
        7
    }
}

#[asn(sequence, extensible_after(f2))]

#[derive(Default, Debug, Clone, PartialEq, Hash)]
pub struct Ts5doddoe3 {
    #[asn(default(integer(0..7), 5))] pub f0: u8,
    #[asn(optional(integer(0..7)))] pub f1: Option<u8>,
    #[asn(default(integer(0..7), 5))] pub f2: u8,
    #[asn(default(integer(0..7), 5))] pub f3: u8,
    #[asn(optional(integer(0..7)))] pub f4: Option<u8>,
}

impl Ts5doddoe3 {
    pub const fn f0_min() -> u8 {
        0
    }

    pub const fn f0_max() -> u8 {
        7
    }

    pub const fn f1_min() -> u8 {
        0
    }

    pub const fn f1_max() -> u8 {
        7
    }

    pub const fn f2_min() -> u8 {
        0
    }

    pub const fn f2_max() -> u8 {
        7
    }

    pub const fn f3_min() -> u8 {
        0
    }

    pub const fn f3_max() -> u8 {
        7
    }

    pub const fn f4_min() -> u8 {
        0
    }

    pub const fn f4_max() -> u8 {
        7
    }
}

#[asn(sequence, extensible_after(f3))]

#[derive(Default, Debug, Clone, PartialEq, Hash)]
pub struct Ts5doddoe4 {
    #[asn(default(integer(0..7), 5))] pub f0: u8,
    #[asn(optional(integer(0..7)))] pub f1: Option<u8>,
    #[asn(default(integer(0..7), 5))] pub f2: u8,
    #[asn(default(integer(0..7), 5))] pub f3: u8,
    #[asn(optional(integer(0..7)))] pub f4: Option<u8>,
}

impl Ts5doddoe4 {
    pub const fn f0_min() -> u8 {
        0
    }

    pub const fn f0_max() -> u8 {
        7
    }

    pub const fn f1_min() -> u8 {
        0
    }

    pub const fn f1_max() -> u8 {
        7
    }

    pub const fn f2_min() -> u8 {
        0
    }

    pub const fn f2_max() -> u8 {
        7
    }

    pub const fn f3_min() -> u8 {
        0
    }

    pub const fn f3_max() -> u8 {
        7
    }

    pub const fn f4_min() -> u8 {
        0
    }

    pub const fn f4_max() -> u8 {
        7
    }
}

#[asn(sequence, extensible_after(f4))]

#[derive(Default, Debug, Clone, PartialEq, Hash)]
pub struct Ts5doddoe5 {
    #[asn(default(integer(0..7), 5))] pub f0: u8,
    #[asn(optional(integer(0..7)))] pub f1: Option<u8>,
    #[asn(default(integer(0..7), 5))] pub f2: u8,
    #[asn(default(integer(0..7), 5))] pub f3: u8,
    #[asn(optional(integer(0..7)))] pub f4: Option<u8>,
}

impl Ts5doddoe5 {
    pub const fn f0_min() -> u8 {
        0
    }

    pub const fn f0_max() -> u8 {
        7
    }

    pub const fn f1_min() -> u8 {
        0
    }

    pub const fn f1_max() -> u8 {
        7
    }

    pub const fn f2_min() -> u8 {
        0
    }

    pub const fn f2_max() -> u8 {
        7
    }

    pub const fn f3_min() -> u8 {
        0
    }

    pub const fn f3_max() -> u8 {
        7
    }

    pub const fn f4_min() -> u8 {
        0
    }

    pub const fn f4_max() -> u8 {
        7
    }
}

#[asn(sequence)]

#[derive(Default, Debug, Clone, PartialEq, Hash)]
pub struct Ts5mdddon {
    #[asn(integer(0..7))] pub f0: u8,
    #[asn(default(integer(0..7), 5))] pub f1: u8,
    #[asn(default(integer(0..7), 5))] pub f2: u8,
    #[asn(default(integer(0..7), 5))] pub f3: u8,
    #[asn(optional(integer(0..7)))] pub f4: Option<u8>,
}

impl Ts5mdddon {
    pub const fn f0_min() -> u8 {
        0
    }

    pub const fn f0_max() -> u8 {
        7
    }

    pub const fn f1_min() -> u8 {
        0
    }

    pub const fn f1_max() -> u8 {
        7
    }

    pub const fn f2_min() -> u8 {
        0
    }

    pub const fn f2_max() -> u8 {
        7
    }

    pub const fn f3_min() -> u8 {
        0
    }

    pub const fn f3_max() -> u8 {
        7
    }

    pub const fn f4_min() -> u8 {
        0
    }

    pub const fn f4_max() -> u8 {
        7
    }
}

#[asn(sequence, extensible_after(f0))]

#[derive(Default, Debug, Clone, PartialEq, Hash)]
pub struct Ts5mdddoe0 {
    #[asn(integer(0..7))] pub f0: u8,
    #[asn(default(integer(0..7), 5))] pub f1: u8,
    #[asn(default(integer(0..7), 5))] pub f2: u8,
    #[asn(default(integer(0..7), 5))] pub f3: u8,
    #[asn(optional(integer(0..7)))] pub f4: Option<u8>,
}

impl Ts5mdddoe0 {
    pub const fn f0_min() -> u8 {
        0
    }

    pub const fn f0_max() -> u8 {
        7
    }

    pub const fn f1_min() -> u8 {
        0
    }

    pub const fn f1_max() -> u8 {
        7
    }

    pub const fn f2_min() -> u8 {
        0
    }

    pub const fn f2_max() -> u8 {
        7
    }

    pub const fn f3_min() -> u8 {
        0
    }

    pub const fn f3_max() -> u8 {
        7
    }

    pub const fn f4_min() -> u8 {
        0
    }

    pub const fn f4_max() -> u8 {
        7
    }
}

#[asn(sequence, extensible_after(f0))]

#[derive(Default, Debug, Clone, PartialEq, Hash)]
pub struct Ts5mdddoe1 {
    #[asn(integer(0..7))] pub f0: u8,
    #[asn(default(integer(0..7), 5))] pub f1: u8,
    #[asn(default(integer(0..7), 5))] pub f2: u8,
    #[asn(default(integer(0..7), 5))] pub f3: u8,
    #[asn(optional(integer(0..7)))] pub f4: Option<u8>,
}

impl Ts5mdddoe1 {
    pub const fn f0_min() -> u8 {
        0
    }

    pub const fn f0_max() -> u8 {
        7
    }

    pub const fn f1_min() -> u8 {
        0
    }

    pub const fn f1_max() -> u8 {
        7
    }

    pub const fn f2_min() -> u8 {
        0
    }

    pub const fn f2_max() -> u8 {
        7
    }

    pub const fn f3_min() -> u8 {
        0
    }

    pub const fn f3_max() -> u8 {
        7
    }

    pub const fn f4_min() -> u8 {
        0
    }

    pub const fn f4_max() -> u8 {
        7
    }
}

#[asn(sequence, extensible_after(f1))]

#[derive(Default, Debug, Clone, PartialEq, Hash)]
pub struct Ts5mdddoe2 {
    #[asn(integer(0..7))] pub f0: u8,
    #[asn(default(integer(0..7), 5))] pub f1: u8,
    #[asn(default(integer(0..7), 5))] pub f2: u8,
    #[asn(default(integer(0..7), 5))] pub f3: u8,
    #[asn(optional(integer(0..7)))] pub f4: Option<u8>,
}

impl Ts5mdddoe2 {
    pub const fn f0_min() -> u8 {
        0
    }

    pub const fn f0_max() -> u8 {
        7
    }

    pub const fn f1_min() -> u8 {
        0
    }

    pub const fn f1_max() -> u8 {
        7
    }

    pub const fn f2_min() -> u8 {
        0
    }

    pub const fn f2_max() -> u8 {
        7
    }

    pub const fn f3_min() -> u8 {
        0
    }

    pub const fn f3_max() -> u8 {
        7
    }

    pub const fn f4_min() -> u8 {
        0
    }

    pub const fn f4_max() -> u8 {
        7
    }
}

#[asn(sequence, extensible_after(f2))]

#[derive(Default, Debug, Clone, PartialEq, Hash)]
pub struct Ts5mdddoe3 {
    #[asn(integer(0..7))] pub f0: u8,
    #[asn(default(integer(0..7), 5))] pub f1: u8,
    #[asn(default(integer(0..7), 5))] pub f2: u8,
    #[asn(default(integer(0..7), 5))] pub f3: u8,
    #[asn(optional(integer(0..7)))] pub f4: Option<u8>,
}

impl Ts5mdddoe3 {
    pub const fn f0_min() -> u8 {
        0
    }

    pub const fn f0_max() -> u8 {
        7
    }

    pub const fn f1_min() -> u8 {
        0
    }

    pub const fn f1_max() -> u8 {
        7
    }

    pub const fn f2_min() -> u8 {
        0
    }

    pub const fn f2_max() -> u8 {
        7
    }

    pub const fn f3_min() -> u8 {
        0
    }

    pub const fn f3_max() -> u8 {
        7
    }

    pub const fn f4_min() -> u8 {
        0
    }

    pub const fn f4_max() -> u8 {
        7
    }
}

#[asn(sequence, extensible_after(f3))]

#[derive(Default, Debug, Clone, PartialEq, Hash)]
pub struct Ts5mdddoe4 {
    #[asn(integer(0..7))] pub f0: u8,
    #[asn(default(integer(0..7), 5))] pub f1: u8,
    #[asn(default(integer(0..7), 5))] pub f2: u8,
    #[asn(default(integer(0..7), 5))] pub f3: u8,
    #[asn(optional(integer(0..7)))] pub f4: Option<u8>,
}

impl Ts5mdddoe4 {
    pub const fn f0_min() -> u8 {
        0
    }

    pub const fn f0_max() -> u8 {
        7
    }

    pub const fn f1_min() -> u8 {
        0
    }

    pub const fn f1_max() -> u8 {
        7
    }

    pub const fn f2_min() -> u8 {
        0
    }

    pub const fn f2_max() -> u8 {
        7
    }

    pub const fn f3_min() -> u8 {
        0
    }

    pub const fn f3_max() -> u8 {
        7
    }

    pub const fn f4_min() -> u8 {
        0
    }

    pub const fn f4_max() -> u8 {
        7
    }
}

#[asn(sequence, extensible_after(f4))]

#[derive(Default, Debug, Clone, PartialEq, Hash)]
pub struct Ts5mdddoe5 {
    #[asn(integer(0..7))] pub f0: u8,
    #[asn(default(integer(0..7), 5))] pub f1: u8,
    #[asn(default(integer(0..7), 5))] pub f2: u8,
    #[asn(default(integer(0..7), 5))] pub f3: u8,
    #[asn(optional(integer(0..7)))] pub f4: Option<u8>,
}

impl Ts5mdddoe5 {
    pub const fn f0_min() -> u8 {
        0
    }

    pub const fn f0_max() -> u8 {
        7
    }

    pub const fn f1_min() -> u8 {
        0
    }

    pub const fn f1_max() -> u8 {
        7
    }

    pub const fn f2_min() -> u8 {
        0
    }

    pub const fn f2_max() -> u8 {
        7
    }

    pub const fn f3_min() -> u8 {
        0
    }

    pub const fn f3_max() -> u8 {
        7
    }

    pub const fn f4_min() -> u8 {
        0
    }

    pub const fn f4_max() -> u8 {
        7
    }
}

#[asn(sequence)]

#[derive(Default, Debug, Clone, PartialEq, Hash)]
pub struct Ts5odddon {
    #[asn(optional(integer(0..7)))] pub f0: Option<u8>,
    #[asn(default(integer(0..7), 5))] pub f1: u8,
    #[asn(default(integer(0..7), 5))] pub f2: u8,
    #[asn(default(integer(0..7), 5))] pub f3: u8,
    #[asn(optional(integer(0..7)))] pub f4: Option<u8>,
}

impl Ts5odddon {
    pub const fn f0_min() -> u8 {
        0
    }

    pub const fn f0_max() -> u8 {
        7
    }

    pub const fn f1_min() -> u8 {
        0
    }

    pub const fn f1_max() -> u8 {
        7
    }

    pub const fn f2_min() -> u8 {
        0
    }

    pub const fn f2_max() -> u8 {
        7
    }

    pub const fn f3_min() -> u8 {
        0
    }

    pub const fn f3_max() -> u8 {
        7
    }

    pub const fn f4_min() -> u8 {
        0
    }

    pub const fn f4_max() -> u8 {
        7
    }
}

#[asn(sequence, extensible_after(f0))]

#[derive(Default, Debug, Clone, PartialEq, Hash)]
pub struct Ts5odddoe0 {
    #[asn(optional(integer(0..7)))] pub f0: Option<u8>,
    #[asn(default(integer(0..7), 5))] pub f1: u8,
    #[asn(default(integer(0..7), 5))] pub f2: u8,
    #[asn(default(integer(0..7), 5))] pub f3: u8,
    #[asn(optional(integer(0..7)))] pub f4: Option<u8>,
}

impl Ts5odddoe0 {
    pub const fn f0_min() -> u8 {
        0
    }

    pub const fn f0_max() -> u8 {
        7
    }

    pub const fn f1_min() -> u8 {
        0
    }

    pub const fn f1_max() -> u8 {
        7
    }

    pub const fn f2_min() -> u8 {
        0
    }

    pub const fn f2_max() -> u8 {
        7
    }

    pub const fn f3_min() -> u8 {
        0
    }

    pub const fn f3_max() -> u8 {
        7
    }

    pub const fn f4_min() -> u8 {
        0
    }

    pub const fn f4_max() -> u8 {
        7
    }
}

#[asn(sequence, extensible_after(f0))]

#[derive(Default, Debug, Clone, PartialEq, Hash)]
pub struct Ts5odddoe1 {
    #[asn(optional(integer(0..7)))] pub f0: Option<u8>,
    #[asn(default(integer(0..7), 5))] pub f1: u8,
    #[asn(default(integer(0..7), 5))] pub f2: u8,
    #[asn(default(integer(0..7), 5))] pub f3: u8,
    #[asn(optional(integer(0..7)))] pub f4: Option<u8>,
}

impl Ts5odddoe1 {
    pub const fn f0_min() -> u8 {
        0
    }

    pub const fn f0_max() -> u8 {
        7
    }

    pub const fn f1_min() -> u8 {
        0
    }

    pub const fn f1_max() -> u8 {
        7
    }

    pub const fn f2_min() -> u8 {
        0
    }

    pub const fn f2_max() -> u8 {
        7
    }

    pub const fn f3_min() -> u8 {
        0
    }

    pub const fn f3_max() -> u8 {
        7
    }

    pub const fn f4_min() -> u8 {
        0
    }

    pub const fn f4_max() -> u8 {
        7
    }
}

#[asn(sequence, extensible_after(f1))]

#[derive(Default, Debug, Clone, PartialEq, Hash)]
pub struct Ts5odddoe2 {
    #[asn(optional(integer(0..7)))] pub f0: Option<u8>,
    #[asn(default(integer(0..7), 5))] pub f1: u8,
    #[asn(default(integer(0..7), 5))] pub f2: u8,
    #[asn(default(integer(0..7), 5))] pub f3: u8,
    #[asn(optional(integer(0..7)))] pub f4: Option<u8>,
}

impl Ts5odddoe2 {
    pub const fn f0_min() -> u8 {
        0
    }

    pub const fn f0_max() -> u8 {
        7
    }

    pub const fn f1_min() -> u8 {
        0
    }

    pub const fn f1_max() -> u8 {
        7
    }

    pub const fn f2_min() -> u8 {
        0
    }

    pub const fn f2_max() -> u8 {
        7
    }

    pub const fn f3_min() -> u8 {
        0
    }

    pub const fn f3_max() -> u8 {
        7
    }

    pub const fn f4_min() -> u8 {
        0
    }

    pub const fn f4_max() -> u8 {
        7
    }
}

#[asn(sequence, extensible_after(f2))]

#[derive(Default, Debug, Clone, PartialEq, Hash)]
pub struct Ts5odddoe3 {
    #[asn(optional(integer(0..7)))] pub f0: Option<u8>,
    #[asn(default(integer(0..7), 5))] pub f1: u8,
    #[asn(default(integer(0..7), 5))] pub f2: u8,
    #[asn(default(integer(0..7), 5))] pub f3: u8,
    #[asn(optional(integer(0..7)))] pub f4: Option<u8>,
}

impl Ts5odddoe3 {
    pub const fn f0_min() -> u8 {
        0
    }

    pub const fn f0_max() -> u8 {
        7
    }

    pub const fn f1_min() -> u8 {
        0
    }

    pub const fn f1_max() -> u8 {
        7
    }

    pub const fn f2_min() -> u8 {
        0
    }

    pub const fn f2_max() -> u8 {
        7
    }

    pub const fn f3_min() -> u8 {
        0
    }

    pub const fn f3_max() -> u8 {
        7
    }

    pub const fn f4_min() -> u8 {
        0
    }

    pub const fn f4_max() -> u8 {
        7
    }
}

#[asn(sequence, extensible_after(f3))]

#[derive(Default, Debug, Clone, PartialEq, Hash)]
pub struct Ts5odddoe4 {
    #[asn(optional(integer(0..7)))] pub f0: Option<u8>,
    #[asn(default(integer(0..7), 5))] pub f1: u8,
    #[asn(default(integer(0..7), 5))] pub f2: u8,
    #[asn(default(integer(0..7), 5))] pub f3: u8,
    #[asn(optional(integer(0..7)))] pub f4: Option<u8>,
}

impl Ts5odddoe4 {
    pub const fn f0_min() -> u8 {
        0
    }

    pub const fn f0_max() -> u8 {
        7
    }

    pub const fn f1_min() -> u8 {
        0
    }

    pub const fn f1_max() -> u8 {
        7
    }

    pub const fn f2_min() -> u8 {
        0
    }

    pub const fn f2_max() -> u8 {
        7
    }

    pub const fn f3_min() -> u8 {
        0
    }

    pub const fn f3_max() -> u8 {
        7
    }

    pub const fn f4_min() -> u8 {
        0
    }

    pub const fn f4_max() -> u8 {
        7
    }
}

#[asn(sequence, extensible_after(f4))]

#[derive(Default, Debug, Clone, PartialEq, Hash)]
pub struct Ts5odddoe5 {
    #[asn(optional(integer(0..7)))] pub f0: Option<u8>,
    #[asn(default(integer(0..7), 5))] pub f1: u8,
    #[asn(default(integer(0..7), 5))] pub f2: u8,
    #[asn(default(integer(0..7), 5))] pub f3: u8,
    #[asn(optional(integer(0..7)))] pub f4: Option<u8>,
}

impl Ts5odddoe5 {
    pub const fn f0_min() -> u8 {
        0
    }

    pub const fn f0_max() -> u8 {
        7
    }

    pub const fn f1_min() -> u8 {
        0
    }

    pub const fn f1_max() -> u8 {
        7
    }

    pub const fn f2_min() -> u8 {
        0
    }

    pub const fn f2_max() -> u8 {
        7
    }

    pub const fn f3_min() -> u8 {
        0
    }

    pub const fn f3_max() -> u8 {
        7
    }

    pub const fn f4_min() -> u8 {
        0
    }

    pub const fn f4_max() -> u8 {
        7
    }
}

#[asn(sequence)]

#[derive(Default, Debug, Clone, PartialEq, Hash)]
pub struct Ts5ddddon {
    #[asn(default(integer(0..7), 5))] pub f0: u8,
    #[asn(default(integer(0..7), 5))] pub f1: u8,
    #[asn(default(integer(0..7), 5))] pub f2: u8,
    #[asn(default(integer(0..7), 5))] pub f3: u8,
    #[asn(optional(integer(0..7)))] pub f4: Option<u8>,
}

impl Ts5ddddon {
    pub const fn f0_min() -> u8 {
        0
    }

    pub const fn f0_max() -> u8 {
        7
    }

    pub const fn f1_min() -> u8 {
        0
    }

    pub const fn f1_max() -> u8 {
        7
    }

    pub const fn f2_min() -> u8 {
        0
    }

    pub const fn f2_max() -> u8 {
        7
    }

    pub const fn f3_min() -> u8 {
        0
    }

    pub const fn f3_max() -> u8 {
        7
    }

    pub const fn f4_min() -> u8 {
        0
    }

    pub const fn f4_max() -> u8 {
        7
    }
}

#[asn(sequence, extensible_after(f0))]

#[derive(Default, Debug, Clone, PartialEq, Hash)]
pub struct Ts5ddddoe0 {
    #[asn(default(integer(0..7), 5))] pub f0: u8,
    #[asn(default(integer(0..7), 5))] pub f1: u8,
    #[asn(default(integer(0..7), 5))] pub f2: u8,
    #[asn(default(integer(0..7), 5))] pub f3: u8,
    #[asn(optional(integer(0..7)))] pub f4: Option<u8>,
}

impl Ts5ddddoe0 {
    pub const fn f0_min() -> u8 {
        0
    }

    pub const fn f0_max() -> u8 {
        7
    }

    pub const fn f1_min() -> u8 {
        0
    }

    pub const fn f1_max() -> u8 {
        7
    }

    pub const fn f2_min() -> u8 {
        0
    }

    pub const fn f2_max() -> u8 {
        7
    }

    pub const fn f3_min() -> u8 {
        0
    }

    pub const fn f3_max() -> u8 {
        7
    }

    pub const fn f4_min() -> u8 {
        0
    }

    pub const fn f4_max() -> u8 {
        7
    }
}

#[asn(sequence, extensible_after(f0))]

#[derive(Default, Debug, Clone, PartialEq, Hash)]
pub struct Ts5ddddoe1 {
    #[asn(default(integer(0..7), 5))] pub f0: u8,
    #[asn(default(integer(0..7), 5))] pub f1: u8,
    #[asn(default(integer(0..7), 5))] pub f2: u8,
    #[asn(default(integer(0..7), 5))] pub f3: u8,
    #[asn(optional(integer(0..7)))] pub f4: Option<u8>,
}

impl Ts5ddddoe1 {
    pub const fn f0_min() -> u8 {
        0
    }

    pub const fn f0_max() -> u8 {
        7
    }

    pub const fn f1_min() -> u8 {
        0
    }

    pub const fn f1_max() -> u8 {
        7
    }

    pub const fn f2_min() -> u8 {
        0
    }

    pub const fn f2_max() -> u8 {
        7
    }

    pub const fn f3_min() -> u8 {
        0
    }

    pub const fn f3_max() -> u8 {
        7
    }

    pub const fn f4_min() -> u8 {
        0
    }

    pub const fn f4_max() -> u8 {
        7
    }
}

#[asn(sequence, extensible_after(f1))]

#[derive(Default, Debug, Clone, PartialEq, Hash)]
pub struct Ts5ddddoe2 {
    #[asn(default(integer(0..7), 5))] pub f0: u8,
    #[asn(default(integer(0..7), 5))] pub f1: u8,
    #[asn(default(integer(0..7), 5))] pub f2: u8,
    #[asn(default(integer(0..7), 5))] pub f3: u8,
    #[asn(optional(integer(0..7)))] pub f4: Option<u8>,
}

impl Ts5ddddoe2 {
    pub const fn f0_min() -> u8 {
        0
    }

    pub const fn f0_max() -> u8 {
        7
    }

    pub const fn f1_min() -> u8 {
        0
    }

    pub const fn f1_max() -> u8 {
        7
    }

    pub const fn f2_min() -> u8 {
        0
    }

    pub const fn f2_max() -> u8 {
        7
    }

    pub const fn f3_min() -> u8 {
        0
    }

    pub const fn f3_max() -> u8 {
        7
    }

    pub const fn f4_min() -> u8 {
        0
    }

    pub const fn f4_max() -> u8 {
        7
    }
}

#[asn(sequence, extensible_after(f2))]

#[derive(Default, Debug, Clone, PartialEq, Hash)]
pub struct Ts5ddddoe3 {
    #[asn(default(integer(0..7), 5))] pub f0: u8,
    #[asn(default(integer(0..7), 5))] pub f1: u8,
    #[asn(default(integer(0..7), 5))] pub f2: u8,
    #[asn(default(integer(0..7), 5))] pub f3: u8,
    #[asn(optional(integer(0..7)))] pub f4: Option<u8>,
}

impl Ts5ddddoe3 {
    pub const fn f0_min() -> u8 {
        0
    }

    pub const fn f0_max() -> u8 {
        7
    }

    pub const fn f1_min() -> u8 {
        0
    }

    pub const fn f1_max() -> u8 {
        7
    }

    pub const fn f2_min() -> u8 {
        0
    }

    pub const fn f2_max() -> u8 {
        7
    }

    pub const fn f3_min() -> u8 {
        0
    }

    pub const fn f3_max() -> u8 {
        7
    }

    pub const fn f4_min() -> u8 {
        0
    }

    pub const fn f4_max() -> u8 {
        7
    }
}

#[asn(sequence, extensible_after(f3))]

#[derive(Default, Debug, Clone, PartialEq, Hash)]
pub struct Ts5ddddoe4 {
    #[asn(default(integer(0..7), 5))] pub f0: u8,
    #[asn(default(integer(0..7), 5))] pub f1: u8,
    #[asn(default(integer(0..7), 5))] pub f2: u8,
    #[asn(default(integer(0..7), 5))] pub f3: u8,
    #[asn(optional(integer(0..7)))] pub f4: Option<u8>,
}

impl Ts5ddddoe4 {
    pub const fn f0_min() -> u8 {
        0
    }

    pub const fn f0_max() -> u8 {
        7
    }

    pub const fn f1_min() -> u8 {
        0
    }

    pub const fn f1_max() -> u8 {
        7
    }

    pub const fn f2_min() -> u8 {
        0
    }

    pub const fn f2_max() -> u8 {
        7
    }

    pub const fn f3_min() -> u8 {
        0
    }

    pub const fn f3_max() -> u8 {
        7
    }

    pub const fn f4_min() -> u8 {
        0
    }

    pub const fn f4_max() -> u8 {
        7
    }
}

#[asn(sequence, extensible_after(f4))]

#[derive(Default, Debug, Clone, PartialEq, Hash)]
pub struct Ts5ddddoe5 {
    #[asn(default(integer(0..7), 5))] pub f0: u8,
    #[asn(default(integer(0..7), 5))] pub f1: u8,
    #[asn(default(integer(0..7), 5))] pub f2: u8,
    #[asn(default(integer(0..7), 5))] pub f3: u8,
    #[asn(optional(integer(0..7)))] pub f4: Option<u8>,
}

impl Ts5ddddoe5 {
    pub const fn f0_min() -> u8 {
        0
    }

    pub const fn f0_max() -> u8 {
        7
    }

    pub const fn f1_min() -> u8 {
        0
    }

    pub const fn f1_max() -> u8 {
        7
    }

    pub const fn f2_min() -> u8 {
        0
    }

    pub const fn f2_max() -> u8 {
        7
    }

    pub const fn f3_min() -> u8 {
        0
    }

    pub const fn f3_max() -> u8 {
        7
    }

    pub const fn f4_min() -> u8 {
        0
    }

    pub const fn f4_max() -> u8 {
        7
    }
}

#[asn(sequence)]

#[derive(Default, Debug, Clone, PartialEq, Hash)]
pub struct Ts5mmmmdn {
    #[asn(integer(0..7))] pub f0: u8,
    #[asn(integer(0..7))] pub f1: u8,
    #[asn(integer(0..7))] pub f2: u8,
    #[asn(integer(0..7))] pub f3: u8,
    #[asn(default(integer(0..7), 5))] pub f4: u8,
}

impl Ts5mmmmdn {
    pub const fn f0_min() -> u8 {
        0
    }

    pub const fn f0_max() -> u8 {
        7
    }

    pub const fn f1_min() -> u8 {
        0
    }

    pub const fn f1_max() -> u8 {
        7
    }

    pub const fn f2_min() -> u8 {
        0
    }

    pub const fn f2_max() -> u8 {
        7
    }

    pub const fn f3_min() -> u8 {
        0
    }

    pub const fn f3_max() -> u8 {
        7
    }

    pub const fn f4_min() -> u8 {
        0
    }

    pub const fn f4_max() -> u8 {
        7
    }
}

#[asn(sequence, extensible_after(f0))]

#[derive(Default, Debug, Clone, PartialEq, Hash)]
pub struct Ts5mmmmde0 {
    #[asn(integer(0..7))] pub f0: u8,
    #[asn(optional(integer(0..7)))] pub f1: Option<u8>,
    #[asn(optional(integer(0..7)))] pub f2: Option<u8>,
    #[asn(optional(integer(0..7)))] pub f3: Option<u8>,
    #[asn(default(integer(0..7), 5))] pub f4: u8,
}

impl Ts5mmmmde0 {
    pub const fn f0_min() -> u8 {
        0
    }

    pub const fn f0_max() -> u8 {
        7
    }

    pub const fn f1_min() -> u8 {
        0
    }

    pub const fn f1_max() -> u8 {
        7
    }

    pub const fn f2_min() -> u8 {
        0
    }

    pub const fn f2_max() -> u8 {
        7
    }

    pub const fn f3_min() -> u8 {
        0
    }

    pub const fn f3_max() -> u8 {
        7
    }

    pub const fn f4_min() -> u8 {
        0
    }

    pub const fn f4_max() -> u8 {
        7
    }
}

#[asn(sequence, extensible_after(f0))]

#[derive(Default, Debug, Clone, PartialEq, Hash)]
pub struct Ts5mmmmde1 {
    #[asn(integer(0..7))] pub f0: u8,
    #[asn(optional(integer(0..7)))] pub f1: Option<u8>,
    #[asn(optional(integer(0..7)))] pub f2: Option<u8>,
    #[asn(optional(integer(0..7)))] pub f3: Option<u8>,
    #[asn(default(integer(0..7), 5))] pub f4: u8,
}

impl Ts5mmmmde1 {
    pub const fn f0_min() -> u8 {
        0
    }

    pub const fn f0_max() -> u8 {
        7
    }

    pub const fn f1_min() -> u8 {
        0
    }

    pub const fn f1_max() -> u8 {
        7
    }

    pub const fn f2_min() -> u8 {
        0
    }

    pub const fn f2_max() -> u8 {
        7
    }

    pub const fn f3_min() -> u8 {
        0
    }

    pub const fn f3_max() -> u8 {
        7
    }

    pub const fn f4_min() -> u8 {
        0
    }

    pub const fn f4_max() -> u8 {
        7
    }
}

#[asn(sequence, extensible_after(f1))]

#[derive(Default, Debug, Clone, PartialEq, Hash)]
pub struct Ts5mmmmde2 {
    #[asn(integer(0..7))] pub f0: u8,
    #[asn(integer(0..7))] pub f1: u8,
    #[asn(optional(integer(0..7)))] pub f2: Option<u8>,
    #[asn(optional(integer(0..7)))] pub f3: Option<u8>,
    #[asn(default(integer(0..7), 5))] pub f4: u8,
}

impl Ts5mmmmde2 {
    pub const fn f0_min() -> u8 {
        0
    }

    pub const fn f0_max() -> u8 {
        7
    }

    pub const fn f1_min() -> u8 {
        0
    }

    pub const fn f1_max() -> u8 {
        7
    }

    pub const fn f2_min() -> u8 {
        0
    }

    pub const fn f2_max() -> u8 {
        7
    }

    pub const fn f3_min() -> u8 {
        0
    }

    pub const fn f3_max() -> u8 {
        7
    }

    pub const fn f4_min() -> u8 {
        0
    }

    pub const fn f4_max() -> u8 {
        7
    }
}

#[asn(sequence, extensible_after(f2))]

#[derive(Default, Debug, Clone, PartialEq, Hash)]
pub struct Ts5mmmmde3 {
    #[asn(integer(0..7))] pub f0: u8,
    #[asn(integer(0..7))] pub f1: u8,
    #[asn(integer(0..7))] pub f2: u8,
    #[asn(optional(integer(0..7)))] pub f3: Option<u8>,
    #[asn(default(integer(0..7), 5))] pub f4: u8,
}

impl Ts5mmmmde3 {
    pub const fn f0_min() -> u8 {
        0
    }

    pub const fn f0_max() -> u8 {
        7
    }

    pub const fn f1_min() -> u8 {
        0
    }

    pub const fn f1_max() -> u8 {
        7
    }

    pub const fn f2_min() -> u8 {
        0
    }

    pub const fn f2_max() -> u8 {
        7
    }

    pub const fn f3_min() -> u8 {
        0
    }

    pub const fn f3_max() -> u8 {
        7
    }

    pub const fn f4_min() -> u8 {
        0
    }

    pub const fn f4_max() -> u8 {
        7
    }
}

#[asn(sequence, extensible_after(f3))]

#[derive(Default, Debug, Clone, PartialEq, Hash)]
pub struct Ts5mmmmde4 {
    #[asn(integer(0..7))] pub f0: u8,
    #[asn(integer(0..7))] pub f1: u8,
    #[asn(integer(0..7))] pub f2: u8,
    #[asn(integer(0..7))] pub f3: u8,
    #[asn(default(integer(0..7), 5))] pub f4: u8,
}

impl Ts5mmmmde4 {
    pub const fn f0_min() -> u8 {
        0
    }

    pub const fn f0_max() -> u8 {
        7
    }

    pub const fn f1_min() -> u8 {
        0
    }

    pub const fn f1_max() -> u8 {
        7
    }

    pub const fn f2_min() -> u8 {
        0
    }

    pub const fn f2_max() -> u8 {
        7
    }

    pub const fn f3_min() -> u8 {
        0
    }

    pub const fn f3_max() -> u8 {
        7
    }

    pub const fn f4_min() -> u8 {
        0
    }

    pub const fn f4_max() -> u8 {
        7
    }
}

#[asn(sequence, extensible_after(f4))]

#[derive(Default, Debug, Clone, PartialEq, Hash)]
pub struct Ts5mmmmde5 {
    #[asn(integer(0..7))] pub f0: u8,
    #[asn(integer(0..7))] pub f1: u8,
    #[asn(integer(0..7))] pub f2: u8,
    #[asn(integer(0..7))] pub f3: u8,
    #[asn(default(integer(0..7), 5))] pub f4: u8,
}

impl Ts5mmmmde5 {
    pub const fn f0_min() -> u8 {
        0
    }

    pub const fn f0_max() -> u8 {
        7
    }

    pub const fn f1_min() -> u8 {
        0
    }

    pub const fn f1_max() -> u8 {
        7
    }

    pub const fn f2_min() -> u8 {
        0
    }

    pub const fn f2_max() -> u8 {
        7
    }

    pub const fn f3_min() -> u8 {
        0
    }

    pub const fn f3_max() -> u8 {
        7
    }

    pub const fn f4_min() -> u8 {
        0
    }

    pub const fn f4_max() -> u8 {
        7
    }
}

#[asn(sequence)]

#[derive(Default, Debug, Clone, PartialEq, Hash)]
pub struct Ts5ommmdn {
    #[asn(optional(integer(0..7)))] pub f0: Option<u8>,
    #[asn(integer(0..7))] pub f1: u8,
    #[asn(integer(0..7))] pub f2: u8,
    #[asn(integer(0..7))] pub f3: u8,
    #[asn(default(integer(0..7), 5))] pub f4: u8,
}

impl Ts5ommmdn {
    pub const fn f0_min() -> u8 {
        0
    }

    pub const fn f0_max() -> u8 {
        7
    }

    pub const fn f1_min() -> u8 {
        0
    }

    pub const fn f1_max() -> u8 {
        7
    }

    pub const fn f2_min() -> u8 {
        0
    }

    pub const fn f2_max() -> u8 {
        7
    }

    pub const fn f3_min() -> u8 {
        0
    }

    pub const fn f3_max() -> u8 {
        7
    }

    pub const fn f4_min() -> u8 {
        0
    }

    pub const fn f4_max() -> u8 {
        7
    }
}

#[asn(sequence, extensible_after(f0))]

#[derive(Default, Debug, Clone, PartialEq, Hash)]
pub struct Ts5ommmde0 {
    #[asn(optional(integer(0..7)))] pub f0: Option<u8>,
    #[asn(optional(integer(0..7)))] pub f1: Option<u8>,
    #[asn(optional(integer(0..7)))] pub f2: Option<u8>,
    #[asn(optional(integer(0..7)))] pub f3: Option<u8>,
    #[asn(default(integer(0..7), 5))] pub f4: u8,
}

impl Ts5ommmde0 {
    pub const fn f0_min() -> u8 {
        0
    }

    pub const fn f0_max() -> u8 {
        7
    }

    pub const fn f1_min() -> u8 {
        0
    }

    pub const fn f1_max() -> u8 {
        7
    }

    pub const fn f2_min() -> u8 {
        0
    }

    pub const fn f2_max() -> u8 {
        7
    }

    pub const fn f3_min() -> u8 {
        0
    }

    pub const fn f3_max() -> u8 {
        7
    }

    pub const fn f4_min() -> u8 {
        0
    }

    pub const fn f4_max() -> u8 {
        7
    }
}

#[asn(sequence, extensible_after(f0))]

#[derive(Default, Debug, Clone, PartialEq, Hash)]
pub struct Ts5ommmde1 {
    #[asn(optional(integer(0..7)))] pub f0: Option<u8>,
    #[asn(optional(integer(0..7)))] pub f1: Option<u8>,
    #[asn(optional(integer(0..7)))] pub f2: Option<u8>,
    #[asn(optional(integer(0..7)))] pub f3: Option<u8>,
    #[asn(default(integer(0..7), 5))] pub f4: u8,
}

impl Ts5ommmde1 {
    pub const fn f0_min() -> u8 {
        0
    }

    pub const fn f0_max() -> u8 {
        7
    }

    pub const fn f1_min() -> u8 {
        0
    }

    pub const fn f1_max() -> u8 {
        7
    }

    pub const fn f2_min() -> u8 {
        0
    }

    pub const fn f2_max() -> u8 {
        7
    }

    pub const fn f3_min() -> u8 {
        0
    }

    pub const fn f3_max() -> u8 {
        7
    }

    pub const fn f4_min() -> u8 {
        0
    }

    pub const fn f4_max() -> u8 {
        7
    }
}

#[asn(sequence, extensible_after(f1))]

#[derive(Default, Debug, Clone, PartialEq, Hash)]
pub struct Ts5ommmde2 {
    #[asn(optional(integer(0..7)))] pub f0: Option<u8>,
    #[asn(integer(0..7))] pub f1: u8,
    #[asn(optional(integer(0..7)))] pub f2: Option<u8>,
    #[asn(optional(integer(0..7)))] pub f3: Option<u8>,
    #[asn(default(integer(0..7), 5))] pub f4: u8,
}

impl Ts5ommmde2 {
    pub const fn f0_min() -> u8 {
        0
    }

    pub const fn f0_max() -> u8 {
        7
    }

    pub const fn f1_min() -> u8 {
        0
    }

    pub const fn f1_max() -> u8 {
        7
    }

    pub const fn f2_min() -> u8 {
        0
    }

    pub const fn f2_max() -> u8 {
        7
    }

    pub const fn f3_min() -> u8 {
        0
    }

    pub const fn f3_max() -> u8 {
        7
    }

    pub const fn f4_min() -> u8 {
        0
    }

    pub const fn f4_max() -> u8 {
        7
    }
}

#[asn(sequence, extensible_after(f2))]

#[derive(Default, Debug, Clone, PartialEq, Hash)]
pub struct Ts5ommmde3 {
    #[asn(optional(integer(0..7)))] pub f0: Option<u8>,
    #[asn(integer(0..7))] pub f1: u8,
    #[asn(integer(0..7))] pub f2: u8,
    #[asn(optional(integer(0..7)))] pub f3: Option<u8>,
    #[asn(default(integer(0..7), 5))] pub f4: u8,
}

impl Ts5ommmde3 {
    pub const fn f0_min() -> u8 {
        0
    }

    pub const fn f0_max() -> u8 {
        7
    }

    pub const fn f1_min() -> u8 {
        0
    }

    pub const fn f1_max() -> u8 {
        7
    }

    pub const fn f2_min() -> u8 {
        0
    }

    pub const fn f2_max() -> u8 {
        7
    }

    pub const fn f3_min() -> u8 {
        0
    }

    pub const fn f3_max() -> u8 {
        7
    }

    pub const fn f4_min() -> u8 {
        0
    }

    pub const fn f4_max() -> u8 {
        7
    }
}

#[asn(sequence, extensible_after(f3))]

#[derive(Default, Debug, Clone, PartialEq, Hash)]
pub struct Ts5ommmde4 {
    #[asn(optional(integer(0..7)))] pub f0: Option<u8>,
    #[asn(integer(0..7))] pub f1: u8,
    #[asn(integer(0..7))] pub f2: u8,
    #[asn(integer(0..7))] pub f3: u8,
    #[asn(default(integer(0..7), 5))] pub f4: u8,
}

impl Ts5ommmde4 {
    pub const fn f0_min() -> u8 {
        0
    }

    pub const fn f0_max() -> u8 {
        7
    }

    pub const fn f1_min() -> u8 {
        0
    }

    pub const fn f1_max() -> u8 {
        7
    }

    pub const fn f2_min() -> u8 {
        0
    }

    pub const fn f2_max() -> u8 {
        7
    }

    pub const fn f3_min() -> u8 {
        0
    }

    pub const fn f3_max() -> u8 {
        7
    }

    pub const fn f4_min() -> u8 {
        0
    }

    pub const fn f4_max() -> u8 {
        7
    }
}

#[asn(sequence, extensible_after(f4))]

#[derive(Default, Debug, Clone, PartialEq, Hash)]
pub struct Ts5ommmde5 {
    #[asn(optional(integer(0..7)))] pub f0: Option<u8>,
    #[asn(integer(0..7))] pub f1: u8,
    #[asn(integer(0..7))] pub f2: u8,
    #[asn(integer(0..7))] pub f3: u8,
    #[asn(default(integer(0..7), 5))] pub f4: u8,
}

impl Ts5ommmde5 {
    pub const fn f0_min() -> u8 {
        0
    }

    pub const fn f0_max() -> u8 {
        7
    }

    pub const fn f1_min() -> u8 {
        0
    }

    pub const fn f1_max() -> u8 {
        7
    }

    pub const fn f2_min() -> u8 {
        0
    }

    pub const fn f2_max() -> u8 {
        7
    }

    pub const fn f3_min() -> u8 {
        0
    }

    pub const fn f3_max() -> u8 {
        7
    }

    pub const fn f4_min() -> u8 {
        0
    }

    pub const fn f4_max() -> u8 {
        7
    }
}

#[asn(sequence)]

#[derive(Default, Debug, Clone, PartialEq, Hash)]
pub struct Ts5dmmmdn {
    #[asn(default(integer(0..7), 5))] pub f0: u8,
    #[asn(integer(0..7))] pub f1: u8,
    #[asn(integer(0..7))] pub f2: u8,
    #[asn(integer(0..7))] pub f3: u8,
    #[asn(default(integer(0..7), 5))] pub f4: u8,
}

impl Ts5dmmmdn {
    pub const fn f0_min() -> u8 {
        0
    }

    pub const fn f0_max() -> u8 {
        7
    }

    pub const fn f1_min() -> u8 {
        0
    }

    pub const fn f1_max() -> u8 {
        7
    }

    pub const fn f2_min() -> u8 {
        0
    }

    pub const fn f2_max() -> u8 {
        7
    }

    pub const fn f3_min() -> u8 {
        0
    }

    pub const fn f3_max() -> u8 {
        7
    }

    pub const fn f4_min() -> u8 {
        0
    }

    pub const fn f4_max() -> u8 {
        7
    }
}

#[asn(sequence, extensible_after(f0))]

#[derive(Default, Debug, Clone, PartialEq, Hash)]
pub struct Ts5dmmmde0 {
    #[asn(default(integer(0..7), 5))] pub f0: u8,
    #[asn(optional(integer(0..7)))] pub f1: Option<u8>,
    #[asn(optional(integer(0..7)))] pub f2: Option<u8>,
    #[asn(optional(integer(0..7)))] pub f3: Option<u8>,
    #[asn(default(integer(0..7), 5))] pub f4: u8,
}

impl Ts5dmmmde0 {
    pub const fn f0_min() -> u8 {
        0
    }

    pub const fn f0_max() -> u8 {
        7
    }

    pub const fn f1_min() -> u8 {
        0
    }

    pub const fn f1_max() -> u8 {
        7
    }

    pub const fn f2_min() -> u8 {
        0
    }

    pub const fn f2_max() -> u8 {
        7
    }

    pub const fn f3_min() -> u8 {
        0
    }

    pub const fn f3_max() -> u8 {
        7
    }

    pub const fn f4_min() -> u8 {
        0
    }

    pub const fn f4_max() -> u8 {
        7
    }
}

#[asn(sequence, extensible_after(f0))]

#[derive(Default, Debug, Clone, PartialEq, Hash)]
pub struct Ts5dmmmde1 {
    #[asn(default(integer(0..7), 5))] pub f0: u8,
    #[asn(optional(integer(0..7)))] pub f1: Option<u8>,
    #[asn(optional(integer(0..7)))] pub f2: Option<u8>,
    #[asn(optional(integer(0..7)))] pub f3: Option<u8>,
    #[asn(default(integer(0..7), 5))] pub f4: u8,
}

impl Ts5dmmmde1 {
    pub const fn f0_min() -> u8 {
        0
    }

    pub const fn f0_max() -> u8 {
        7
    }

    pub const fn f1_min() -> u8 {
        0
    }

    pub const fn f1_max() -> u8 {
        7
    }

    pub const fn f2_min() -> u8 {
        0
    }

    pub const fn f2_max() -> u8 {
        7
    }

    pub const fn f3_min() -> u8 {
        0
    }

    pub const fn f3_max() -> u8 {
        7
    }

    pub const fn f4_min() -> u8 {
        0
    }

    pub const fn f4_max() -> u8 {
        7
    }
}

#[asn(sequence, extensible_after(f1))]

#[derive(Default, Debug, Clone, PartialEq, Hash)]
pub struct Ts5dmmmde2 {
    #[asn(default(integer(0..7), 5))] pub f0: u8,
    #[asn(integer(0..7))] pub f1: u8,
    #[asn(optional(integer(0..7)))] pub f2: Option<u8>,
    #[asn(optional(integer(0..7)))] pub f3: Option<u8>,
    #[asn(default(integer(0..7), 5))] pub f4: u8,
}

impl Ts5dmmmde2 {
    pub const fn f0_min() -> u8 {
        0
    }

    pub const fn f0_max() -> u8 {
        7
    }

    pub const fn f1_min() -> u8 {
        0
    }

    pub const fn f1_max() -> u8 {
        7
    }

    pub const fn f2_min() -> u8 {
        0
    }

    pub const fn f2_max() -> u8 {
        7
    }

    pub const fn f3_min() -> u8 {
        0
    }

    pub const fn f3_max() -> u8 {
        7
    }

    pub const fn f4_min() -> u8 {
        0
    }

    pub const fn f4_max() -> u8 {
        7
    }
}

#[asn(sequence, extensible_after(f2))]

#[derive(Default, Debug, Clone, PartialEq, Hash)]
pub struct Ts5dmmmde3 {
    #[asn(default(integer(0..7), 5))] pub f0: u8,
    #[asn(integer(0..7))] pub f1: u8,
    #[asn(integer(0..7))] pub f2: u8,
    #[asn(optional(integer(0..7)))] pub f3: Option<u8>,
    #[asn(default(integer(0..7), 5))] pub f4: u8,
}

impl Ts5dmmmde3 {
    pub const fn f0_min() -> u8 {
        0
    }

    pub const fn f0_max() -> u8 {
        7
    }

    pub const fn f1_min() -> u8 {
        0
    }

    pub const fn f1_max() -> u8 {
        7
    }

    pub const fn f2_min() -> u8 {
        0
    }

    pub const fn f2_max() -> u8 {
        7
    }

    pub const fn f3_min() -> u8 {
        0
    }

    pub const fn f3_max() -> u8 {
        7
    }

    pub const fn f4_min() -> u8 {
        0
    }

    pub const fn f4_max() -> u8 {
        7
    }
}

#[asn(sequence, extensible_after(f3))]

#[derive(Default, Debug, Clone, PartialEq, Hash)]
pub struct Ts5dmmmde4 {
    #[asn(default(integer(0..7), 5))] pub f0: u8,
    #[asn(integer(0..7))] pub f1: u8,
    #[asn(integer(0..7))] pub f2: u8,
    #[asn(integer(0..7))] pub f3: u8,
    #[asn(default(integer(0..7), 5))] pub f4: u8,
}

impl Ts5dmmmde4 {
    pub const fn f0_min() -> u8 {
        0
    }

    pub const fn f0_max() -> u8 {
        7
    }

    pub const fn f1_min() -> u8 {
        0
    }

    pub const fn f1_max() -> u8 {
        7
    }

    pub const fn f2_min() -> u8 {
        0
    }

    pub const fn f2_max() -> u8 {
        7
    }

    pub const fn f3_min() -> u8 {
        0
    }

    pub const fn f3_max() -> u8 {
        7
    }

    pub const fn f4_min() -> u8 {
        0
    }

    pub const fn f4_max() -> u8 {
        7
    }
}

#[asn(sequence, extensible_after(f4))]

#[derive(Default, Debug, Clone, PartialEq, Hash)]
pub struct Ts5dmmmde5 {
    #[asn(default(integer(0..7), 5))] pub f0: u8,
    #[asn(integer(0..7))] pub f1: u8,
    #[asn(integer(0..7))] pub f2: u8,
    #[asn(integer(0..7))] pub f3: u8,
    #[asn(default(integer(0..7), 5))] pub f4: u8,
}

impl Ts5dmmmde5 {
    pub const fn f0_min() -> u8 {
        0
    }

    pub const fn f0_max() -> u8 {
        7
    }

    pub const fn f1_min() -> u8 {
        0
    }

    pub const fn f1_max() -> u8 {
        7
    }

    pub const fn f2_min() -> u8 {
        0
    }

    pub const fn f2_max() -> u8 {
        7
    }

    pub const fn f3_min() -> u8 {
        0
    }

    pub const fn f3_max() -> u8 {
        7
    }

    pub const fn f4_min() -> u8 {
        0
    }

    pub const fn f4_max() -> u8 {
        7
    }
}

#[asn(sequence)]

#[derive(Default, Debug, Clone, PartialEq, Hash)]
pub struct Ts5mommdn {
    #[asn(integer(0..7))] pub f0: u8,
    #[asn(optional(integer(0..7)))] pub f1: Option<u8>,
    #[asn(integer(0..7))] pub f2: u8,
    #[asn(integer(0..7))] pub f3: u8,
    #[asn(default(integer(0..7), 5))] pub f4: u8,
}

impl Ts5mommdn {
    pub const fn f0_min() -> u8 {
        0
    }

    pub const fn f0_max() -> u8 {
        7
    }

    pub const fn f1_min() -> u8 {
        0
    }

    pub const fn f1_max() -> u8 {
        7
    }

    pub const fn f2_min() -> u8 {
        0
    }

    pub const fn f2_max() -> u8 {
        7
    }

    pub const fn f3_min() -> u8 {
        0
    }

    pub const fn f3_max() -> u8 {
        7
    }

    pub const fn f4_min() -> u8 {
        0
    }

    pub const fn f4_max() -> u8 {
        7
    }
}

#[asn(sequence, extensible_after(f0))]

#[derive(Default, Debug, Clone, PartialEq, Hash)]
pub struct Ts5mommde0 {
    #[asn(integer(0..7))] pub f0: u8,
    #[asn(optional(integer(0..7)))] pub f1: Option<u8>,
    #[asn(optional(integer(0..7)))] pub f2: Option<u8>,
    #[asn(optional(integer(0..7)))] pub f3: Option<u8>,
    #[asn(default(integer(0..7), 5))] pub f4: u8,
}

impl Ts5mommde0 {
    pub const fn f0_min() -> u8 {
        0
    }

    pub const fn f0_max() -> u8 {
        7
    }

    pub const fn f1_min() -> u8 {
        0
    }

    pub const fn f1_max() -> u8 {
        7
    }

    pub const fn f2_min() -> u8 {
        0
    }

    pub const fn f2_max() -> u8 {
        7
    }

    pub const fn f3_min() -> u8 {
        0
    }

    pub const fn f3_max() -> u8 {
        7
    }

    pub const fn f4_min() -> u8 {
        0
    }

    pub const fn f4_max() -> u8 {
        7
    }
}

#[asn(sequence, extensible_after(f0))]

#[derive(Default, Debug, Clone, PartialEq, Hash)]
pub struct Ts5mommde1 {
    #[asn(integer(0..7))] pub f0: u8,
    #[asn(optional(integer(0..7)))] pub f1: Option<u8>,
    #[asn(optional(integer(0..7)))] pub f2: Option<u8>,
    #[asn(optional(integer(0..7)))] pub f3: Option<u8>,
    #[asn(default(integer(0..7), 5))] pub f4: u8,
}

impl Ts5mommde1 {
    pub const fn f0_min() -> u8 {
        0
    }

    pub const fn f0_max() -> u8 {
        7
    }

    pub const fn f1_min() -> u8 {
        0
    }

    pub const fn f1_max() -> u8 {
        7
    }

    pub const fn f2_min() -> u8 {
        0
    }

    pub const fn f2_max() -> u8 {
        7
    }

    pub const fn f3_min() -> u8 {
        0
    }

    pub const fn f3_max() -> u8 {
        7
    }

    pub const fn f4_min() -> u8 {
        0
    }

    pub const fn f4_max() -> u8 {
        7
    }
}

#[asn(sequence, extensible_after(f1))]

#[derive(Default, Debug, Clone, PartialEq, Hash)]
pub struct Ts5mommde2 {
    #[asn(integer(0..7))] pub f0: u8,
    #[asn(optional(integer(0..7)))] pub f1: Option<u8>,
    #[asn(optional(integer(0..7)))] pub f2: Option<u8>,
    #[asn(optional(integer(0..7)))] pub f3: Option<u8>,
    #[asn(default(integer(0..7), 5))] pub f4: u8,
}

impl Ts5mommde2 {
    pub const fn f0_min() -> u8 {
        0
    }

    pub const fn f0_max() -> u8 {
        7
    }

    pub const fn f1_min() -> u8 {
        0
    }

    pub const fn f1_max() -> u8 {
        7
    }

    pub const fn f2_min() -> u8 {
        0
    }

    pub const fn f2_max() -> u8 {
        7
    }

    pub const fn f3_min() -> u8 {
        0
    }

    pub const fn f3_max() -> u8 {
        7
    }

    pub const fn f4_min() -> u8 {
        0
    }

    pub const fn f4_max() -> u8 {
        7
    }
}

#[asn(sequence, extensible_after(f2))]

#[derive(Default, Debug, Clone, PartialEq, Hash)]
pub struct Ts5mommde3 {
    #[asn(integer(0..7))] pub f0: u8,
    #[asn(optional(integer(0..7)))] pub f1: Option<u8>,
    #[asn(integer(0..7))] pub f2: u8,
    #[asn(optional(integer(0..7)))] pub f3: Option<u8>,
    #[asn(default(integer(0..7), 5))] pub f4: u8,
}

impl Ts5mommde3 {
    pub const fn f0_min() -> u8 {
        0
    }

    pub const fn f0_max() -> u8 {
        7
    }

    pub const fn f1_min() -> u8 {
        0
    }

    pub const fn f1_max() -> u8 {
        7
    }

    pub const fn f2_min() -> u8 {
        0
    }

    pub const fn f2_max() -> u8 {
        7
    }

    pub const fn f3_min() -> u8 {
        0
    }

    pub const fn f3_max() -> u8 {
        7
    }

    pub const fn f4_min() -> u8 {
        0
    }

    pub const fn f4_max() -> u8 {
        7
    }
}

#[asn(sequence, extensible_after(f3))]

#[derive(Default, Debug, Clone, PartialEq, Hash)]
pub struct Ts5mommde4 {
    #[asn(integer(0..7))] pub f0: u8,
    #[asn(optional(integer(0..7)))] pub f1: Option<u8>,
    #[asn(integer(0..7))] pub f2: u8,
    #[asn(integer(0..7))] pub f3: u8,
    #[asn(default(integer(0..7), 5))] pub f4: u8,
}

impl Ts5mommde4 {
    pub const fn f0_min() -> u8 {
        0
    }

    pub const fn f0_max() -> u8 {
        7
    }

    pub const fn f1_min() -> u8 {
        0
    }

    pub const fn f1_max() -> u8 {
        7
    }

    pub const fn f2_min() -> u8 {
        0
    }

    pub const fn f2_max() -> u8 {
        7
    }

    pub const fn f3_min() -> u8 {
        0
    }

    pub const fn f3_max() -> u8 {
        7
    }

    pub const fn f4_min() -> u8 {
        0
    }

    pub const fn f4_max() -> u8 {
        7
    }
}

#[asn(sequence, extensible_after(f4))]

#[derive(Default, Debug, Clone, PartialEq, Hash)]
pub struct Ts5mommde5 {
    #[asn(integer(0..7))] pub f0: u8,
    #[asn(optional(integer(0..7)))] pub f1: Option<u8>,
    #[asn(integer(0..7))] pub f2: u8,
    #[asn(integer(0..7))] pub f3: u8,
    #[asn(default(integer(0..7), 5))] pub f4: u8,
}

impl Ts5mommde5 {
    pub const fn f0_min() -> u8 {
        0
    }

    pub const fn f0_max() -> u8 {
        7
    }

    pub const fn f1_min() -> u8 {
        0
    }

    pub const fn f1_max() -> u8 {
        7
    }

    pub const fn f2_min() -> u8 {
        0
    }

    pub const fn f2_max() -> u8 {
        7
    }

    pub const fn f3_min() -> u8 {
        0
    }

    pub const fn f3_max() -> u8 {
        7
    }

    pub const fn f4_min() -> u8 {
        0
    }

    pub const fn f4_max() -> u8 {
        7
    }
}

#[asn(sequence)]

#[derive(Default, Debug, Clone, PartialEq, Hash)]
pub struct Ts5oommdn {
    #[asn(optional(integer(0..7)))] pub f0: Option<u8>,
    #[asn(optional(integer(0..7)))] pub f1: Option<u8>,
    #[asn(integer(0..7))] pub f2: u8,
    #[asn(integer(0..7))] pub f3: u8,
    #[asn(default(integer(0..7), 5))] pub f4: u8,
}

impl Ts5oommdn {
    pub const fn f0_min() -> u8 {
        0
    }

    pub const fn f0_max() -> u8 {
        7
    }

    pub const fn f1_min() -> u8 {
        0
    }

    pub const fn f1_max() -> u8 {
        7
    }

    pub const fn f2_min() -> u8 {
        0
    }

    pub const fn f2_max() -> u8 {
        7
    }

    pub const fn f3_min() -> u8 {
        0
    }

    pub const fn f3_max() -> u8 {
        7
    }

    pub const fn f4_min() -> u8 {
        0
    }

    pub const fn f4_max() -> u8 {
        7
    }
}

#[asn(sequence, extensible_after(f0))]

#[derive(Default, Debug, Clone, PartialEq, Hash)]
pub struct Ts5oommde0 {
    #[asn(optional(integer(0..7)))] pub f0: Option<u8>,
    #[asn(optional(integer(0..7)))] pub f1: Option<u8>,
    #[asn(optional(integer(0..7)))] pub f2: Option<u8>,
    #[asn(optional(integer(0..7)))] pub f3: Option<u8>,
    #[asn(default(integer(0..7), 5))] pub f4: u8,
}

impl Ts5oommde0 {
    pub const fn f0_min() -> u8 {
        0
    }

    pub const fn f0_max() -> u8 {
        7
    }

    pub const fn f1_min() -> u8 {
        0
    }

    pub const fn f1_max() -> u8 {
        7
    }

    pub const fn f2_min() -> u8 {
        0
    }

    pub const fn f2_max() -> u8 {
        7
    }

    pub const fn f3_min() -> u8 {
        0
    }

    pub const fn f3_max() -> u8 {
        7
    }

    pub const fn f4_min() -> u8 {
        0
    }

    pub const fn f4_max() -> u8 {
        7
    }
}

#[asn(sequence, extensible_after(f0))]

#[derive(Default, Debug, Clone, PartialEq, Hash)]
pub struct Ts5oommde1 {
    #[asn(optional(integer(0..7)))] pub f0: Option<u8>,
    #[asn(optional(integer(0..7)))] pub f1: Option<u8>,
    #[asn(optional(integer(0..7)))] pub f2: Option<u8>,
    #[asn(optional(integer(0..7)))] pub f3: Option<u8>,
    #[asn(default(integer(0..7), 5))] pub f4: u8,
}

impl Ts5oommde1 {
    pub const fn f0_min() -> u8 {
        0
    }

    pub const fn f0_max() -> u8 {
        7
    }

    pub const fn f1_min() -> u8 {
        0
    }

    pub const fn f1_max() -> u8 {
        7
    }

    pub const fn f2_min() -> u8 {
        0
    }

    pub const fn f2_max() -> u8 {
        7
    }

    pub const fn f3_min() -> u8 {
        0
    }

    pub const fn f3_max() -> u8 {
        7
    }

    pub const fn f4_min() -> u8 {
        0
    }

    pub const fn f4_max() -> u8 {
        7
    }
}

#[asn(sequence, extensible_after(f1))]

#[derive(Default, Debug, Clone, PartialEq, Hash)]
pub struct Ts5oommde2 {
    #[asn(optional(integer(0..7)))] pub f0: Option<u8>,
    #[asn(optional(integer(0..7)))] pub f1: Option<u8>,
    #[asn(optional(integer(0..7)))] pub f2: Option<u8>,
    #[asn(optional(integer(0..7)))] pub f3: Option<u8>,
    #[asn(default(integer(0..7), 5))] pub f4: u8,
}

impl Ts5oommde2 {
    pub const fn f0_min() -> u8 {
        0
    }

    pub const fn f0_max() -> u8 {
        7
    }

    pub const fn f1_min() -> u8 {
        0
    }

    pub const fn f1_max() -> u8 {
        7
    }

    pub const fn f2_min() -> u8 {
        0
    }

    pub const fn f2_max() -> u8 {
        7
    }

    pub const fn f3_min() -> u8 {
        0
    }

    pub const fn f3_max() -> u8 {
        7
    }

    pub const fn f4_min() -> u8 {
        0
    }

    pub const fn f4_max() -> u8 {
        7
    }
}

#[asn(sequence, extensible_after(f2))]

#[derive(Default, Debug, Clone, PartialEq, Hash)]
pub struct Ts5oommde3 {
    #[asn(optional(integer(0..7)))] pub f0: Option<u8>,
    #[asn(optional(integer(0..7)))] pub f1: Option<u8>,
    #[asn(integer(0..7))] pub f2: u8,
    #[asn(optional(integer(0..7)))] pub f3: Option<u8>,
    #[asn(default(integer(0..7), 5))] pub f4: u8,
}

impl Ts5oommde3 {
    pub const fn f0_min() -> u8 {
        0
    }

    pub const fn f0_max() -> u8 {
        7
    }

    pub const fn f1_min() -> u8 {
        0
    }

    pub const fn f1_max() -> u8 {
        7
    }

    pub const fn f2_min() -> u8 {
        0
    }

    pub const fn f2_max() -> u8 {
        7
    }

    pub const fn f3_min() -> u8 {
        0
    }

    pub const fn f3_max() -> u8 {
        7
    }

    pub const fn f4_min() -> u8 {
        0
    }

    pub const fn f4_max() -> u8 {
        7
    }
}

#[asn(sequence, extensible_after(f3))]

#[derive(Default, Debug, Clone, PartialEq, Hash)]
pub struct Ts5oommde4 {
    #[asn(optional(integer(0..7)))] pub f0: Option<u8>,
    #[asn(optional(integer(0..7)))] pub f1: Option<u8>,
    #[asn(integer(0..7))] pub f2: u8,
    #[asn(integer(0..7))] pub f3: u8,
    #[asn(default(integer(0..7), 5))] pub f4: u8,
}

impl Ts5oommde4 {
    pub const fn f0_min() -> u8 {
        0
    }

    pub const fn f0_max() -> u8 {
        7
    }

    pub const fn f1_min() -> u8 {
        0
    }

    pub const fn f1_max() -> u8 {
        7
    }

    pub const fn f2_min() -> u8 {
        0
    }

    pub const fn f2_max() -> u8 {
        7
    }

    pub const fn f3_min() -> u8 {
        0
    }

    pub const fn f3_max() -> u8 {
        7
    }

    pub const fn f4_min() -> u8 {
        0
    }

    pub const fn f4_max() -> u8 {
        7
    }
}

#[asn(sequence, extensible_after(f4))]

#[derive(Default, Debug, Clone, PartialEq, Hash)]
pub struct Ts5oommde5 {
    #[asn(optional(integer(0..7)))] pub f0: Option<u8>,
    #[asn(optional(integer(0..7)))] pub f1: Option<u8>,
    #[asn(integer(0..7))] pub f2: u8,
    #[asn(integer(0..7))] pub f3: u8,
    #[asn(default(integer(0..7), 5))] pub f4: u8,
}

impl Ts5oommde5 {
    pub const fn f0_min() -> u8 {
        0
    }

    pub const fn f0_max() -> u8 {
        7
    }

    pub const fn f1_min() -> u8 {
        0
    }

    pub const fn f1_max() -> u8 {
        7
    }

    pub const fn f2_min() -> u8 {
        0
    }

    pub const fn f2_max() -> u8 {
        7
    }

    pub const fn f3_min() -> u8 {
        0
    }

    pub const fn f3_max() -> u8 {
        7
    }

    pub const fn f4_min() -> u8 {
        0
    }

    pub const fn f4_max() -> u8 {
        7
    }
}

#[asn(sequence)]

#[derive(Default, Debug, Clone, PartialEq, Hash)]
pub struct Ts5dommdn {
    #[asn(default(integer(0..7), 5))] pub f0: u8,
    #[asn(optional(integer(0..7)))] pub f1: Option<u8>,
    #[asn(integer(0..7))] pub f2: u8,
    #[asn(integer(0..7))] pub f3: u8,
    #[asn(default(integer(0..7), 5))] pub f4: u8,
}

impl Ts5dommdn {
    pub const fn f0_min() -> u8 {
        0
    }

    pub const fn f0_max() -> u8 {
        7
    }

    pub const fn f1_min() -> u8 {
        0
    }

    pub const fn f1_max() -> u8 {
        7
    }

    pub const fn f2_min() -> u8 {
        0
    }

    pub const fn f2_max() -> u8 {
        7
    }

    pub const fn f3_min() -> u8 {
        0
    }

    pub const fn f3_max() -> u8 {
        7
    }

    pub const fn f4_min() -> u8 {
        0
    }

    pub const fn f4_max() -> u8 {
        7
    }
}

#[asn(sequence, extensible_after(f0))]

#[derive(Default, Debug, Clone, PartialEq, Hash)]
pub struct Ts5dommde0 {
    #[asn(default(integer(0..7), 5))] pub f0: u8,
    #[asn(optional(integer(0..7)))] pub f1: Option<u8>,
    #[asn(optional(integer(0..7)))] pub f2: Option<u8>,
    #[asn(optional(integer(0..7)))] pub f3: Option<u8>,
    #[asn(default(integer(0..7), 5))] pub f4: u8,
}

impl Ts5dommde0 {
    pub const fn f0_min() -> u8 {
        0
    }

    pub const fn f0_max() -> u8 {
        7
    }

    pub const fn f1_min() -> u8 {
        0
    }

    pub const fn f1_max() -> u8 {
        7
    }

    pub const fn f2_min() -> u8 {
        0
    }

    pub const fn f2_max() -> u8 {
        7
    }

    pub const fn f3_min() -> u8 {
        0
    }

    pub const fn f3_max() -> u8 {
        7
    }

    pub const fn f4_min() -> u8 {
        0
    }

    pub const fn f4_max() -> u8 {
        7
    }
}

#[asn(sequence, extensible_after(f0))]

#[derive(Default, Debug, Clone, PartialEq, Hash)]
pub struct Ts5dommde1 {
    #[asn(default(integer(0..7), 5))] pub f0: u8,
    #[asn(optional(integer(0..7)))] pub f1: Option<u8>,
    #[asn(optional(integer(0..7)))] pub f2: Option<u8>,
    #[asn(optional(integer(0..7)))] pub f3: Option<u8>,
    #[asn(default(integer(0..7), 5))] pub f4: u8,
}

impl Ts5dommde1 {
    pub const fn f0_min() -> u8 {
        0
    }

    pub const fn f0_max() -> u8 {
        7
    }

    pub const fn f1_min() -> u8 {
        0
    }

    pub const fn f1_max() -> u8 {
        7
    }

    pub const fn f2_min() -> u8 {
        0
    }

    pub const fn f2_max() -> u8 {
        7
    }

    pub const fn f3_min() -> u8 {
        0
    }

    pub const fn f3_max() -> u8 {
        7
    }

    pub const fn f4_min() -> u8 {
        0
    }

    pub const fn f4_max() -> u8 {
        7
    }
}

#[asn(sequence, extensible_after(f1))]

#[derive(Default, Debug, Clone, PartialEq, Hash)]
pub struct Ts5dommde2 {
    #[asn(default(integer(0..7), 5))] pub f0: u8,
    #[asn(optional(integer(0..7)))] pub f1: Option<u8>,
    #[asn(optional(integer(0..7)))] pub f2: Option<u8>,
    #[asn(optional(integer(0..7)))] pub f3: Option<u8>,
    #[asn(default(integer(0..7), 5))] pub f4: u8,
}

impl Ts5dommde2 {
    pub const fn f0_min() -> u8 {
        0
    }

    pub const fn f0_max() -> u8 {
        7
    }

    pub const fn f1_min() -> u8 {
        0
    }

    pub const fn f1_max() -> u8 {
        7
    }

    pub const fn f2_min() -> u8 {
        0
    }

    pub const fn f2_max() -> u8 {
        7
    }

    pub const fn f3_min() -> u8 {
        0
    }

    pub const fn f3_max() -> u8 {
        7
    }

    pub const fn f4_min() -> u8 {
        0
    }

    pub const fn f4_max() -> u8 {
        7
    }
}

#[asn(sequence, extensible_after(f2))]

#[derive(Default, Debug, Clone, PartialEq, Hash)]
pub struct Ts5dommde3 {
    #[asn(default(integer(0..7), 5))] pub f0: u8,
    #[asn(optional(integer(0..7)))] pub f1: Option<u8>,
    #[asn(integer(0..7))] pub f2: u8,
    #[asn(optional(integer(0..7)))] pub f3: Option<u8>,
    #[asn(default(integer(0..7), 5))] pub f4: u8,
}

impl Ts5dommde3 {
    pub const fn f0_min() -> u8 {
        0
    }

    pub const fn f0_max() -> u8 {
        7
    }

    pub const fn f1_min() -> u8 {
        0
    }

    pub const fn f1_max() -> u8 {
        7
    }

    pub const fn f2_min() -> u8 {
        0
    }

    pub const fn f2_max() -> u8 {
        7
    }

    pub const fn f3_min() -> u8 {
        0
    }

    pub const fn f3_max() -> u8 {
        7
    }

    pub const fn f4_min() -> u8 {
        0
    }

    pub const fn f4_max() -> u8 {
        7
    }
}

#[asn(sequence, extensible_after(f3))]

#[derive(Default, Debug, Clone, PartialEq, Hash)]
pub struct Ts5dommde4 {
    #[asn(default(integer(0..7), 5))] pub f0: u8,
    #[asn(optional(integer(0..7)))] pub f1: Option<u8>,
    #[asn(integer(0..7))] pub f2: u8,
    #[asn(integer(0..7))] pub f3: u8,
    #[asn(default(integer(0..7), 5))] pub f4: u8,
}

impl Ts5dommde4 {
    pub const fn f0_min() -> u8 {
        0
    }

    pub const fn f0_max() -> u8 {
        7
    }

    pub const fn f1_min() -> u8 {
        0
    }

    pub const fn f1_max() -> u8 {
        7
    }

    pub const fn f2_min() -> u8 {
        0
    }

    pub const fn f2_max() -> u8 {
        7
    }

    pub const fn f3_min() -> u8 {
        0
    }

    pub const fn f3_max() -> u8 {
        7
    }

    pub const fn f4_min() -> u8 {
        0
    }

    pub const fn f4_max() -> u8 {
        7
    }
}

#[asn(sequence, extensible_after(f4))]

#[derive(Default, Debug, Clone, PartialEq, Hash)]
pub struct Ts5dommde5 {
    #[asn(default(integer(0..7), 5))] pub f0: u8,
    #[asn(optional(integer(0..7)))] pub f1: Option<u8>,
    #[asn(integer(0..7))] pub f2: u8,
    #[asn(integer(0..7))] pub f3: u8,
    #[asn(default(integer(0..7), 5))] pub f4: u8,
}

impl Ts5dommde5 {
    pub const fn f0_min() -> u8 {
        0
    }

    pub const fn f0_max() -> u8 {
        7
    }

    pub const fn f1_min() -> u8 {
        0
    }

    pub const fn f1_max() -> u8 {
        7
    }

    pub const fn f2_min() -> u8 {
        0
    }

    pub const fn f2_max() -> u8 {
        7
    }

    pub const fn f3_min() -> u8 {
        0
    }

    pub const fn f3_max() -> u8 {
        7
    }

    pub const fn f4_min() -> u8 {
        0
    }

    pub const fn f4_max() -> u8 {
        7
    }
}

#[asn(sequence)]

#[derive(Default, Debug, Clone, PartialEq, Hash)]
pub struct Ts5mdmmdn {
    #[asn(integer(0..7))] pub f0: u8,
    #[asn(default(integer(0..7), 5))] pub f1: u8,
    #[asn(integer(0..7))] pub f2: u8,
    #[asn(integer(0..7))] pub f3: u8,
    #[asn(default(integer(0..7), 5))] pub f4: u8,
}

impl Ts5mdmmdn {
    pub const fn f0_min() -> u8 {
        0
    }

    pub const fn f0_max() -> u8 {
        7
    }

    pub const fn f1_min() -> u8 {
        0
    }

    pub const fn f1_max() -> u8 {
        7
    }

    pub const fn f2_min() -> u8 {
        0
    }

    pub const fn f2_max() -> u8 {
        7
    }

    pub const fn f3_min() -> u8 {
        0
    }

    pub const fn f3_max() -> u8 {
        7
    }

    pub const fn f4_min() -> u8 {
        0
    }

    pub const fn f4_max() -> u8 {
        7
    }
}

#[asn(sequence, extensible_after(f0))]

#[derive(Default, Debug, Clone, PartialEq, Hash)]
pub struct Ts5mdmmde0 {
    #[asn(integer(0..7))] pub f0: u8,
    #[asn(default(integer(0..7), 5))] pub f1: u8,
    #[asn(optional(integer(0..7)))] pub f2: Option<u8>,
    #[asn(optional(integer(0..7)))] pub f3: Option<u8>,
    #[asn(default(integer(0..7), 5))] pub f4: u8,
}

impl Ts5mdmmde0 {
    pub const fn f0_min() -> u8 {
        0
    }

    pub const fn f0_max() -> u8 {
        7
    }

    pub const fn f1_min() -> u8 {
        0
    }

    pub const fn f1_max() -> u8 {
        7
    }

    pub const fn f2_min() -> u8 {
        0
    }

    pub const fn f2_max() -> u8 {
        7
    }

    pub const fn f3_min() -> u8 {
        0
    }

    pub const fn f3_max() -> u8 {
        7
    }

    pub const fn f4_min() -> u8 {
        0
    }

    pub const fn f4_max() -> u8 {
        7
    }
}

#[asn(sequence, extensible_after(f0))]

#[derive(Default, Debug, Clone, PartialEq, Hash)]
pub struct Ts5mdmmde1 {
    #[asn(integer(0..7))] pub f0: u8,
    #[asn(default(integer(0..7), 5))] pub f1: u8,
    #[asn(optional(integer(0..7)))] pub f2: Option<u8>,
    #[asn(optional(integer(0..7)))] pub f3: Option<u8>,
    #[asn(default(integer(0..7), 5))] pub f4: u8,
}

impl Ts5mdmmde1 {
    pub const fn f0_min() -> u8 {
        0
    }

    pub const fn f0_max() -> u8 {
        7
    }

    pub const fn f1_min() -> u8 {
        0
    }

    pub const fn f1_max() -> u8 {
        7
    }

    pub const fn f2_min() -> u8 {
        0
    }

    pub const fn f2_max() -> u8 {
        7
    }

    pub const fn f3_min() -> u8 {
        0
    }

    pub const fn f3_max() -> u8 {
        7
    }

    pub const fn f4_min() -> u8 {
        0
    }

    pub const fn f4_max() -> u8 {
        7
    }
}

#[asn(sequence, extensible_after(f1))]

#[derive(Default, Debug, Clone, PartialEq, Hash)]
pub struct Ts5mdmmde2 {
    #[asn(integer(0..7))] pub f0: u8,
    #[asn(default(integer(0..7), 5))] pub f1: u8,
    #[asn(optional(integer(0..7)))] pub f2: Option<u8>,
    #[asn(optional(integer(0..7)))] pub f3: Option<u8>,
    #[asn(default(integer(0..7), 5))] pub f4: u8,
}

impl Ts5mdmmde2 {
    pub const fn f0_min() -> u8 {
        0
    }

    pub const fn f0_max() -> u8 {
        7
    }

    pub const fn f1_min() -> u8 {
        0
    }

    pub const fn f1_max() -> u8 {
        7
    }

    pub const fn f2_min() -> u8 {
        0
    }

    pub const fn f2_max() -> u8 {
        7
    }

    pub const fn f3_min() -> u8 {
        0
    }

    pub const fn f3_max() -> u8 {
        7
    }

    pub const fn f4_min() -> u8 {
        0
    }

    pub const fn f4_max() -> u8 {
        7
    }
}

#[asn(sequence, extensible_after(f2))]

#[derive(Default, Debug, Clone, PartialEq, Hash)]
pub struct Ts5mdmmde3 {
    #[asn(integer(0..7))] pub f0: u8,
    #[asn(default(integer(0..7), 5))] pub f1: u8,
    #[asn(integer(0..7))] pub f2: u8,
    #[asn(optional(integer(0..7)))] pub f3: Option<u8>,
    #[asn(default(integer(0..7), 5))] pub f4: u8,
}

impl Ts5mdmmde3 {
    pub const fn f0_min() -> u8 {
        0
    }

    pub const fn f0_max() -> u8 {
        7
    }

    pub const fn f1_min() -> u8 {
        0
    }

    pub const fn f1_max() -> u8 {
        7
    }

    pub const fn f2_min() -> u8 {
        0
    }

    pub const fn f2_max() -> u8 {
        7
    }

    pub const fn f3_min() -> u8 {
        0
    }

    pub const fn f3_max() -> u8 {
        7
    }

    pub const fn f4_min() -> u8 {
        0
    }

    pub const fn f4_max() -> u8 {
        7
    }
}

#[asn(sequence, extensible_after(f3))]

#[derive(Default, Debug, Clone, PartialEq, Hash)]
pub struct Ts5mdmmde4 {
    #[asn(integer(0..7))] pub f0: u8,
    #[asn(default(integer(0..7), 5))] pub f1: u8,
    #[asn(integer(0..7))] pub f2: u8,
    #[asn(integer(0..7))] pub f3: u8,
    #[asn(default(integer(0..7), 5))] pub f4: u8,
}

impl Ts5mdmmde4 {
    pub const fn f0_min() -> u8 {
        0
    }

    pub const fn f0_max() -> u8 {
        7
    }

    pub const fn f1_min() -> u8 {
        0
    }

    pub const fn f1_max() -> u8 {
        7
    }

    pub const fn f2_min() -> u8 {
        0
    }

    pub const fn f2_max() -> u8 {
        7
    }

    pub const fn f3_min() -> u8 {
        0
    }

    pub const fn f3_max() -> u8 {
        7
    }

    pub const fn f4_min() -> u8 {
        0
    }

    pub const fn f4_max() -> u8 {
        7
    }
}

#[asn(sequence, extensible_after(f4))]

#[derive(Default, Debug, Clone, PartialEq, Hash)]
pub struct Ts5mdmmde5 {
    #[asn(integer(0..7))] pub f0: u8,
    #[asn(default(integer(0..7), 5))] pub f1: u8,
    #[asn(integer(0..7))] pub f2: u8,
    #[asn(integer(0..7))] pub f3: u8,
    #[asn(default(integer(0..7), 5))] pub f4: u8,
}

impl Ts5mdmmde5 {
    pub const fn f0_min() -> u8 {
        0
    }

    pub const fn f0_max() -> u8 {
        7
    }

    pub const fn f1_min() -> u8 {
        0
    }

    pub const fn f1_max() -> u8 {
        7
    }

    pub const fn f2_min() -> u8 {
        0
    }

    pub const fn f2_max() -> u8 {
        7
    }

    pub const fn f3_min() -> u8 {
        0
    }

    pub const fn f3_max() -> u8 {
        7
    }

    pub const fn f4_min() -> u8 {
        0
    }

    pub const fn f4_max() -> u8 {
        7
    }
}

#[asn(sequence)]

#[derive(Default, Debug, Clone, PartialEq, Hash)]
pub struct Ts5odmmdn {
    #[asn(optional(integer(0..7)))] pub f0: Option<u8>,
    #[asn(default(integer(0..7), 5))] pub f1: u8,
    #[asn(integer(0..7))] pub f2: u8,
    #[asn(integer(0..7))] pub f3: u8,
    #[asn(default(integer(0..7), 5))] pub f4: u8,
}

impl Ts5odmmdn {
    pub const fn f0_min() -> u8 {
        0
    }

    pub const fn f0_max() -> u8 {
        7
    }

    pub const fn f1_min() -> u8 {
        0
    }

    pub const fn f1_max() -> u8 {
        7
    }

    pub const fn f2_min() -> u8 {
        0
    }

    pub const fn f2_max() -> u8 {
        7
    }

    pub const fn f3_min() -> u8 {
        0
    }

    pub const fn f3_max() -> u8 {
        7
    }

    pub const fn f4_min() -> u8 {
        0
    }

    pub const fn f4_max() -> u8 {
        7
    }
}

#[asn(sequence, extensible_after(f0))]

#[derive(Default, Debug, Clone, PartialEq, Hash)]
pub struct Ts5odmmde0 {
    #[asn(optional(integer(0..7)))] pub f0: Option<u8>,
    #[asn(default(integer(0..7), 5))] pub f1: u8,
    #[asn(optional(integer(0..7)))] pub f2: Option<u8>,
    #[asn(optional(integer(0..7)))] pub f3: Option<u8>,
    #[asn(default(integer(0..7), 5))] pub f4: u8,
}

impl Ts5odmmde0 {
    pub const fn f0_min() -> u8 {
        0
    }

    pub const fn f0_max() -> u8 {
        7
    }

    pub const fn f1_min() -> u8 {
        0
    }

    pub const fn f1_max() -> u8 {
        7
    }

    pub const fn f2_min() -> u8 {
        0
    }

    pub const fn f2_max() -> u8 {
        7
    }

    pub const fn f3_min() -> u8 {
        0
    }

    pub const fn f3_max() -> u8 {
        7
    }

    pub const fn f4_min() -> u8 {
        0
    }

    pub const fn f4_max() -> u8 {
        7
    }
}

#[asn(sequence, extensible_after(f0))]

#[derive(Default, Debug, Clone, PartialEq, Hash)]
pub struct Ts5odmmde1 {
    #[asn(optional(integer(0..7)))] pub f0: Option<u8>,
    #[asn(default(integer(0..7), 5))] pub f1: u8,
    #[asn(optional(integer(0..7)))] pub f2: Option<u8>,
    #[asn(optional(integer(0..7)))] pub f3: Option<u8>,
    #[asn(default(integer(0..7), 5))] pub f4: u8,
}

impl Ts5odmmde1 {
    pub const fn f0_min() -> u8 {
        0
    }

    pub const fn f0_max() -> u8 {
        7
    }

    pub const fn f1_min() -> u8 {
        0
    }

    pub const fn f1_max() -> u8 {
        7
    }

    pub const fn f2_min() -> u8 {
        0
    }

    pub const fn f2_max() -> u8 {
        7
    }

    pub const fn f3_min() -> u8 {
        0
    }

    pub const fn f3_max() -> u8 {
        7
    }

    pub const fn f4_min() -> u8 {
        0
    }

    pub const fn f4_max() -> u8 {
        7
    }
}

#[asn(sequence, extensible_after(f1))]

#[derive(Default, Debug, Clone, PartialEq, Hash)]
pub struct Ts5odmmde2 {
    #[asn(optional(integer(0..7)))] pub f0: Option<u8>,
    #[asn(default(integer(0..7), 5))] pub f1: u8,
    #[asn(optional(integer(0..7)))] pub f2: Option<u8>,
    #[asn(optional(integer(0..7)))] pub f3: Option<u8>,
    #[asn(default(integer(0..7), 5))] pub f4: u8,
}

impl Ts5odmmde2 {
    pub const fn f0_min() -> u8 {
        0
    }

    pub const fn f0_max() -> u8 {
        7
    }

    pub const fn f1_min() -> u8 {
        0
    }

    pub const fn f1_max() -> u8 {
        7
    }

    pub const fn f2_min() -> u8 {
        0
    }

    pub const fn f2_max() -> u8 {
        7
    }

    pub const fn f3_min() -> u8 {
        0
    }

    pub const fn f3_max() -> u8 {
        7
    }

    pub const fn f4_min() -> u8 {
        0
    }

    pub const fn f4_max() -> u8 {
        7
    }
}

#[asn(sequence, extensible_after(f2))]

#[derive(Default, Debug, Clone, PartialEq, Hash)]
pub struct Ts5odmmde3 {
    #[asn(optional(integer(0..7)))] pub f0: Option<u8>,
    #[asn(default(integer(0..7), 5))] pub f1: u8,
    #[asn(integer(0..7))] pub f2: u8,
    #[asn(optional(integer(0..7)))] pub f3: Option<u8>,
    #[asn(default(integer(0..7), 5))] pub f4: u8,
}

impl Ts5odmmde3 {
    pub const fn f0_min() -> u8 {
        0
    }

    pub const fn f0_max() -> u8 {
        7
    }

    pub const fn f1_min() -> u8 {
        0
    }

    pub const fn f1_max() -> u8 {
        7
    }

    pub const fn f2_min() -> u8 {
        0
    }

    pub const fn f2_max() -> u8 {
        7
    }

    pub const fn f3_min() -> u8 {
        0
    }

    pub const fn f3_max() -> u8 {
        7
    }

    pub const fn f4_min() -> u8 {
        0
    }

    pub const fn f4_max() -> u8 {
        7
    }
}

#[asn(sequence, extensible_after(f3))]

#[derive(Default, Debug, Clone, PartialEq, Hash)]
pub struct Ts5odmmde4 {
    #[asn(optional(integer(0..7)))] pub f0: Option<u8>,
    #[asn(default(integer(0..7), 5))] pub f1: u8,
    #[asn(integer(0..7))] pub f2: u8,
    #[asn(integer(0..7))] pub f3: u8,
    #[asn(default(integer(0..7), 5))] pub f4: u8,
}

impl Ts5odmmde4 {
    pub const fn f0_min() -> u8 {
        0
    }

    pub const fn f0_max() -> u8 {
        7
    }

    pub const fn f1_min() -> u8 {
        0
    }

    pub const fn f1_max() -> u8 {
        7
    }

    pub const fn f2_min() -> u8 {
        0
    }

    pub const fn f2_max() -> u8 {
        7
    }

    pub const fn f3_min() -> u8 {
        0
    }

    pub const fn f3_max() -> u8 {
        7
    }

    pub const fn f4_min() -> u8 {
        0
    }

    pub const fn f4_max() -> u8 {
        7
    }
}

#[asn(sequence, extensible_after(f4))]

#[derive(Default, Debug, Clone, PartialEq, Hash)]
pub struct Ts5odmmde5 {
    #[asn(optional(integer(0..7)))] pub f0: Option<u8>,
    #[asn(default(integer(0..7), 5))] pub f1: u8,
    #[asn(integer(0..7))] pub f2: u8,
    #[asn(integer(0..7))] pub f3: u8,
    #[asn(default(integer(0..7), 5))] pub f4: u8,
}

impl Ts5odmmde5 {
    pub const fn f0_min() -> u8 {
        0
    }

    pub const fn f0_max() -> u8 {
        7
    }

    pub const fn f1_min() -> u8 {
        0
    }

    pub const fn f1_max() -> u8 {
        7
    }

    pub const fn f2_min() -> u8 {
        0
    }

    pub const fn f2_max() -> u8 {
        7
    }

    pub const fn f3_min() -> u8 {
        0
    }

    pub const fn f3_max() -> u8 {
        7
    }

    pub const fn f4_min() -> u8 {
        0
    }

    pub const fn f4_max() -> u8 {
        7
    }
}

#[asn(sequence)]

#[derive(Default, Debug, Clone, PartialEq, Hash)]
pub struct Ts5ddmmdn {
    #[asn(default(integer(0..7), 5))] pub f0: u8,
    #[asn(default(integer(0..7), 5))] pub f1: u8,
    #[asn(integer(0..7))] pub f2: u8,
    #[asn(integer(0..7))] pub f3: u8,
    #[asn(default(integer(0..7), 5))] pub f4: u8,
}

impl Ts5ddmmdn {
    pub const fn f0_min() -> u8 {
        0
    }

    pub const fn f0_max() -> u8 {
        7
    }

    pub const fn f1_min() -> u8 {
        0
    }

    pub const fn f1_max() -> u8 {
        7
    }

    pub const fn f2_min() -> u8 {
        0
    }

    pub const fn f2_max() -> u8 {
        7
    }

    pub const fn f3_min() -> u8 {
        0
    }

    pub const fn f3_max() -> u8 {
        7
    }

    pub const fn f4_min() -> u8 {
        0
    }

    pub const fn f4_max() -> u8 {
        7
    }
}

#[asn(sequence, extensible_after(f0))]

#[derive(Default, Debug, Clone, PartialEq, Hash)]
pub struct Ts5ddmmde0 {
    #[asn(default(integer(0..7), 5))] pub f0: u8,
    #[asn(default(integer(0..7), 5))] pub f1: u8,
    #[asn(optional(integer(0..7)))] pub f2: Option<u8>,
    #[asn(optional(integer(0..7)))] pub f3: Option<u8>,
    #[asn(default(integer(0..7), 5))] pub f4: u8,
}

impl Ts5ddmmde0 {
    pub const fn f0_min() -> u8 {
        0
    }

    pub const fn f0_max() -> u8 {
        7
    }

    pub const fn f1_min() -> u8 {
        0
    }

    pub const fn f1_max() -> u8 {
        7
    }

    pub const fn f2_min() -> u8 {
        0
    }

    pub const fn f2_max() -> u8 {
        7
    }

    pub const fn f3_min() -> u8 {
        0
    }

    pub const fn f3_max() -> u8 {
        7
    }

    pub const fn f4_min() -> u8 {
        0
    }

    pub const fn f4_max() -> u8 {
        7
    }
}

#[asn(sequence, extensible_after(f0))]

#[derive(Default, Debug, Clone, PartialEq, Hash)]
pub struct Ts5ddmmde1 {
    #[asn(default(integer(0..7), 5))] pub f0: u8,
    #[asn(default(integer(0..7), 5))] pub f1: u8,
    #[asn(optional(integer(0..7)))] pub f2: Option<u8>,
    #[asn(optional(integer(0..7)))] pub f3: Option<u8>,
    #[asn(default(integer(0..7), 5))] pub f4: u8,
}

impl Ts5ddmmde1 {
    pub const fn f0_min() -> u8 {
        0
    }

    pub const fn f0_max() -> u8 {
        7
    }

    pub const fn f1_min() -> u8 {
        0
    }

    pub const fn f1_max() -> u8 {
        7
    }

    pub const fn f2_min() -> u8 {
        0
    }

    pub const fn f2_max() -> u8 {
        7
    }

    pub const fn f3_min() -> u8 {
        0
    }

    pub const fn f3_max() -> u8 {
        7
    }

    pub const fn f4_min() -> u8 {
        0
    }

    pub const fn f4_max() -> u8 {
        7
    }
}

#[asn(sequence, extensible_after(f1))]

#[derive(Default, Debug, Clone, PartialEq, Hash)]
pub struct Ts5ddmmde2 {
    #[asn(default(integer(0..7), 5))] pub f0: u8,
    #[asn(default(integer(0..7), 5))] pub f1: u8,
    #[asn(optional(integer(0..7)))] pub f2: Option<u8>,
    #[asn(optional(integer(0..7)))] pub f3: Option<u8>,
    #[asn(default(integer(0..7), 5))] pub f4: u8,
}

impl Ts5ddmmde2 {
    pub const fn f0_min() -> u8 {
        0
    }

    pub const fn f0_max() -> u8 {
        7
    }

    pub const fn f1_min() -> u8 {
        0
    }

    pub const fn f1_max() -> u8 {
        7
    }

    pub const fn f2_min() -> u8 {
        0
    }

    pub const fn f2_max() -> u8 {
        7
    }

    pub const fn f3_min() -> u8 {
        0
    }

    pub const fn f3_max() -> u8 {
        7
    }

    pub const fn f4_min() -> u8 {
        0
    }

    pub const fn f4_max() -> u8 {
        7
    }
}

#[asn(sequence, extensible_after(f2))]

#[derive(Default, Debug, Clone, PartialEq, Hash)]
pub struct Ts5ddmmde3 {
    #[asn(default(integer(0..7), 5))] pub f0: u8,
    #[asn(default(integer(0..7), 5))] pub f1: u8,
    #[asn(integer(0..7))] pub f2: u8,
    #[asn(optional(integer(0..7)))] pub f3: Option<u8>,
    #[asn(default(integer(0..7), 5))] pub f4: u8,
}

impl Ts5ddmmde3 {
    pub const fn f0_min() -> u8 {
        0
    }

    pub const fn f0_max() -> u8 {
        7
    }

    pub const fn f1_min() -> u8 {
        0
    }

    pub const fn f1_max() -> u8 {
        7
    }

    pub const fn f2_min() -> u8 {
        0
    }

    pub const fn f2_max() -> u8 {
        7
    }

    pub const fn f3_min() -> u8 {
        0
    }

    pub const fn f3_max() -> u8 {
        7
    }

    pub const fn f4_min() -> u8 {
        0
    }

    pub const fn f4_max() -> u8 {
        7
    }
}

#[asn(sequence, extensible_after(f3))]

#[derive(Default, Debug, Clone, PartialEq, Hash)]
pub struct Ts5ddmmde4 {
    #[asn(default(integer(0..7), 5))] pub f0: u8,
    #[asn(default(integer(0..7), 5))] pub f1: u8,
    #[asn(integer(0..7))] pub f2: u8,
    #[asn(integer(0..7))] pub f3: u8,
    #[asn(default(integer(0..7), 5))] pub f4: u8,
}

impl Ts5ddmmde4 {
    pub const fn f0_min() -> u8 {
        0
    }

    pub const fn f0_max() -> u8 {
        7
    }

    pub const fn f1_min() -> u8 {
        0
    }

    pub const fn f1_max() -> u8 {
        7
    }

    pub const fn f2_min() -> u8 {
        0
    }

    pub const fn f2_max() -> u8 {
        7
    }

    pub const fn f3_min() -> u8 {
        0
    }

    pub const fn f3_max() -> u8 {
        7
    }

    pub const fn f4_min() -> u8 {
        0
    }

    pub const fn f4_max() -> u8 {
        7
    }
}

#[asn(sequence, extensible_after(f4))]

#[derive(Default, Debug, Clone, PartialEq, Hash)]
pub struct Ts5ddmmde5 {
    #[asn(default(integer(0..7), 5))] pub f0: u8,
    #[asn(default(integer(0..7), 5))] pub f1: u8,
    #[asn(integer(0..7))] pub f2: u8,
    #[asn(integer(0..7))] pub f3: u8,
    #[asn(default(integer(0..7), 5))] pub f4: u8,
}

impl Ts5ddmmde5 {
    pub const fn f0_min() -> u8 {
        0
    }

    pub const fn f0_max() -> u8 {
        7
    }

    pub const fn f1_min() -> u8 {
        0
    }

    pub const fn f1_max() -> u8 {
        7
    }

    pub const fn f2_min() -> u8 {
        0
    }

    pub const fn f2_max() -> u8 {
        7
    }

    pub const fn f3_min() -> u8 {
        0
    }

    pub const fn f3_max() -> u8 {
        7
    }

    pub const fn f4_min() -> u8 {
        0
    }

    pub const fn f4_max() -> u8 {
        7
    }
}

#[asn(sequence)]

#[derive(Default, Debug, Clone, PartialEq, Hash)]
pub struct Ts5mmomdn {
    #[asn(integer(0..7))] pub f0: u8,
    #[asn(integer(0..7))] pub f1: u8,
    #[asn(optional(integer(0..7)))] pub f2: Option<u8>,
    #[asn(integer(0..7))] pub f3: u8,
    #[asn(default(integer(0..7), 5))] pub f4: u8,
}

impl Ts5mmomdn {
    pub const fn f0_min() -> u8 {
        0
    }

    pub const fn f0_max() -> u8 {
        7
    }

    pub const fn f1_min() -> u8 {
        0
    }

    pub const fn f1_max() -> u8 {
        7
    }

    pub const fn f2_min() -> u8 {
        0
    }

    pub const fn f2_max() -> u8 {
        7
    }

    pub const fn f3_min() -> u8 {
        0
    }

    pub const fn f3_max() -> u8 {
        7
    }

    pub const fn f4_min() -> u8 {
        0
    }

    pub const fn f4_max() -> u8 {
        7
    }
}

#[asn(sequence, extensible_after(f0))]

#[derive(Default, Debug, Clone, PartialEq, Hash)]
pub struct Ts5mmomde0 {
    #[asn(integer(0..7))] pub f0: u8,
    #[asn(optional(integer(0..7)))] pub f1: Option<u8>,
    #[asn(optional(integer(0..7)))] pub f2: Option<u8>,
    #[asn(optional(integer(0..7)))] pub f3: Option<u8>,
    #[asn(default(integer(0..7), 5))] pub f4: u8,
}

impl Ts5mmomde0 {
    pub const fn f0_min() -> u8 {
        0
    }

    pub const fn f0_max() -> u8 {
        7
    }

    pub const fn f1_min() -> u8 {
        0
    }

    pub const fn f1_max() -> u8 {
        7
    }

    pub const fn f2_min() -> u8 {
        0
    }

    pub const fn f2_max() -> u8 {
        7
    }

    pub const fn f3_min() -> u8 {
        0
    }

    pub const fn f3_max() -> u8 {
        7
    }

    pub const fn f4_min() -> u8 {
        0
    }

    pub const fn f4_max() -> u8 {
        7
    }
}

#[asn(sequence, extensible_after(f0))]

#[derive(Default, Debug, Clone, PartialEq, Hash)]
pub struct Ts5mmomde1 {
    #[asn(integer(0..7))] pub f0: u8,
    #[asn(optional(integer(0..7)))] pub f1: Option<u8>,
    #[asn(optional(integer(0..7)))] pub f2: Option<u8>,
    #[asn(optional(integer(0..7)))] pub f3: Option<u8>,
    #[asn(default(integer(0..7), 5))] pub f4: u8,
}

impl Ts5mmomde1 {
    pub const fn f0_min() -> u8 {
        0
    }

    pub const fn f0_max() -> u8 {
        7
    }

    pub const fn f1_min() -> u8 {
        0
    }

    pub const fn f1_max() -> u8 {
        7
    }

    pub const fn f2_min() -> u8 {
        0
    }

    pub const fn f2_max() -> u8 {
        7
    }

    pub const fn f3_min() -> u8 {
        0
    }

    pub const fn f3_max() -> u8 {
        7
    }

    pub const fn f4_min() -> u8 {
        0
    }

    pub const fn f4_max() -> u8 {
        7
    }
}
// ---- harness conversions (generated by the zoo build script from the items above) ----
impl FromValue for Ts5omddoe1 {
    fn from_value(v: &Value) -> Self {
        let s = match v { Value::Seq(s) => s, other => panic!("Ts5omddoe1: expected Seq, got {other:?}") };
        assert_eq!(s.len(), 5, "Ts5omddoe1: component count");
        let _ = s;
        Ts5omddoe1 {
            f0: s[0].as_ref().map(FromValue::from_value),
            f1: s[1].as_ref().map(FromValue::from_value),
            f2: FromValue::from_value(s[2].as_ref().expect("component f2 of Ts5omddoe1 must be present")),
            f3: FromValue::from_value(s[3].as_ref().expect("component f3 of Ts5omddoe1 must be present")),
            f4: s[4].as_ref().map(FromValue::from_value),
        }
    }
}
impl ToValue for Ts5omddoe1 {
    fn to_value(&self) -> Value {
        Value::Seq(vec![
            self.f0.as_ref().map(|x| x.to_value()),
            self.f1.as_ref().map(|x| x.to_value()),
            Some(self.f2.to_value()),
            Some(self.f3.to_value()),
            self.f4.as_ref().map(|x| x.to_value()),
        ])
    }
}
impl FromValue for Ts5omddoe2 {
    fn from_value(v: &Value) -> Self {
        let s = match v { Value::Seq(s) => s, other => panic!("Ts5omddoe2: expected Seq, got {other:?}") };
        assert_eq!(s.len(), 5, "Ts5omddoe2: component count");
        let _ = s;
        Ts5omddoe2 {
            f0: s[0].as_ref().map(FromValue::from_value),
            f1: FromValue::from_value(s[1].as_ref().expect("component f1 of Ts5omddoe2 must be present")),
            f2: FromValue::from_value(s[2].as_ref().expect("component f2 of Ts5omddoe2 must be present")),
            f3: FromValue::from_value(s[3].as_ref().expect("component f3 of Ts5omddoe2 must be present")),
            f4: s[4].as_ref().map(FromValue::from_value),
        }
    }
}
impl ToValue for Ts5omddoe2 {
    fn to_value(&self) -> Value {
        Value::Seq(vec![
            self.f0.as_ref().map(|x| x.to_value()),
            Some(self.f1.to_value()),
            Some(self.f2.to_value()),
            Some(self.f3.to_value()),
            self.f4.as_ref().map(|x| x.to_value()),
        ])
    }
}
impl FromValue for Ts5omddoe3 {
    fn from_value(v: &Value) -> Self {
        let s = match v { Value::Seq(s) => s, other => panic!("Ts5omddoe3: expected Seq, got {other:?}") };
        assert_eq!(s.len(), 5, "Ts5omddoe3: component count");
        let _ = s;
        Ts5omddoe3 {
            f0: s[0].as_ref().map(FromValue::from_value),
            f1: FromValue::from_value(s[1].as_ref().expect("component f1 of Ts5omddoe3 must be present")),
            f2: FromValue::from_value(s[2].as_ref().expect("component f2 of Ts5omddoe3 must be present")),
            f3: FromValue::from_value(s[3].as_ref().expect("component f3 of Ts5omddoe3 must be present")),
            f4: s[4].as_ref().map(FromValue::from_value),
        }
    }
}
impl ToValue for Ts5omddoe3 {
    fn to_value(&self) -> Value {
        Value::Seq(vec![
            self.f0.as_ref().map(|x| x.to_value()),
            Some(self.f1.to_value()),
            Some(self.f2.to_value()),
            Some(self.f3.to_value()),
            self.f4.as_ref().map(|x| x.to_value()),
        ])
    }
}
impl FromValue for Ts5omddoe4 {
    fn from_value(v: &Value) -> Self {
        let s = match v { Value::Seq(s) => s, other => panic!("Ts5omddoe4: expected Seq, got {other:?}") };
        assert_eq!(s.len(), 5, "Ts5omddoe4: component count");
        let _ = s;
        Ts5omddoe4 {
            f0: s[0].as_ref().map(FromValue::from_value),
            f1: FromValue::from_value(s[1].as_ref().expect("component f1 of Ts5omddoe4 must be present")),
            f2: FromValue::from_value(s[2].as_ref().expect("component f2 of Ts5omddoe4 must be present")),
            f3: FromValue::from_value(s[3].as_ref().expect("component f3 of Ts5omddoe4 must be present")),
            f4: s[4].as_ref().map(FromValue::from_value),
        }
    }
}
impl ToValue for Ts5omddoe4 {
    fn to_value(&self) -> Value {
        Value::Seq(vec![
            self.f0.as_ref().map(|x| x.to_value()),
            Some(self.f1.to_value()),
            Some(self.f2.to_value()),
            Some(self.f3.to_value()),
            self.f4.as_ref().map(|x| x.to_value()),
        ])
    }
}
impl FromValue for Ts5omddoe5 {
    fn from_value(v: &Value) -> Self {
        let s = match v { Value::Seq(s) => s, other => panic!("Ts5omddoe5: expected Seq, got {other:?}") };
        assert_eq!(s.len(), 5, "Ts5omddoe5: component count");
        let _ = s;
        Ts5omddoe5 {
            f0: s[0].as_ref().map(FromValue::from_value),
            f1: FromValue::from_value(s[1].as_ref().expect("component f1 of Ts5omddoe5 must be present")),
            f2: FromValue::from_value(s[2].as_ref().expect("component f2 of Ts5omddoe5 must be present")),
            f3: FromValue::from_value(s[3].as_ref().expect("component f3 of Ts5omddoe5 must be present")),
            f4: s[4].as_ref().map(FromValue::from_value),
        }
    }
}
impl ToValue for Ts5omddoe5 {
    fn to_value(&self) -> Value {
        Value::Seq(vec![
            self.f0.as_ref().map(|x| x.to_value()),
            Some(self.f1.to_value()),
            Some(self.f2.to_value()),
            Some(self.f3.to_value()),
            self.f4.as_ref().map(|x| x.to_value()),
        ])
    }
}
impl FromValue for Ts5dmddon {
    fn from_value(v: &Value) -> Self {
        let s = match v { Value::Seq(s) => s, other => panic!("Ts5dmddon: expected Seq, got {other:?}") };
        assert_eq!(s.len(), 5, "Ts5dmddon: component count");
        let _ = s;
        Ts5dmddon {
            f0: FromValue::from_value(s[0].as_ref().expect("component f0 of Ts5dmddon must be present")),
            f1: FromValue::from_value(s[1].as_ref().expect("component f1 of Ts5dmddon must be present")),
            f2: FromValue::from_value(s[2].as_ref().expect("component f2 of Ts5dmddon must be present")),
            f3: FromValue::from_value(s[3].as_ref().expect("component f3 of Ts5dmddon must be present")),
            f4: s[4].as_ref().map(FromValue::from_value),
        }
    }
}
impl ToValue for Ts5dmddon {
    fn to_value(&self) -> Value {
        Value::Seq(vec![
            Some(self.f0.to_value()),
            Some(self.f1.to_value()),
            Some(self.f2.to_value()),
            Some(self.f3.to_value()),
            self.f4.as_ref().map(|x| x.to_value()),
        ])
    }
}
impl FromValue for Ts5dmddoe0 {
    fn from_value(v: &Value) -> Self {
        let s = match v { Value::Seq(s) => s, other => panic!("Ts5dmddoe0: expected Seq, got {other:?}") };
        assert_eq!(s.len(), 5, "Ts5dmddoe0: component count");
        let _ = s;
        Ts5dmddoe0 {
            f0: FromValue::from_value(s[0].as_ref().expect("component f0 of Ts5dmddoe0 must be present")),
            f1: s[1].as_ref().map(FromValue::from_value),
            f2: FromValue::from_value(s[2].as_ref().expect("component f2 of Ts5dmddoe0 must be present")),
            f3: FromValue::from_value(s[3].as_ref().expect("component f3 of Ts5dmddoe0 must be present")),
            f4: s[4].as_ref().map(FromValue::from_value),
        }
    }
}
impl ToValue for Ts5dmddoe0 {
    fn to_value(&self) -> Value {
        Value::Seq(vec![
            Some(self.f0.to_value()),
            self.f1.as_ref().map(|x| x.to_value()),
            Some(self.f2.to_value()),
            Some(self.f3.to_value()),
            self.f4.as_ref().map(|x| x.to_value()),
        ])
    }
}
impl FromValue for Ts5dmddoe1 {
    fn from_value(v: &Value) -> Self {
        let s = match v { Value::Seq(s) => s, other => panic!("Ts5dmddoe1: expected Seq, got {other:?}") };
        assert_eq!(s.len(), 5, "Ts5dmddoe1: component count");
        let _ = s;
        Ts5dmddoe1 {
            f0: FromValue::from_value(s[0].as_ref().expect("component f0 of Ts5dmddoe1 must be present")),
            f1: s[1].as_ref().map(FromValue::from_value),
            f2: FromValue::from_value(s[2].as_ref().expect("component f2 of Ts5dmddoe1 must be present")),
            f3: FromValue::from_value(s[3].as_ref().expect("component f3 of Ts5dmddoe1 must be present")),
            f4: s[4].as_ref().map(FromValue::from_value),
        }
    }
}
impl ToValue for Ts5dmddoe1 {
    fn to_value(&self) -> Value {
        Value::Seq(vec![
            Some(self.f0.to_value()),
            self.f1.as_ref().map(|x| x.to_value()),
            Some(self.f2.to_value()),
            Some(self.f3.to_value()),
            self.f4.as_ref().map(|x| x.to_value()),
        ])
    }
}
impl FromValue for Ts5dmddoe2 {
    fn from_value(v: &Value) -> Self {
        let s = match v { Value::Seq(s) => s, other => panic!("Ts5dmddoe2: expected Seq, got {other:?}") };
        assert_eq!(s.len(), 5, "Ts5dmddoe2: component count");
        let _ = s;
        Ts5dmddoe2 {
            f0: FromValue::from_value(s[0].as_ref().expect("component f0 of Ts5dmddoe2 must be present")),
            f1: FromValue::from_value(s[1].as_ref().expect("component f1 of Ts5dmddoe2 must be present")),
            f2: FromValue::from_value(s[2].as_ref().expect("component f2 of Ts5dmddoe2 must be present")),
            f3: FromValue::from_value(s[3].as_ref().expect("component f3 of Ts5dmddoe2 must be present")),
            f4: s[4].as_ref().map(FromValue::from_value),
        }
    }
}
impl ToValue for Ts5dmddoe2 {
    fn to_value(&self) -> Value {
        Value::Seq(vec![
            Some(self.f0.to_value()),
            Some(self.f1.to_value()),
            Some(self.f2.to_value()),
            Some(self.f3.to_value()),
            self.f4.as_ref().map(|x| x.to_value()),
        ])
    }
}
impl FromValue for Ts5dmddoe3 {
    fn from_value(v: &Value) -> Self {
        let s = match v { Value::Seq(s) => s, other => panic!("Ts5dmddoe3: expected Seq, got {other:?}") };
        assert_eq!(s.len(), 5, "Ts5dmddoe3: component count");
        let _ = s;
        Ts5dmddoe3 {
            f0: FromValue::from_value(s[0].as_ref().expect("component f0 of Ts5dmddoe3 must be present")),
            f1: FromValue::from_value(s[1].as_ref().expect("component f1 of Ts5dmddoe3 must be present")),
            f2: FromValue::from_value(s[2].as_ref().expect("component f2 of Ts5dmddoe3 must be present")),
            f3: FromValue::from_value(s[3].as_ref().expect("component f3 of Ts5dmddoe3 must be present")),
            f4: s[4].as_ref().map(FromValue::from_value),
        }
    }
}
impl ToValue for Ts5dmddoe3 {
    fn to_value(&self) -> Value {
        Value::Seq(vec![
            Some(self.f0.to_value()),
            Some(self.f1.to_value()),
            Some(self.f2.to_value()),
            Some(self.f3.to_value()),
            self.f4.as_ref().map(|x| x.to_value()),
        ])
    }
}
impl FromValue for Ts5dmddoe4 {
    fn from_value(v: &Value) -> Self {
        let s = match v { Value::Seq(s) => s, other => panic!("Ts5dmddoe4: expected Seq, got {other:?}") };
        assert_eq!(s.len(), 5, "Ts5dmddoe4: component count");
        let _ = s;
        Ts5dmddoe4 {
            f0: FromValue::from_value(s[0].as_ref().expect("component f0 of Ts5dmddoe4 must be present")),
            f1: FromValue::from_value(s[1].as_ref().expect("component f1 of Ts5dmddoe4 must be present")),
            f2: FromValue::from_value(s[2].as_ref().expect("component f2 of Ts5dmddoe4 must be present")),
            f3: FromValue::from_value(s[3].as_ref().expect("component f3 of Ts5dmddoe4 must be present")),
            f4: s[4].as_ref().map(FromValue::from_value),
        }
    }
}
impl ToValue for Ts5dmddoe4 {
    fn to_value(&self) -> Value {
        Value::Seq(vec![
            Some(self.f0.to_value()),
            Some(self.f1.to_value()),
            Some(self.f2.to_value()),
            Some(self.f3.to_value()),
            self.f4.as_ref().map(|x| x.to_value()),
        ])
    }
}
impl FromValue for Ts5dmddoe5 {
    fn from_value(v: &Value) -> Self {
        let s = match v { Value::Seq(s) => s, other => panic!("Ts5dmddoe5: expected Seq, got {other:?}") };
        assert_eq!(s.len(), 5, "Ts5dmddoe5: component count");
        let _ = s;
        Ts5dmddoe5 {
            f0: FromValue::from_value(s[0].as_ref().expect("component f0 of Ts5dmddoe5 must be present")),
            f1: FromValue::from_value(s[1].as_ref().expect("component f1 of Ts5dmddoe5 must be present")),
            f2: FromValue::from_value(s[2].as_ref().expect("component f2 of Ts5dmddoe5 must be present")),
            f3: FromValue::from_value(s[3].as_ref().expect("component f3 of Ts5dmddoe5 must be present")),
            f4: s[4].as_ref().map(FromValue::from_value),
        }
    }
}
impl ToValue for Ts5dmddoe5 {
    fn to_value(&self) -> Value {
        Value::Seq(vec![
            Some(self.f0.to_value()),
            Some(self.f1.to_value()),
            Some(self.f2.to_value()),
            Some(self.f3.to_value()),
            self.f4.as_ref().map(|x| x.to_value()),
        ])
    }
}
impl FromValue for Ts5moddon {
    fn from_value(v: &Value) -> Self {
        let s = match v { Value::Seq(s) => s, other => panic!("Ts5moddon: expected Seq, got {other:?}") };
        assert_eq!(s.len(), 5, "Ts5moddon: component count");
        let _ = s;
        Ts5moddon {
            f0: FromValue::from_value(s[0].as_ref().expect("component f0 of Ts5moddon must be present")),
            f1: s[1].as_ref().map(FromValue::from_value),
            f2: FromValue::from_value(s[2].as_ref().expect("component f2 of Ts5moddon must be present")),
            f3: FromValue::from_value(s[3].as_ref().expect("component f3 of Ts5moddon must be present")),
            f4: s[4].as_ref().map(FromValue::from_value),
        }
    }
}
impl ToValue for Ts5moddon {
    fn to_value(&self) -> Value {
        Value::Seq(vec![
            Some(self.f0.to_value()),
            self.f1.as_ref().map(|x| x.to_value()),
            Some(self.f2.to_value()),
            Some(self.f3.to_value()),
            self.f4.as_ref().map(|x| x.to_value()),
        ])
    }
}
impl FromValue for Ts5moddoe0 {
    fn from_value(v: &Value) -> Self {
        let s = match v { Value::Seq(s) => s, other => panic!("Ts5moddoe0: expected Seq, got {other:?}") };
        assert_eq!(s.len(), 5, "Ts5moddoe0: component count");
        let _ = s;
        Ts5moddoe0 {
            f0: FromValue::from_value(s[0].as_ref().expect("component f0 of Ts5moddoe0 must be present")),
            f1: s[1].as_ref().map(FromValue::from_value),
            f2: FromValue::from_value(s[2].as_ref().expect("component f2 of Ts5moddoe0 must be present")),
            f3: FromValue::from_value(s[3].as_ref().expect("component f3 of Ts5moddoe0 must be present")),
            f4: s[4].as_ref().map(FromValue::from_value),
        }
    }
}
impl ToValue for Ts5moddoe0 {
    fn to_value(&self) -> Value {
        Value::Seq(vec![
            Some(self.f0.to_value()),
            self.f1.as_ref().map(|x| x.to_value()),
            Some(self.f2.to_value()),
            Some(self.f3.to_value()),
            self.f4.as_ref().map(|x| x.to_value()),
        ])
    }
}
impl FromValue for Ts5moddoe1 {
    fn from_value(v: &Value) -> Self {
        let s = match v { Value::Seq(s) => s, other => panic!("Ts5moddoe1: expected Seq, got {other:?}") };
        assert_eq!(s.len(), 5, "Ts5moddoe1: component count");
        let _ = s;
        Ts5moddoe1 {
            f0: FromValue::from_value(s[0].as_ref().expect("component f0 of Ts5moddoe1 must be present")),
            f1: s[1].as_ref().map(FromValue::from_value),
            f2: FromValue::from_value(s[2].as_ref().expect("component f2 of Ts5moddoe1 must be present")),
            f3: FromValue::from_value(s[3].as_ref().expect("component f3 of Ts5moddoe1 must be present")),
            f4: s[4].as_ref().map(FromValue::from_value),
        }
    }
}
impl ToValue for Ts5moddoe1 {
    fn to_value(&self) -> Value {
        Value::Seq(vec![
            Some(self.f0.to_value()),
            self.f1.as_ref().map(|x| x.to_value()),
            Some(self.f2.to_value()),
            Some(self.f3.to_value()),
            self.f4.as_ref().map(|x| x.to_value()),
        ])
    }
}
impl FromValue for Ts5moddoe2 {
    fn from_value(v: &Value) -> Self {
        let s = match v { Value::Seq(s) => s, other => panic!("Ts5moddoe2: expected Seq, got {other:?}") };
        assert_eq!(s.len(), 5, "Ts5moddoe2: component count");
        let _ = s;
        Ts5moddoe2 {
            f0: FromValue::from_value(s[0].as_ref().expect("component f0 of Ts5moddoe2 must be present")),
            f1: s[1].as_ref().map(FromValue::from_value),
            f2: FromValue::from_value(s[2].as_ref().expect("component f2 of Ts5moddoe2 must be present")),
            f3: FromValue::from_value(s[3].as_ref().expect("component f3 of Ts5moddoe2 must be present")),
            f4: s[4].as_ref().map(FromValue::from_value),
        }
    }
}
impl ToValue for Ts5moddoe2 {
    fn to_value(&self) -> Value {
        Value::Seq(vec![
            Some(self.f0.to_value()),
            self.f1.as_ref().map(|x| x.to_value()),
            Some(self.f2.to_value()),
            Some(self.f3.to_value()),
            self.f4.as_ref().map(|x| x.to_value()),
        ])
    }
}
impl FromValue for Ts5moddoe3 {
    fn from_value(v: &Value) -> Self {
        let s = match v { Value::Seq(s) => s, other => panic!("Ts5moddoe3: expected Seq, got {other:?}") };
        assert_eq!(s.len(), 5, "Ts5moddoe3: component count");
        let _ = s;
        Ts5moddoe3 {
            f0: FromValue::from_value(s[0].as_ref().expect("component f0 of Ts5moddoe3 must be present")),
            f1: s[1].as_ref().map(FromValue::from_value),
            f2: FromValue::from_value(s[2].as_ref().expect("component f2 of Ts5moddoe3 must be present")),
            f3: FromValue::from_value(s[3].as_ref().expect("component f3 of Ts5moddoe3 must be present")),
            f4: s[4].as_ref().map(FromValue::from_value),
        }
    }
}
impl ToValue for Ts5moddoe3 {
    fn to_value(&self) -> Value {
        Value::Seq(vec![
            Some(self.f0.to_value()),
            self.f1.as_ref().map(|x| x.to_value()),
            Some(self.f2.to_value()),
            Some(self.f3.to_value()),
            self.f4.as_ref().map(|x| x.to_value()),
        ])
    }
}
impl FromValue for Ts5moddoe4 {
    fn from_value(v: &Value) -> Self {
        let s = match v { Value::Seq(s) => s, other => panic!("Ts5moddoe4: expected Seq, got {other:?}") };
        assert_eq!(s.len(), 5, "Ts5moddoe4: component count");
        let _ = s;
        Ts5moddoe4 {
            f0: FromValue::from_value(s[0].as_ref().expect("component f0 of Ts5moddoe4 must be present")),
            f1: s[1].as_ref().map(FromValue::from_value),
            f2: FromValue::from_value(s[2].as_ref().expect("component f2 of Ts5moddoe4 must be present")),
            f3: FromValue::from_value(s[3].as_ref().expect("component f3 of Ts5moddoe4 must be present")),
            f4: s[4].as_ref().map(FromValue::from_value),
        }
    }
}
impl ToValue for Ts5moddoe4 {
    fn to_value(&self) -> Value {
        Value::Seq(vec![
            Some(self.f0.to_value()),
            self.f1.as_ref().map(|x| x.to_value()),
            Some(self.f2.to_value()),
            Some(self.f3.to_value()),
            self.f4.as_ref().map(|x| x.to_value()),
        ])
    }
}
impl FromValue for Ts5moddoe5 {
    fn from_value(v: &Value) -> Self {
        let s = match v { Value::Seq(s) => s, other => panic!("Ts5moddoe5: expected Seq, got {other:?}") };
        assert_eq!(s.len(), 5, "Ts5moddoe5: component count");
        let _ = s;
        Ts5moddoe5 {
            f0: FromValue::from_value(s[0].as_ref().expect("component f0 of Ts5moddoe5 must be present")),
            f1: s[1].as_ref().map(FromValue::from_value),
            f2: FromValue::from_value(s[2].as_ref().expect("component f2 of Ts5moddoe5 must be present")),
            f3: FromValue::from_value(s[3].as_ref().expect("component f3 of Ts5moddoe5 must be present")),
            f4: s[4].as_ref().map(FromValue::from_value),
        }
    }
}
impl ToValue for Ts5moddoe5 {
    fn to_value(&self) -> Value {
        Value::Seq(vec![
            Some(self.f0.to_value()),
            self.f1.as_ref().map(|x| x.to_value()),
            Some(self.f2.to_value()),
            Some(self.f3.to_value()),
            self.f4.as_ref().map(|x| x.to_value()),
        ])
    }
}
impl FromValue for Ts5ooddon {
    fn from_value(v: &Value) -> Self {
        let s = match v { Value::Seq(s) => s, other => panic!("Ts5ooddon: expected Seq, got {other:?}") };
        assert_eq!(s.len(), 5, "Ts5ooddon: component count");
        let _ = s;
        Ts5ooddon {
            f0: s[0].as_ref().map(FromValue::from_value),
            f1: s[1].as_ref().map(FromValue::from_value),
            f2: FromValue::from_value(s[2].as_ref().expect("component f2 of Ts5ooddon must be present")),
            f3: FromValue::from_value(s[3].as_ref().expect("component f3 of Ts5ooddon must be present")),
            f4: s[4].as_ref().map(FromValue::from_value),
        }
    }
}
impl ToValue for Ts5ooddon {
    fn to_value(&self) -> Value {
        Value::Seq(vec![
            self.f0.as_ref().map(|x| x.to_value()),
            self.f1.as_ref().map(|x| x.to_value()),
            Some(self.f2.to_value()),
            Some(self.f3.to_value()),
            self.f4.as_ref().map(|x| x.to_value()),
        ])
    }
}
impl FromValue for Ts5ooddoe0 {
    fn from_value(v: &Value) -> Self {
        let s = match v { Value::Seq(s) => s, other => panic!("Ts5ooddoe0: expected Seq, got {other:?}") };
        assert_eq!(s.len(), 5, "Ts5ooddoe0: component count");
        let _ = s;
        Ts5ooddoe0 {
            f0: s[0].as_ref().map(FromValue::from_value),
            f1: s[1].as_ref().map(FromValue::from_value),
            f2: FromValue::from_value(s[2].as_ref().expect("component f2 of Ts5ooddoe0 must be present")),
            f3: FromValue::from_value(s[3].as_ref().expect("component f3 of Ts5ooddoe0 must be present")),
            f4: s[4].as_ref().map(FromValue::from_value),
        }
    }
}
impl ToValue for Ts5ooddoe0 {
    fn to_value(&self) -> Value {
        Value::Seq(vec![
            self.f0.as_ref().map(|x| x.to_value()),
            self.f1.as_ref().map(|x| x.to_value()),
            Some(self.f2.to_value()),
            Some(self.f3.to_value()),
            self.f4.as_ref().map(|x| x.to_value()),
        ])
    }
}
impl FromValue for Ts5ooddoe1 {
    fn from_value(v: &Value) -> Self {
        let s = match v { Value::Seq(s) => s, other => panic!("Ts5ooddoe1: expected Seq, got {other:?}") };
        assert_eq!(s.len(), 5, "Ts5ooddoe1: component count");
        let _ = s;
        Ts5ooddoe1 {
            f0: s[0].as_ref().map(FromValue::from_value),
            f1: s[1].as_ref().map(FromValue::from_value),
            f2: FromValue::from_value(s[2].as_ref().expect("component f2 of Ts5ooddoe1 must be present")),
            f3: FromValue::from_value(s[3].as_ref().expect("component f3 of Ts5ooddoe1 must be present")),
            f4: s[4].as_ref().map(FromValue::from_value),
        }
    }
}
impl ToValue for Ts5ooddoe1 {
    fn to_value(&self) -> Value {
        Value::Seq(vec![
            self.f0.as_ref().map(|x| x.to_value()),
            self.f1.as_ref().map(|x| x.to_value()),
            Some(self.f2.to_value()),
            Some(self.f3.to_value()),
            self.f4.as_ref().map(|x| x.to_value()),
        ])
    }
}
impl FromValue for Ts5ooddoe2 {
    fn from_value(v: &Value) -> Self {
        let s = match v { Value::Seq(s) => s, other => panic!("Ts5ooddoe2: expected Seq, got {other:?}") };
        assert_eq!(s.len(), 5, "Ts5ooddoe2: component count");
        let _ = s;
        Ts5ooddoe2 {
            f0: s[0].as_ref().map(FromValue::from_value),
            f1: s[1].as_ref().map(FromValue::from_value),
            f2: FromValue::from_value(s[2].as_ref().expect("component f2 of Ts5ooddoe2 must be present")),
            f3: FromValue::from_value(s[3].as_ref().expect("component f3 of Ts5ooddoe2 must be present")),
            f4: s[4].as_ref().map(FromValue::from_value),
        }
    }
}
impl ToValue for Ts5ooddoe2 {
    fn to_value(&self) -> Value {
        Value::Seq(vec![
            self.f0.as_ref().map(|x| x.to_value()),
            self.f1.as_ref().map(|x| x.to_value()),
            Some(self.f2.to_value()),
            Some(self.f3.to_value()),
            self.f4.as_ref().map(|x| x.to_value()),
        ])
    }
}
impl FromValue for Ts5ooddoe3 {
    fn from_value(v: &Value) -> Self {
        let s = match v { Value::Seq(s) => s, other => panic!("Ts5ooddoe3: expected Seq, got {other:?}") };
        assert_eq!(s.len(), 5, "Ts5ooddoe3: component count");
        let _ = s;
        Ts5ooddoe3 {
            f0: s[0].as_ref().map(FromValue::from_value),
            f1: s[1].as_ref().map(FromValue::from_value),
            f2: FromValue::from_value(s[2].as_ref().expect("component f2 of Ts5ooddoe3 must be present")),
            f3: FromValue::from_value(s[3].as_ref().expect("component f3 of Ts5ooddoe3 must be present")),
            f4: s[4].as_ref().map(FromValue::from_value),
        }
    }
}
impl ToValue for Ts5ooddoe3 {
    fn to_value(&self) -> Value {
        Value::Seq(vec![
            self.f0.as_ref().map(|x| x.to_value()),
            self.f1.as_ref().map(|x| x.to_value()),
            Some(self.f2.to_value()),
            Some(self.f3.to_value()),
            self.f4.as_ref().map(|x| x.to_value()),
        ])
    }
}
impl FromValue for Ts5ooddoe4 {
    fn from_value(v: &Value) -> Self {
        let s = match v { Value::Seq(s) => s, other => panic!("Ts5ooddoe4: expected Seq, got {other:?}") };
        assert_eq!(s.len(), 5, "Ts5ooddoe4: component count");
        let _ = s;
        Ts5ooddoe4 {
            f0: s[0].as_ref().map(FromValue::from_value),
            f1: s[1].as_ref().map(FromValue::from_value),
            f2: FromValue::from_value(s[2].as_ref().expect("component f2 of Ts5ooddoe4 must be present")),
            f3: FromValue::from_value(s[3].as_ref().expect("component f3 of Ts5ooddoe4 must be present")),
            f4: s[4].as_ref().map(FromValue::from_value),
        }
    }
}
impl ToValue for Ts5ooddoe4 {
    fn to_value(&self) -> Value {
        Value::Seq(vec![
            self.f0.as_ref().map(|x| x.to_value()),
            self.f1.as_ref().map(|x| x.to_value()),
            Some(self.f2.to_value()),
            Some(self.f3.to_value()),
            self.f4.as_ref().map(|x| x.to_value()),
        ])
    }
}
impl FromValue for Ts5ooddoe5 {
    fn from_value(v: &Value) -> Self {
        let s = match v { Value::Seq(s) => s, other => panic!("Ts5ooddoe5: expected Seq, got {other:?}") };
        assert_eq!(s.len(), 5, "Ts5ooddoe5: component count");
        let _ = s;
        Ts5ooddoe5 {
            f0: s[0].as_ref().map(FromValue::from_value),
            f1: s[1].as_ref().map(FromValue::from_value),
            f2: FromValue::from_value(s[2].as_ref().expect("component f2 of Ts5ooddoe5 must be present")),
            f3: FromValue::from_value(s[3].as_ref().expect("component f3 of Ts5ooddoe5 must be present")),
            f4: s[4].as_ref().map(FromValue::from_value),
        }
    }
}
impl ToValue for Ts5ooddoe5 {
    fn to_value(&self) -> Value {
        Value::Seq(vec![
            self.f0.as_ref().map(|x| x.to_value()),
            self.f1.as_ref().map(|x| x.to_value()),
            Some(self.f2.to_value()),
            Some(self.f3.to_value()),
            self.f4.as_ref().map(|x| x.to_value()),
        ])
    }
}
impl FromValue for Ts5doddon {
    fn from_value(v: &Value) -> Self {
        let s = match v { Value::Seq(s) => s, other => panic!("Ts5doddon: expected Seq, got {other:?}") };
        assert_eq!(s.len(), 5, "Ts5doddon: component count");
        let _ = s;
        Ts5doddon {
            f0: FromValue::from_value(s[0].as_ref().expect("component f0 of Ts5doddon must be present")),
            f1: s[1].as_ref().map(FromValue::from_value),
            f2: FromValue::from_value(s[2].as_ref().expect("component f2 of Ts5doddon must be present")),
            f3: FromValue::from_value(s[3].as_ref().expect("component f3 of Ts5doddon must be present")),
            f4: s[4].as_ref().map(FromValue::from_value),
        }
    }
}
impl ToValue for Ts5doddon {
    fn to_value(&self) -> Value {
        Value::Seq(vec![
            Some(self.f0.to_value()),
            self.f1.as_ref().map(|x| x.to_value()),
            Some(self.f2.to_value()),
            Some(self.f3.to_value()),
            self.f4.as_ref().map(|x| x.to_value()),
        ])
    }
}
impl FromValue for Ts5doddoe0 {
    fn from_value(v: &Value) -> Self {
        let s = match v { Value::Seq(s) => s, other => panic!("Ts5doddoe0: expected Seq, got {other:?}") };
        assert_eq!(s.len(), 5, "Ts5doddoe0: component count");
        let _ = s;
        Ts5doddoe0 {
            f0: FromValue::from_value(s[0].as_ref().expect("component f0 of Ts5doddoe0 must be present")),
            f1: s[1].as_ref().map(FromValue::from_value),
            f2: FromValue::from_value(s[2].as_ref().expect("component f2 of Ts5doddoe0 must be present")),
            f3: FromValue::from_value(s[3].as_ref().expect("component f3 of Ts5doddoe0 must be present")),
            f4: s[4].as_ref().map(FromValue::from_value),
        }
    }
}
impl ToValue for Ts5doddoe0 {
    fn to_value(&self) -> Value {
        Value::Seq(vec![
            Some(self.f0.to_value()),
            self.f1.as_ref().map(|x| x.to_value()),
            Some(self.f2.to_value()),
            Some(self.f3.to_value()),
            self.f4.as_ref().map(|x| x.to_value()),
        ])
    }
}
impl FromValue for Ts5doddoe1 {
    fn from_value(v: &Value) -> Self {
        let s = match v { Value::Seq(s) => s, other => panic!("Ts5doddoe1: expected Seq, got {other:?}") };
        assert_eq!(s.len(), 5, "Ts5doddoe1: component count");
        let _ = s;
        Ts5doddoe1 {
            f0: FromValue::from_value(s[0].as_ref().expect("component f0 of Ts5doddoe1 must be present")),
            f1: s[1].as_ref().map(FromValue::from_value),
            f2: FromValue::from_value(s[2].as_ref().expect("component f2 of Ts5doddoe1 must be present")),
            f3: FromValue::from_value(s[3].as_ref().expect("component f3 of Ts5doddoe1 must be present")),
            f4: s[4].as_ref().map(FromValue::from_value),
        }
    }
}
impl ToValue for Ts5doddoe1 {
    fn to_value(&self) -> Value {
        Value::Seq(vec![
            Some(self.f0.to_value()),
            self.f1.as_ref().map(|x| x.to_value()),
            Some(self.f2.to_value()),
            Some(self.f3.to_value()),
            self.f4.as_ref().map(|x| x.to_value()),
        ])
    }
}
impl FromValue for Ts5doddoe2 {
    fn from_value(v: &Value) -> Self {
        let s = match v { Value::Seq(s) => s, other => panic!("Ts5doddoe2: expected Seq, got {other:?}") };
        assert_eq!(s.len(), 5, "Ts5doddoe2: component count");
        let _ = s;
        Ts5doddoe2 {
            f0: FromValue::from_value(s[0].as_ref().expect("component f0 of Ts5doddoe2 must be present")),
            f1: s[1].as_ref().map(FromValue::from_value),
            f2: FromValue::from_value(s[2].as_ref().expect("component f2 of Ts5doddoe2 must be present")),
            f3: FromValue::from_value(s[3].as_ref().expect("component f3 of Ts5doddoe2 must be present")),
            f4: s[4].as_ref().map(FromValue::from_value),
        }
    }
}
impl ToValue for Ts5doddoe2 {
    fn to_value(&self) -> Value {
        Value::Seq(vec![
            Some(self.f0.to_value()),
            self.f1.as_ref().map(|x| x.to_value()),
            Some(self.f2.to_value()),
            Some(self.f3.to_value()),
            self.f4.as_ref().map(|x| x.to_value()),
        ])
    }
}
impl FromValue for Ts5doddoe3 {
    fn from_value(v: &Value) -> Self {
        let s = match v { Value::Seq(s) => s, other => panic!("Ts5doddoe3: expected Seq, got {other:?}") };
        assert_eq!(s.len(), 5, "Ts5doddoe3: component count");
        let _ = s;
        Ts5doddoe3 {
            f0: FromValue::from_value(s[0].as_ref().expect("component f0 of Ts5doddoe3 must be present")),
            f1: s[1].as_ref().map(FromValue::from_value),
            f2: FromValue::from_value(s[2].as_ref().expect("component f2 of Ts5doddoe3 must be present")),
            f3: FromValue::from_value(s[3].as_ref().expect("component f3 of Ts5doddoe3 must be present")),
            f4: s[4].as_ref().map(FromValue::from_value),
        }
    }
}
impl ToValue for Ts5doddoe3 {
    fn to_value(&self) -> Value {
        Value::Seq(vec![
            Some(self.f0.to_value()),
            self.f1.as_ref().map(|x| x.to_value()),
            Some(self.f2.to_value()),
            Some(self.f3.to_value()),
            self.f4.as_ref().map(|x| x.to_value()),
        ])
    }
}
impl FromValue for Ts5doddoe4 {
    fn from_value(v: &Value) -> Self {
        let s = match v { Value::Seq(s) => s, other => panic!("Ts5doddoe4: expected Seq, got {other:?}") };
        assert_eq!(s.len(), 5, "Ts5doddoe4: component count");
        let _ = s;
        Ts5doddoe4 {
            f0: FromValue::from_value(s[0].as_ref().expect("component f0 of Ts5doddoe4 must be present")),
            f1: s[1].as_ref().map(FromValue::from_value),
            f2: FromValue::from_value(s[2].as_ref().expect("component f2 of Ts5doddoe4 must be present")),
            f3: FromValue::from_value(s[3].as_ref().expect("component f3 of Ts5doddoe4 must be present")),
            f4: s[4].as_ref().map(FromValue::from_value),
        }
    }
}
impl ToValue for Ts5doddoe4 {
    fn to_value(&self) -> Value {
        Value::Seq(vec![
            Some(self.f0.to_value()),
            self.f1.as_ref().map(|x| x.to_value()),
            Some(self.f2.to_value()),
            Some(self.f3.to_value()),
            self.f4.as_ref().map(|x| x.to_value()),
        ])
    }
}
impl FromValue for Ts5doddoe5 {
    fn from_value(v: &Value) -> Self {
        let s = match v { Value::Seq(s) => s, other => panic!("Ts5doddoe5: expected Seq, got {other:?}") };
        assert_eq!(s.len(), 5, "Ts5doddoe5: component count");
        let _ = s;
        Ts5doddoe5 {
            f0: FromValue::from_value(s[0].as_ref().expect("component f0 of Ts5doddoe5 must be present")),
            f1: s[1].as_ref().map(FromValue::from_value),
            f2: FromValue::from_value(s[2].as_ref().expect("component f2 of Ts5doddoe5 must be present")),
            f3: FromValue::from_value(s[3].as_ref().expect("component f3 of Ts5doddoe5 must be present")),
            f4: s[4].as_ref().map(FromValue::from_value),
        }
    }
}
impl ToValue for Ts5doddoe5 {
    fn to_value(&self) -> Value {
        Value::Seq(vec![
            Some(self.f0.to_value()),
            self.f1.as_ref().map(|x| x.to_value()),
            Some(self.f2.to_value()),
            Some(self.f3.to_value()),
            self.f4.as_ref().map(|x| x.to_value()),
        ])
    }
}
impl FromValue for Ts5mdddon {
    fn from_value(v: &Value) -> Self {
        let s = match v { Value::Seq(s) => s, other => panic!("Ts5mdddon: expected Seq, got {other:?}") };
        assert_eq!(s.len(), 5, "Ts5mdddon: component count");
        let _ = s;
        Ts5mdddon {
            f0: FromValue::from_value(s[0].as_ref().expect("component f0 of Ts5mdddon must be present")),
            f1: FromValue::from_value(s[1].as_ref().expect("component f1 of Ts5mdddon must be present")),
            f2: FromValue::from_value(s[2].as_ref().expect("component f2 of Ts5mdddon must be present")),
            f3: FromValue::from_value(s[3].as_ref().expect("component f3 of Ts5mdddon must be present")),
            f4: s[4].as_ref().map(FromValue::from_value),
        }
    }
}
impl ToValue for Ts5mdddon {
    fn to_value(&self) -> Value {
        Value::Seq(vec![
            Some(self.f0.to_value()),
            Some(self.f1.to_value()),
            Some(self.f2.to_value()),
            Some(self.f3.to_value()),
            self.f4.as_ref().map(|x| x.to_value()),
        ])
    }
}
impl FromValue for Ts5mdddoe0 {
    fn from_value(v: &Value) -> Self {
        let s = match v { Value::Seq(s) => s, other => panic!("Ts5mdddoe0: expected Seq, got {other:?}") };
        assert_eq!(s.len(), 5, "Ts5mdddoe0: component count");
        let _ = s;
        Ts5mdddoe0 {
            f0: FromValue::from_value(s[0].as_ref().expect("component f0 of Ts5mdddoe0 must be present")),
            f1: FromValue::from_value(s[1].as_ref().expect("component f1 of Ts5mdddoe0 must be present")),
            f2: FromValue::from_value(s[2].as_ref().expect("component f2 of Ts5mdddoe0 must be present")),
            f3: FromValue::from_value(s[3].as_ref().expect("component f3 of Ts5mdddoe0 must be present")),
            f4: s[4].as_ref().map(FromValue::from_value),
        }
    }
}
impl ToValue for Ts5mdddoe0 {
    fn to_value(&self) -> Value {
        Value::Seq(vec![
            Some(self.f0.to_value()),
            Some(self.f1.to_value()),
            Some(self.f2.to_value()),
            Some(self.f3.to_value()),
            self.f4.as_ref().map(|x| x.to_value()),
        ])
    }
}
impl FromValue for Ts5mdddoe1 {
    fn from_value(v: &Value) -> Self {
        let s = match v { Value::Seq(s) => s, other => panic!("Ts5mdddoe1: expected Seq, got {other:?}") };
        assert_eq!(s.len(), 5, "Ts5mdddoe1: component count");
        let _ = s;
        Ts5mdddoe1 {
            f0: FromValue::from_value(s[0].as_ref().expect("component f0 of Ts5mdddoe1 must be present")),
            f1: FromValue::from_value(s[1].as_ref().expect("component f1 of Ts5mdddoe1 must be present")),
            f2: FromValue::from_value(s[2].as_ref().expect("component f2 of Ts5mdddoe1 must be present")),
            f3: FromValue::from_value(s[3].as_ref().expect("component f3 of Ts5mdddoe1 must be present")),
            f4: s[4].as_ref().map(FromValue::from_value),
        }
    }
}
impl ToValue for Ts5mdddoe1 {
    fn to_value(&self) -> Value {
        Value::Seq(vec![
            Some(self.f0.to_value()),
            Some(self.f1.to_value()),
            Some(self.f2.to_value()),
            Some(self.f3.to_value()),
            self.f4.as_ref().map(|x| x.to_value()),
        ])
    }
}
impl FromValue for Ts5mdddoe2 {
    fn from_value(v: &Value) -> Self {
        let s = match v { Value::Seq(s) => s, other => panic!("Ts5mdddoe2: expected Seq, got {other:?}") };
        assert_eq!(s.len(), 5, "Ts5mdddoe2: component count");
        let _ = s;
        Ts5mdddoe2 {
            f0: FromValue::from_value(s[0].as_ref().expect("component f0 of Ts5mdddoe2 must be present")),
            f1: FromValue::from_value(s[1].as_ref().expect("component f1 of Ts5mdddoe2 must be present")),
            f2: FromValue::from_value(s[2].as_ref().expect("component f2 of Ts5mdddoe2 must be present")),
            f3: FromValue::from_value(s[3].as_ref().expect("component f3 of Ts5mdddoe2 must be present")),
            f4: s[4].as_ref().map(FromValue::from_value),
        }
    }
}
impl ToValue for Ts5mdddoe2 {
    fn to_value(&self) -> Value {
        Value::Seq(vec![
            Some(self.f0.to_value()),
            Some(self.f1.to_value()),
            Some(self.f2.to_value()),
            Some(self.f3.to_value()),
            self.f4.as_ref().map(|x| x.to_value()),
        ])
    }
}
impl FromValue for Ts5mdddoe3 {
    fn from_value(v: &Value) -> Self {
        let s = match v { Value::Seq(s) => s, other => panic!("Ts5mdddoe3: expected Seq, got {other:?}") };
        assert_eq!(s.len(), 5, "Ts5mdddoe3: component count");
        let _ = s;
        Ts5mdddoe3 {
            f0: FromValue::from_value(s[0].as_ref().expect("component f0 of Ts5mdddoe3 must be present")),
            f1: FromValue::from_value(s[1].as_ref().expect("component f1 of Ts5mdddoe3 must be present")),
            f2: FromValue::from_value(s[2].as_ref().expect("component f2 of Ts5mdddoe3 must be present")),
            f3: FromValue::from_value(s[3].as_ref().expect("component f3 of Ts5mdddoe3 must be present")),
            f4: s[4].as_ref().map(FromValue::from_value),
        }
    }
}
impl ToValue for Ts5mdddoe3 {
    fn to_value(&self) -> Value {
        Value::Seq(vec![
            Some(self.f0.to_value()),
            Some(self.f1.to_value()),
            Some(self.f2.to_value()),
            Some(self.f3.to_value()),
            self.f4.as_ref().map(|x| x.to_value()),
        ])
    }
}
impl FromValue for Ts5mdddoe4 {
    fn from_value(v: &Value) -> Self {
        let s = match v { Value::Seq(s) => s, other => panic!("Ts5mdddoe4: expected Seq, got {other:?}") };
        assert_eq!(s.len(), 5, "Ts5mdddoe4: component count");
        let _ = s;
        Ts5mdddoe4 {
            f0: FromValue::from_value(s[0].as_ref().expect("component f0 of Ts5mdddoe4 must be present")),
            f1: FromValue::from_value(s[1].as_ref().expect("component f1 of Ts5mdddoe4 must be present")),
            f2: FromValue::from_value(s[2].as_ref().expect("component f2 of Ts5mdddoe4 must be present")),
            f3: FromValue::from_value(s[3].as_ref().expect("component f3 of Ts5mdddoe4 must be present")),
            f4: s[4].as_ref().map(FromValue::from_value),
        }
    }
}
impl ToValue for Ts5mdddoe4 {
    fn to_value(&self) -> Value {
        Value::Seq(vec![
            Some(self.f0.to_value()),
            Some(self.f1.to_value()),
            Some(self.f2.to_value()),
            Some(self.f3.to_value()),
            self.f4.as_ref().map(|x| x.to_value()),
        ])
    }
}
impl FromValue for Ts5mdddoe5 {
    fn from_value(v: &Value) -> Self {
        let s = match v { Value::Seq(s) => s, other => panic!("Ts5mdddoe5: expected Seq, got {other:?}") };
        assert_eq!(s.len(), 5, "Ts5mdddoe5: component count");
        let _ = s;
        Ts5mdddoe5 {
            f0: FromValue::from_value(s[0].as_ref().expect("component f0 of Ts5mdddoe5 must be present")),
            f1: FromValue::from_value(s[1].as_ref().expect("component f1 of Ts5mdddoe5 must be present")),
            f2: FromValue::from_value(s[2].as_ref().expect("component f2 of Ts5mdddoe5 must be present")),
            f3: FromValue::from_value(s[3].as_ref().expect("component f3 of Ts5mdddoe5 must be present")),
            f4: s[4].as_ref().map(FromValue::from_value),
        }
    }
}
impl ToValue for Ts5mdddoe5 {
    fn to_value(&self) -> Value {
        Value::Seq(vec![
            Some(self.f0.to_value()),
            Some(self.f1.to_value()),
            Some(self.f2.to_value()),
            Some(self.f3.to_value()),
            self.f4.as_ref().map(|x| x.to_value()),
        ])
    }
}
impl FromValue for Ts5odddon {
    fn from_value(v: &Value) -> Self {
        let s = match v { Value::Seq(s) => s, other => panic!("Ts5odddon: expected Seq, got {other:?}") };
        assert_eq!(s.len(), 5, "Ts5odddon: component count");
        let _ = s;
        Ts5odddon {
            f0: s[0].as_ref().map(FromValue::from_value),
            f1: FromValue::from_value(s[1].as_ref().expect("component f1 of Ts5odddon must be present")),
            f2: FromValue::from_value(s[2].as_ref().expect("component f2 of Ts5odddon must be present")),
            f3: FromValue::from_value(s[3].as_ref().expect("component f3 of Ts5odddon must be present")),
            f4: s[4].as_ref().map(FromValue::from_value),
        }
    }
}
impl ToValue for Ts5odddon {
    fn to_value(&self) -> Value {
        Value::Seq(vec![
            self.f0.as_ref().map(|x| x.to_value()),
            Some(self.f1.to_value()),
            Some(self.f2.to_value()),
            Some(self.f3.to_value()),
            self.f4.as_ref().map(|x| x.to_value()),
        ])
    }
}
impl FromValue for Ts5odddoe0 {
    fn from_value(v: &Value) -> Self {
        let s = match v { Value::Seq(s) => s, other => panic!("Ts5odddoe0: expected Seq, got {other:?}") };
        assert_eq!(s.len(), 5, "Ts5odddoe0: component count");
        let _ = s;
        Ts5odddoe0 {
            f0: s[0].as_ref().map(FromValue::from_value),
            f1: FromValue::from_value(s[1].as_ref().expect("component f1 of Ts5odddoe0 must be present")),
            f2: FromValue::from_value(s[2].as_ref().expect("component f2 of Ts5odddoe0 must be present")),
            f3: FromValue::from_value(s[3].as_ref().expect("component f3 of Ts5odddoe0 must be present")),
            f4: s[4].as_ref().map(FromValue::from_value),
        }
    }
}
impl ToValue for Ts5odddoe0 {
    fn to_value(&self) -> Value {
        Value::Seq(vec![
            self.f0.as_ref().map(|x| x.to_value()),
            Some(self.f1.to_value()),
            Some(self.f2.to_value()),
            Some(self.f3.to_value()),
            self.f4.as_ref().map(|x| x.to_value()),
        ])
    }
}
impl FromValue for Ts5odddoe1 {
    fn from_value(v: &Value) -> Self {
        let s = match v { Value::Seq(s) => s, other => panic!("Ts5odddoe1: expected Seq, got {other:?}") };
        assert_eq!(s.len(), 5, "Ts5odddoe1: component count");
        let _ = s;
        Ts5odddoe1 {
            f0: s[0].as_ref().map(FromValue::from_value),
            f1: FromValue::from_value(s[1].as_ref().expect("component f1 of Ts5odddoe1 must be present")),
            f2: FromValue::from_value(s[2].as_ref().expect("component f2 of Ts5odddoe1 must be present")),
            f3: FromValue::from_value(s[3].as_ref().expect("component f3 of Ts5odddoe1 must be present")),
            f4: s[4].as_ref().map(FromValue::from_value),
        }
    }
}
impl ToValue for Ts5odddoe1 {
    fn to_value(&self) -> Value {
        Value::Seq(vec![
            self.f0.as_ref().map(|x| x.to_value()),
            Some(self.f1.to_value()),
            Some(self.f2.to_value()),
            Some(self.f3.to_value()),
            self.f4.as_ref().map(|x| x.to_value()),
        ])
    }
}
impl FromValue for Ts5odddoe2 {
    fn from_value(v: &Value) -> Self {
        let s = match v { Value::Seq(s) => s, other => panic!("Ts5odddoe2: expected Seq, got {other:?}") };
        assert_eq!(s.len(), 5, "Ts5odddoe2: component count");
        let _ = s;
        Ts5odddoe2 {
            f0: s[0].as_ref().map(FromValue::from_value),
            f1: FromValue::from_value(s[1].as_ref().expect("component f1 of Ts5odddoe2 must be present")),
            f2: FromValue::from_value(s[2].as_ref().expect("component f2 of Ts5odddoe2 must be present")),
            f3: FromValue::from_value(s[3].as_ref().expect("component f3 of Ts5odddoe2 must be present")),
            f4: s[4].as_ref().map(FromValue::from_value),
        }
    }
}
impl ToValue for Ts5odddoe2 {
    fn to_value(&self) -> Value {
        Value::Seq(vec![
            self.f0.as_ref().map(|x| x.to_value()),
            Some(self.f1.to_value()),
            Some(self.f2.to_value()),
            Some(self.f3.to_value()),
            self.f4.as_ref().map(|x| x.to_value()),
        ])
    }
}
impl FromValue for Ts5odddoe3 {
    fn from_value(v: &Value) -> Self {
        let s = match v { Value::Seq(s) => s, other => panic!("Ts5odddoe3: expected Seq, got {other:?}") };
        assert_eq!(s.len(), 5, "Ts5odddoe3: component count");
        let _ = s;
        Ts5odddoe3 {
            f0: s[0].as_ref().map(FromValue::from_value),
            f1: FromValue::from_value(s[1].as_ref().expect("component f1 of Ts5odddoe3 must be present")),
            f2: FromValue::from_value(s[2].as_ref().expect("component f2 of Ts5odddoe3 must be present")),
            f3: FromValue::from_value(s[3].as_ref().expect("component f3 of Ts5odddoe3 must be present")),
            f4: s[4].as_ref().map(FromValue::from_value),
        }
    }
}
impl ToValue for Ts5odddoe3 {
    fn to_value(&self) -> Value {
        Value::Seq(vec![
            self.f0.as_ref().map(|x| x.to_value()),
            Some(self.f1.to_value()),
            Some(self.f2.to_value()),
            Some(self.f3.to_value()),
            self.f4.as_ref().map(|x| x.to_value()),
        ])
    }
}
impl FromValue for Ts5odddoe4 {
    fn from_value(v: &Value) -> Self {
        let s = match v { Value::Seq(s) => s, other => panic!("Ts5odddoe4: expected Seq, got {other:?}") };
        assert_eq!(s.len(), 5, "Ts5odddoe4: component count");
        let _ = s;
        Ts5odddoe4 {
            f0: s[0].as_ref().map(FromValue::from_value),
            f1: FromValue::from_value(s[1].as_ref().expect("component f1 of Ts5odddoe4 must be present")),
            f2: FromValue::from_value(s[2].as_ref().expect("component f2 of Ts5odddoe4 must be present")),
            f3: FromValue::from_value(s[3].as_ref().expect("component f3 of Ts5odddoe4 must be present")),
            f4: s[4].as_ref().map(FromValue::from_value),
        }
    }
}
impl ToValue for Ts5odddoe4 {
    fn to_value(&self) -> Value {
        Value::Seq(vec![
            self.f0.as_ref().map(|x| x.to_value()),
            Some(self.f1.to_value()),
            Some(self.f2.to_value()),
            Some(self.f3.to_value()),
            self.f4.as_ref().map(|x| x.to_value()),
        ])
    }
}
impl FromValue for Ts5odddoe5 {
    fn from_value(v: &Value) -> Self {
        let s = match v { Value::Seq(s) => s, other => panic!("Ts5odddoe5: expected Seq, got {other:?}") };
        assert_eq!(s.len(), 5, "Ts5odddoe5: component count");
        let _ = s;
        Ts5odddoe5 {
            f0: s[0].as_ref().map(FromValue::from_value),
            f1: FromValue::from_value(s[1].as_ref().expect("component f1 of Ts5odddoe5 must be present")),
            f2: FromValue::from_value(s[2].as_ref().expect("component f2 of Ts5odddoe5 must be present")),
            f3: FromValue::from_value(s[3].as_ref().expect("component f3 of Ts5odddoe5 must be present")),
            f4: s[4].as_ref().map(FromValue::from_value),
        }
    }
}
impl ToValue for Ts5odddoe5 {
    fn to_value(&self) -> Value {
        Value::Seq(vec![
            self.f0.as_ref().map(|x| x.to_value()),
            Some(self.f1.to_value()),
            Some(self.f2.to_value()),
            Some(self.f3.to_value()),
            self.f4.as_ref().map(|x| x.to_value()),
        ])
    }
}
impl FromValue for Ts5ddddon {
    fn from_value(v: &Value) -> Self {
        let s = match v { Value::Seq(s) => s, other => panic!("Ts5ddddon: expected Seq, got {other:?}") };
        assert_eq!(s.len(), 5, "Ts5ddddon: component count");
        let _ = s;
        Ts5ddddon {
            f0: FromValue::from_value(s[0].as_ref().expect("component f0 of Ts5ddddon must be present")),
            f1: FromValue::from_value(s[1].as_ref().expect("component f1 of Ts5ddddon must be present")),
            f2: FromValue::from_value(s[2].as_ref().expect("component f2 of Ts5ddddon must be present")),
            f3: FromValue::from_value(s[3].as_ref().expect("component f3 of Ts5ddddon must be present")),
            f4: s[4].as_ref().map(FromValue::from_value),
        }
    }
}
impl ToValue for Ts5ddddon {
    fn to_value(&self) -> Value {
        Value::Seq(vec![
            Some(self.f0.to_value()),
            Some(self.f1.to_value()),
            Some(self.f2.to_value()),
            Some(self.f3.to_value()),
            self.f4.as_ref().map(|x| x.to_value()),
        ])
    }
}
impl FromValue for Ts5ddddoe0 {
    fn from_value(v: &Value) -> Self {
        let s = match v { Value::Seq(s) => s, other => panic!("Ts5ddddoe0: expected Seq, got {other:?}") };
        assert_eq!(s.len(), 5, "Ts5ddddoe0: component count");
        let _ = s;
        Ts5ddddoe0 {
            f0: FromValue::from_value(s[0].as_ref().expect("component f0 of Ts5ddddoe0 must be present")),
            f1: FromValue::from_value(s[1].as_ref().expect("component f1 of Ts5ddddoe0 must be present")),
            f2: FromValue::from_value(s[2].as_ref().expect("component f2 of Ts5ddddoe0 must be present")),
            f3: FromValue::from_value(s[3].as_ref().expect("component f3 of Ts5ddddoe0 must be present")),
            f4: s[4].as_ref().map(FromValue::from_value),
        }
    }
}
impl ToValue for Ts5ddddoe0 {
    fn to_value(&self) -> Value {
        Value::Seq(vec![
            Some(self.f0.to_value()),
            Some(self.f1.to_value()),
            Some(self.f2.to_value()),
            Some(self.f3.to_value()),
            self.f4.as_ref().map(|x| x.to_value()),
        ])
    }
}
impl FromValue for Ts5ddddoe1 {
    fn from_value(v: &Value) -> Self {
        let s = match v { Value::Seq(s) => s, other => panic!("Ts5ddddoe1: expected Seq, got {other:?}") };
        assert_eq!(s.len(), 5, "Ts5ddddoe1: component count");
        let _ = s;
        Ts5ddddoe1 {
            f0: FromValue::from_value(s[0].as_ref().expect("component f0 of Ts5ddddoe1 must be present")),
            f1: FromValue::from_value(s[1].as_ref().expect("component f1 of Ts5ddddoe1 must be present")),
            f2: FromValue::from_value(s[2].as_ref().expect("component f2 of Ts5ddddoe1 must be present")),
            f3: FromValue::from_value(s[3].as_ref().expect("component f3 of Ts5ddddoe1 must be present")),
            f4: s[4].as_ref().map(FromValue::from_value),
        }
    }
}
impl ToValue for Ts5ddddoe1 {
    fn to_value(&self) -> Value {
        Value::Seq(vec![
            Some(self.f0.to_value()),
            Some(self.f1.to_value()),
            Some(self.f2.to_value()),
            Some(self.f3.to_value()),
            self.f4.as_ref().map(|x| x.to_value()),
        ])
    }
}
impl FromValue for Ts5ddddoe2 {
    fn from_value(v: &Value) -> Self {
        let s = match v { Value::Seq(s) => s, other => panic!("Ts5ddddoe2: expected Seq, got {other:?}") };
        assert_eq!(s.len(), 5, "Ts5ddddoe2: component count");
        let _ = s;
        Ts5ddddoe2 {
            f0: FromValue::from_value(s[0].as_ref().expect("component f0 of Ts5ddddoe2 must be present")),
            f1: FromValue::from_value(s[1].as_ref().expect("component f1 of Ts5ddddoe2 must be present")),
            f2: FromValue::from_value(s[2].as_ref().expect("component f2 of Ts5ddddoe2 must be present")),
            f3: FromValue::from_value(s[3].as_ref().expect("component f3 of Ts5ddddoe2 must be present")),
            f4: s[4].as_ref().map(FromValue::from_value),
        }
    }
}
impl ToValue for Ts5ddddoe2 {
    fn to_value(&self) -> Value {
        Value::Seq(vec![
            Some(self.f0.to_value()),
            Some(self.f1.to_value()),
            Some(self.f2.to_value()),
            Some(self.f3.to_value()),
            self.f4.as_ref().map(|x| x.to_value()),
        ])
    }
}
impl FromValue for Ts5ddddoe3 {
    fn from_value(v: &Value) -> Self {
        let s = match v { Value::Seq(s) => s, other => panic!("Ts5ddddoe3: expected Seq, got {other:?}") };
        assert_eq!(s.len(), 5, "Ts5ddddoe3: component count");
        let _ = s;
        Ts5ddddoe3 {
            f0: FromValue::from_value(s[0].as_ref().expect("component f0 of Ts5ddddoe3 must be present")),
            f1: FromValue::from_value(s[1].as_ref().expect("component f1 of Ts5ddddoe3 must be present")),
            f2: FromValue::from_value(s[2].as_ref().expect("component f2 of Ts5ddddoe3 must be present")),
            f3: FromValue::from_value(s[3].as_ref().expect("component f3 of Ts5ddddoe3 must be present")),
            f4: s[4].as_ref().map(FromValue::from_value),
        }
    }
}
impl ToValue for Ts5ddddoe3 {
    fn to_value(&self) -> Value {
        Value::Seq(vec![
            Some(self.f0.to_value()),
            Some(self.f1.to_value()),
            Some(self.f2.to_value()),
            Some(self.f3.to_value()),
            self.f4.as_ref().map(|x| x.to_value()),
        ])
    }
}
impl FromValue for Ts5ddddoe4 {
    fn from_value(v: &Value) -> Self {
        let s = match v { Value::Seq(s) => s, other => panic!("Ts5ddddoe4: expected Seq, got {other:?}") };
        assert_eq!(s.len(), 5, "Ts5ddddoe4: component count");
        let _ = s;
        Ts5ddddoe4 {
            f0: FromValue::from_value(s[0].as_ref().expect("component f0 of Ts5ddddoe4 must be present")),
            f1: FromValue::from_value(s[1].as_ref().expect("component f1 of Ts5ddddoe4 must be present")),
            f2: FromValue::from_value(s[2].as_ref().expect("component f2 of Ts5ddddoe4 must be present")),
            f3: FromValue::from_value(s[3].as_ref().expect("component f3 of Ts5ddddoe4 must be present")),
            f4: s[4].as_ref().map(FromValue::from_value),
        }
    }
}
impl ToValue for Ts5ddddoe4 {
    fn to_value(&self) -> Value {
        Value::Seq(vec![
            Some(self.f0.to_value()),
            Some(self.f1.to_value()),
            Some(self.f2.to_value()),
            Some(self.f3.to_value()),
            self.f4.as_ref().map(|x| x.to_value()),
        ])
    }
}
impl FromValue for Ts5ddddoe5 {
    fn from_value(v: &Value) -> Self {
        let s = match v { Value::Seq(s) => s, other => panic!("Ts5ddddoe5: expected Seq, got {other:?}") };
        assert_eq!(s.len(), 5, "Ts5ddddoe5: component count");
        let _ = s;
        Ts5ddddoe5 {
            f0: FromValue::from_value(s[0].as_ref().expect("component f0 of Ts5ddddoe5 must be present")),
            f1: FromValue::from_value(s[1].as_ref().expect("component f1 of Ts5ddddoe5 must be present")),
            f2: FromValue::from_value(s[2].as_ref().expect("component f2 of Ts5ddddoe5 must be present")),
            f3: FromValue::from_value(s[3].as_ref().expect("component f3 of Ts5ddddoe5 must be present")),
            f4: s[4].as_ref().map(FromValue::from_value),
        }
    }
}
impl ToValue for Ts5ddddoe5 {
    fn to_value(&self) -> Value {
        Value::Seq(vec![
            Some(self.f0.to_value()),
            Some(self.f1.to_value()),
            Some(self.f2.to_value()),
            Some(self.f3.to_value()),
            self.f4.as_ref().map(|x| x.to_value()),
        ])
    }
}
impl FromValue for Ts5mmmmdn {
    fn from_value(v: &Value) -> Self {
        let s = match v { Value::Seq(s) => s, other => panic!("Ts5mmmmdn: expected Seq, got {other:?}") };
        assert_eq!(s.len(), 5, "Ts5mmmmdn: component count");
        let _ = s;
        Ts5mmmmdn {
            f0: FromValue::from_value(s[0].as_ref().expect("component f0 of Ts5mmmmdn must be present")),
            f1: FromValue::from_value(s[1].as_ref().expect("component f1 of Ts5mmmmdn must be present")),
            f2: FromValue::from_value(s[2].as_ref().expect("component f2 of Ts5mmmmdn must be present")),
            f3: FromValue::from_value(s[3].as_ref().expect("component f3 of Ts5mmmmdn must be present")),
            f4: FromValue::from_value(s[4].as_ref().expect("component f4 of Ts5mmmmdn must be present")),
        }
    }
}
impl ToValue for Ts5mmmmdn {
    fn to_value(&self) -> Value {
        Value::Seq(vec![
            Some(self.f0.to_value()),
            Some(self.f1.to_value()),
            Some(self.f2.to_value()),
            Some(self.f3.to_value()),
            Some(self.f4.to_value()),
        ])
    }
}
impl FromValue for Ts5mmmmde0 {
    fn from_value(v: &Value) -> Self {
        let s = match v { Value::Seq(s) => s, other => panic!("Ts5mmmmde0: expected Seq, got {other:?}") };
        assert_eq!(s.len(), 5, "Ts5mmmmde0: component count");
        let _ = s;
        Ts5mmmmde0 {
            f0: FromValue::from_value(s[0].as_ref().expect("component f0 of Ts5mmmmde0 must be present")),
            f1: s[1].as_ref().map(FromValue::from_value),
            f2: s[2].as_ref().map(FromValue::from_value),
            f3: s[3].as_ref().map(FromValue::from_value),
            f4: FromValue::from_value(s[4].as_ref().expect("component f4 of Ts5mmmmde0 must be present")),
        }
    }
}
impl ToValue for Ts5mmmmde0 {
    fn to_value(&self) -> Value {
        Value::Seq(vec![
            Some(self.f0.to_value()),
            self.f1.as_ref().map(|x| x.to_value()),
            self.f2.as_ref().map(|x| x.to_value()),
            self.f3.as_ref().map(|x| x.to_value()),
            Some(self.f4.to_value()),
        ])
    }
}
impl FromValue for Ts5mmmmde1 {
    fn from_value(v: &Value) -> Self {
        let s = match v { Value::Seq(s) => s, other => panic!("Ts5mmmmde1: expected Seq, got {other:?}") };
        assert_eq!(s.len(), 5, "Ts5mmmmde1: component count");
        let _ = s;
        Ts5mmmmde1 {
            f0: FromValue::from_value(s[0].as_ref().expect("component f0 of Ts5mmmmde1 must be present")),
            f1: s[1].as_ref().map(FromValue::from_value),
            f2: s[2].as_ref().map(FromValue::from_value),
            f3: s[3].as_ref().map(FromValue::from_value),
            f4: FromValue::from_value(s[4].as_ref().expect("component f4 of Ts5mmmmde1 must be present")),
        }
    }
}
impl ToValue for Ts5mmmmde1 {
    fn to_value(&self) -> Value {
        Value::Seq(vec![
            Some(self.f0.to_value()),
            self.f1.as_ref().map(|x| x.to_value()),
            self.f2.as_ref().map(|x| x.to_value()),
            self.f3.as_ref().map(|x| x.to_value()),
            Some(self.f4.to_value()),
        ])
    }
}
impl FromValue for Ts5mmmmde2 {
    fn from_value(v: &Value) -> Self {
        let s = match v { Value::Seq(s) => s, other => panic!("Ts5mmmmde2: expected Seq, got {other:?}") };
        assert_eq!(s.len(), 5, "Ts5mmmmde2: component count");
        let _ = s;
        Ts5mmmmde2 {
            f0: FromValue::from_value(s[0].as_ref().expect("component f0 of Ts5mmmmde2 must be present")),
            f1: FromValue::from_value(s[1].as_ref().expect("component f1 of Ts5mmmmde2 must be present")),
            f2: s[2].as_ref().map(FromValue::from_value),
            f3: s[3].as_ref().map(FromValue::from_value),
            f4: FromValue::from_value(s[4].as_ref().expect("component f4 of Ts5mmmmde2 must be present")),
        }
    }
}
impl ToValue for Ts5mmmmde2 {
    fn to_value(&self) -> Value {
        Value::Seq(vec![
            Some(self.f0.to_value()),
            Some(self.f1.to_value()),
            self.f2.as_ref().map(|x| x.to_value()),
            self.f3.as_ref().map(|x| x.to_value()),
            Some(self.f4.to_value()),
        ])
    }
}
impl FromValue for Ts5mmmmde3 {
    fn from_value(v: &Value) -> Self {
        let s = match v { Value::Seq(s) => s, other => panic!("Ts5mmmmde3: expected Seq, got {other:?}") };
        assert_eq!(s.len(), 5, "Ts5mmmmde3: component count");
        let _ = s;
        Ts5mmmmde3 {
            f0: FromValue::from_value(s[0].as_ref().expect("component f0 of Ts5mmmmde3 must be present")),
            f1: FromValue::from_value(s[1].as_ref().expect("component f1 of Ts5mmmmde3 must be present")),
            f2: FromValue::from_value(s[2].as_ref().expect("component f2 of Ts5mmmmde3 must be present")),
            f3: s[3].as_ref().map(FromValue::from_value),
            f4: FromValue::from_value(s[4].as_ref().expect("component f4 of Ts5mmmmde3 must be present")),
        }
    }
}
impl ToValue for Ts5mmmmde3 {
    fn to_value(&self) -> Value {
        Value::Seq(vec![
            Some(self.f0.to_value()),
            Some(self.f1.to_value()),
            Some(self.f2.to_value()),
            self.f3.as_ref().map(|x| x.to_value()),
            Some(self.f4.to_value()),
        ])
    }
}
impl FromValue for Ts5mmmmde4 {
    fn from_value(v: &Value) -> Self {
        let s = match v { Value::Seq(s) => s, other => panic!("Ts5mmmmde4: expected Seq, got {other:?}") };
        assert_eq!(s.len(), 5, "Ts5mmmmde4: component count");
        let _ = s;
        Ts5mmmmde4 {
            f0: FromValue::from_value(s[0].as_ref().expect("component f0 of Ts5mmmmde4 must be present")),
            f1: FromValue::from_value(s[1].as_ref().expect("component f1 of Ts5mmmmde4 must be present")),
            f2: FromValue::from_value(s[2].as_ref().expect("component f2 of Ts5mmmmde4 must be present")),
            f3: FromValue::from_value(s[3].as_ref().expect("component f3 of Ts5mmmmde4 must be present")),
            f4: FromValue::from_value(s[4].as_ref().expect("component f4 of Ts5mmmmde4 must be present")),
        }
    }
}
impl ToValue for Ts5mmmmde4 {
    fn to_value(&self) -> Value {
        Value::Seq(vec![
            Some(self.f0.to_value()),
            Some(self.f1.to_value()),
            Some(self.f2.to_value()),
            Some(self.f3.to_value()),
            Some(self.f4.to_value()),
        ])
    }
}
impl FromValue for Ts5mmmmde5 {
    fn from_value(v: &Value) -> Self {
        let s = match v { Value::Seq(s) => s, other => panic!("Ts5mmmmde5: expected Seq, got {other:?}") };
        assert_eq!(s.len(), 5, "Ts5mmmmde5: component count");
        let _ = s;
        Ts5mmmmde5 {
            f0: FromValue::from_value(s[0].as_ref().expect("component f0 of Ts5mmmmde5 must be present")),
            f1: FromValue::from_value(s[1].as_ref().expect("component f1 of Ts5mmmmde5 must be present")),
            f2: FromValue::from_value(s[2].as_ref().expect("component f2 of Ts5mmmmde5 must be present")),
            f3: FromValue::from_value(s[3].as_ref().expect("component f3 of Ts5mmmmde5 must be present")),
            f4: FromValue::from_value(s[4].as_ref().expect("component f4 of Ts5mmmmde5 must be present")),
        }
    }
}
impl ToValue for Ts5mmmmde5 {
    fn to_value(&self) -> Value {
        Value::Seq(vec![
            Some(self.f0.to_value()),
            Some(self.f1.to_value()),
            Some(self.f2.to_value()),
            Some(self.f3.to_value()),
            Some(self.f4.to_value()),
        ])
    }
}
impl FromValue for Ts5ommmdn {
    fn from_value(v: &Value) -> Self {
        let s = match v { Value::Seq(s) => s, other => panic!("Ts5ommmdn: expected Seq, got {other:?}") };
        assert_eq!(s.len(), 5, "Ts5ommmdn: component count");
        let _ = s;
        Ts5ommmdn {
            f0: s[0].as_ref().map(FromValue::from_value),
            f1: FromValue::from_value(s[1].as_ref().expect("component f1 of Ts5ommmdn must be present")),
            f2: FromValue::from_value(s[2].as_ref().expect("component f2 of Ts5ommmdn must be present")),
            f3: FromValue::from_value(s[3].as_ref().expect("component f3 of Ts5ommmdn must be present")),
            f4: FromValue::from_value(s[4].as_ref().expect("component f4 of Ts5ommmdn must be present")),
        }
    }
}
impl ToValue for Ts5ommmdn {
    fn to_value(&self) -> Value {
        Value::Seq(vec![
            self.f0.as_ref().map(|x| x.to_value()),
            Some(self.f1.to_value()),
            Some(self.f2.to_value()),
            Some(self.f3.to_value()),
            Some(self.f4.to_value()),
        ])
    }
}
impl FromValue for Ts5ommmde0 {
    fn from_value(v: &Value) -> Self {
        let s = match v { Value::Seq(s) => s, other => panic!("Ts5ommmde0: expected Seq, got {other:?}") };
        assert_eq!(s.len(), 5, "Ts5ommmde0: component count");
        let _ = s;
        Ts5ommmde0 {
            f0: s[0].as_ref().map(FromValue::from_value),
            f1: s[1].as_ref().map(FromValue::from_value),
            f2: s[2].as_ref().map(FromValue::from_value),
            f3: s[3].as_ref().map(FromValue::from_value),
            f4: FromValue::from_value(s[4].as_ref().expect("component f4 of Ts5ommmde0 must be present")),
        }
    }
}
impl ToValue for Ts5ommmde0 {
    fn to_value(&self) -> Value {
        Value::Seq(vec![
            self.f0.as_ref().map(|x| x.to_value()),
            self.f1.as_ref().map(|x| x.to_value()),
            self.f2.as_ref().map(|x| x.to_value()),
            self.f3.as_ref().map(|x| x.to_value()),
            Some(self.f4.to_value()),
        ])
    }
}
impl FromValue for Ts5ommmde1 {
    fn from_value(v: &Value) -> Self {
        let s = match v { Value::Seq(s) => s, other => panic!("Ts5ommmde1: expected Seq, got {other:?}") };
        assert_eq!(s.len(), 5, "Ts5ommmde1: component count");
        let _ = s;
        Ts5ommmde1 {
            f0: s[0].as_ref().map(FromValue::from_value),
            f1: s[1].as_ref().map(FromValue::from_value),
            f2: s[2].as_ref().map(FromValue::from_value),
            f3: s[3].as_ref().map(FromValue::from_value),
            f4: FromValue::from_value(s[4].as_ref().expect("component f4 of Ts5ommmde1 must be present")),
        }
    }
}
impl ToValue for Ts5ommmde1 {
    fn to_value(&self) -> Value {
        Value::Seq(vec![
            self.f0.as_ref().map(|x| x.to_value()),
            self.f1.as_ref().map(|x| x.to_value()),
            self.f2.as_ref().map(|x| x.to_value()),
            self.f3.as_ref().map(|x| x.to_value()),
            Some(self.f4.to_value()),
        ])
    }
}
impl FromValue for Ts5ommmde2 {
    fn from_value(v: &Value) -> Self {
        let s = match v { Value::Seq(s) => s, other => panic!("Ts5ommmde2: expected Seq, got {other:?}") };
        assert_eq!(s.len(), 5, "Ts5ommmde2: component count");
        let _ = s;
        Ts5ommmde2 {
            f0: s[0].as_ref().map(FromValue::from_value),
            f1: FromValue::from_value(s[1].as_ref().expect("component f1 of Ts5ommmde2 must be present")),
            f2: s[2].as_ref().map(FromValue::from_value),
            f3: s[3].as_ref().map(FromValue::from_value),
            f4: FromValue::from_value(s[4].as_ref().expect("component f4 of Ts5ommmde2 must be present")),
        }
    }
}
impl ToValue for Ts5ommmde2 {
    fn to_value(&self) -> Value {
        Value::Seq(vec![
            self.f0.as_ref().map(|x| x.to_value()),
            Some(self.f1.to_value()),
            self.f2.as_ref().map(|x| x.to_value()),
            self.f3.as_ref().map(|x| x.to_value()),
            Some(self.f4.to_value()),
        ])
    }
}
impl FromValue for Ts5ommmde3 {
    fn from_value(v: &Value) -> Self {
        let s = match v { Value::Seq(s) => s, other => panic!("Ts5ommmde3: expected Seq, got {other:?}") };
        assert_eq!(s.len(), 5, "Ts5ommmde3: component count");
        let _ = s;
        Ts5ommmde3 {
            f0: s[0].as_ref().map(FromValue::from_value),
            f1: FromValue::from_value(s[1].as_ref().expect("component f1 of Ts5ommmde3 must be present")),
            f2: FromValue::from_value(s[2].as_ref().expect("component f2 of Ts5ommmde3 must be present")),
            f3: s[3].as_ref().map(FromValue::from_value),
            f4: FromValue::from_value(s[4].as_ref().expect("component f4 of Ts5ommmde3 must be present")),
        }
    }
}
impl ToValue for Ts5ommmde3 {
    fn to_value(&self) -> Value {
        Value::Seq(vec![
            self.f0.as_ref().map(|x| x.to_value()),
            Some(self.f1.to_value()),
            Some(self.f2.to_value()),
            self.f3.as_ref().map(|x| x.to_value()),
            Some(self.f4.to_value()),
        ])
    }
}
impl FromValue for Ts5ommmde4 {
    fn from_value(v: &Value) -> Self {
        let s = match v { Value::Seq(s) => s, other => panic!("Ts5ommmde4: expected Seq, got {other:?}") };
        assert_eq!(s.len(), 5, "Ts5ommmde4: component count");
        let _ = s;
        Ts5ommmde4 {
            f0: s[0].as_ref().map(FromValue::from_value),
            f1: FromValue::from_value(s[1].as_ref().expect("component f1 of Ts5ommmde4 must be present")),
            f2: FromValue::from_value(s[2].as_ref().expect("component f2 of Ts5ommmde4 must be present")),
            f3: FromValue::from_value(s[3].as_ref().expect("component f3 of Ts5ommmde4 must be present")),
            f4: FromValue::from_value(s[4].as_ref().expect("component f4 of Ts5ommmde4 must be present")),
        }
    }
}
impl ToValue for Ts5ommmde4 {
    fn to_value(&self) -> Value {
        Value::Seq(vec![
            self.f0.as_ref().map(|x| x.to_value()),
            Some(self.f1.to_value()),
            Some(self.f2.to_value()),
            Some(self.f3.to_value()),
            Some(self.f4.to_value()),
        ])
    }
}
impl FromValue for Ts5ommmde5 {
    fn from_value(v: &Value) -> Self {
        let s = match v { Value::Seq(s) => s, other => panic!("Ts5ommmde5: expected Seq, got {other:?}") };
        assert_eq!(s.len(), 5, "Ts5ommmde5: component count");
        let _ = s;
        Ts5ommmde5 {
            f0: s[0].as_ref().map(FromValue::from_value),
            f1: FromValue::from_value(s[1].as_ref().expect("component f1 of Ts5ommmde5 must be present")),
            f2: FromValue::from_value(s[2].as_ref().expect("component f2 of Ts5ommmde5 must be present")),
            f3: FromValue::from_value(s[3].as_ref().expect("component f3 of Ts5ommmde5 must be present")),
            f4: FromValue::from_value(s[4].as_ref().expect("component f4 of Ts5ommmde5 must be present")),
        }
    }
}
impl ToValue for Ts5ommmde5 {
    fn to_value(&self) -> Value {
        Value::Seq(vec![
            self.f0.as_ref().map(|x| x.to_value()),
            Some(self.f1.to_value()),
            Some(self.f2.to_value()),
            Some(self.f3.to_value()),
            Some(self.f4.to_value()),
        ])
    }
}
impl FromValue for Ts5dmmmdn {
    fn from_value(v: &Value) -> Self {
        let s = match v { Value::Seq(s) => s, other => panic!("Ts5dmmmdn: expected Seq, got {other:?}") };
        assert_eq!(s.len(), 5, "Ts5dmmmdn: component count");
        let _ = s;
        Ts5dmmmdn {
            f0: FromValue::from_value(s[0].as_ref().expect("component f0 of Ts5dmmmdn must be present")),
            f1: FromValue::from_value(s[1].as_ref().expect("component f1 of Ts5dmmmdn must be present")),
            f2: FromValue::from_value(s[2].as_ref().expect("component f2 of Ts5dmmmdn must be present")),
            f3: FromValue::from_value(s[3].as_ref().expect("component f3 of Ts5dmmmdn must be present")),
            f4: FromValue::from_value(s[4].as_ref().expect("component f4 of Ts5dmmmdn must be present")),
        }
    }
}
impl ToValue for Ts5dmmmdn {
    fn to_value(&self) -> Value {
        Value::Seq(vec![
            Some(self.f0.to_value()),
            Some(self.f1.to_value()),
            Some(self.f2.to_value()),
            Some(self.f3.to_value()),
            Some(self.f4.to_value()),
        ])
    }
}
impl FromValue for Ts5dmmmde0 {
    fn from_value(v: &Value) -> Self {
        let s = match v { Value::Seq(s) => s, other => panic!("Ts5dmmmde0: expected Seq, got {other:?}") };
        assert_eq!(s.len(), 5, "Ts5dmmmde0: component count");
        let _ = s;
        Ts5dmmmde0 {
            f0: FromValue::from_value(s[0].as_ref().expect("component f0 of Ts5dmmmde0 must be present")),
            f1: s[1].as_ref().map(FromValue::from_value),
            f2: s[2].as_ref().map(FromValue::from_value),
            f3: s[3].as_ref().map(FromValue::from_value),
            f4: FromValue::from_value(s[4].as_ref().expect("component f4 of Ts5dmmmde0 must be present")),
        }
    }
}
impl ToValue for Ts5dmmmde0 {
    fn to_value(&self) -> Value {
        Value::Seq(vec![
            Some(self.f0.to_value()),
            self.f1.as_ref().map(|x| x.to_value()),
            self.f2.as_ref().map(|x| x.to_value()),
            self.f3.as_ref().map(|x| x.to_value()),
            Some(self.f4.to_value()),
        ])
    }
}
impl FromValue for Ts5dmmmde1 {
    fn from_value(v: &Value) -> Self {
        let s = match v { Value::Seq(s) => s, other => panic!("Ts5dmmmde1: expected Seq, got {other:?}") };
        assert_eq!(s.len(), 5, "Ts5dmmmde1: component count");
        let _ = s;
        Ts5dmmmde1 {
            f0: FromValue::from_value(s[0].as_ref().expect("component f0 of Ts5dmmmde1 must be present")),
            f1: s[1].as_ref().map(FromValue::from_value),
            f2: s[2].as_ref().map(FromValue::from_value),
            f3: s[3].as_ref().map(FromValue::from_value),
            f4: FromValue::from_value(s[4].as_ref().expect("component f4 of Ts5dmmmde1 must be present")),
        }
    }
}
impl ToValue for Ts5dmmmde1 {
    fn to_value(&self) -> Value {
        Value::Seq(vec![
            Some(self.f0.to_value()),
            self.f1.as_ref().map(|x| x.to_value()),
            self.f2.as_ref().map(|x| x.to_value()),
            self.f3.as_ref().map(|x| x.to_value()),
            Some(self.f4.to_value()),
        ])
    }
}
impl FromValue for Ts5dmmmde2 {
    fn from_value(v: &Value) -> Self {
        let s = match v { Value::Seq(s) => s, other => panic!("Ts5dmmmde2: expected Seq, got {other:?}") };
        assert_eq!(s.len(), 5, "Ts5dmmmde2: component count");
        let _ = s;
        Ts5dmmmde2 {
            f0: FromValue::from_value(s[0].as_ref().expect("component f0 of Ts5dmmmde2 must be present")),
            f1: FromValue::from_value(s[1].as_ref().expect("component f1 of Ts5dmmmde2 must be present")),
            f2: s[2].as_ref().map(FromValue::from_value),
            f3: s[3].as_ref().map(FromValue::from_value),
            f4: FromValue::from_value(s[4].as_ref().expect("component f4 of Ts5dmmmde2 must be present")),
        }
    }
}
impl ToValue for Ts5dmmmde2 {
    fn to_value(&self) -> Value {
        Value::Seq(vec![
            Some(self.f0.to_value()),
            Some(self.f1.to_value()),
            self.f2.as_ref().map(|x| x.to_value()),
            self.f3.as_ref().map(|x| x.to_value()),
            Some(self.f4.to_value()),
        ])
    }
}
impl FromValue for Ts5dmmmde3 {
    fn from_value(v: &Value) -> Self {
        let s = match v { Value::Seq(s) => s, other => panic!("Ts5dmmmde3: expected Seq, got {other:?}") };
        assert_eq!(s.len(), 5, "Ts5dmmmde3: component count");
        let _ = s;
        Ts5dmmmde3 {
            f0: FromValue::from_value(s[0].as_ref().expect("component f0 of Ts5dmmmde3 must be present")),
            f1: FromValue::from_value(s[1].as_ref().expect("component f1 of Ts5dmmmde3 must be present")),
            f2: FromValue::from_value(s[2].as_ref().expect("component f2 of Ts5dmmmde3 must be present")),
            f3: s[3].as_ref().map(FromValue::from_value),
            f4: FromValue::from_value(s[4].as_ref().expect("component f4 of Ts5dmmmde3 must be present")),
        }
    }
}
impl ToValue for Ts5dmmmde3 {
    fn to_value(&self) -> Value {
        Value::Seq(vec![
            Some(self.f0.to_value()),
            Some(self.f1.to_value()),
            Some(self.f2.to_value()),
            self.f3.as_ref().map(|x| x.to_value()),
            Some(self.f4.to_value()),
        ])
    }
}
impl FromValue for Ts5dmmmde4 {
    fn from_value(v: &Value) -> Self {
        let s = match v { Value::Seq(s) => s, other => panic!("Ts5dmmmde4: expected Seq, got {other:?}") };
        assert_eq!(s.len(), 5, "Ts5dmmmde4: component count");
        let _ = s;
        Ts5dmmmde4 {
            f0: FromValue::from_value(s[0].as_ref().expect("component f0 of Ts5dmmmde4 must be present")),
            f1: FromValue::from_value(s[1].as_ref().expect("component f1 of Ts5dmmmde4 must be present")),
            f2: FromValue::from_value(s[2].as_ref().expect("component f2 of Ts5dmmmde4 must be present")),
            f3: FromValue::from_value(s[3].as_ref().expect("component f3 of Ts5dmmmde4 must be present")),
            f4: FromValue::from_value(s[4].as_ref().expect("component f4 of Ts5dmmmde4 must be present")),
        }
    }
}
impl ToValue for Ts5dmmmde4 {
    fn to_value(&self) -> Value {
        Value::Seq(vec![
            Some(self.f0.to_value()),
            Some(self.f1.to_value()),
            Some(self.f2.to_value()),
            Some(self.f3.to_value()),
            Some(self.f4.to_value()),
        ])
    }
}
impl FromValue for Ts5dmmmde5 {
    fn from_value(v: &Value) -> Self {
        let s = match v { Value::Seq(s) => s, other => panic!("Ts5dmmmde5: expected Seq, got {other:?}") };
        assert_eq!(s.len(), 5, "Ts5dmmmde5: component count");
        let _ = s;
        Ts5dmmmde5 {
            f0: FromValue::from_value(s[0].as_ref().expect("component f0 of Ts5dmmmde5 must be present")),
            f1: FromValue::from_value(s[1].as_ref().expect("component f1 of Ts5dmmmde5 must be present")),
            f2: FromValue::from_value(s[2].as_ref().expect("component f2 of Ts5dmmmde5 must be present")),
            f3: FromValue::from_value(s[3].as_ref().expect("component f3 of Ts5dmmmde5 must be present")),
            f4: FromValue::from_value(s[4].as_ref().expect("component f4 of Ts5dmmmde5 must be present")),
        }
    }
}
impl ToValue for Ts5dmmmde5 {
    fn to_value(&self) -> Value {
        Value::Seq(vec![
            Some(self.f0.to_value()),
            Some(self.f1.to_value()),
            Some(self.f2.to_value()),
            Some(self.f3.to_value()),
            Some(self.f4.to_value()),
        ])
    }
}
impl FromValue for Ts5mommdn {
    fn from_value(v: &Value) -> Self {
        let s = match v { Value::Seq(s) => s, other => panic!("Ts5mommdn: expected Seq, got {other:?}") };
        assert_eq!(s.len(), 5, "Ts5mommdn: component count");
        let _ = s;
        Ts5mommdn {
            f0: FromValue::from_value(s[0].as_ref().expect("component f0 of Ts5mommdn must be present")),
            f1: s[1].as_ref().map(FromValue::from_value),
            f2: FromValue::from_value(s[2].as_ref().expect("component f2 of Ts5mommdn must be present")),
            f3: FromValue::from_value(s[3].as_ref().expect("component f3 of Ts5mommdn must be present")),
            f4: FromValue::from_value(s[4].as_ref().expect("component f4 of Ts5mommdn must be present")),
        }
    }
}
impl ToValue for Ts5mommdn {
    fn to_value(&self) -> Value {
        Value::Seq(vec![
            Some(self.f0.to_value()),
            self.f1.as_ref().map(|x| x.to_value()),
            Some(self.f2.to_value()),
            Some(self.f3.to_value()),
            Some(self.f4.to_value()),
        ])
    }
}
impl FromValue for Ts5mommde0 {
    fn from_value(v: &Value) -> Self {
        let s = match v { Value::Seq(s) => s, other => panic!("Ts5mommde0: expected Seq, got {other:?}") };
        assert_eq!(s.len(), 5, "Ts5mommde0: component count");
        let _ = s;
        Ts5mommde0 {
            f0: FromValue::from_value(s[0].as_ref().expect("component f0 of Ts5mommde0 must be present")),
            f1: s[1].as_ref().map(FromValue::from_value),
            f2: s[2].as_ref().map(FromValue::from_value),
            f3: s[3].as_ref().map(FromValue::from_value),
            f4: FromValue::from_value(s[4].as_ref().expect("component f4 of Ts5mommde0 must be present")),
        }
    }
}
impl ToValue for Ts5mommde0 {
    fn to_value(&self) -> Value {
        Value::Seq(vec![
            Some(self.f0.to_value()),
            self.f1.as_ref().map(|x| x.to_value()),
            self.f2.as_ref().map(|x| x.to_value()),
            self.f3.as_ref().map(|x| x.to_value()),
            Some(self.f4.to_value()),
        ])
    }
}
impl FromValue for Ts5mommde1 {
    fn from_value(v: &Value) -> Self {
        let s = match v { Value::Seq(s) => s, other => panic!("Ts5mommde1: expected Seq, got {other:?}") };
        assert_eq!(s.len(), 5, "Ts5mommde1: component count");
        let _ = s;
        Ts5mommde1 {
            f0: FromValue::from_value(s[0].as_ref().expect("component f0 of Ts5mommde1 must be present")),
            f1: s[1].as_ref().map(FromValue::from_value),
            f2: s[2].as_ref().map(FromValue::from_value),
            f3: s[3].as_ref().map(FromValue::from_value),
            f4: FromValue::from_value(s[4].as_ref().expect("component f4 of Ts5mommde1 must be present")),
        }
    }
}
impl ToValue for Ts5mommde1 {
    fn to_value(&self) -> Value {
        Value::Seq(vec![
            Some(self.f0.to_value()),
            self.f1.as_ref().map(|x| x.to_value()),
            self.f2.as_ref().map(|x| x.to_value()),
            self.f3.as_ref().map(|x| x.to_value()),
            Some(self.f4.to_value()),
        ])
    }
}
impl FromValue for Ts5mommde2 {
    fn from_value(v: &Value) -> Self {
        let s = match v { Value::Seq(s) => s, other => panic!("Ts5mommde2: expected Seq, got {other:?}") };
        assert_eq!(s.len(), 5, "Ts5mommde2: component count");
        let _ = s;
        Ts5mommde2 {
            f0: FromValue::from_value(s[0].as_ref().expect("component f0 of Ts5mommde2 must be present")),
            f1: s[1].as_ref().map(FromValue::from_value),
            f2: s[2].as_ref().map(FromValue::from_value),
            f3: s[3].as_ref().map(FromValue::from_value),
            f4: FromValue::from_value(s[4].as_ref().expect("component f4 of Ts5mommde2 must be present")),
        }
    }
}
impl ToValue for Ts5mommde2 {
    fn to_value(&self) -> Value {
        Value::Seq(vec![
            Some(self.f0.to_value()),
            self.f1.as_ref().map(|x| x.to_value()),
            self.f2.as_ref().map(|x| x.to_value()),
            self.f3.as_ref().map(|x| x.to_value()),
            Some(self.f4.to_value()),
        ])
    }
}
impl FromValue for Ts5mommde3 {
    fn from_value(v: &Value) -> Self {
        let s = match v { Value::Seq(s) => s, other => panic!("Ts5mommde3: expected Seq, got {other:?}") };
        assert_eq!(s.len(), 5, "Ts5mommde3: component count");
        let _ = s;
        Ts5mommde3 {
            f0: FromValue::from_value(s[0].as_ref().expect("component f0 of Ts5mommde3 must be present")),
            f1: s[1].as_ref().map(FromValue::from_value),
            f2: FromValue::from_value(s[2].as_ref().expect("component f2 of Ts5mommde3 must be present")),
            f3: s[3].as_ref().map(FromValue::from_value),
            f4: FromValue::from_value(s[4].as_ref().expect("component f4 of Ts5mommde3 must be present")),
        }
    }
}
impl ToValue for Ts5mommde3 {
    fn to_value(&self) -> Value {
        Value::Seq(vec![
            Some(self.f0.to_value()),
            self.f1.as_ref().map(|x| x.to_value()),
            Some(self.f2.to_value()),
            self.f3.as_ref().map(|x| x.to_value()),
            Some(self.f4.to_value()),
        ])
    }
}
impl FromValue for Ts5mommde4 {
    fn from_value(v: &Value) -> Self {
        let s = match v { Value::Seq(s) => s, other => panic!("Ts5mommde4: expected Seq, got {other:?}") };
        assert_eq!(s.len(), 5, "Ts5mommde4: component count");
        let _ = s;
        Ts5mommde4 {
            f0: FromValue::from_value(s[0].as_ref().expect("component f0 of Ts5mommde4 must be present")),
            f1: s[1].as_ref().map(FromValue::from_value),
            f2: FromValue::from_value(s[2].as_ref().expect("component f2 of Ts5mommde4 must be present")),
            f3: FromValue::from_value(s[3].as_ref().expect("component f3 of Ts5mommde4 must be present")),
            f4: FromValue::from_value(s[4].as_ref().expect("component f4 of Ts5mommde4 must be present")),
        }
    }
}
impl ToValue for Ts5mommde4 {
    fn to_value(&self) -> Value {
        Value::Seq(vec![
            Some(self.f0.to_value()),
            self.f1.as_ref().map(|x| x.to_value()),
            Some(self.f2.to_value()),
            Some(self.f3.to_value()),
            Some(self.f4.to_value()),
        ])
    }
}
impl FromValue for Ts5mommde5 {
    fn from_value(v: &Value) -> Self {
        let s = match v { Value::Seq(s) => s, other => panic!("Ts5mommde5: expected Seq, got {other:?}") };
        assert_eq!(s.len(), 5, "Ts5mommde5: component count");
        let _ = s;
        Ts5mommde5 {
            f0: FromValue::from_value(s[0].as_ref().expect("component f0 of Ts5mommde5 must be present")),
            f1: s[1].as_ref().map(FromValue::from_value),
            f2: FromValue::from_value(s[2].as_ref().expect("component f2 of Ts5mommde5 must be present")),
            f3: FromValue::from_value(s[3].as_ref().expect("component f3 of Ts5mommde5 must be present")),
            f4: FromValue::from_value(s[4].as_ref().expect("component f4 of Ts5mommde5 must be present")),
        }
    }
}
impl ToValue for Ts5mommde5 {
    fn to_value(&self) -> Value {
        Value::Seq(vec![
            Some(self.f0.to_value()),
            self.f1.as_ref().map(|x| x.to_value()),
            Some(self.f2.to_value()),
            Some(self.f3.to_value()),
            Some(self.f4.to_value()),
        ])
    }
}
impl FromValue for Ts5oommdn {
    fn from_value(v: &Value) -> Self {
        let s = match v { Value::Seq(s) => s, other => panic!("Ts5oommdn: expected Seq, got {other:?}") };
        assert_eq!(s.len(), 5, "Ts5oommdn: component count");
        let _ = s;
        Ts5oommdn {
            f0: s[0].as_ref().map(FromValue::from_value),
            f1: s[1].as_ref().map(FromValue::from_value),
            f2: FromValue::from_value(s[2].as_ref().expect("component f2 of Ts5oommdn must be present")),
            f3: FromValue::from_value(s[3].as_ref().expect("component f3 of Ts5oommdn must be present")),
            f4: FromValue::from_value(s[4].as_ref().expect("component f4 of Ts5oommdn must be present")),
        }
    }
}
impl ToValue for Ts5oommdn {
    fn to_value(&self) -> Value {
        Value::Seq(vec![
            self.f0.as_ref().map(|x| x.to_value()),
            self.f1.as_ref().map(|x| x.to_value()),
            Some(self.f2.to_value()),
            Some(self.f3.to_value()),
            Some(self.f4.to_value()),
        ])
    }
}
impl FromValue for Ts5oommde0 {
    fn from_value(v: &Value) -> Self {
        let s = match v { Value::Seq(s) => s, other => panic!("Ts5oommde0: expected Seq, got {other:?}") };
        assert_eq!(s.len(), 5, "Ts5oommde0: component count");
        let _ = s;
        Ts5oommde0 {
            f0: s[0].as_ref().map(FromValue::from_value),
            f1: s[1].as_ref().map(FromValue::from_value),
            f2: s[2].as_ref().map(FromValue::from_value),
            f3: s[3].as_ref().map(FromValue::from_value),
            f4: FromValue::from_value(s[4].as_ref().expect("component f4 of Ts5oommde0 must be present")),
        }
    }
}
impl ToValue for Ts5oommde0 {
    fn to_value(&self) -> Value {
        Value::Seq(vec![
            self.f0.as_ref().map(|x| x.to_value()),
            self.f1.as_ref().map(|x| x.to_value()),
            self.f2.as_ref().map(|x| x.to_value()),
            self.f3.as_ref().map(|x| x.to_value()),
            Some(self.f4.to_value()),
        ])
    }
}
impl FromValue for Ts5oommde1 {
    fn from_value(v: &Value) -> Self {
        let s = match v { Value::Seq(s) => s, other => panic!("Ts5oommde1: expected Seq, got {other:?}") };
        assert_eq!(s.len(), 5, "Ts5oommde1: component count");
        let _ = s;
        Ts5oommde1 {
            f0: s[0].as_ref().map(FromValue::from_value),
            f1: s[1].as_ref().map(FromValue::from_value),
            f2: s[2].as_ref().map(FromValue::from_value),
            f3: s[3].as_ref().map(FromValue::from_value),
            f4: FromValue::from_value(s[4].as_ref().expect("component f4 of Ts5oommde1 must be present")),
        }
    }
}
impl ToValue for Ts5oommde1 {
    fn to_value(&self) -> Value {
        Value::Seq(vec![
            self.f0.as_ref().map(|x| x.to_value()),
            self.f1.as_ref().map(|x| x.to_value()),
            self.f2.as_ref().map(|x| x.to_value()),
            self.f3.as_ref().map(|x| x.to_value()),
            Some(self.f4.to_value()),
        ])
    }
}
impl FromValue for Ts5oommde2 {
    fn from_value(v: &Value) -> Self {
        let s = match v { Value::Seq(s) => s, other => panic!("Ts5oommde2: expected Seq, got {other:?}") };
        assert_eq!(s.len(), 5, "Ts5oommde2: component count");
        let _ = s;
        Ts5oommde2 {
            f0: s[0].as_ref().map(FromValue::from_value),
            f1: s[1].as_ref().map(FromValue::from_value),
            f2: s[2].as_ref().map(FromValue::from_value),
            f3: s[3].as_ref().map(FromValue::from_value),
            f4: FromValue::from_value(s[4].as_ref().expect("component f4 of Ts5oommde2 must be present")),
        }
    }
}
impl ToValue for Ts5oommde2 {
    fn to_value(&self) -> Value {
        Value::Seq(vec![
            self.f0.as_ref().map(|x| x.to_value()),
            self.f1.as_ref().map(|x| x.to_value()),
            self.f2.as_ref().map(|x| x.to_value()),
            self.f3.as_ref().map(|x| x.to_value()),
            Some(self.f4.to_value()),
        ])
    }
}
impl FromValue for Ts5oommde3 {
    fn from_value(v: &Value) -> Self {
        let s = match v { Value::Seq(s) => s, other => panic!("Ts5oommde3: expected Seq, got {other:?}") };
        assert_eq!(s.len(), 5, "Ts5oommde3: component count");
        let _ = s;
        Ts5oommde3 {
            f0: s[0].as_ref().map(FromValue::from_value),
            f1: s[1].as_ref().map(FromValue::from_value),
            f2: FromValue::from_value(s[2].as_ref().expect("component f2 of Ts5oommde3 must be present")),
            f3: s[3].as_ref().map(FromValue::from_value),
            f4: FromValue::from_value(s[4].as_ref().expect("component f4 of Ts5oommde3 must be present")),
        }
    }
}
impl ToValue for Ts5oommde3 {
    fn to_value(&self) -> Value {
        Value::Seq(vec![
            self.f0.as_ref().map(|x| x.to_value()),
            self.f1.as_ref().map(|x| x.to_value()),
            Some(self.f2.to_value()),
            self.f3.as_ref().map(|x| x.to_value()),
            Some(self.f4.to_value()),
        ])
    }
}
impl FromValue for Ts5oommde4 {
    fn from_value(v: &Value) -> Self {
        let s = match v { Value::Seq(s) => s, other => panic!("Ts5oommde4: expected Seq, got {other:?}") };
        assert_eq!(s.len(), 5, "Ts5oommde4: component count");
        let _ = s;
        Ts5oommde4 {
            f0: s[0].as_ref().map(FromValue::from_value),
            f1: s[1].as_ref().map(FromValue::from_value),
            f2: FromValue::from_value(s[2].as_ref().expect("component f2 of Ts5oommde4 must be present")),
            f3: FromValue::from_value(s[3].as_ref().expect("component f3 of Ts5oommde4 must be present")),
            f4: FromValue::from_value(s[4].as_ref().expect("component f4 of Ts5oommde4 must be present")),
        }
    }
}
impl ToValue for Ts5oommde4 {
    fn to_value(&self) -> Value {
        Value::Seq(vec![
            self.f0.as_ref().map(|x| x.to_value()),
            self.f1.as_ref().map(|x| x.to_value()),
            Some(self.f2.to_value()),
            Some(self.f3.to_value()),
            Some(self.f4.to_value()),
        ])
    }
}
impl FromValue for Ts5oommde5 {
    fn from_value(v: &Value) -> Self {
        let s = match v { Value::Seq(s) => s, other => panic!("Ts5oommde5: expected Seq, got {other:?}") };
        assert_eq!(s.len(), 5, "Ts5oommde5: component count");
        let _ = s;
        Ts5oommde5 {
            f0: s[0].as_ref().map(FromValue::from_value),
            f1: s[1].as_ref().map(FromValue::from_value),
            f2: FromValue::from_value(s[2].as_ref().expect("component f2 of Ts5oommde5 must be present")),
            f3: FromValue::from_value(s[3].as_ref().expect("component f3 of Ts5oommde5 must be present")),
            f4: FromValue::from_value(s[4].as_ref().expect("component f4 of Ts5oommde5 must be present")),
        }
    }
}
impl ToValue for Ts5oommde5 {
    fn to_value(&self) -> Value {
        Value::Seq(vec![
            self.f0.as_ref().map(|x| x.to_value()),
            self.f1.as_ref().map(|x| x.to_value()),
            Some(self.f2.to_value()),
            Some(self.f3.to_value()),
            Some(self.f4.to_value()),
        ])
    }
}
impl FromValue for Ts5dommdn {
    fn from_value(v: &Value) -> Self {
        let s = match v { Value::Seq(s) => s, other => panic!("Ts5dommdn: expected Seq, got {other:?}") };
        assert_eq!(s.len(), 5, "Ts5dommdn: component count");
        let _ = s;
        Ts5dommdn {
            f0: FromValue::from_value(s[0].as_ref().expect("component f0 of Ts5dommdn must be present")),
            f1: s[1].as_ref().map(FromValue::from_value),
            f2: FromValue::from_value(s[2].as_ref().expect("component f2 of Ts5dommdn must be present")),
            f3: FromValue::from_value(s[3].as_ref().expect("component f3 of Ts5dommdn must be present")),
            f4: FromValue::from_value(s[4].as_ref().expect("component f4 of Ts5dommdn must be present")),
        }
    }
}
impl ToValue for Ts5dommdn {
    fn to_value(&self) -> Value {
        Value::Seq(vec![
            Some(self.f0.to_value()),
            self.f1.as_ref().map(|x| x.to_value()),
            Some(self.f2.to_value()),
            Some(self.f3.to_value()),
            Some(self.f4.to_value()),
        ])
    }
}
impl FromValue for Ts5dommde0 {
    fn from_value(v: &Value) -> Self {
        let s = match v { Value::Seq(s) => s, other => panic!("Ts5dommde0: expected Seq, got {other:?}") };
        assert_eq!(s.len(), 5, "Ts5dommde0: component count");
        let _ = s;
        Ts5dommde0 {
            f0: FromValue::from_value(s[0].as_ref().expect("component f0 of Ts5dommde0 must be present")),
            f1: s[1].as_ref().map(FromValue::from_value),
            f2: s[2].as_ref().map(FromValue::from_value),
            f3: s[3].as_ref().map(FromValue::from_value),
            f4: FromValue::from_value(s[4].as_ref().expect("component f4 of Ts5dommde0 must be present")),
        }
    }
}
impl ToValue for Ts5dommde0 {
    fn to_value(&self) -> Value {
        Value::Seq(vec![
            Some(self.f0.to_value()),
            self.f1.as_ref().map(|x| x.to_value()),
            self.f2.as_ref().map(|x| x.to_value()),
            self.f3.as_ref().map(|x| x.to_value()),
            Some(self.f4.to_value()),
        ])
    }
}
impl FromValue for Ts5dommde1 {
    fn from_value(v: &Value) -> Self {
        let s = match v { Value::Seq(s) => s, other => panic!("Ts5dommde1: expected Seq, got {other:?}") };
        assert_eq!(s.len(), 5, "Ts5dommde1: component count");
        let _ = s;
        Ts5dommde1 {
            f0: FromValue::from_value(s[0].as_ref().expect("component f0 of Ts5dommde1 must be present")),
            f1: s[1].as_ref().map(FromValue::from_value),
            f2: s[2].as_ref().map(FromValue::from_value),
            f3: s[3].as_ref().map(FromValue::from_value),
            f4: FromValue::from_value(s[4].as_ref().expect("component f4 of Ts5dommde1 must be present")),
        }
    }
}
impl ToValue for Ts5dommde1 {
    fn to_value(&self) -> Value {
        Value::Seq(vec![
            Some(self.f0.to_value()),
            self.f1.as_ref().map(|x| x.to_value()),
            self.f2.as_ref().map(|x| x.to_value()),
            self.f3.as_ref().map(|x| x.to_value()),
            Some(self.f4.to_value()),
        ])
    }
}
impl FromValue for Ts5dommde2 {
    fn from_value(v: &Value) -> Self {
        let s = match v { Value::Seq(s) => s, other => panic!("Ts5dommde2: expected Seq, got {other:?}") };
        assert_eq!(s.len(), 5, "Ts5dommde2: component count");
        let _ = s;
        Ts5dommde2 {
            f0: FromValue::from_value(s[0].as_ref().expect("component f0 of Ts5dommde2 must be present")),
            f1: s[1].as_ref().map(FromValue::from_value),
            f2: s[2].as_ref().map(FromValue::from_value),
            f3: s[3].as_ref().map(FromValue::from_value),
            f4: FromValue::from_value(s[4].as_ref().expect("component f4 of Ts5dommde2 must be present")),
        }
    }
}
impl ToValue for Ts5dommde2 {
    fn to_value(&self) -> Value {
        Value::Seq(vec![
            Some(self.f0.to_value()),
            self.f1.as_ref().map(|x| x.to_value()),
            self.f2.as_ref().map(|x| x.to_value()),
            self.f3.as_ref().map(|x| x.to_value()),
            Some(self.f4.to_value()),
        ])
    }
}
impl FromValue for Ts5dommde3 {
    fn from_value(v: &Value) -> Self {
        let s = match v { Value::Seq(s) => s, other => panic!("Ts5dommde3: expected Seq, got {other:?}") };
        assert_eq!(s.len(), 5, "Ts5dommde3: component count");
        let _ = s;
        Ts5dommde3 {
            f0: FromValue::from_value(s[0].as_ref().expect("component f0 of Ts5dommde3 must be present")),
            f1: s[1].as_ref().map(FromValue::from_value),
            f2: FromValue::from_value(s[2].as_ref().expect("component f2 of Ts5dommde3 must be present")),
            f3: s[3].as_ref().map(FromValue::from_value),
            f4: FromValue::from_value(s[4].as_ref().expect("component f4 of Ts5dommde3 must be present")),
        }
    }
}
impl ToValue for Ts5dommde3 {
    fn to_value(&self) -> Value {
        Value::Seq(vec![
            Some(self.f0.to_value()),
            self.f1.as_ref().map(|x| x.to_value()),
            Some(self.f2.to_value()),
            self.f3.as_ref().map(|x| x.to_value()),
            Some(self.f4.to_value()),
        ])
    }
}
impl FromValue for Ts5dommde4 {
    fn from_value(v: &Value) -> Self {
        let s = match v { Value::Seq(s) => s, other => panic!("Ts5dommde4: expected Seq, got {other:?}") };
        assert_eq!(s.len(), 5, "Ts5dommde4: component count");
        let _ = s;
        Ts5dommde4 {
            f0: FromValue::from_value(s[0].as_ref().expect("component f0 of Ts5dommde4 must be present")),
            f1: s[1].as_ref().map(FromValue::from_value),
            f2: FromValue::from_value(s[2].as_ref().expect("component f2 of Ts5dommde4 must be present")),
            f3: FromValue::from_value(s[3].as_ref().expect("component f3 of Ts5dommde4 must be present")),
            f4: FromValue::from_value(s[4].as_ref().expect("component f4 of Ts5dommde4 must be present")),
        }
    }
}
impl ToValue for Ts5dommde4 {
    fn to_value(&self) -> Value {
        Value::Seq(vec![
            Some(self.f0.to_value()),
            self.f1.as_ref().map(|x| x.to_value()),
            Some(self.f2.to_value()),
            Some(self.f3.to_value()),
            Some(self.f4.to_value()),
        ])
    }
}
impl FromValue for Ts5dommde5 {
    fn from_value(v: &Value) -> Self {
        let s = match v { Value::Seq(s) => s, other => panic!("Ts5dommde5: expected Seq, got {other:?}") };
        assert_eq!(s.len(), 5, "Ts5dommde5: component count");
        let _ = s;
        Ts5dommde5 {
            f0: FromValue::from_value(s[0].as_ref().expect("component f0 of Ts5dommde5 must be present")),
            f1: s[1].as_ref().map(FromValue::from_value),
            f2: FromValue::from_value(s[2].as_ref().expect("component f2 of Ts5dommde5 must be present")),
            f3: FromValue::from_value(s[3].as_ref().expect("component f3 of Ts5dommde5 must be present")),
            f4: FromValue::from_value(s[4].as_ref().expect("component f4 of Ts5dommde5 must be present")),
        }
    }
}
impl ToValue for Ts5dommde5 {
    fn to_value(&self) -> Value {
        Value::Seq(vec![
            Some(self.f0.to_value()),
            self.f1.as_ref().map(|x| x.to_value()),
            Some(self.f2.to_value()),
            Some(self.f3.to_value()),
            Some(self.f4.to_value()),
        ])
    }
}
impl FromValue for Ts5mdmmdn {
    fn from_value(v: &Value) -> Self {
        let s = match v { Value::Seq(s) => s, other => panic!("Ts5mdmmdn: expected Seq, got {other:?}") };
        assert_eq!(s.len(), 5, "Ts5mdmmdn: component count");
        let _ = s;
        Ts5mdmmdn {
            f0: FromValue::from_value(s[0].as_ref().expect("component f0 of Ts5mdmmdn must be present")),
            f1: FromValue::from_value(s[1].as_ref().expect("component f1 of Ts5mdmmdn must be present")),
            f2: FromValue::from_value(s[2].as_ref().expect("component f2 of Ts5mdmmdn must be present")),
            f3: FromValue::from_value(s[3].as_ref().expect("component f3 of Ts5mdmmdn must be present")),
            f4: FromValue::from_value(s[4].as_ref().expect("component f4 of Ts5mdmmdn must be present")),
        }
    }
}
impl ToValue for Ts5mdmmdn {
    fn to_value(&self) -> Value {
        Value::Seq(vec![
            Some(self.f0.to_value()),
            Some(self.f1.to_value()),
            Some(self.f2.to_value()),
            Some(self.f3.to_value()),
            Some(self.f4.to_value()),
        ])
    }
}
impl FromValue for Ts5mdmmde0 {
    fn from_value(v: &Value) -> Self {
        let s = match v { Value::Seq(s) => s, other => panic!("Ts5mdmmde0: expected Seq, got {other:?}") };
        assert_eq!(s.len(), 5, "Ts5mdmmde0: component count");
        let _ = s;
        Ts5mdmmde0 {
            f0: FromValue::from_value(s[0].as_ref().expect("component f0 of Ts5mdmmde0 must be present")),
            f1: FromValue::from_value(s[1].as_ref().expect("component f1 of Ts5mdmmde0 must be present")),
            f2: s[2].as_ref().map(FromValue::from_value),
            f3: s[3].as_ref().map(FromValue::from_value),
            f4: FromValue::from_value(s[4].as_ref().expect("component f4 of Ts5mdmmde0 must be present")),
        }
    }
}
impl ToValue for Ts5mdmmde0 {
    fn to_value(&self) -> Value {
        Value::Seq(vec![
            Some(self.f0.to_value()),
            Some(self.f1.to_value()),
            self.f2.as_ref().map(|x| x.to_value()),
            self.f3.as_ref().map(|x| x.to_value()),
            Some(self.f4.to_value()),
        ])
    }
}
impl FromValue for Ts5mdmmde1 {
    fn from_value(v: &Value) -> Self {
        let s = match v { Value::Seq(s) => s, other => panic!("Ts5mdmmde1: expected Seq, got {other:?}") };
        assert_eq!(s.len(), 5, "Ts5mdmmde1: component count");
        let _ = s;
        Ts5mdmmde1 {
            f0: FromValue::from_value(s[0].as_ref().expect("component f0 of Ts5mdmmde1 must be present")),
            f1: FromValue::from_value(s[1].as_ref().expect("component f1 of Ts5mdmmde1 must be present")),
            f2: s[2].as_ref().map(FromValue::from_value),
            f3: s[3].as_ref().map(FromValue::from_value),
            f4: FromValue::from_value(s[4].as_ref().expect("component f4 of Ts5mdmmde1 must be present")),
        }
    }
}
impl ToValue for Ts5mdmmde1 {
    fn to_value(&self) -> Value {
        Value::Seq(vec![
            Some(self.f0.to_value()),
            Some(self.f1.to_value()),
            self.f2.as_ref().map(|x| x.to_value()),
            self.f3.as_ref().map(|x| x.to_value()),
            Some(self.f4.to_value()),
        ])
    }
}
impl FromValue for Ts5mdmmde2 {
    fn from_value(v: &Value) -> Self {
        let s = match v { Value::Seq(s) => s, other => panic!("Ts5mdmmde2: expected Seq, got {other:?}") };
        assert_eq!(s.len(), 5, "Ts5mdmmde2: component count");
        let _ = s;
        Ts5mdmmde2 {
            f0: FromValue::from_value(s[0].as_ref().expect("component f0 of Ts5mdmmde2 must be present")),
            f1: FromValue::from_value(s[1].as_ref().expect("component f1 of Ts5mdmmde2 must be present")),
            f2: s[2].as_ref().map(FromValue::from_value),
            f3: s[3].as_ref().map(FromValue::from_value),
            f4: FromValue::from_value(s[4].as_ref().expect("component f4 of Ts5mdmmde2 must be present")),
        }
    }
}
impl ToValue for Ts5mdmmde2 {
    fn to_value(&self) -> Value {
        Value::Seq(vec![
            Some(self.f0.to_value()),
            Some(self.f1.to_value()),
            self.f2.as_ref().map(|x| x.to_value()),
            self.f3.as_ref().map(|x| x.to_value()),
            Some(self.f4.to_value()),
        ])
    }
}
impl FromValue for Ts5mdmmde3 {
    fn from_value(v: &Value) -> Self {
        let s = match v { Value::Seq(s) => s, other => panic!("Ts5mdmmde3: expected Seq, got {other:?}") };
        assert_eq!(s.len(), 5, "Ts5mdmmde3: component count");
        let _ = s;
        Ts5mdmmde3 {
            f0: FromValue::from_value(s[0].as_ref().expect("component f0 of Ts5mdmmde3 must be present")),
            f1: FromValue::from_value(s[1].as_ref().expect("component f1 of Ts5mdmmde3 must be present")),
            f2: FromValue::from_value(s[2].as_ref().expect("component f2 of Ts5mdmmde3 must be present")),
            f3: s[3].as_ref().map(FromValue::from_value),
            f4: FromValue::from_value(s[4].as_ref().expect("component f4 of Ts5mdmmde3 must be present")),
        }
    }
}
impl ToValue for Ts5mdmmde3 {
    fn to_value(&self) -> Value {
        Value::Seq(vec![
            Some(self.f0.to_value()),
            Some(self.f1.to_value()),
            Some(self.f2.to_value()),
            self.f3.as_ref().map(|x| x.to_value()),
            Some(self.f4.to_value()),
        ])
    }
}
impl FromValue for Ts5mdmmde4 {
    fn from_value(v: &Value) -> Self {
        let s = match v { Value::Seq(s) => s, other => panic!("Ts5mdmmde4: expected Seq, got {other:?}") };
        assert_eq!(s.len(), 5, "Ts5mdmmde4: component count");
        let _ = s;
        Ts5mdmmde4 {
            f0: FromValue::from_value(s[0].as_ref().expect("component f0 of Ts5mdmmde4 must be present")),
            f1: FromValue::from_value(s[1].as_ref().expect("component f1 of Ts5mdmmde4 must be present")),
            f2: FromValue::from_value(s[2].as_ref().expect("component f2 of Ts5mdmmde4 must be present")),
            f3: FromValue::from_value(s[3].as_ref().expect("component f3 of Ts5mdmmde4 must be present")),
            f4: FromValue::from_value(s[4].as_ref().expect("component f4 of Ts5mdmmde4 must be present")),
        }
    }
}
impl ToValue for Ts5mdmmde4 {
    fn to_value(&self) -> Value {
        Value::Seq(vec![
            Some(self.f0.to_value()),
            Some(self.f1.to_value()),
            Some(self.f2.to_value()),
            Some(self.f3.to_value()),
            Some(self.f4.to_value()),
        ])
    }
}
impl FromValue for Ts5mdmmde5 {
    fn from_value(v: &Value) -> Self {
        let s = match v { Value::Seq(s) => s, other => panic!("Ts5mdmmde5: expected Seq, got {other:?}") };
        assert_eq!(s.len(), 5, "Ts5mdmmde5: component count");
        let _ = s;
        Ts5mdmmde5 {
            f0: FromValue::from_value(s[0].as_ref().expect("component f0 of Ts5mdmmde5 must be present")),
            f1: FromValue::from_value(s[1].as_ref().expect("component f1 of Ts5mdmmde5 must be present")),
            f2: FromValue::from_value(s[2].as_ref().expect("component f2 of Ts5mdmmde5 must be present")),
            f3: FromValue::from_value(s[3].as_ref().expect("component f3 of Ts5mdmmde5 must be present")),
            f4: FromValue::from_value(s[4].as_ref().expect("component f4 of Ts5mdmmde5 must be present")),
        }
    }
}
impl ToValue for Ts5mdmmde5 {
    fn to_value(&self) -> Value {
        Value::Seq(vec![
            Some(self.f0.to_value()),
            Some(self.f1.to_value()),
            Some(self.f2.to_value()),
            Some(self.f3.to_value()),
            Some(self.f4.to_value()),
        ])
    }
}
impl FromValue for Ts5odmmdn {
    fn from_value(v: &Value) -> Self {
        let s = match v { Value::Seq(s) => s, other => panic!("Ts5odmmdn: expected Seq, got {other:?}") };
        assert_eq!(s.len(), 5, "Ts5odmmdn: component count");
        let _ = s;
        Ts5odmmdn {
            f0: s[0].as_ref().map(FromValue::from_value),
            f1: FromValue::from_value(s[1].as_ref().expect("component f1 of Ts5odmmdn must be present")),
            f2: FromValue::from_value(s[2].as_ref().expect("component f2 of Ts5odmmdn must be present")),
            f3: FromValue::from_value(s[3].as_ref().expect("component f3 of Ts5odmmdn must be present")),
            f4: FromValue::from_value(s[4].as_ref().expect("component f4 of Ts5odmmdn must be present")),
        }
    }
}
impl ToValue for Ts5odmmdn {
    fn to_value(&self) -> Value {
        Value::Seq(vec![
            self.f0.as_ref().map(|x| x.to_value()),
            Some(self.f1.to_value()),
            Some(self.f2.to_value()),
            Some(self.f3.to_value()),
            Some(self.f4.to_value()),
        ])
    }
}
impl FromValue for Ts5odmmde0 {
    fn from_value(v: &Value) -> Self {
        let s = match v { Value::Seq(s) => s, other => panic!("Ts5odmmde0: expected Seq, got {other:?}") };
        assert_eq!(s.len(), 5, "Ts5odmmde0: component count");
        let _ = s;
        Ts5odmmde0 {
            f0: s[0].as_ref().map(FromValue::from_value),
            f1: FromValue::from_value(s[1].as_ref().expect("component f1 of Ts5odmmde0 must be present")),
            f2: s[2].as_ref().map(FromValue::from_value),
            f3: s[3].as_ref().map(FromValue::from_value),
            f4: FromValue::from_value(s[4].as_ref().expect("component f4 of Ts5odmmde0 must be present")),
        }
    }
}
impl ToValue for Ts5odmmde0 {
    fn to_value(&self) -> Value {
        Value::Seq(vec![
            self.f0.as_ref().map(|x| x.to_value()),
            Some(self.f1.to_value()),
            self.f2.as_ref().map(|x| x.to_value()),
            self.f3.as_ref().map(|x| x.to_value()),
            Some(self.f4.to_value()),
        ])
    }
}
impl FromValue for Ts5odmmde1 {
    fn from_value(v: &Value) -> Self {
        let s = match v { Value::Seq(s) => s, other => panic!("Ts5odmmde1: expected Seq, got {other:?}") };
        assert_eq!(s.len(), 5, "Ts5odmmde1: component count");
        let _ = s;
        Ts5odmmde1 {
            f0: s[0].as_ref().map(FromValue::from_value),
            f1: FromValue::from_value(s[1].as_ref().expect("component f1 of Ts5odmmde1 must be present")),
            f2: s[2].as_ref().map(FromValue::from_value),
            f3: s[3].as_ref().map(FromValue::from_value),
            f4: FromValue::from_value(s[4].as_ref().expect("component f4 of Ts5odmmde1 must be present")),
        }
    }
}
impl ToValue for Ts5odmmde1 {
    fn to_value(&self) -> Value {
        Value::Seq(vec![
            self.f0.as_ref().map(|x| x.to_value()),
            Some(self.f1.to_value()),
            self.f2.as_ref().map(|x| x.to_value()),
            self.f3.as_ref().map(|x| x.to_value()),
            Some(self.f4.to_value()),
        ])
    }
}
impl FromValue for Ts5odmmde2 {
    fn from_value(v: &Value) -> Self {
        let s = match v { Value::Seq(s) => s, other => panic!("Ts5odmmde2: expected Seq, got {other:?}") };
        assert_eq!(s.len(), 5, "Ts5odmmde2: component count");
        let _ = s;
        Ts5odmmde2 {
            f0: s[0].as_ref().map(FromValue::from_value),
            f1: FromValue::from_value(s[1].as_ref().expect("component f1 of Ts5odmmde2 must be present")),
            f2: s[2].as_ref().map(FromValue::from_value),
            f3: s[3].as_ref().map(FromValue::from_value),
            f4: FromValue::from_value(s[4].as_ref().expect("component f4 of Ts5odmmde2 must be present")),
        }
    }
}
impl ToValue for Ts5odmmde2 {
    fn to_value(&self) -> Value {
        Value::Seq(vec![
            self.f0.as_ref().map(|x| x.to_value()),
            Some(self.f1.to_value()),
            self.f2.as_ref().map(|x| x.to_value()),
            self.f3.as_ref().map(|x| x.to_value()),
            Some(self.f4.to_value()),
        ])
    }
}
impl FromValue for Ts5odmmde3 {
    fn from_value(v: &Value) -> Self {
        let s = match v { Value::Seq(s) => s, other => panic!("Ts5odmmde3: expected Seq, got {other:?}") };
        assert_eq!(s.len(), 5, "Ts5odmmde3: component count");
        let _ = s;
        Ts5odmmde3 {
            f0: s[0].as_ref().map(FromValue::from_value),
            f1: FromValue::from_value(s[1].as_ref().expect("component f1 of Ts5odmmde3 must be present")),
            f2: FromValue::from_value(s[2].as_ref().expect("component f2 of Ts5odmmde3 must be present")),
            f3: s[3].as_ref().map(FromValue::from_value),
            f4: FromValue::from_value(s[4].as_ref().expect("component f4 of Ts5odmmde3 must be present")),
        }
    }
}
impl ToValue for Ts5odmmde3 {
    fn to_value(&self) -> Value {
        Value::Seq(vec![
            self.f0.as_ref().map(|x| x.to_value()),
            Some(self.f1.to_value()),
            Some(self.f2.to_value()),
            self.f3.as_ref().map(|x| x.to_value()),
            Some(self.f4.to_value()),
        ])
    }
}
impl FromValue for Ts5odmmde4 {
    fn from_value(v: &Value) -> Self {
        let s = match v { Value::Seq(s) => s, other => panic!("Ts5odmmde4: expected Seq, got {other:?}") };
        assert_eq!(s.len(), 5, "Ts5odmmde4: component count");
        let _ = s;
        Ts5odmmde4 {
            f0: s[0].as_ref().map(FromValue::from_value),
            f1: FromValue::from_value(s[1].as_ref().expect("component f1 of Ts5odmmde4 must be present")),
            f2: FromValue::from_value(s[2].as_ref().expect("component f2 of Ts5odmmde4 must be present")),
            f3: FromValue::from_value(s[3].as_ref().expect("component f3 of Ts5odmmde4 must be present")),
            f4: FromValue::from_value(s[4].as_ref().expect("component f4 of Ts5odmmde4 must be present")),
        }
    }
}
impl ToValue for Ts5odmmde4 {
    fn to_value(&self) -> Value {
        Value::Seq(vec![
            self.f0.as_ref().map(|x| x.to_value()),
            Some(self.f1.to_value()),
            Some(self.f2.to_value()),
            Some(self.f3.to_value()),
            Some(self.f4.to_value()),
        ])
    }
}
impl FromValue for Ts5odmmde5 {
    fn from_value(v: &Value) -> Self {
        let s = match v { Value::Seq(s) => s, other => panic!("Ts5odmmde5: expected Seq, got {other:?}") };
        assert_eq!(s.len(), 5, "Ts5odmmde5: component count");
        let _ = s;
        Ts5odmmde5 {
            f0: s[0].as_ref().map(FromValue::from_value),
            f1: FromValue::from_value(s[1].as_ref().expect("component f1 of Ts5odmmde5 must be present")),
            f2: FromValue::from_value(s[2].as_ref().expect("component f2 of Ts5odmmde5 must be present")),
            f3: FromValue::from_value(s[3].as_ref().expect("component f3 of Ts5odmmde5 must be present")),
            f4: FromValue::from_value(s[4].as_ref().expect("component f4 of Ts5odmmde5 must be present")),
        }
    }
}
impl ToValue for Ts5odmmde5 {
    fn to_value(&self) -> Value {
        Value::Seq(vec![
            self.f0.as_ref().map(|x| x.to_value()),
            Some(self.f1.to_value()),
            Some(self.f2.to_value()),
            Some(self.f3.to_value()),
            Some(self.f4.to_value()),
        ])
    }
}
impl FromValue for Ts5ddmmdn {
    fn from_value(v: &Value) -> Self {
        let s = match v { Value::Seq(s) => s, other => panic!("Ts5ddmmdn: expected Seq, got {other:?}") };
        assert_eq!(s.len(), 5, "Ts5ddmmdn: component count");
        let _ = s;
        Ts5ddmmdn {
            f0: FromValue::from_value(s[0].as_ref().expect("component f0 of Ts5ddmmdn must be present")),
            f1: FromValue::from_value(s[1].as_ref().expect("component f1 of Ts5ddmmdn must be present")),
            f2: FromValue::from_value(s[2].as_ref().expect("component f2 of Ts5ddmmdn must be present")),
            f3: FromValue::from_value(s[3].as_ref().expect("component f3 of Ts5ddmmdn must be present")),
            f4: FromValue::from_value(s[4].as_ref().expect("component f4 of Ts5ddmmdn must be present")),
        }
    }
}
impl ToValue for Ts5ddmmdn {
    fn to_value(&self) -> Value {
        Value::Seq(vec![
            Some(self.f0.to_value()),
            Some(self.f1.to_value()),
            Some(self.f2.to_value()),
            Some(self.f3.to_value()),
            Some(self.f4.to_value()),
        ])
    }
}
impl FromValue for Ts5ddmmde0 {
    fn from_value(v: &Value) -> Self {
        let s = match v { Value::Seq(s) => s, other => panic!("Ts5ddmmde0: expected Seq, got {other:?}") };
        assert_eq!(s.len(), 5, "Ts5ddmmde0: component count");
        let _ = s;
        Ts5ddmmde0 {
            f0: FromValue::from_value(s[0].as_ref().expect("component f0 of Ts5ddmmde0 must be present")),
            f1: FromValue::from_value(s[1].as_ref().expect("component f1 of Ts5ddmmde0 must be present")),
            f2: s[2].as_ref().map(FromValue::from_value),
            f3: s[3].as_ref().map(FromValue::from_value),
            f4: FromValue::from_value(s[4].as_ref().expect("component f4 of Ts5ddmmde0 must be present")),
        }
    }
}
impl ToValue for Ts5ddmmde0 {
    fn to_value(&self) -> Value {
        Value::Seq(vec![
            Some(self.f0.to_value()),
            Some(self.f1.to_value()),
            self.f2.as_ref().map(|x| x.to_value()),
            self.f3.as_ref().map(|x| x.to_value()),
            Some(self.f4.to_value()),
        ])
    }
}
impl FromValue for Ts5ddmmde1 {
    fn from_value(v: &Value) -> Self {
        let s = match v { Value::Seq(s) => s, other => panic!("Ts5ddmmde1: expected Seq, got {other:?}") };
        assert_eq!(s.len(), 5, "Ts5ddmmde1: component count");
        let _ = s;
        Ts5ddmmde1 {
            f0: FromValue::from_value(s[0].as_ref().expect("component f0 of Ts5ddmmde1 must be present")),
            f1: FromValue::from_value(s[1].as_ref().expect("component f1 of Ts5ddmmde1 must be present")),
            f2: s[2].as_ref().map(FromValue::from_value),
            f3: s[3].as_ref().map(FromValue::from_value),
            f4: FromValue::from_value(s[4].as_ref().expect("component f4 of Ts5ddmmde1 must be present")),
        }
    }
}
impl ToValue for Ts5ddmmde1 {
    fn to_value(&self) -> Value {
        Value::Seq(vec![
            Some(self.f0.to_value()),
            Some(self.f1.to_value()),
            self.f2.as_ref().map(|x| x.to_value()),
            self.f3.as_ref().map(|x| x.to_value()),
            Some(self.f4.to_value()),
        ])
    }
}
impl FromValue for Ts5ddmmde2 {
    fn from_value(v: &Value) -> Self {
        let s = match v { Value::Seq(s) => s, other => panic!("Ts5ddmmde2: expected Seq, got {other:?}") };
        assert_eq!(s.len(), 5, "Ts5ddmmde2: component count");
        let _ = s;
        Ts5ddmmde2 {
            f0: FromValue::from_value(s[0].as_ref().expect("component f0 of Ts5ddmmde2 must be present")),
            f1: FromValue::from_value(s[1].as_ref().expect("component f1 of Ts5ddmmde2 must be present")),
            f2: s[2].as_ref().map(FromValue::from_value),
            f3: s[3].as_ref().map(FromValue::from_value),
            f4: FromValue::from_value(s[4].as_ref().expect("component f4 of Ts5ddmmde2 must be present")),
        }
    }
}
impl ToValue for Ts5ddmmde2 {
    fn to_value(&self) -> Value {
        Value::Seq(vec![
            Some(self.f0.to_value()),
            Some(self.f1.to_value()),
            self.f2.as_ref().map(|x| x.to_value()),
            self.f3.as_ref().map(|x| x.to_value()),
            Some(self.f4.to_value()),
        ])
    }
}
impl FromValue for Ts5ddmmde3 {
    fn from_value(v: &Value) -> Self {
        let s = match v { Value::Seq(s) => s, other => panic!("Ts5ddmmde3: expected Seq, got {other:?}") };
        assert_eq!(s.len(), 5, "Ts5ddmmde3: component count");
        let _ = s;
        Ts5ddmmde3 {
            f0: FromValue::from_value(s[0].as_ref().expect("component f0 of Ts5ddmmde3 must be present")),
            f1: FromValue::from_value(s[1].as_ref().expect("component f1 of Ts5ddmmde3 must be present")),
            f2: FromValue::from_value(s[2].as_ref().expect("component f2 of Ts5ddmmde3 must be present")),
            f3: s[3].as_ref().map(FromValue::from_value),
            f4: FromValue::from_value(s[4].as_ref().expect("component f4 of Ts5ddmmde3 must be present")),
        }
    }
}
impl ToValue for Ts5ddmmde3 {
    fn to_value(&self) -> Value {
        Value::Seq(vec![
            Some(self.f0.to_value()),
            Some(self.f1.to_value()),
            Some(self.f2.to_value()),
            self.f3.as_ref().map(|x| x.to_value()),
            Some(self.f4.to_value()),
        ])
    }
}
impl FromValue for Ts5ddmmde4 {
    fn from_value(v: &Value) -> Self {
        let s = match v { Value::Seq(s) => s, other => panic!("Ts5ddmmde4: expected Seq, got {other:?}") };
        assert_eq!(s.len(), 5, "Ts5ddmmde4: component count");
        let _ = s;
        Ts5ddmmde4 {
            f0: FromValue::from_value(s[0].as_ref().expect("component f0 of Ts5ddmmde4 must be present")),
            f1: FromValue::from_value(s[1].as_ref().expect("component f1 of Ts5ddmmde4 must be present")),
            f2: FromValue::from_value(s[2].as_ref().expect("component f2 of Ts5ddmmde4 must be present")),
            f3: FromValue::from_value(s[3].as_ref().expect("component f3 of Ts5ddmmde4 must be present")),
            f4: FromValue::from_value(s[4].as_ref().expect("component f4 of Ts5ddmmde4 must be present")),
        }
    }
}
impl ToValue for Ts5ddmmde4 {
    fn to_value(&self) -> Value {
        Value::Seq(vec![
            Some(self.f0.to_value()),
            Some(self.f1.to_value()),
            Some(self.f2.to_value()),
            Some(self.f3.to_value()),
            Some(self.f4.to_value()),
        ])
    }
}
impl FromValue for Ts5ddmmde5 {
    fn from_value(v: &Value) -> Self {
        let s = match v { Value::Seq(s) => s, other => panic!("Ts5ddmmde5: expected Seq, got {other:?}") };
        assert_eq!(s.len(), 5, "Ts5ddmmde5: component count");
        let _ = s;
        Ts5ddmmde5 {
            f0: FromValue::from_value(s[0].as_ref().expect("component f0 of Ts5ddmmde5 must be present")),
            f1: FromValue::from_value(s[1].as_ref().expect("component f1 of Ts5ddmmde5 must be present")),
            f2: FromValue::from_value(s[2].as_ref().expect("component f2 of Ts5ddmmde5 must be present")),
            f3: FromValue::from_value(s[3].as_ref().expect("component f3 of Ts5ddmmde5 must be present")),
            f4: FromValue::from_value(s[4].as_ref().expect("component f4 of Ts5ddmmde5 must be present")),
        }
    }
}
impl ToValue for Ts5ddmmde5 {
    fn to_value(&self) -> Value {
        Value::Seq(vec![
            Some(self.f0.to_value()),
            Some(self.f1.to_value()),
            Some(self.f2.to_value()),
            Some(self.f3.to_value()),
            Some(self.f4.to_value()),
        ])
    }
}
impl FromValue for Ts5mmomdn {
    fn from_value(v: &Value) -> Self {
        let s = match v { Value::Seq(s) => s, other => panic!("Ts5mmomdn: expected Seq, got {other:?}") };
        assert_eq!(s.len(), 5, "Ts5mmomdn: component count");
        let _ = s;
        Ts5mmomdn {
            f0: FromValue::from_value(s[0].as_ref().expect("component f0 of Ts5mmomdn must be present")),
            f1: FromValue::from_value(s[1].as_ref().expect("component f1 of Ts5mmomdn must be present")),
            f2: s[2].as_ref().map(FromValue::from_value),
            f3: FromValue::from_value(s[3].as_ref().expect("component f3 of Ts5mmomdn must be present")),
            f4: FromValue::from_value(s[4].as_ref().expect("component f4 of Ts5mmomdn must be present")),
        }
    }
}
impl ToValue for Ts5mmomdn {
    fn to_value(&self) -> Value {
        Value::Seq(vec![
            Some(self.f0.to_value()),
            Some(self.f1.to_value()),
            self.f2.as_ref().map(|x| x.to_value()),
            Some(self.f3.to_value()),
            Some(self.f4.to_value()),
        ])
    }
}
impl FromValue for Ts5mmomde0 {
    fn from_value(v: &Value) -> Self {
        let s = match v { Value::Seq(s) => s, other => panic!("Ts5mmomde0: expected Seq, got {other:?}") };
        assert_eq!(s.len(), 5, "Ts5mmomde0: component count");
        let _ = s;
        Ts5mmomde0 {
            f0: FromValue::from_value(s[0].as_ref().expect("component f0 of Ts5mmomde0 must be present")),
            f1: s[1].as_ref().map(FromValue::from_value),
            f2: s[2].as_ref().map(FromValue::from_value),
            f3: s[3].as_ref().map(FromValue::from_value),
            f4: FromValue::from_value(s[4].as_ref().expect("component f4 of Ts5mmomde0 must be present")),
        }
    }
}
impl ToValue for Ts5mmomde0 {
    fn to_value(&self) -> Value {
        Value::Seq(vec![
            Some(self.f0.to_value()),
            self.f1.as_ref().map(|x| x.to_value()),
            self.f2.as_ref().map(|x| x.to_value()),
            self.f3.as_ref().map(|x| x.to_value()),
            Some(self.f4.to_value()),
        ])
    }
}
impl FromValue for Ts5mmomde1 {
    fn from_value(v: &Value) -> Self {
        let s = match v { Value::Seq(s) => s, other => panic!("Ts5mmomde1: expected Seq, got {other:?}") };
        assert_eq!(s.len(), 5, "Ts5mmomde1: component count");
        let _ = s;
        Ts5mmomde1 {
            f0: FromValue::from_value(s[0].as_ref().expect("component f0 of Ts5mmomde1 must be present")),
            f1: s[1].as_ref().map(FromValue::from_value),
            f2: s[2].as_ref().map(FromValue::from_value),
            f3: s[3].as_ref().map(FromValue::from_value),
            f4: FromValue::from_value(s[4].as_ref().expect("component f4 of Ts5mmomde1 must be present")),
        }
    }
}
impl ToValue for Ts5mmomde1 {
    fn to_value(&self) -> Value {
        Value::Seq(vec![
            Some(self.f0.to_value()),
            self.f1.as_ref().map(|x| x.to_value()),
            self.f2.as_ref().map(|x| x.to_value()),
            self.f3.as_ref().map(|x| x.to_value()),
            Some(self.f4.to_value()),
        ])
    }
}

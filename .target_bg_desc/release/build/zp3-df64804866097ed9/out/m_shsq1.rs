use asn1rs::prelude::*;

#[asn(sequence, extensible_after(f2))]

#[derive(Default, Debug, Clone, PartialEq, Hash)]
pub struct Ts3dooe3 {
    #[asn(default(integer(0..7), 5))] pub f0: u8,
    #[asn(optional(integer(0..7)))] pub f1: Option<u8>,
    #[asn(optional(integer(0..7)))] pub f2: Option<u8>,
}

impl Ts3dooe3 {
    pub const fn f0_min() -> u8 {
        0
    }

    pub const fn f0_max() -> u8 {
        7
    }

    pub const fn f1_min() -> u8 {
        0
    }

    pub const fn f1_max() -> u8 {
        7
    }

    pub const fn f2_min() -> u8 {
        0
    }

    pub const fn f2_max() -> u8 {
        7
    }
}

#[asn(sequence)]

#[derive(Default, Debug, Clone, PartialEq, Hash)]
pub struct Ts3mdon {
    #[asn(integer(0..7))] pub f0: u8,
    #[asn(default(integer(0..7), 5))] pub f1: u8,
    #[asn(optional(integer(0..7)))] pub f2: Option<u8>,
}

impl Ts3mdon {
    pub const fn f0_min() -> u8 {
        0
    }

    pub const fn f0_max() -> u8 {
        7
    }

    pub const fn f1_min() -> u8 {
        0
    }

    pub const fn f1_max() -> u8 {
        7
    }

    pub const fn f2_min() -> u8 {
        0
    }

    pub const fn f2_max() -> u8 {
        7
    }
}

#[asn(sequence, extensible_after(f0))]

#[derive(Default, Debug, Clone, PartialEq, Hash)]
pub struct Ts3mdoe0 {
    #[asn(integer(0..7))] pub f0: u8,
    #[asn(default(integer(0..7), 5))] pub f1: u8,
    #[asn(optional(integer(0..7)))] pub f2: Option<u8>,
}

impl Ts3mdoe0 {
    pub const fn f0_min() -> u8 {
        0
    }

    pub const fn f0_max() -> u8 {
        7
    }

    pub const fn f1_min() -> u8 {
        0
    }

    pub const fn f1_max() -> u8 {
        7
    }

    pub const fn f2_min() -> u8 {
        0
    }

    pub const fn f2_max() -> u8 {
        7
    }
}

#[asn(sequence, extensible_after(f0))]

#[derive(Default, Debug, Clone, PartialEq, Hash)]
pub struct Ts3mdoe1 {
    #[asn(integer(0..7))] pub f0: u8,
    #[asn(default(integer(0..7), 5))] pub f1: u8,
    #[asn(optional(integer(0..7)))] pub f2: Option<u8>,
}

impl Ts3mdoe1 {
    pub const fn f0_min() -> u8 {
        0
    }

    pub const fn f0_max() -> u8 {
        7
    }

    pub const fn f1_min() -> u8 {
        0
    }

    pub const fn f1_max() -> u8 {
        7
    }

    pub const fn f2_min() -> u8 {
        0
    }

    pub const fn f2_max() -> u8 {
        7
    }
}

#[asn(sequence, extensible_after(f1))]

#[derive(Default, Debug, Clone, PartialEq, Hash)]
pub struct Ts3mdoe2 {
    #[asn(integer(0..7))] pub f0: u8,
    #[asn(default(integer(0..7), 5))] pub f1: u8,
    #[asn(optional(integer(0..7)))] pub f2: Option<u8>,
}

impl Ts3mdoe2 {
    pub const fn f0_min() -> u8 {
        0
    }

    pub const fn f0_max() -> u8 {
        7
    }

    pub const fn f1_min() -> u8 {
        0
    }

    pub const fn f1_max() -> u8 {
        7
    }

    pub const fn f2_min() -> u8 {
        0
    }

    pub const fn f2_max() -> u8 {
        7
    }
}

#[asn(sequence, extensible_after(f2))]

#[derive(Default, Debug, Clone, PartialEq, Hash)]
pub struct Ts3mdoe3 {
    #[asn(integer(0..7))] pub f0: u8,
    #[asn(default(integer(0..7), 5))] pub f1: u8,
    #[asn(optional(integer(0..7)))] pub f2: Option<u8>,
}

impl Ts3mdoe3 {
    pub const fn f0_min() -> u8 {
        0
    }

    pub const fn f0_max() -> u8 {
        7
    }

    pub const fn f1_min() -> u8 {
        0
    }

    pub const fn f1_max() -> u8 {
        7
    }

    pub const fn f2_min() -> u8 {
        0
    }

    pub const fn f2_max() -> u8 {
        7
    }
}

#[asn(sequence)]

#[derive(Default, Debug, Clone, PartialEq, Hash)]
pub struct Ts3odon {
    #[asn(optional(integer(0..7)))] pub f0: Option<u8>,
    #[asn(default(integer(0..7), 5))] pub f1: u8,
    #[asn(optional(integer(0..7)))] pub f2: Option<u8>,
}

impl Ts3odon {
    pub const fn f0_min() -> u8 {
        0
    }

    pub const fn f0_max() -> u8 {
        7
    }

    pub const fn f1_min() -> u8 {
        0
    }

    pub const fn f1_max() -> u8 {
        7
    }

    pub const fn f2_min() -> u8 {
        0
    }

    pub const fn f2_max() -> u8 {
        7
    }
}

#[asn(sequence, extensible_after(f0))]

#[derive(Default, Debug, Clone, PartialEq, Hash)]
pub struct Ts3odoe0 {
    #[asn(optional(integer(0..7)))] pub f0: Option<u8>,
    #[asn(default(integer(0..7), 5))] pub f1: u8,
    #[asn(optional(integer(0..7)))] pub f2: Option<u8>,
}

impl Ts3odoe0 {
    pub const fn f0_min() -> u8 {
        0
    }

    pub const fn f0_max() -> u8 {
        7
    }

    pub const fn f1_min() -> u8 {
        0
    }

    pub const fn f1_max() -> u8 {
        7
    }

    pub const fn f2_min() -> u8 {
        0
    }

    pub const fn f2_max() -> u8 {
        7
    }
}

#[asn(sequence, extensible_after(f0))]

#[derive(Default, Debug, Clone, PartialEq, Hash)]
pub struct Ts3odoe1 {
    #[asn(optional(integer(0..7)))] pub f0: Option<u8>,
    #[asn(default(integer(0..7), 5))] pub f1: u8,
    #[asn(optional(integer(0..7)))] pub f2: Option<u8>,
}

impl Ts3odoe1 {
    pub const fn f0_min() -> u8 {
        0
    }

    pub const fn f0_max() -> u8 {
        7
    }

    pub const fn f1_min() -> u8 {
        0
    }

    pub const fn f1_max() -> u8 {
        7
    }

    pub const fn f2_min() -> u8 {
        0
    }

    pub const fn f2_max() -> u8 {
        7
    }
}

#[asn(sequence, extensible_after(f1))]

#[derive(Default, Debug, Clone, PartialEq, Hash)]
pub struct Ts3odoe2 {
    #[asn(optional(integer(0..7)))] pub f0: Option<u8>,
    #[asn(default(integer(0..7), 5))] pub f1: u8,
    #[asn(optional(integer(0..7)))] pub f2: Option<u8>,
}

impl Ts3odoe2 {
    pub const fn f0_min() -> u8 {
        0
    }

    pub const fn f0_max() -> u8 {
        7
    }

    pub const fn f1_min() -> u8 {
        0
    }

    pub const fn f1_max() -> u8 {
        7
    }

    pub const fn f2_min() -> u8 {
        0
    }

    pub const fn f2_max() -> u8 {
        7
    }
}

#[asn(sequence, extensible_after(f2))]

#[derive(Default, Debug, Clone, PartialEq, Hash)]
pub struct Ts3odoe3 {
    #[asn(optional(integer(0..7)))] pub f0: Option<u8>,
    #[asn(default(integer(0..7), 5))] pub f1: u8,
    #[asn(optional(integer(0..7)))] pub f2: Option<u8>,
}

impl Ts3odoe3 {
    pub const fn f0_min() -> u8 {
        0
    }

    pub const fn f0_max() -> u8 {
        7
    }

    pub const fn f1_min() -> u8 {
        0
    }

    pub const fn f1_max() -> u8 {
        7
    }

    pub const fn f2_min() -> u8 {
        0
    }

    pub const fn f2_max() -> u8 {
        7
    }
}

#[asn(sequence)]

#[derive(Default, Debug, Clone, PartialEq, Hash)]
pub struct Ts3ddon {
    #[asn(default(integer(0..7), 5))] pub f0: u8,
    #[asn(default(integer(0..7), 5))] pub f1: u8,
    #[asn(optional(integer(0..7)))] pub f2: Option<u8>,
}

impl Ts3ddon {
    pub const fn f0_min() -> u8 {
        0
    }

    pub const fn f0_max() -> u8 {
        7
    }

    pub const fn f1_min() -> u8 {
        0
    }

    pub const fn f1_max() -> u8 {
        7
    }

    pub const fn f2_min() -> u8 {
        0
    }

    pub const fn f2_max() -> u8 {
        7
    }
}

#[asn(sequence, extensible_after(f0))]

#[derive(Default, Debug, Clone, PartialEq, Hash)]
pub struct Ts3ddoe0 {
    #[asn(default(integer(0..7), 5))] pub f0: u8,
    #[asn(default(integer(0..7), 5))] pub f1: u8,
    #[asn(optional(integer(0..7)))] pub f2: Option<u8>,
}

impl Ts3ddoe0 {
    pub const fn f0_min() -> u8 {
        0
    }

    pub const fn f0_max() -> u8 {
        7
    }

    pub const fn f1_min() -> u8 {
        0
    }

    pub const fn f1_max() -> u8 {
        7
    }

    pub const fn f2_min() -> u8 {
        0
    }

    pub const fn f2_max() -> u8 {
        7
    }
}

#[asn(sequence, extensible_after(f0))]

#[derive(Default, Debug, Clone, PartialEq, Hash)]
pub struct Ts3ddoe1 {
    #[asn(default(integer(0..7), 5))] pub f0: u8,
    #[asn(default(integer(0..7), 5))] pub f1: u8,
    #[asn(optional(integer(0..7)))] pub f2: Option<u8>,
}

impl Ts3ddoe1 {
    pub const fn f0_min() -> u8 {
        0
    }

    pub const fn f0_max() -> u8 {
        7
    }

    pub const fn f1_min() -> u8 {
        0
    }

    pub const fn f1_max() -> u8 {
        7
    }

    pub const fn f2_min() -> u8 {
        0
    }

    pub const fn f2_max() -> u8 {
        7
    }
}

#[asn(sequence, extensible_after(f1))]

#[derive(Default, Debug, Clone, PartialEq, Hash)]
pub struct Ts3ddoe2 {
    #[asn(default(integer(0..7), 5))] pub f0: u8,
    #[asn(default(integer(0..7), 5))] pub f1: u8,
    #[asn(optional(integer(0..7)))] pub f2: Option<u8>,
}

impl Ts3ddoe2 {
    pub const fn f0_min() -> u8 {
        0
    }

    pub const fn f0_max() -> u8 {
        7
    }

    pub const fn f1_min() -> u8 {
        0
    }

    pub const fn f1_max() -> u8 {
        7
    }

    pub const fn f2_min() -> u8 {
        0
    }

    pub const fn f2_max() -> u8 {
        7
    }
}

#[asn(sequence, extensible_after(f2))]

#[derive(Default, Debug, Clone, PartialEq, Hash)]
pub struct Ts3ddoe3 {
    #[asn(default(integer(0..7), 5))] pub f0: u8,
    #[asn(default(integer(0..7), 5))] pub f1: u8,
    #[asn(optional(integer(0..7)))] pub f2: Option<u8>,
}

impl Ts3ddoe3 {
    pub const fn f0_min() -> u8 {
        0
    }

    pub const fn f0_max() -> u8 {
        7
    }

    pub const fn f1_min() -> u8 {
        0
    }

    pub const fn f1_max() -> u8 {
        7
    }

    pub const fn f2_min() -> u8 {
        0
    }

    pub const fn f2_max() -> u8 {
        7
    }
}

#[asn(sequence)]

#[derive(Default, Debug, Clone, PartialEq, Hash)]
pub struct Ts3mmdn {
    #[asn(integer(0..7))] pub f0: u8,
    #[asn(integer(0..7))] pub f1: u8,
    #[asn(default(integer(0..7), 5))] pub f2: u8,
}

impl Ts3mmdn {
    pub const fn f0_min() -> u8 {
        0
    }

    pub const fn f0_max() -> u8 {
        7
    }

    pub const fn f1_min() -> u8 {
        0
    }

    pub const fn f1_max() -> u8 {
        7
    }

    pub const fn f2_min() -> u8 {
        0
    }

    pub const fn f2_max() -> u8 {
        7
    }
}

#[asn(sequence, extensible_after(f0))]

#[derive(Default, Debug, Clone, PartialEq, Hash)]
pub struct Ts3mmde0 {
    #[asn(integer(0..7))] pub f0: u8,
    #[asn(optional(integer(0..7)))] pub f1: Option<u8>,
    #[asn(default(integer(0..7), 5))] pub f2: u8,
}

impl Ts3mmde0 {
    pub const fn f0_min() -> u8 {
        0
    }

    pub const fn f0_max() -> u8 {
        7
    }

    pub const fn f1_min() -> u8 {
        0
    }

    pub const fn f1_max() -> u8 {
        7
    }

    pub const fn f2_min() -> u8 {
        0
    }

    pub const fn f2_max() -> u8 {
        7
    }
}

#[asn(sequence, extensible_after(f0))]

#[derive(Default, Debug, Clone, PartialEq, Hash)]
pub struct Ts3mmde1 {
    #[asn(integer(0..7))] pub f0: u8,
    #[asn(optional(integer(0..7)))] pub f1: Option<u8>,
    #[asn(default(integer(0..7), 5))] pub f2: u8,
}

impl Ts3mmde1 {
    pub const fn f0_min() -> u8 {
        0
    }

    pub const fn f0_max() -> u8 {
        7
    }

    pub const fn f1_min() -> u8 {
        0
    }

    pub const fn f1_max() -> u8 {
        7
    }

    pub const fn f2_min() -> u8 {
        0
    }

    pub const fn f2_max() -> u8 {
        7
    }
}

#[asn(sequence, extensible_after(f1))]

#[derive(Default, Debug, Clone, PartialEq, Hash)]
pub struct Ts3mmde2 {
    #[asn(integer(0..7))] pub f0: u8,
    #[asn(integer(0..7))] pub f1: u8,
    #[asn(default(integer(0..7), 5))] pub f2: u8,
}

impl Ts3mmde2 {
    pub const fn f0_min() -> u8 {
        0
    }

    pub const fn f0_max() -> u8 {
        7
    }

    pub const fn f1_min() -> u8 {
        0
    }

    pub const fn f1_max() -> u8 {
        7
    }

    pub const fn f2_min() -> u8 {
        0
    }

    pub const fn f2_max() -> u8 {
        7
    }
}

#[asn(sequence, extensible_after(f2))]

#[derive(Default, Debug, Clone, PartialEq, Hash)]
pub struct Ts3mmde3 {
    #[asn(integer(0..7))] pub f0: u8,
    #[asn(integer(0..7))] pub f1: u8,
    #[asn(default(integer(0..7), 5))] pub f2: u8,
}

impl Ts3mmde3 {
    pub const fn f0_min() -> u8 {
        0
    }

    pub const fn f0_max() -> u8 {
        7
    }

    pub const fn f1_min() -> u8 {
        0
    }

    pub const fn f1_max() -> u8 {
        7
    }

    pub const fn f2_min() -> u8 {
        0
    }

    pub const fn f2_max() -> u8 {
        7
    }
}

#[asn(sequence)]

#[derive(Default, Debug, Clone, PartialEq, Hash)]
pub struct Ts3omdn {
    #[asn(optional(integer(0..7)))] pub f0: Option<u8>,
    #[asn(integer(0..7))] pub f1: u8,
    #[asn(default(integer(0..7), 5))] pub f2: u8,
}

impl Ts3omdn {
    pub const fn f0_min() -> u8 {
        0
    }

    pub const fn f0_max() -> u8 {
        7
    }

    pub const fn f1_min() -> u8 {
        0
    }

    pub const fn f1_max() -> u8 {
        7
    }

    pub const fn f2_min() -> u8 {
        0
    }

    pub const fn f2_max() -> u8 {
        7
    }
}

#[asn(sequence, extensible_after(f0))]

#[derive(Default, Debug, Clone, PartialEq, Hash)]
pub struct Ts3omde0 {
    #[asn(optional(integer(0..7)))] pub f0: Option<u8>,
    #[asn(optional(integer(0..7)))] pub f1: Option<u8>,
    #[asn(default(integer(0..7), 5))] pub f2: u8,
}

impl Ts3omde0 {
    pub const fn f0_min() -> u8 {
        0
    }

    pub const fn f0_max() -> u8 {
        7
    }

    pub const fn f1_min() -> u8 {
        0
    }

    pub const fn f1_max() -> u8 {
        7
    }

    pub const fn f2_min() -> u8 {
        0
    }

    pub const fn f2_max() -> u8 {
        7
    }
}

#[asn(sequence, extensible_after(f0))]

#[derive(Default, Debug, Clone, PartialEq, Hash)]
pub struct Ts3omde1 {
    #[asn(optional(integer(0..7)))] pub f0: Option<u8>,
    #[asn(optional(integer(0..7)))] pub f1: Option<u8>,
    #[asn(default(integer(0..7), 5))] pub f2: u8,
}

impl Ts3omde1 {
    pub const fn f0_min() -> u8 {
        0
    }

    pub const fn f0_max() -> u8 {
        7
    }

    pub const fn f1_min() -> u8 {
        0
    }

    pub const fn f1_max() -> u8 {
        7
    }

    pub const fn f2_min() -> u8 {
        0
    }

    pub const fn f2_max() -> u8 {
        7
    }
}

#[asn(sequence, extensible_after(f1))]

#[derive(Default, Debug, Clone, PartialEq, Hash)]
pub struct Ts3omde2 {
    #[asn(optional(integer(0..7)))] pub f0: Option<u8>,
    #[asn(integer(0..7))] pub f1: u8,
    #[asn(default(integer(0..7), 5))] pub f2: u8,
}

impl Ts3omde2 {
    pub const fn f0_min() -> u8 {
        0
    }

    pub const fn f0_max() -> u8 {
        7
    }

    pub const fn f1_min() -> u8 {
        0
    }

    pub const fn f1_max() -> u8 {
        7
    }

    pub const fn f2_min() -> u8 {
        0
    }

    pub const fn f2_max() -> u8 {
        7
    }
}

#[asn(sequence, extensible_after(f2))]

#[derive(Default, Debug, Clone, PartialEq, Hash)]
pub struct Ts3omde3 {
    #[asn(optional(integer(0..7)))] pub f0: Option<u8>,
    #[asn(integer(0..7))] pub f1: u8,
    #[asn(default(integer(0..7), 5))] pub f2: u8,
}

impl Ts3omde3 {
    pub const fn f0_min() -> u8 {
        0
    }

    pub const fn f0_max() -> u8 {
        7
    }

    pub const fn f1_min() -> u8 {
        0
    }

    pub const fn f1_max() -> u8 {
        7
    }

    pub const fn f2_min() -> u8 {
        0
    }

    pub const fn f2_max() -> u8 {
        7
    }
}

#[asn(sequence)]

#[derive(Default, Debug, Clone, PartialEq, Hash)]
pub struct Ts3dmdn {
    #[asn(default(integer(0..7), 5))] pub f0: u8,
    #[asn(integer(0..7))] pub f1: u8,
    #[asn(default(integer(0..7), 5))] pub f2: u8,
}

impl Ts3dmdn {
    pub const fn f0_min() -> u8 {
        0
    }

    pub const fn f0_max() -> u8 {
        7
    }

    pub const fn f1_min() -> u8 {
        0
    }

    pub const fn f1_max() -> u8 {
        7
    }

    pub const fn f2_min() -> u8 {
        0
    }

    pub const fn f2_max() -> u8 {
        7
    }
}

#[asn(sequence, extensible_after(f0))]

#[derive(Default, Debug, Clone, PartialEq, Hash)]
pub struct Ts3dmde0 {
    #[asn(default(integer(0..7), 5))] pub f0: u8,
    #[asn(optional(integer(0..7)))] pub f1: Option<u8>,
    #[asn(default(integer(0..7), 5))] pub f2: u8,
}

impl Ts3dmde0 {
    pub const fn f0_min() -> u8 {
        0
    }

    pub const fn f0_max() -> u8 {
        7
    }

    pub const fn f1_min() -> u8 {
        0
    }

    pub const fn f1_max() -> u8 {
        7
    }

    pub const fn f2_min() -> u8 {
        0
    }

    pub const fn f2_max() -> u8 {
        7
    }
}

#[asn(sequence, extensible_after(f0))]

#[derive(Default, Debug, Clone, PartialEq, Hash)]
pub struct Ts3dmde1 {
    #[asn(default(integer(0..7), 5))] pub f0: u8,
    #[asn(optional(integer(0..7)))] pub f1: Option<u8>,
    #[asn(default(integer(0..7), 5))] pub f2: u8,
}

impl Ts3dmde1 {
    pub const fn f0_min() -> u8 {
        0
    }

    pub const fn f0_max() -> u8 {
        7
    }

    pub const fn f1_min() -> u8 {
        0
    }

    pub const fn f1_max() -> u8 {
        7
    }

    pub const fn f2_min() -> u8 {
        0
    }

    pub const fn f2_max() -> u8 {
        7
    }
}

#[asn(sequence, extensible_after(f1))]

#[derive(Default, Debug, Clone, PartialEq, Hash)]
pub struct Ts3dmde2 {
    #[asn(default(integer(0..7), 5))] pub f0: u8,
    #[asn(integer(0..7))] pub f1: u8,
    #[asn(default(integer(0..7), 5))] pub f2: u8,
}

impl Ts3dmde2 {
    pub const fn f0_min() -> u8 {
        0
    }

    pub const fn f0_max() -> u8 {
        7
    }

    pub const fn f1_min() -> u8 {
        0
    }

    pub const fn f1_max() -> u8 {
        7
    }

    pub const fn f2_min() -> u8 {
        0
    }

    pub const fn f2_max() -> u8 {
        7
    }
}

#[asn(sequence, extensible_after(f2))]

#[derive(Default, Debug, Clone, PartialEq, Hash)]
pub struct Ts3dmde3 {
    #[asn(default(integer(0..7), 5))] pub f0: u8,
    #[asn(integer(0..7))] pub f1: u8,
    #[asn(default(integer(0..7), 5))] pub f2: u8,
}

impl Ts3dmde3 {
    pub const fn f0_min() -> u8 {
        0
    }

    pub const fn f0_max() -> u8 {
        7
    }

    pub const fn f1_min() -> u8 {
        0
    }

    pub const fn f1_max() -> u8 {
        7
    }

    pub const fn f2_min() -> u8 {
        0
    }

    pub const fn f2_max() -> u8 {
        7
    }
}

#[asn(sequence)]

#[derive(Default, Debug, Clone, PartialEq, Hash)]
pub struct Ts3modn {
    #[asn(integer(0..7))] pub f0: u8,
    #[asn(optional(integer(0..7)))] pub f1: Option<u8>,
    #[asn(default(integer(0..7), 5))] pub f2: u8,
}

impl Ts3modn {
    pub const fn f0_min() -> u8 {
        0
    }

    pub const fn f0_max() -> u8 {
        7
    }

    pub const fn f1_min() -> u8 {
        0
    }

    pub const fn f1_max() -> u8 {
        7
    }

    pub const fn f2_min() -> u8 {
        0
    }

    pub const fn f2_max() -> u8 {
        7
    }
}

#[asn(sequence, extensible_after(f0))]

#[derive(Default, Debug, Clone, PartialEq, Hash)]
pub struct Ts3mode0 {
    #[asn(integer(0..7))] pub f0: u8,
    #[asn(optional(integer(0..7)))] pub f1: Option<u8>,
    #[asn(default(integer(0..7), 5))] pub f2: u8,
}

impl Ts3mode0 {
    pub const fn f0_min() -> u8 {
        0
    }

    pub const fn f0_max() -> u8 {
        7
    }

    pub const fn f1_min() -> u8 {
        0
    }

    pub const fn f1_max() -> u8 {
        7
    }

    pub const fn f2_min() -> u8 {
        0
    }

    pub const fn f2_max() -> u8 {
        7
    }
}

#[asn(sequence, extensible_after(f0))]

#[derive(Default, Debug, Clone, PartialEq, Hash)]
pub struct Ts3mode1 {
    #[asn(integer(0..7))] pub f0: u8,
    #[asn(optional(integer(0..7)))] pub f1: Option<u8>,
    #[asn(default(integer(0..7), 5))] pub f2: u8,
}

impl Ts3mode1 {
    pub const fn f0_min() -> u8 {
        0
    }

    pub const fn f0_max() -> u8 {
        7
    }

    pub const fn f1_min() -> u8 {
        0
    }

    pub const fn f1_max() -> u8 {
        7
    }

    pub const fn f2_min() -> u8 {
        0
    }

    pub const fn f2_max() -> u8 {
        7
    }
}

#[asn(sequence, extensible_after(f1))]

#[derive(Default, Debug, Clone, PartialEq, Hash)]
pub struct Ts3mode2 {
    #[asn(integer(0..7))] pub f0: u8,
    #[asn(optional(integer(0..7)))] pub f1: Option<u8>,
    #[asn(default(integer(0..7), 5))] pub f2: u8,
}

impl Ts3mode2 {
    pub const fn f0_min() -> u8 {
        0
    }

    pub const fn f0_max() -> u8 {
        7
    }

    pub const fn f1_min() -> u8 {
        0
    }

    pub const fn f1_max() -> u8 {
        7
    }

    pub const fn f2_min() -> u8 {
        0
    }

    pub const fn f2_max() -> u8 {
        7
    }
}

#[asn(sequence, extensible_after(f2))]

#[derive(Default, Debug, Clone, PartialEq, Hash)]
pub struct Ts3mode3 {
    #[asn(integer(0..7))] pub f0: u8,
    #[asn(optional(integer(0..7)))] pub f1: Option<u8>,
    #[asn(default(integer(0..7), 5))] pub f2: u8,
}

impl Ts3mode3 {
    pub const fn f0_min() -> u8 {
        0
    }

    pub const fn f0_max() -> u8 {
        7
    }

    pub const fn f1_min() -> u8 {
        0
    }

    pub const fn f1_max() -> u8 {
        7
    }

    pub const fn f2_min() -> u8 {
        0
    }

    pub const fn f2_max() -> u8 {
        7
    }
}

#[asn(sequence)]

#[derive(Default, Debug, Clone, PartialEq, Hash)]
pub struct Ts3oodn {
    #[asn(optional(integer(0..7)))] pub f0: Option<u8>,
    #[asn(optional(integer(0..7)))] pub f1: Option<u8>,
    #[asn(default(integer(0..7), 5))] pub f2: u8,
}

impl Ts3oodn {
    pub const fn f0_min() -> u8 {
        0
    }

    pub const fn f0_max() -> u8 {
        7
    }

    pub const fn f1_min() -> u8 {
        0
    }

    pub const fn f1_max() -> u8 {
        7
    }

    pub const fn f2_min() -> u8 {
        0
    }

    pub const fn f2_max() -> u8 {
        7
    }
}

#[asn(sequence, extensible_after(f0))]

#[derive(Default, Debug, Clone, PartialEq, Hash)]
pub struct Ts3oode0 {
    #[asn(optional(integer(0..7)))] pub f0: Option<u8>,
    #[asn(optional(integer(0..7)))] pub f1: Option<u8>,
    #[asn(default(integer(0..7), 5))] pub f2: u8,
}

impl Ts3oode0 {
    pub const fn f0_min() -> u8 {
        0
    }

    pub const fn f0_max() -> u8 {
        7
    }

    pub const fn f1_min() -> u8 {
        0
    }

    pub const fn f1_max() -> u8 {
        7
    }

    pub const fn f2_min() -> u8 {
        0
    }

    pub const fn f2_max() -> u8 {
        7
    }
}

#[asn(sequence, extensible_after(f0))]

#[derive(Default, Debug, Clone, PartialEq, Hash)]
pub struct Ts3oode1 {
    #[asn(optional(integer(0..7)))] pub f0: Option<u8>,
    #[asn(optional(integer(0..7)))] pub f1: Option<u8>,
    #[asn(default(integer(0..7), 5))] pub f2: u8,
}

impl Ts3oode1 {
    pub const fn f0_min() -> u8 {
        0
    }

    pub const fn f0_max() -> u8 {
        7
    }

    pub const fn f1_min() -> u8 {
        0
    }

    pub const fn f1_max() -> u8 {
        7
    }

    pub const fn f2_min() -> u8 {
        0
    }

    pub const fn f2_max() -> u8 {
        7
    }
}

#[asn(sequence, extensible_after(f1))]

#[derive(Default, Debug, Clone, PartialEq, Hash)]
pub struct Ts3oode2 {
    #[asn(optional(integer(0..7)))] pub f0: Option<u8>,
    #[asn(optional(integer(0..7)))] pub f1: Option<u8>,
    #[asn(default(integer(0..7), 5))] pub f2: u8,
}

impl Ts3oode2 {
    pub const fn f0_min() -> u8 {
        0
    }

    pub const fn f0_max() -> u8 {
        7
    }

    pub const fn f1_min() -> u8 {
        0
    }

    pub const fn f1_max() -> u8 {
        7
    }

    pub const fn f2_min() -> u8 {
        0
    }

    pub const fn f2_max() -> u8 {
        7
    }
}

#[asn(sequence, extensible_after(f2))]

#[derive(Default, Debug, Clone, PartialEq, Hash)]
pub struct Ts3oode3 {
    #[asn(optional(integer(0..7)))] pub f0: Option<u8>,
    #[asn(optional(integer(0..7)))] pub f1: Option<u8>,
    #[asn(default(integer(0..7), 5))] pub f2: u8,
}

impl Ts3oode3 {
    pub const fn f0_min() -> u8 {
        0
    }

    pub const fn f0_max() -> u8 {
        7
    }

    pub const fn f1_min() -> u8 {
        0
    }

    pub const fn f1_max() -> u8 {
        7
    }

    pub const fn f2_min() -> u8 {
        0
    }

    pub const fn f2_max() -> u8 {
        7
    }
}

#[asn(sequence)]

#[derive(Default, Debug, Clone, PartialEq, Hash)]
pub struct Ts3dodn {
    #[asn(default(integer(0..7), 5))] pub f0: u8,
    #[asn(optional(integer(0..7)))] pub f1: Option<u8>,
    #[asn(default(integer(0..7), 5))] pub f2: u8,
}

impl Ts3dodn {
    pub const fn f0_min() -> u8 {
        0
    }

    pub const fn f0_max() -> u8 {
        7
    }

    pub const fn f1_min() -> u8 {
        0
    }

    pub const fn f1_max() -> u8 {
        7
    }

    pub const fn f2_min() -> u8 {
        0
    }

    pub const fn f2_max() -> u8 {
        7
    }
}

#[asn(sequence, extensible_after(f0))]

#[derive(Default, Debug, Clone, PartialEq, Hash)]
pub struct Ts3dode0 {
    #[asn(default(integer(0..7), 5))] pub f0: u8,
    #[asn(optional(integer(0..7)))] pub f1: Option<u8>,
    #[asn(default(integer(0..7), 5))] pub f2: u8,
}

impl Ts3dode0 {
    pub const fn f0_min() -> u8 {
        0
    }

    pub const fn f0_max() -> u8 {
        7
    }

    pub const fn f1_min() -> u8 {
        0
    }

    pub const fn f1_max() -> u8 {
        7
    }

    pub const fn f2_min() -> u8 {
        0
    }

    pub const fn f2_max() -> u8 {
        7
    }
}

#[asn(sequence, extensible_after(f0))]

#[derive(Default, Debug, Clone, PartialEq, Hash)]
pub struct Ts3dode1 {
    #[asn(default(integer(0..7), 5))] pub f0: u8,
    #[asn(optional(integer(0..7)))] pub f1: Option<u8>,
    #[asn(default(integer(0..7), 5))] pub f2: u8,
}

impl Ts3dode1 {
    pub const fn f0_min() -> u8 {
        0
    }

    pub const fn f0_max() -> u8 {
        7
    }

    pub const fn f1_min() -> u8 {
        0
    }

    pub const fn f1_max() -> u8 {
        7
    }

    pub const fn f2_min() -> u8 {
        0
    }

    pub const fn f2_max() -> u8 {
        7
    }
}

#[asn(sequence, extensible_after(f1))]

#[derive(Default, Debug, Clone, PartialEq, Hash)]
pub struct Ts3dode2 {
    #[asn(default(integer(0..7), 5))] pub f0: u8,
    #[asn(optional(integer(0..7)))] pub f1: Option<u8>,
    #[asn(default(integer(0..7), 5))] pub f2: u8,
}

impl Ts3dode2 {
    pub const fn f0_min() -> u8 {
        0
    }

    pub const fn f0_max() -> u8 {
        7
    }

    pub const fn f1_min() -> u8 {
        0
    }

    pub const fn f1_max() -> u8 {
        7
    }

    pub const fn f2_min() -> u8 {
        0
    }

    pub const fn f2_max() -> u8 {
        7
    }
}

#[asn(sequence, extensible_after(f2))]

#[derive(Default, Debug, Clone, PartialEq, Hash)]
pub struct Ts3dode3 {
    #[asn(default(integer(0..7), 5))] pub f0: u8,
    #[asn(optional(integer(0..7)))] pub f1: Option<u8>,
    #[asn(default(integer(0..7), 5))] pub f2: u8,
}

impl Ts3dode3 {
    pub const fn f0_min() -> u8 {
        0
    }

    pub const fn f0_max() -> u8 {
        7
    }

    pub const fn f1_min() -> u8 {
        0
    }

    pub const fn f1_max() -> u8 {
        7
    }

    pub const fn f2_min() -> u8 {
        0
    }

    pub const fn f2_max() -> u8 {
        7
    }
}

#[asn(sequence)]

#[derive(Default, Debug, Clone, PartialEq, Hash)]
pub struct Ts3mddn {
    #[asn(integer(0..7))] pub f0: u8,
    #[asn(default(integer(0..7), 5))] pub f1: u8,
    #[asn(default(integer(0..7), 5))] pub f2: u8,
}

impl Ts3mddn {
    pub const fn f0_min() -> u8 {
        0
    }

    pub const fn f0_max() -> u8 {
        7
    }

    pub const fn f1_min() -> u8 {
        0
    }

    pub const fn f1_max() -> u8 {
        7
    }

    pub const fn f2_min() -> u8 {
        0
    }

    pub const fn f2_max() -> u8 {
        7
    }
}

#[asn(sequence, extensible_after(f0))]

#[derive(Default, Debug, Clone, PartialEq, Hash)]
pub struct Ts3mdde0 {
    #[asn(integer(0..7))] pub f0: u8,
    #[asn(default(integer(0..7), 5))] pub f1: u8,
    #[asn(default(integer(0..7), 5))] pub f2: u8,
}

impl Ts3mdde0 {
    pub const fn f0_min() -> u8 {
        0
    }

    pub const fn f0_max() -> u8 {
        7
    }

    pub const fn f1_min() -> u8 {
        0
    }

    pub const fn f1_max() -> u8 {
        7
    }

    pub const fn f2_min() -> u8 {
        0
    }

    pub const fn f2_max() -> u8 {
        7
    }
}

#[asn(sequence, extensible_after(f0))]

#[derive(Default, Debug, Clone, PartialEq, Hash)]
pub struct Ts3mdde1 {
    #[asn(integer(0..7))] pub f0: u8,
    #[asn(default(integer(0..7), 5))] pub f1: u8,
    #[asn(default(integer(0..7), 5))] pub f2: u8,
}

impl Ts3mdde1 {
    pub const fn f0_min() -> u8 {
        0
    }

    pub const fn f0_max() -> u8 {
        7
    }

    pub const fn f1_min() -> u8 {
        0
    }

    pub const fn f1_max() -> u8 {
        7
    }

    pub const fn f2_min() -> u8 {
        0
    }

    pub const fn f2_max() -> u8 {
        7
    }
}

#[asn(sequence, extensible_after(f1))]

#[derive(Default, Debug, Clone, PartialEq, Hash)]
pub struct Ts3mdde2 {
    #[asn(integer(0..7))] pub f0: u8,
    #[asn(default(integer(0..7), 5))] pub f1: u8,
    #[asn(default(integer(0..7), 5))] pub f2: u8,
}

impl Ts3mdde2 {
    pub const fn f0_min() -> u8 {
        0
    }

    pub const fn f0_max() -> u8 {
        7
    }

    pub const fn f1_min() -> u8 {
        0
    }

    pub const fn f1_max() -> u8 {
        7
    }

    pub const fn f2_min() -> u8 {
        0
    }

    pub const fn f2_max() -> u8 {
        7
    }
}

#[asn(sequence, extensible_after(f2))]

#[derive(Default, Debug, Clone, PartialEq, Hash)]
pub struct Ts3mdde3 {
    #[asn(integer(0..7))] pub f0: u8,
    #[asn(default(integer(0..7), 5))] pub f1: u8,
    #[asn(default(integer(0..7), 5))] pub f2: u8,
}

impl Ts3mdde3 {
    pub const fn f0_min() -> u8 {
        0
    }

    pub const fn f0_max() -> u8 {
        7
    }

    pub const fn f1_min() -> u8 {
        0
    }

    pub const fn f1_max() -> u8 {
        7
    }

    pub const fn f2_min() -> u8 {
        0
    }

    pub const fn f2_max() -> u8 {
        7
    }
}

#[asn(sequence)]

#[derive(Default, Debug, Clone, PartialEq, Hash)]
pub struct Ts3oddn {
    #[asn(optional(integer(0..7)))] pub f0: Option<u8>,
    #[asn(default(integer(0..7), 5))] pub f1: u8,
    #[asn(default(integer(0..7), 5))] pub f2: u8,
}

impl Ts3oddn {
    pub const fn f0_min() -> u8 {
        0
    }

    pub const fn f0_max() -> u8 {
        7
    }

    pub const fn f1_min() -> u8 {
        0
    }

    pub const fn f1_max() -> u8 {
        7
    }

    pub const fn f2_min() -> u8 {
        0
    }

    pub const fn f2_max() -> u8 {
        7
    }
}

#[asn(sequence, extensible_after(f0))]

#[derive(Default, Debug, Clone, PartialEq, Hash)]
pub struct Ts3odde0 {
    #[asn(optional(integer(0..7)))] pub f0: Option<u8>,
    #[asn(default(integer(0..7), 5))] pub f1: u8,
    #[asn(default(integer(0..7), 5))] pub f2: u8,
}

impl Ts3odde0 {
    pub const fn f0_min() -> u8 {
        0
    }

    pub const fn f0_max() -> u8 {
        7
    }

    pub const fn f1_min() -> u8 {
        0
    }

    pub const fn f1_max() -> u8 {
        7
    }

    pub const fn f2_min() -> u8 {
        0
    }

    pub const fn f2_max() -> u8 {
        7
    }
}

#[asn(sequence, extensible_after(f0))]

#[derive(Default, Debug, Clone, PartialEq, Hash)]
pub struct Ts3odde1 {
    #[asn(optional(integer(0..7)))] pub f0: Option<u8>,
    #[asn(default(integer(0..7), 5))] pub f1: u8,
    #[asn(default(integer(0..7), 5))] pub f2: u8,
}

impl Ts3odde1 {
    pub const fn f0_min() -> u8 {
        0
    }

    pub const fn f0_max() -> u8 {
        7
    }

    pub const fn f1_min() -> u8 {
        0
    }

    pub const fn f1_max() -> u8 {
        7
    }

    pub const fn f2_min() -> u8 {
        0
    }

    pub const fn f2_max() -> u8 {
        7
    }
}

#[asn(sequence, extensible_after(f1))]

#[derive(Default, Debug, Clone, PartialEq, Hash)]
pub struct Ts3odde2 {
    #[asn(optional(integer(0..7)))] pub f0: Option<u8>,
    #[asn(default(integer(0..7), 5))] pub f1: u8,
    #[asn(default(integer(0..7), 5))] pub f2: u8,
}

impl Ts3odde2 {
    pub const fn f0_min() -> u8 {
        0
    }

    pub const fn f0_max() -> u8 {
        7
    }

    pub const fn f1_min() -> u8 {
        0
    }

    pub const fn f1_max() -> u8 {
        7
    }

    pub const fn f2_min() -> u8 {
        0
    }

    pub const fn f2_max() -> u8 {
        7
    }
}

#[asn(sequence, extensible_after(f2))]

#[derive(Default, Debug, Clone, PartialEq, Hash)]
pub struct Ts3odde3 {
    #[asn(optional(integer(0..7)))] pub f0: Option<u8>,
    #[asn(default(integer(0..7), 5))] pub f1: u8,
    #[asn(default(integer(0..7), 5))] pub f2: u8,
}

impl Ts3odde3 {
    pub const fn f0_min() -> u8 {
        0
    }

    pub const fn f0_max() -> u8 {
        7
    }

    pub const fn f1_min() -> u8 {
        0
    }

    pub const fn f1_max() -> u8 {
        7
    }

    pub const fn f2_min() -> u8 {
        0
    }

    pub const fn f2_max() -> u8 {
        7
    }
}

#[asn(sequence)]

#[derive(Default, Debug, Clone, PartialEq, Hash)]
pub struct Ts3dddn {
    #[asn(default(integer(0..7), 5))] pub f0: u8,
    #[asn(default(integer(0..7), 5))] pub f1: u8,
    #[asn(default(integer(0..7), 5))] pub f2: u8,
}

impl Ts3dddn {
    pub const fn f0_min() -> u8 {
        0
    }

    pub const fn f0_max() -> u8 {
        7
    }

    pub const fn f1_min() -> u8 {
        0
    }

    pub const fn f1_max() -> u8 {
        7
    }

    pub const fn f2_min() -> u8 {
        0
    }

    pub const fn f2_max() -> u8 {
        7
    }
}

#[asn(sequence, extensible_after(f0))]

#[derive(Default, Debug, Clone, PartialEq, Hash)]
pub struct Ts3ddde0 {
    #[asn(default(integer(0..7), 5))] pub f0: u8,
    #[asn(default(integer(0..7), 5))] pub f1: u8,
    #[asn(default(integer(0..7), 5))] pub f2: u8,
}

impl Ts3ddde0 {
    pub const fn f0_min() -> u8 {
        0
    }

    pub const fn f0_max() -> u8 {
        7
    }

    pub const fn f1_min() -> u8 {
        0
    }

    pub const fn f1_max() -> u8 {
        7
    }

    pub const fn f2_min() -> u8 {
        0
    }

    pub const fn f2_max() -> u8 {
        7
    }
}

#[asn(sequence, extensible_after(f0))]

#[derive(Default, Debug, Clone, PartialEq, Hash)]
pub struct Ts3ddde1 {
    #[asn(default(integer(0..7), 5))] pub f0: u8,
    #[asn(default(integer(0..7), 5))] pub f1: u8,
    #[asn(default(integer(0..7), 5))] pub f2: u8,
}

impl Ts3ddde1 {
    pub const fn f0_min() -> u8 {
        0
    }

    pub const fn f0_max() -> u8 {
        7
    }

    pub const fn f1_min() -> u8 {
        0
    }

    pub const fn f1_max() -> u8 {
        7
    }

    pub const fn f2_min() -> u8 {
        0
    }

    pub const fn f2_max() -> u8 {
        7
    }
}

#[asn(sequence, extensible_after(f1))]

#[derive(Default, Debug, Clone, PartialEq, Hash)]
pub struct Ts3ddde2 {
    #[asn(default(integer(0..7), 5))] pub f0: u8,
    #[asn(default(integer(0..7), 5))] pub f1: u8,
    #[asn(default(integer(0..7), 5))] pub f2: u8,
}

impl Ts3ddde2 {
    pub const fn f0_min() -> u8 {
        0
    }

    pub const fn f0_max() -> u8 {
        7
    }

    pub const fn f1_min() -> u8 {
        0
    }

    pub const fn f1_max() -> u8 {
        7
    }

    pub const fn f2_min() -> u8 {
        0
    }

    pub const fn f2_max() -> u8 {
        7
    }
}

#[asn(sequence, extensible_after(f2))]

#[derive(Default, Debug, Clone, PartialEq, Hash)]
pub struct Ts3ddde3 {
    #[asn(default(integer(0..7), 5))] pub f0: u8,
    #[asn(default(integer(0..7), 5))] pub f1: u8,
    #[asn(default(integer(0..7), 5))] pub f2: u8,
}

impl Ts3ddde3 {
    pub const fn f0_min() -> u8 {
        0
    }

    pub const fn f0_max() -> u8 {
        7
    }

    pub const fn f1_min() -> u8 {
        0
    }

    pub const fn f1_max() -> u8 {
        7
    }

    pub const fn f2_min() -> u8 {
        0
    }

    pub const fn f2_max() -> u8 {
        7
    }
}
// ---- harness conversions (generated by the zoo build script from the items above) ----
impl FromValue for Ts3dooe3 {
    fn from_value(v: &Value) -> Self {
        let s = match v { Value::Seq(s) => s, other => panic!("Ts3dooe3: expected Seq, got {other:?}") };
        assert_eq!(s.len(), 3, "Ts3dooe3: component count");
        let _ = s;
        Ts3dooe3 {
            f0: FromValue::from_value(s[0].as_ref().expect("component f0 of Ts3dooe3 must be present")),
            f1: s[1].as_ref().map(FromValue::from_value),
            f2: s[2].as_ref().map(FromValue::from_value),
        }
    }
}
impl ToValue for Ts3dooe3 {
    fn to_value(&self) -> Value {
        Value::Seq(vec![
            Some(self.f0.to_value()),
            self.f1.as_ref().map(|x| x.to_value()),
            self.f2.as_ref().map(|x| x.to_value()),
        ])
    }
}
impl FromValue for Ts3mdon {
    fn from_value(v: &Value) -> Self {
        let s = match v { Value::Seq(s) => s, other => panic!("Ts3mdon: expected Seq, got {other:?}") };
        assert_eq!(s.len(), 3, "Ts3mdon: component count");
        let _ = s;
        Ts3mdon {
            f0: FromValue::from_value(s[0].as_ref().expect("component f0 of Ts3mdon must be present")),
            f1: FromValue::from_value(s[1].as_ref().expect("component f1 of Ts3mdon must be present")),
            f2: s[2].as_ref().map(FromValue::from_value),
        }
    }
}
impl ToValue for Ts3mdon {
    fn to_value(&self) -> Value {
        Value::Seq(vec![
            Some(self.f0.to_value()),
            Some(self.f1.to_value()),
            self.f2.as_ref().map(|x| x.to_value()),
        ])
    }
}
impl FromValue for Ts3mdoe0 {
    fn from_value(v: &Value) -> Self {
        let s = match v { Value::Seq(s) => s, other => panic!("Ts3mdoe0: expected Seq, got {other:?}") };
        assert_eq!(s.len(), 3, "Ts3mdoe0: component count");
        let _ = s;
        Ts3mdoe0 {
            f0: FromValue::from_value(s[0].as_ref().expect("component f0 of Ts3mdoe0 must be present")),
            f1: FromValue::from_value(s[1].as_ref().expect("component f1 of Ts3mdoe0 must be present")),
            f2: s[2].as_ref().map(FromValue::from_value),
        }
    }
}
impl ToValue for Ts3mdoe0 {
    fn to_value(&self) -> Value {
        Value::Seq(vec![
            Some(self.f0.to_value()),
            Some(self.f1.to_value()),
            self.f2.as_ref().map(|x| x.to_value()),
        ])
    }
}
impl FromValue for Ts3mdoe1 {
    fn from_value(v: &Value) -> Self {
        let s = match v { Value::Seq(s) => s, other => panic!("Ts3mdoe1: expected Seq, got {other:?}") };
        assert_eq!(s.len(), 3, "Ts3mdoe1: component count");
        let _ = s;
        Ts3mdoe1 {
            f0: FromValue::from_value(s[0].as_ref().expect("component f0 of Ts3mdoe1 must be present")),
            f1: FromValue::from_value(s[1].as_ref().expect("component f1 of Ts3mdoe1 must be present")),
            f2: s[2].as_ref().map(FromValue::from_value),
        }
    }
}
impl ToValue for Ts3mdoe1 {
    fn to_value(&self) -> Value {
        Value::Seq(vec![
            Some(self.f0.to_value()),
            Some(self.f1.to_value()),
            self.f2.as_ref().map(|x| x.to_value()),
        ])
    }
}
impl FromValue for Ts3mdoe2 {
    fn from_value(v: &Value) -> Self {
        let s = match v { Value::Seq(s) => s, other => panic!("Ts3mdoe2: expected Seq, got {other:?}") };
        assert_eq!(s.len(), 3, "Ts3mdoe2: component count");
        let _ = s;
        Ts3mdoe2 {
            f0: FromValue::from_value(s[0].as_ref().expect("component f0 of Ts3mdoe2 must be present")),
            f1: FromValue::from_value(s[1].as_ref().expect("component f1 of Ts3mdoe2 must be present")),
            f2: s[2].as_ref().map(FromValue::from_value),
        }
    }
}
impl ToValue for Ts3mdoe2 {
    fn to_value(&self) -> Value {
        Value::Seq(vec![
            Some(self.f0.to_value()),
            Some(self.f1.to_value()),
            self.f2.as_ref().map(|x| x.to_value()),
        ])
    }
}
impl FromValue for Ts3mdoe3 {
    fn from_value(v: &Value) -> Self {
        let s = match v { Value::Seq(s) => s, other => panic!("Ts3mdoe3: expected Seq, got {other:?}") };
        assert_eq!(s.len(), 3, "Ts3mdoe3: component count");
        let _ = s;
        Ts3mdoe3 {
            f0: FromValue::from_value(s[0].as_ref().expect("component f0 of Ts3mdoe3 must be present")),
            f1: FromValue::from_value(s[1].as_ref().expect("component f1 of Ts3mdoe3 must be present")),
            f2: s[2].as_ref().map(FromValue::from_value),
        }
    }
}
impl ToValue for Ts3mdoe3 {
    fn to_value(&self) -> Value {
        Value::Seq(vec![
            Some(self.f0.to_value()),
            Some(self.f1.to_value()),
            self.f2.as_ref().map(|x| x.to_value()),
        ])
    }
}
impl FromValue for Ts3odon {
    fn from_value(v: &Value) -> Self {
        let s = match v { Value::Seq(s) => s, other => panic!("Ts3odon: expected Seq, got {other:?}") };
        assert_eq!(s.len(), 3, "Ts3odon: component count");
        let _ = s;
        Ts3odon {
            f0: s[0].as_ref().map(FromValue::from_value),
            f1: FromValue::from_value(s[1].as_ref().expect("component f1 of Ts3odon must be present")),
            f2: s[2].as_ref().map(FromValue::from_value),
        }
    }
}
impl ToValue for Ts3odon {
    fn to_value(&self) -> Value {
        Value::Seq(vec![
            self.f0.as_ref().map(|x| x.to_value()),
            Some(self.f1.to_value()),
            self.f2.as_ref().map(|x| x.to_value()),
        ])
    }
}
impl FromValue for Ts3odoe0 {
    fn from_value(v: &Value) -> Self {
        let s = match v { Value::Seq(s) => s, other => panic!("Ts3odoe0: expected Seq, got {other:?}") };
        assert_eq!(s.len(), 3, "Ts3odoe0: component count");
        let _ = s;
        Ts3odoe0 {
            f0: s[0].as_ref().map(FromValue::from_value),
            f1: FromValue::from_value(s[1].as_ref().expect("component f1 of Ts3odoe0 must be present")),
            f2: s[2].as_ref().map(FromValue::from_value),
        }
    }
}
impl ToValue for Ts3odoe0 {
    fn to_value(&self) -> Value {
        Value::Seq(vec![
            self.f0.as_ref().map(|x| x.to_value()),
            Some(self.f1.to_value()),
            self.f2.as_ref().map(|x| x.to_value()),
        ])
    }
}
impl FromValue for Ts3odoe1 {
    fn from_value(v: &Value) -> Self {
        let s = match v { Value::Seq(s) => s, other => panic!("Ts3odoe1: expected Seq, got {other:?}") };
        assert_eq!(s.len(), 3, "Ts3odoe1: component count");
        let _ = s;
        Ts3odoe1 {
            f0: s[0].as_ref().map(FromValue::from_value),
            f1: FromValue::from_value(s[1].as_ref().expect("component f1 of Ts3odoe1 must be present")),
            f2: s[2].as_ref().map(FromValue::from_value),
        }
    }
}
impl ToValue for Ts3odoe1 {
    fn to_value(&self) -> Value {
        Value::Seq(vec![
            self.f0.as_ref().map(|x| x.to_value()),
            Some(self.f1.to_value()),
            self.f2.as_ref().map(|x| x.to_value()),
        ])
    }
}
impl FromValue for Ts3odoe2 {
    fn from_value(v: &Value) -> Self {
        let s = match v { Value::Seq(s) => s, other => panic!("Ts3odoe2: expected Seq, got {other:?}") };
        assert_eq!(s.len(), 3, "Ts3odoe2: component count");
        let _ = s;
        Ts3odoe2 {
            f0: s[0].as_ref().map(FromValue::from_value),
            f1: FromValue::from_value(s[1].as_ref().expect("component f1 of Ts3odoe2 must be present")),
            f2: s[2].as_ref().map(FromValue::from_value),
        }
    }
}
impl ToValue for Ts3odoe2 {
    fn to_value(&self) -> Value {
        Value::Seq(vec![
            self.f0.as_ref().map(|x| x.to_value()),
            Some(self.f1.to_value()),
            self.f2.as_ref().map(|x| x.to_value()),
        ])
    }
}
impl FromValue for Ts3odoe3 {
    fn from_value(v: &Value) -> Self {
        let s = match v { Value::Seq(s) => s, other => panic!("Ts3odoe3: expected Seq, got {other:?}") };
        assert_eq!(s.len(), 3, "Ts3odoe3: component count");
        let _ = s;
        Ts3odoe3 {
            f0: s[0].as_ref().map(FromValue::from_value),
            f1: FromValue::from_value(s[1].as_ref().expect("component f1 of Ts3odoe3 must be present")),
            f2: s[2].as_ref().map(FromValue::from_value),
        }
    }
}
impl ToValue for Ts3odoe3 {
    fn to_value(&self) -> Value {
        Value::Seq(vec![
            self.f0.as_ref().map(|x| x.to_value()),
            Some(self.f1.to_value()),
            self.f2.as_ref().map(|x| x.to_value()),
        ])
    }
}
impl FromValue for Ts3ddon {
    fn from_value(v: &Value) -> Self {
        let s = match v { Value::Seq(s) => s, other => panic!("Ts3ddon: expected Seq, got {other:?}") };
        assert_eq!(s.len(), 3, "Ts3ddon: component count");
        let _ = s;
        Ts3ddon {
            f0: FromValue::from_value(s[0].as_ref().expect("component f0 of Ts3ddon must be present")),
            f1: FromValue::from_value(s[1].as_ref().expect("component f1 of Ts3ddon must be present")),
            f2: s[2].as_ref().map(FromValue::from_value),
        }
    }
}
impl ToValue for Ts3ddon {
    fn to_value(&self) -> Value {
        Value::Seq(vec![
            Some(self.f0.to_value()),
            Some(self.f1.to_value()),
            self.f2.as_ref().map(|x| x.to_value()),
        ])
    }
}
impl FromValue for Ts3ddoe0 {
    fn from_value(v: &Value) -> Self {
        let s = match v { Value::Seq(s) => s, other => panic!("Ts3ddoe0: expected Seq, got {other:?}") };
        assert_eq!(s.len(), 3, "Ts3ddoe0: component count");
        let _ = s;
        Ts3ddoe0 {
            f0: FromValue::from_value(s[0].as_ref().expect("component f0 of Ts3ddoe0 must be present")),
            f1: FromValue::from_value(s[1].as_ref().expect("component f1 of Ts3ddoe0 must be present")),
            f2: s[2].as_ref().map(FromValue::from_value),
        }
    }
}
impl ToValue for Ts3ddoe0 {
    fn to_value(&self) -> Value {
        Value::Seq(vec![
            Some(self.f0.to_value()),
            Some(self.f1.to_value()),
            self.f2.as_ref().map(|x| x.to_value()),
        ])
    }
}
impl FromValue for Ts3ddoe1 {
    fn from_value(v: &Value) -> Self {
        let s = match v { Value::Seq(s) => s, other => panic!("Ts3ddoe1: expected Seq, got {other:?}") };
        assert_eq!(s.len(), 3, "Ts3ddoe1: component count");
        let _ = s;
        Ts3ddoe1 {
            f0: FromValue::from_value(s[0].as_ref().expect("component f0 of Ts3ddoe1 must be present")),
            f1: FromValue::from_value(s[1].as_ref().expect("component f1 of Ts3ddoe1 must be present")),
            f2: s[2].as_ref().map(FromValue::from_value),
        }
    }
}
impl ToValue for Ts3ddoe1 {
    fn to_value(&self) -> Value {
        Value::Seq(vec![
            Some(self.f0.to_value()),
            Some(self.f1.to_value()),
            self.f2.as_ref().map(|x| x.to_value()),
        ])
    }
}
impl FromValue for Ts3ddoe2 {
    fn from_value(v: &Value) -> Self {
        let s = match v { Value::Seq(s) => s, other => panic!("Ts3ddoe2: expected Seq, got {other:?}") };
        assert_eq!(s.len(), 3, "Ts3ddoe2: component count");
        let _ = s;
        Ts3ddoe2 {
            f0: FromValue::from_value(s[0].as_ref().expect("component f0 of Ts3ddoe2 must be present")),
            f1: FromValue::from_value(s[1].as_ref().expect("component f1 of Ts3ddoe2 must be present")),
            f2: s[2].as_ref().map(FromValue::from_value),
        }
    }
}
impl ToValue for Ts3ddoe2 {
    fn to_value(&self) -> Value {
        Value::Seq(vec![
            Some(self.f0.to_value()),
            Some(self.f1.to_value()),
            self.f2.as_ref().map(|x| x.to_value()),
        ])
    }
}
impl FromValue for Ts3ddoe3 {
    fn from_value(v: &Value) -> Self {
        let s = match v { Value::Seq(s) => s, other => panic!("Ts3ddoe3: expected Seq, got {other:?}") };
        assert_eq!(s.len(), 3, "Ts3ddoe3: component count");
        let _ = s;
        Ts3ddoe3 {
            f0: FromValue::from_value(s[0].as_ref().expect("component f0 of Ts3ddoe3 must be present")),
            f1: FromValue::from_value(s[1].as_ref().expect("component f1 of Ts3ddoe3 must be present")),
            f2: s[2].as_ref().map(FromValue::from_value),
        }
    }
}
impl ToValue for Ts3ddoe3 {
    fn to_value(&self) -> Value {
        Value::Seq(vec![
            Some(self.f0.to_value()),
            Some(self.f1.to_value()),
            self.f2.as_ref().map(|x| x.to_value()),
        ])
    }
}
impl FromValue for Ts3mmdn {
    fn from_value(v: &Value) -> Self {
        let s = match v { Value::Seq(s) => s, other => panic!("Ts3mmdn: expected Seq, got {other:?}") };
        assert_eq!(s.len(), 3, "Ts3mmdn: component count");
        let _ = s;
        Ts3mmdn {
            f0: FromValue::from_value(s[0].as_ref().expect("component f0 of Ts3mmdn must be present")),
            f1: FromValue::from_value(s[1].as_ref().expect("component f1 of Ts3mmdn must be present")),
            f2: FromValue::from_value(s[2].as_ref().expect("component f2 of Ts3mmdn must be present")),
        }
    }
}
impl ToValue for Ts3mmdn {
    fn to_value(&self) -> Value {
        Value::Seq(vec![
            Some(self.f0.to_value()),
            Some(self.f1.to_value()),
            Some(self.f2.to_value()),
        ])
    }
}
impl FromValue for Ts3mmde0 {
    fn from_value(v: &Value) -> Self {
        let s = match v { Value::Seq(s) => s, other => panic!("Ts3mmde0: expected Seq, got {other:?}") };
        assert_eq!(s.len(), 3, "Ts3mmde0: component count");
        let _ = s;
        Ts3mmde0 {
            f0: FromValue::from_value(s[0].as_ref().expect("component f0 of Ts3mmde0 must be present")),
            f1: s[1].as_ref().map(FromValue::from_value),
            f2: FromValue::from_value(s[2].as_ref().expect("component f2 of Ts3mmde0 must be present")),
        }
    }
}
impl ToValue for Ts3mmde0 {
    fn to_value(&self) -> Value {
        Value::Seq(vec![
            Some(self.f0.to_value()),
            self.f1.as_ref().map(|x| x.to_value()),
            Some(self.f2.to_value()),
        ])
    }
}
impl FromValue for Ts3mmde1 {
    fn from_value(v: &Value) -> Self {
        let s = match v { Value::Seq(s) => s, other => panic!("Ts3mmde1: expected Seq, got {other:?}") };
        assert_eq!(s.len(), 3, "Ts3mmde1: component count");
        let _ = s;
        Ts3mmde1 {
            f0: FromValue::from_value(s[0].as_ref().expect("component f0 of Ts3mmde1 must be present")),
            f1: s[1].as_ref().map(FromValue::from_value),
            f2: FromValue::from_value(s[2].as_ref().expect("component f2 of Ts3mmde1 must be present")),
        }
    }
}
impl ToValue for Ts3mmde1 {
    fn to_value(&self) -> Value {
        Value::Seq(vec![
            Some(self.f0.to_value()),
            self.f1.as_ref().map(|x| x.to_value()),
            Some(self.f2.to_value()),
        ])
    }
}
impl FromValue for Ts3mmde2 {
    fn from_value(v: &Value) -> Self {
        let s = match v { Value::Seq(s) => s, other => panic!("Ts3mmde2: expected Seq, got {other:?}") };
        assert_eq!(s.len(), 3, "Ts3mmde2: component count");
        let _ = s;
        Ts3mmde2 {
            f0: FromValue::from_value(s[0].as_ref().expect("component f0 of Ts3mmde2 must be present")),
            f1: FromValue::from_value(s[1].as_ref().expect("component f1 of Ts3mmde2 must be present")),
            f2: FromValue::from_value(s[2].as_ref().expect("component f2 of Ts3mmde2 must be present")),
        }
    }
}
impl ToValue for Ts3mmde2 {
    fn to_value(&self) -> Value {
        Value::Seq(vec![
            Some(self.f0.to_value()),
            Some(self.f1.to_value()),
            Some(self.f2.to_value()),
        ])
    }
}
impl FromValue for Ts3mmde3 {
    fn from_value(v: &Value) -> Self {
        let s = match v { Value::Seq(s) => s, other => panic!("Ts3mmde3: expected Seq, got {other:?}") };
        assert_eq!(s.len(), 3, "Ts3mmde3: component count");
        let _ = s;
        Ts3mmde3 {
            f0: FromValue::from_value(s[0].as_ref().expect("component f0 of Ts3mmde3 must be present")),
            f1: FromValue::from_value(s[1].as_ref().expect("component f1 of Ts3mmde3 must be present")),
            f2: FromValue::from_value(s[2].as_ref().expect("component f2 of Ts3mmde3 must be present")),
        }
    }
}
impl ToValue for Ts3mmde3 {
    fn to_value(&self) -> Value {
        Value::Seq(vec![
            Some(self.f0.to_value()),
            Some(self.f1.to_value()),
            Some(self.f2.to_value()),
        ])
    }
}
impl FromValue for Ts3omdn {
    fn from_value(v: &Value) -> Self {
        let s = match v { Value::Seq(s) => s, other => panic!("Ts3omdn: expected Seq, got {other:?}") };
        assert_eq!(s.len(), 3, "Ts3omdn: component count");
        let _ = s;
        Ts3omdn {
            f0: s[0].as_ref().map(FromValue::from_value),
            f1: FromValue::from_value(s[1].as_ref().expect("component f1 of Ts3omdn must be present")),
            f2: FromValue::from_value(s[2].as_ref().expect("component f2 of Ts3omdn must be present")),
        }
    }
}
impl ToValue for Ts3omdn {
    fn to_value(&self) -> Value {
        Value::Seq(vec![
            self.f0.as_ref().map(|x| x.to_value()),
            Some(self.f1.to_value()),
            Some(self.f2.to_value()),
        ])
    }
}
impl FromValue for Ts3omde0 {
    fn from_value(v: &Value) -> Self {
        let s = match v { Value::Seq(s) => s, other => panic!("Ts3omde0: expected Seq, got {other:?}") };
        assert_eq!(s.len(), 3, "Ts3omde0: component count");
        let _ = s;
        Ts3omde0 {
            f0: s[0].as_ref().map(FromValue::from_value),
            f1: s[1].as_ref().map(FromValue::from_value),
            f2: FromValue::from_value(s[2].as_ref().expect("component f2 of Ts3omde0 must be present")),
        }
    }
}
impl ToValue for Ts3omde0 {
    fn to_value(&self) -> Value {
        Value::Seq(vec![
            self.f0.as_ref().map(|x| x.to_value()),
            self.f1.as_ref().map(|x| x.to_value()),
            Some(self.f2.to_value()),
        ])
    }
}
impl FromValue for Ts3omde1 {
    fn from_value(v: &Value) -> Self {
        let s = match v { Value::Seq(s) => s, other => panic!("Ts3omde1: expected Seq, got {other:?}") };
        assert_eq!(s.len(), 3, "Ts3omde1: component count");
        let _ = s;
        Ts3omde1 {
            f0: s[0].as_ref().map(FromValue::from_value),
            f1: s[1].as_ref().map(FromValue::from_value),
            f2: FromValue::from_value(s[2].as_ref().expect("component f2 of Ts3omde1 must be present")),
        }
    }
}
impl ToValue for Ts3omde1 {
    fn to_value(&self) -> Value {
        Value::Seq(vec![
            self.f0.as_ref().map(|x| x.to_value()),
            self.f1.as_ref().map(|x| x.to_value()),
            Some(self.f2.to_value()),
        ])
    }
}
impl FromValue for Ts3omde2 {
    fn from_value(v: &Value) -> Self {
        let s = match v { Value::Seq(s) => s, other => panic!("Ts3omde2: expected Seq, got {other:?}") };
        assert_eq!(s.len(), 3, "Ts3omde2: component count");
        let _ = s;
        Ts3omde2 {
            f0: s[0].as_ref().map(FromValue::from_value),
            f1: FromValue::from_value(s[1].as_ref().expect("component f1 of Ts3omde2 must be present")),
            f2: FromValue::from_value(s[2].as_ref().expect("component f2 of Ts3omde2 must be present")),
        }
    }
}
impl ToValue for Ts3omde2 {
    fn to_value(&self) -> Value {
        Value::Seq(vec![
            self.f0.as_ref().map(|x| x.to_value()),
            Some(self.f1.to_value()),
            Some(self.f2.to_value()),
        ])
    }
}
impl FromValue for Ts3omde3 {
    fn from_value(v: &Value) -> Self {
        let s = match v { Value::Seq(s) => s, other => panic!("Ts3omde3: expected Seq, got {other:?}") };
        assert_eq!(s.len(), 3, "Ts3omde3: component count");
        let _ = s;
        Ts3omde3 {
            f0: s[0].as_ref().map(FromValue::from_value),
            f1: FromValue::from_value(s[1].as_ref().expect("component f1 of Ts3omde3 must be present")),
            f2: FromValue::from_value(s[2].as_ref().expect("component f2 of Ts3omde3 must be present")),
        }
    }
}
impl ToValue for Ts3omde3 {
    fn to_value(&self) -> Value {
        Value::Seq(vec![
            self.f0.as_ref().map(|x| x.to_value()),
            Some(self.f1.to_value()),
            Some(self.f2.to_value()),
        ])
    }
}
impl FromValue for Ts3dmdn {
    fn from_value(v: &Value) -> Self {
        let s = match v { Value::Seq(s) => s, other => panic!("Ts3dmdn: expected Seq, got {other:?}") };
        assert_eq!(s.len(), 3, "Ts3dmdn: component count");
        let _ = s;
        Ts3dmdn {
            f0: FromValue::from_value(s[0].as_ref().expect("component f0 of Ts3dmdn must be present")),
            f1: FromValue::from_value(s[1].as_ref().expect("component f1 of Ts3dmdn must be present")),
            f2: FromValue::from_value(s[2].as_ref().expect("component f2 of Ts3dmdn must be present")),
        }
    }
}
impl ToValue for Ts3dmdn {
    fn to_value(&self) -> Value {
        Value::Seq(vec![
            Some(self.f0.to_value()),
            Some(self.f1.to_value()),
            Some(self.f2.to_value()),
        ])
    }
}
impl FromValue for Ts3dmde0 {
    fn from_value(v: &Value) -> Self {
        let s = match v { Value::Seq(s) => s, other => panic!("Ts3dmde0: expected Seq, got {other:?}") };
        assert_eq!(s.len(), 3, "Ts3dmde0: component count");
        let _ = s;
        Ts3dmde0 {
            f0: FromValue::from_value(s[0].as_ref().expect("component f0 of Ts3dmde0 must be present")),
            f1: s[1].as_ref().map(FromValue::from_value),
            f2: FromValue::from_value(s[2].as_ref().expect("component f2 of Ts3dmde0 must be present")),
        }
    }
}
impl ToValue for Ts3dmde0 {
    fn to_value(&self) -> Value {
        Value::Seq(vec![
            Some(self.f0.to_value()),
            self.f1.as_ref().map(|x| x.to_value()),
            Some(self.f2.to_value()),
        ])
    }
}
impl FromValue for Ts3dmde1 {
    fn from_value(v: &Value) -> Self {
        let s = match v { Value::Seq(s) => s, other => panic!("Ts3dmde1: expected Seq, got {other:?}") };
        assert_eq!(s.len(), 3, "Ts3dmde1: component count");
        let _ = s;
        Ts3dmde1 {
            f0: FromValue::from_value(s[0].as_ref().expect("component f0 of Ts3dmde1 must be present")),
            f1: s[1].as_ref().map(FromValue::from_value),
            f2: FromValue::from_value(s[2].as_ref().expect("component f2 of Ts3dmde1 must be present")),
        }
    }
}
impl ToValue for Ts3dmde1 {
    fn to_value(&self) -> Value {
        Value::Seq(vec![
            Some(self.f0.to_value()),
            self.f1.as_ref().map(|x| x.to_value()),
            Some(self.f2.to_value()),
        ])
    }
}
impl FromValue for Ts3dmde2 {
    fn from_value(v: &Value) -> Self {
        let s = match v { Value::Seq(s) => s, other => panic!("Ts3dmde2: expected Seq, got {other:?}") };
        assert_eq!(s.len(), 3, "Ts3dmde2: component count");
        let _ = s;
        Ts3dmde2 {
            f0: FromValue::from_value(s[0].as_ref().expect("component f0 of Ts3dmde2 must be present")),
            f1: FromValue::from_value(s[1].as_ref().expect("component f1 of Ts3dmde2 must be present")),
            f2: FromValue::from_value(s[2].as_ref().expect("component f2 of Ts3dmde2 must be present")),
        }
    }
}
impl ToValue for Ts3dmde2 {
    fn to_value(&self) -> Value {
        Value::Seq(vec![
            Some(self.f0.to_value()),
            Some(self.f1.to_value()),
            Some(self.f2.to_value()),
        ])
    }
}
impl FromValue for Ts3dmde3 {
    fn from_value(v: &Value) -> Self {
        let s = match v { Value::Seq(s) => s, other => panic!("Ts3dmde3: expected Seq, got {other:?}") };
        assert_eq!(s.len(), 3, "Ts3dmde3: component count");
        let _ = s;
        Ts3dmde3 {
            f0: FromValue::from_value(s[0].as_ref().expect("component f0 of Ts3dmde3 must be present")),
            f1: FromValue::from_value(s[1].as_ref().expect("component f1 of Ts3dmde3 must be present")),
            f2: FromValue::from_value(s[2].as_ref().expect("component f2 of Ts3dmde3 must be present")),
        }
    }
}
impl ToValue for Ts3dmde3 {
    fn to_value(&self) -> Value {
        Value::Seq(vec![
            Some(self.f0.to_value()),
            Some(self.f1.to_value()),
            Some(self.f2.to_value()),
        ])
    }
}
impl FromValue for Ts3modn {
    fn from_value(v: &Value) -> Self {
        let s = match v { Value::Seq(s) => s, other => panic!("Ts3modn: expected Seq, got {other:?}") };
        assert_eq!(s.len(), 3, "Ts3modn: component count");
        let _ = s;
        Ts3modn {
            f0: FromValue::from_value(s[0].as_ref().expect("component f0 of Ts3modn must be present")),
            f1: s[1].as_ref().map(FromValue::from_value),
            f2: FromValue::from_value(s[2].as_ref().expect("component f2 of Ts3modn must be present")),
        }
    }
}
impl ToValue for Ts3modn {
    fn to_value(&self) -> Value {
        Value::Seq(vec![
            Some(self.f0.to_value()),
            self.f1.as_ref().map(|x| x.to_value()),
            Some(self.f2.to_value()),
        ])
    }
}
impl FromValue for Ts3mode0 {
    fn from_value(v: &Value) -> Self {
        let s = match v { Value::Seq(s) => s, other => panic!("Ts3mode0: expected Seq, got {other:?}") };
        assert_eq!(s.len(), 3, "Ts3mode0: component count");
        let _ = s;
        Ts3mode0 {
            f0: FromValue::from_value(s[0].as_ref().expect("component f0 of Ts3mode0 must be present")),
            f1: s[1].as_ref().map(FromValue::from_value),
            f2: FromValue::from_value(s[2].as_ref().expect("component f2 of Ts3mode0 must be present")),
        }
    }
}
impl ToValue for Ts3mode0 {
    fn to_value(&self) -> Value {
        Value::Seq(vec![
            Some(self.f0.to_value()),
            self.f1.as_ref().map(|x| x.to_value()),
            Some(self.f2.to_value()),
        ])
    }
}
impl FromValue for Ts3mode1 {
    fn from_value(v: &Value) -> Self {
        let s = match v { Value::Seq(s) => s, other => panic!("Ts3mode1: expected Seq, got {other:?}") };
        assert_eq!(s.len(), 3, "Ts3mode1: component count");
        let _ = s;
        Ts3mode1 {
            f0: FromValue::from_value(s[0].as_ref().expect("component f0 of Ts3mode1 must be present")),
            f1: s[1].as_ref().map(FromValue::from_value),
            f2: FromValue::from_value(s[2].as_ref().expect("component f2 of Ts3mode1 must be present")),
        }
    }
}
impl ToValue for Ts3mode1 {
    fn to_value(&self) -> Value {
        Value::Seq(vec![
            Some(self.f0.to_value()),
            self.f1.as_ref().map(|x| x.to_value()),
            Some(self.f2.to_value()),
        ])
    }
}
impl FromValue for Ts3mode2 {
    fn from_value(v: &Value) -> Self {
        let s = match v { Value::Seq(s) => s, other => panic!("Ts3mode2: expected Seq, got {other:?}") };
        assert_eq!(s.len(), 3, "Ts3mode2: component count");
        let _ = s;
        Ts3mode2 {
            f0: FromValue::from_value(s[0].as_ref().expect("component f0 of Ts3mode2 must be present")),
            f1: s[1].as_ref().map(FromValue::from_value),
            f2: FromValue::from_value(s[2].as_ref().expect("component f2 of Ts3mode2 must be present")),
        }
    }
}
impl ToValue for Ts3mode2 {
    fn to_value(&self) -> Value {
        Value::Seq(vec![
            Some(self.f0.to_value()),
            self.f1.as_ref().map(|x| x.to_value()),
            Some(self.f2.to_value()),
        ])
    }
}
impl FromValue for Ts3mode3 {
    fn from_value(v: &Value) -> Self {
        let s = match v { Value::Seq(s) => s, other => panic!("Ts3mode3: expected Seq, got {other:?}") };
        assert_eq!(s.len(), 3, "Ts3mode3: component count");
        let _ = s;
        Ts3mode3 {
            f0: FromValue::from_value(s[0].as_ref().expect("component f0 of Ts3mode3 must be present")),
            f1: s[1].as_ref().map(FromValue::from_value),
            f2: FromValue::from_value(s[2].as_ref().expect("component f2 of Ts3mode3 must be present")),
        }
    }
}
impl ToValue for Ts3mode3 {
    fn to_value(&self) -> Value {
        Value::Seq(vec![
            Some(self.f0.to_value()),
            self.f1.as_ref().map(|x| x.to_value()),
            Some(self.f2.to_value()),
        ])
    }
}
impl FromValue for Ts3oodn {
    fn from_value(v: &Value) -> Self {
        let s = match v { Value::Seq(s) => s, other => panic!("Ts3oodn: expected Seq, got {other:?}") };
        assert_eq!(s.len(), 3, "Ts3oodn: component count");
        let _ = s;
        Ts3oodn {
            f0: s[0].as_ref().map(FromValue::from_value),
            f1: s[1].as_ref().map(FromValue::from_value),
            f2: FromValue::from_value(s[2].as_ref().expect("component f2 of Ts3oodn must be present")),
        }
    }
}
impl ToValue for Ts3oodn {
    fn to_value(&self) -> Value {
        Value::Seq(vec![
            self.f0.as_ref().map(|x| x.to_value()),
            self.f1.as_ref().map(|x| x.to_value()),
            Some(self.f2.to_value()),
        ])
    }
}
impl FromValue for Ts3oode0 {
    fn from_value(v: &Value) -> Self {
        let s = match v { Value::Seq(s) => s, other => panic!("Ts3oode0: expected Seq, got {other:?}") };
        assert_eq!(s.len(), 3, "Ts3oode0: component count");
        let _ = s;
        Ts3oode0 {
            f0: s[0].as_ref().map(FromValue::from_value),
            f1: s[1].as_ref().map(FromValue::from_value),
            f2: FromValue::from_value(s[2].as_ref().expect("component f2 of Ts3oode0 must be present")),
        }
    }
}
impl ToValue for Ts3oode0 {
    fn to_value(&self) -> Value {
        Value::Seq(vec![
            self.f0.as_ref().map(|x| x.to_value()),
            self.f1.as_ref().map(|x| x.to_value()),
            Some(self.f2.to_value()),
        ])
    }
}
impl FromValue for Ts3oode1 {
    fn from_value(v: &Value) -> Self {
        let s = match v { Value::Seq(s) => s, other => panic!("Ts3oode1: expected Seq, got {other:?}") };
        assert_eq!(s.len(), 3, "Ts3oode1: component count");
        let _ = s;
        Ts3oode1 {
            f0: s[0].as_ref().map(FromValue::from_value),
            f1: s[1].as_ref().map(FromValue::from_value),
            f2: FromValue::from_value(s[2].as_ref().expect("component f2 of Ts3oode1 must be present")),
        }
    }
}
impl ToValue for Ts3oode1 {
    fn to_value(&self) -> Value {
        Value::Seq(vec![
            self.f0.as_ref().map(|x| x.to_value()),
            self.f1.as_ref().map(|x| x.to_value()),
            Some(self.f2.to_value()),
        ])
    }
}
impl FromValue for Ts3oode2 {
    fn from_value(v: &Value) -> Self {
        let s = match v { Value::Seq(s) => s, other => panic!("Ts3oode2: expected Seq, got {other:?}") };
        assert_eq!(s.len(), 3, "Ts3oode2: component count");
        let _ = s;
        Ts3oode2 {
            f0: s[0].as_ref().map(FromValue::from_value),
            f1: s[1].as_ref().map(FromValue::from_value),
            f2: FromValue::from_value(s[2].as_ref().expect("component f2 of Ts3oode2 must be present")),
        }
    }
}
impl ToValue for Ts3oode2 {
    fn to_value(&self) -> Value {
        Value::Seq(vec![
            self.f0.as_ref().map(|x| x.to_value()),
            self.f1.as_ref().map(|x| x.to_value()),
            Some(self.f2.to_value()),
        ])
    }
}
impl FromValue for Ts3oode3 {
    fn from_value(v: &Value) -> Self {
        let s = match v { Value::Seq(s) => s, other => panic!("Ts3oode3: expected Seq, got {other:?}") };
        assert_eq!(s.len(), 3, "Ts3oode3: component count");
        let _ = s;
        Ts3oode3 {
            f0: s[0].as_ref().map(FromValue::from_value),
            f1: s[1].as_ref().map(FromValue::from_value),
            f2: FromValue::from_value(s[2].as_ref().expect("component f2 of Ts3oode3 must be present")),
        }
    }
}
impl ToValue for Ts3oode3 {
    fn to_value(&self) -> Value {
        Value::Seq(vec![
            self.f0.as_ref().map(|x| x.to_value()),
            self.f1.as_ref().map(|x| x.to_value()),
            Some(self.f2.to_value()),
        ])
    }
}
impl FromValue for Ts3dodn {
    fn from_value(v: &Value) -> Self {
        let s = match v { Value::Seq(s) => s, other => panic!("Ts3dodn: expected Seq, got {other:?}") };
        assert_eq!(s.len(), 3, "Ts3dodn: component count");
        let _ = s;
        Ts3dodn {
            f0: FromValue::from_value(s[0].as_ref().expect("component f0 of Ts3dodn must be present")),
            f1: s[1].as_ref().map(FromValue::from_value),
            f2: FromValue::from_value(s[2].as_ref().expect("component f2 of Ts3dodn must be present")),
        }
    }
}
impl ToValue for Ts3dodn {
    fn to_value(&self) -> Value {
        Value::Seq(vec![
            Some(self.f0.to_value()),
            self.f1.as_ref().map(|x| x.to_value()),
            Some(self.f2.to_value()),
        ])
    }
}
impl FromValue for Ts3dode0 {
    fn from_value(v: &Value) -> Self {
        let s = match v { Value::Seq(s) => s, other => panic!("Ts3dode0: expected Seq, got {other:?}") };
        assert_eq!(s.len(), 3, "Ts3dode0: component count");
        let _ = s;
        Ts3dode0 {
            f0: FromValue::from_value(s[0].as_ref().expect("component f0 of Ts3dode0 must be present")),
            f1: s[1].as_ref().map(FromValue::from_value),
            f2: FromValue::from_value(s[2].as_ref().expect("component f2 of Ts3dode0 must be present")),
        }
    }
}
impl ToValue for Ts3dode0 {
    fn to_value(&self) -> Value {
        Value::Seq(vec![
            Some(self.f0.to_value()),
            self.f1.as_ref().map(|x| x.to_value()),
            Some(self.f2.to_value()),
        ])
    }
}
impl FromValue for Ts3dode1 {
    fn from_value(v: &Value) -> Self {
        let s = match v { Value::Seq(s) => s, other => panic!("Ts3dode1: expected Seq, got {other:?}") };
        assert_eq!(s.len(), 3, "Ts3dode1: component count");
        let _ = s;
        Ts3dode1 {
            f0: FromValue::from_value(s[0].as_ref().expect("component f0 of Ts3dode1 must be present")),
            f1: s[1].as_ref().map(FromValue::from_value),
            f2: FromValue::from_value(s[2].as_ref().expect("component f2 of Ts3dode1 must be present")),
        }
    }
}
impl ToValue for Ts3dode1 {
    fn to_value(&self) -> Value {
        Value::Seq(vec![
            Some(self.f0.to_value()),
            self.f1.as_ref().map(|x| x.to_value()),
            Some(self.f2.to_value()),
        ])
    }
}
impl FromValue for Ts3dode2 {
    fn from_value(v: &Value) -> Self {
        let s = match v { Value::Seq(s) => s, other => panic!("Ts3dode2: expected Seq, got {other:?}") };
        assert_eq!(s.len(), 3, "Ts3dode2: component count");
        let _ = s;
        Ts3dode2 {
            f0: FromValue::from_value(s[0].as_ref().expect("component f0 of Ts3dode2 must be present")),
            f1: s[1].as_ref().map(FromValue::from_value),
            f2: FromValue::from_value(s[2].as_ref().expect("component f2 of Ts3dode2 must be present")),
        }
    }
}
impl ToValue for Ts3dode2 {
    fn to_value(&self) -> Value {
        Value::Seq(vec![
            Some(self.f0.to_value()),
            self.f1.as_ref().map(|x| x.to_value()),
            Some(self.f2.to_value()),
        ])
    }
}
impl FromValue for Ts3dode3 {
    fn from_value(v: &Value) -> Self {
        let s = match v { Value::Seq(s) => s, other => panic!("Ts3dode3: expected Seq, got {other:?}") };
        assert_eq!(s.len(), 3, "Ts3dode3: component count");
        let _ = s;
        Ts3dode3 {
            f0: FromValue::from_value(s[0].as_ref().expect("component f0 of Ts3dode3 must be present")),
            f1: s[1].as_ref().map(FromValue::from_value),
            f2: FromValue::from_value(s[2].as_ref().expect("component f2 of Ts3dode3 must be present")),
        }
    }
}
impl ToValue for Ts3dode3 {
    fn to_value(&self) -> Value {
        Value::Seq(vec![
            Some(self.f0.to_value()),
            self.f1.as_ref().map(|x| x.to_value()),
            Some(self.f2.to_value()),
        ])
    }
}
impl FromValue for Ts3mddn {
    fn from_value(v: &Value) -> Self {
        let s = match v { Value::Seq(s) => s, other => panic!("Ts3mddn: expected Seq, got {other:?}") };
        assert_eq!(s.len(), 3, "Ts3mddn: component count");
        let _ = s;
        Ts3mddn {
            f0: FromValue::from_value(s[0].as_ref().expect("component f0 of Ts3mddn must be present")),
            f1: FromValue::from_value(s[1].as_ref().expect("component f1 of Ts3mddn must be present")),
            f2: FromValue::from_value(s[2].as_ref().expect("component f2 of Ts3mddn must be present")),
        }
    }
}
impl ToValue for Ts3mddn {
    fn to_value(&self) -> Value {
        Value::Seq(vec![
            Some(self.f0.to_value()),
            Some(self.f1.to_value()),
            Some(self.f2.to_value()),
        ])
    }
}
impl FromValue for Ts3mdde0 {
    fn from_value(v: &Value) -> Self {
        let s = match v { Value::Seq(s) => s, other => panic!("Ts3mdde0: expected Seq, got {other:?}") };
        assert_eq!(s.len(), 3, "Ts3mdde0: component count");
        let _ = s;
        Ts3mdde0 {
            f0: FromValue::from_value(s[0].as_ref().expect("component f0 of Ts3mdde0 must be present")),
            f1: FromValue::from_value(s[1].as_ref().expect("component f1 of Ts3mdde0 must be present")),
            f2: FromValue::from_value(s[2].as_ref().expect("component f2 of Ts3mdde0 must be present")),
        }
    }
}
impl ToValue for Ts3mdde0 {
    fn to_value(&self) -> Value {
        Value::Seq(vec![
            Some(self.f0.to_value()),
            Some(self.f1.to_value()),
            Some(self.f2.to_value()),
        ])
    }
}
impl FromValue for Ts3mdde1 {
    fn from_value(v: &Value) -> Self {
        let s = match v { Value::Seq(s) => s, other => panic!("Ts3mdde1: expected Seq, got {other:?}") };
        assert_eq!(s.len(), 3, "Ts3mdde1: component count");
        let _ = s;
        Ts3mdde1 {
            f0: FromValue::from_value(s[0].as_ref().expect("component f0 of Ts3mdde1 must be present")),
            f1: FromValue::from_value(s[1].as_ref().expect("component f1 of Ts3mdde1 must be present")),
            f2: FromValue::from_value(s[2].as_ref().expect("component f2 of Ts3mdde1 must be present")),
        }
    }
}
impl ToValue for Ts3mdde1 {
    fn to_value(&self) -> Value {
        Value::Seq(vec![
            Some(self.f0.to_value()),
            Some(self.f1.to_value()),
            Some(self.f2.to_value()),
        ])
    }
}
impl FromValue for Ts3mdde2 {
    fn from_value(v: &Value) -> Self {
        let s = match v { Value::Seq(s) => s, other => panic!("Ts3mdde2: expected Seq, got {other:?}") };
        assert_eq!(s.len(), 3, "Ts3mdde2: component count");
        let _ = s;
        Ts3mdde2 {
            f0: FromValue::from_value(s[0].as_ref().expect("component f0 of Ts3mdde2 must be present")),
            f1: FromValue::from_value(s[1].as_ref().expect("component f1 of Ts3mdde2 must be present")),
            f2: FromValue::from_value(s[2].as_ref().expect("component f2 of Ts3mdde2 must be present")),
        }
    }
}
impl ToValue for Ts3mdde2 {
    fn to_value(&self) -> Value {
        Value::Seq(vec![
            Some(self.f0.to_value()),
            Some(self.f1.to_value()),
            Some(self.f2.to_value()),
        ])
    }
}
impl FromValue for Ts3mdde3 {
    fn from_value(v: &Value) -> Self {
        let s = match v { Value::Seq(s) => s, other => panic!("Ts3mdde3: expected Seq, got {other:?}") };
        assert_eq!(s.len(), 3, "Ts3mdde3: component count");
        let _ = s;
        Ts3mdde3 {
            f0: FromValue::from_value(s[0].as_ref().expect("component f0 of Ts3mdde3 must be present")),
            f1: FromValue::from_value(s[1].as_ref().expect("component f1 of Ts3mdde3 must be present")),
            f2: FromValue::from_value(s[2].as_ref().expect("component f2 of Ts3mdde3 must be present")),
        }
    }
}
impl ToValue for Ts3mdde3 {
    fn to_value(&self) -> Value {
        Value::Seq(vec![
            Some(self.f0.to_value()),
            Some(self.f1.to_value()),
            Some(self.f2.to_value()),
        ])
    }
}
impl FromValue for Ts3oddn {
    fn from_value(v: &Value) -> Self {
        let s = match v { Value::Seq(s) => s, other => panic!("Ts3oddn: expected Seq, got {other:?}") };
        assert_eq!(s.len(), 3, "Ts3oddn: component count");
        let _ = s;
        Ts3oddn {
            f0: s[0].as_ref().map(FromValue::from_value),
            f1: FromValue::from_value(s[1].as_ref().expect("component f1 of Ts3oddn must be present")),
            f2: FromValue::from_value(s[2].as_ref().expect("component f2 of Ts3oddn must be present")),
        }
    }
}
impl ToValue for Ts3oddn {
    fn to_value(&self) -> Value {
        Value::Seq(vec![
            self.f0.as_ref().map(|x| x.to_value()),
            Some(self.f1.to_value()),
            Some(self.f2.to_value()),
        ])
    }
}
impl FromValue for Ts3odde0 {
    fn from_value(v: &Value) -> Self {
        let s = match v { Value::Seq(s) => s, other => panic!("Ts3odde0: expected Seq, got {other:?}") };
        assert_eq!(s.len(), 3, "Ts3odde0: component count");
        let _ = s;
        Ts3odde0 {
            f0: s[0].as_ref().map(FromValue::from_value),
            f1: FromValue::from_value(s[1].as_ref().expect("component f1 of Ts3odde0 must be present")),
            f2: FromValue::from_value(s[2].as_ref().expect("component f2 of Ts3odde0 must be present")),
        }
    }
}
impl ToValue for Ts3odde0 {
    fn to_value(&self) -> Value {
        Value::Seq(vec![
            self.f0.as_ref().map(|x| x.to_value()),
            Some(self.f1.to_value()),
            Some(self.f2.to_value()),
        ])
    }
}
impl FromValue for Ts3odde1 {
    fn from_value(v: &Value) -> Self {
        let s = match v { Value::Seq(s) => s, other => panic!("Ts3odde1: expected Seq, got {other:?}") };
        assert_eq!(s.len(), 3, "Ts3odde1: component count");
        let _ = s;
        Ts3odde1 {
            f0: s[0].as_ref().map(FromValue::from_value),
            f1: FromValue::from_value(s[1].as_ref().expect("component f1 of Ts3odde1 must be present")),
            f2: FromValue::from_value(s[2].as_ref().expect("component f2 of Ts3odde1 must be present")),
        }
    }
}
impl ToValue for Ts3odde1 {
    fn to_value(&self) -> Value {
        Value::Seq(vec![
            self.f0.as_ref().map(|x| x.to_value()),
            Some(self.f1.to_value()),
            Some(self.f2.to_value()),
        ])
    }
}
impl FromValue for Ts3odde2 {
    fn from_value(v: &Value) -> Self {
        let s = match v { Value::Seq(s) => s, other => panic!("Ts3odde2: expected Seq, got {other:?}") };
        assert_eq!(s.len(), 3, "Ts3odde2: component count");
        let _ = s;
        Ts3odde2 {
            f0: s[0].as_ref().map(FromValue::from_value),
            f1: FromValue::from_value(s[1].as_ref().expect("component f1 of Ts3odde2 must be present")),
            f2: FromValue::from_value(s[2].as_ref().expect("component f2 of Ts3odde2 must be present")),
        }
    }
}
impl ToValue for Ts3odde2 {
    fn to_value(&self) -> Value {
        Value::Seq(vec![
            self.f0.as_ref().map(|x| x.to_value()),
            Some(self.f1.to_value()),
            Some(self.f2.to_value()),
        ])
    }
}
impl FromValue for Ts3odde3 {
    fn from_value(v: &Value) -> Self {
        let s = match v { Value::Seq(s) => s, other => panic!("Ts3odde3: expected Seq, got {other:?}") };
        assert_eq!(s.len(), 3, "Ts3odde3: component count");
        let _ = s;
        Ts3odde3 {
            f0: s[0].as_ref().map(FromValue::from_value),
            f1: FromValue::from_value(s[1].as_ref().expect("component f1 of Ts3odde3 must be present")),
            f2: FromValue::from_value(s[2].as_ref().expect("component f2 of Ts3odde3 must be present")),
        }
    }
}
impl ToValue for Ts3odde3 {
    fn to_value(&self) -> Value {
        Value::Seq(vec![
            self.f0.as_ref().map(|x| x.to_value()),
            Some(self.f1.to_value()),
            Some(self.f2.to_value()),
        ])
    }
}
impl FromValue for Ts3dddn {
    fn from_value(v: &Value) -> Self {
        let s = match v { Value::Seq(s) => s, other => panic!("Ts3dddn: expected Seq, got {other:?}") };
        assert_eq!(s.len(), 3, "Ts3dddn: component count");
        let _ = s;
        Ts3dddn {
            f0: FromValue::from_value(s[0].as_ref().expect("component f0 of Ts3dddn must be present")),
            f1: FromValue::from_value(s[1].as_ref().expect("component f1 of Ts3dddn must be present")),
            f2: FromValue::from_value(s[2].as_ref().expect("component f2 of Ts3dddn must be present")),
        }
    }
}
impl ToValue for Ts3dddn {
    fn to_value(&self) -> Value {
        Value::Seq(vec![
            Some(self.f0.to_value()),
            Some(self.f1.to_value()),
            Some(self.f2.to_value()),
        ])
    }
}
impl FromValue for Ts3ddde0 {
    fn from_value(v: &Value) -> Self {
        let s = match v { Value::Seq(s) => s, other => panic!("Ts3ddde0: expected Seq, got {other:?}") };
        assert_eq!(s.len(), 3, "Ts3ddde0: component count");
        let _ = s;
        Ts3ddde0 {
            f0: FromValue::from_value(s[0].as_ref().expect("component f0 of Ts3ddde0 must be present")),
            f1: FromValue::from_value(s[1].as_ref().expect("component f1 of Ts3ddde0 must be present")),
            f2: FromValue::from_value(s[2].as_ref().expect("component f2 of Ts3ddde0 must be present")),
        }
    }
}
impl ToValue for Ts3ddde0 {
    fn to_value(&self) -> Value {
        Value::Seq(vec![
            Some(self.f0.to_value()),
            Some(self.f1.to_value()),
            Some(self.f2.to_value()),
        ])
    }
}
impl FromValue for Ts3ddde1 {
    fn from_value(v: &Value) -> Self {
        let s = match v { Value::Seq(s) => s, other => panic!("Ts3ddde1: expected Seq, got {other:?}") };
        assert_eq!(s.len(), 3, "Ts3ddde1: component count");
        let _ = s;
        Ts3ddde1 {
            f0: FromValue::from_value(s[0].as_ref().expect("component f0 of Ts3ddde1 must be present")),
            f1: FromValue::from_value(s[1].as_ref().expect("component f1 of Ts3ddde1 must be present")),
            f2: FromValue::from_value(s[2].as_ref().expect("component f2 of Ts3ddde1 must be present")),
        }
    }
}
impl ToValue for Ts3ddde1 {
    fn to_value(&self) -> Value {
        Value::Seq(vec![
            Some(self.f0.to_value()),
            Some(self.f1.to_value()),
            Some(self.f2.to_value()),
        ])
    }
}
impl FromValue for Ts3ddde2 {
    fn from_value(v: &Value) -> Self {
        let s = match v { Value::Seq(s) => s, other => panic!("Ts3ddde2: expected Seq, got {other:?}") };
        assert_eq!(s.len(), 3, "Ts3ddde2: component count");
        let _ = s;
        Ts3ddde2 {
            f0: FromValue::from_value(s[0].as_ref().expect("component f0 of Ts3ddde2 must be present")),
            f1: FromValue::from_value(s[1].as_ref().expect("component f1 of Ts3ddde2 must be present")),
            f2: FromValue::from_value(s[2].as_ref().expect("component f2 of Ts3ddde2 must be present")),
        }
    }
}
impl ToValue for Ts3ddde2 {
    fn to_value(&self) -> Value {
        Value::Seq(vec![
            Some(self.f0.to_value()),
            Some(self.f1.to_value()),
            Some(self.f2.to_value()),
        ])
    }
}
impl FromValue for Ts3ddde3 {
    fn from_value(v: &Value) -> Self {
        let s = match v { Value::Seq(s) => s, other => panic!("Ts3ddde3: expected Seq, got {other:?}") };
        assert_eq!(s.len(), 3, "Ts3ddde3: component count");
        let _ = s;
        Ts3ddde3 {
            f0: FromValue::from_value(s[0].as_ref().expect("component f0 of Ts3ddde3 must be present")),
            f1: FromValue::from_value(s[1].as_ref().expect("component f1 of Ts3ddde3 must be present")),
            f2: FromValue::from_value(s[2].as_ref().expect("component f2 of Ts3ddde3 must be present")),
        }
    }
}
impl ToValue for Ts3ddde3 {
    fn to_value(&self) -> Value {
        Value::Seq(vec![
            Some(self.f0.to_value()),
            Some(self.f1.to_value()),
            Some(self.f2.to_value()),
        ])
    }
}

use asn1rs::prelude::*;

#[asn(transparent)]

#[derive(Default, Debug, Clone, PartialEq, Hash)]
pub struct Tsobany(#[asn(sequence_of(boolean))] pub Vec<bool>);

impl Tsobany {
}

impl Tsobany {
    pub const fn new(value: Vec<bool>) -> Self {
        Self(value)
    }
}

impl ::core::ops::Deref for Tsobany {
    type Target = Vec<bool>;

    fn deref(&self) -> &Vec<bool> {
        &self.0
    }
}

impl ::core::ops::DerefMut for Tsobany {
    fn deref_mut(&mut self) -> &mut Vec<bool> {
        &mut self.0
    }
}

impl ::core::convert::From<Vec<bool>> for Tsobany {
    fn from(value: Vec<bool>) -> Self {
        Self(value)
    }
}

impl ::core::convert::From<Tsobany> for Vec<bool> {
    fn from(value: Tsobany) -> Self {
        value.0
    }
}

#[asn(transparent)]

#[derive(Default, Debug, Clone, PartialEq, Hash)]
pub struct Tsobf1(#[asn(sequence_of(size(1), boolean))] pub Vec<bool>);

impl Tsobf1 {
}

impl Tsobf1 {
    pub const fn new(value: Vec<bool>) -> Self {
        Self(value)
    }
}

impl ::core::ops::Deref for Tsobf1 {
    type Target = Vec<bool>;

    fn deref(&self) -> &Vec<bool> {
        &self.0
    }
}

impl ::core::ops::DerefMut for Tsobf1 {
    fn deref_mut(&mut self) -> &mut Vec<bool> {
        &mut self.0
    }
}

impl ::core::convert::From<Vec<bool>> for Tsobf1 {
    fn from(value: Vec<bool>) -> Self {
        Self(value)
    }
}

impl ::core::convert::From<Tsobf1> for Vec<bool> {
    fn from(value: Tsobf1) -> Self {
        value.0
    }
}

#[asn(transparent)]

#[derive(Default, Debug, Clone, PartialEq, Hash)]
pub struct Tsobf3(#[asn(sequence_of(size(3), boolean))] pub Vec<bool>);

impl Tsobf3 {
}

impl Tsobf3 {
    pub const fn new(value: Vec<bool>) -> Self {
        Self(value)
    }
}

impl ::core::ops::Deref for Tsobf3 {
    type Target = Vec<bool>;

    fn deref(&self) -> &Vec<bool> {
        &self.0
    }
}

impl ::core::ops::DerefMut for Tsobf3 {
    fn deref_mut(&mut self) -> &mut Vec<bool> {
        &mut self.0
    }
}

impl ::core::convert::From<Vec<bool>> for Tsobf3 {
    fn from(value: Vec<bool>) -> Self {
        Self(value)
    }
}

impl ::core::convert::From<Tsobf3> for Vec<bool> {
    fn from(value: Tsobf3) -> Self {
        value.0
    }
}

#[asn(transparent)]

#[derive(Default, Debug, Clone, PartialEq, Hash)]
pub struct Tsobf65535(#[asn(sequence_of(size(65535), boolean))] pub Vec<bool>);

impl Tsobf65535 {
}

impl Tsobf65535 {
    pub const fn new(value: Vec<bool>) -> Self {
        Self(value)
    }
}

impl ::core::ops::Deref for Tsobf65535 {
    type Target = Vec<bool>;

    fn deref(&self) -> &Vec<bool> {
        &self.0
    }
}

impl ::core::ops::DerefMut for Tsobf65535 {
    fn deref_mut(&mut self) -> &mut Vec<bool> {
        &mut self.0
    }
}

impl ::core::convert::From<Vec<bool>> for Tsobf65535 {
    fn from(value: Vec<bool>) -> Self {
        Self(value)
    }
}

impl ::core::convert::From<Tsobf65535> for Vec<bool> {
    fn from(value: Tsobf65535) -> Self {
        value.0
    }
}

#[asn(transparent)]

#[derive(Default, Debug, Clone, PartialEq, Hash)]
pub struct Tsobf65536(#[asn(sequence_of(size(65536), boolean))] pub Vec<bool>);

impl Tsobf65536 {
}

impl Tsobf65536 {
    pub const fn new(value: Vec<bool>) -> Self {
        Self(value)
    }
}

impl ::core::ops::Deref for Tsobf65536 {
    type Target = Vec<bool>;

    fn deref(&self) -> &Vec<bool> {
        &self.0
    }
}

impl ::core::ops::DerefMut for Tsobf65536 {
    fn deref_mut(&mut self) -> &mut Vec<bool> {
        &mut self.0
    }
}

impl ::core::convert::From<Vec<bool>> for Tsobf65536 {
    fn from(value: Vec<bool>) -> Self {
        Self(value)
    }
}

impl ::core::convert::From<Tsobf65536> for Vec<bool> {
    fn from(value: Tsobf65536) -> Self {
        value.0
    }
}

#[asn(transparent)]

#[derive(Default, Debug, Clone, PartialEq, Hash)]
pub struct Tsobr1to4(#[asn(sequence_of(size(1..4), boolean))] pub Vec<bool>);

impl Tsobr1to4 {
}

impl Tsobr1to4 {
    pub const fn new(value: Vec<bool>) -> Self {
        Self(value)
    }
}

impl ::core::ops::Deref for Tsobr1to4 {
    type Target = Vec<bool>;

    fn deref(&self) -> &Vec<bool> {
        &self.0
    }
}

impl ::core::ops::DerefMut for Tsobr1to4 {
    fn deref_mut(&mut self) -> &mut Vec<bool> {
        &mut self.0
    }
}

impl ::core::convert::From<Vec<bool>> for Tsobr1to4 {
    fn from(value: Vec<bool>) -> Self {
        Self(value)
    }
}

impl ::core::convert::From<Tsobr1to4> for Vec<bool> {
    fn from(value: Tsobr1to4) -> Self {
        value.0
    }
}

#[asn(transparent)]

#[derive(Default, Debug, Clone, PartialEq, Hash)]
pub struct Tsobr4to6(#[asn(sequence_of(size(4..6), boolean))] pub Vec<bool>);

impl Tsobr4to6 {
}

impl Tsobr4to6 {
    pub const fn new(value: Vec<bool>) -> Self {
        Self(value)
    }
}

impl ::core::ops::Deref for Tsobr4to6 {
    type Target = Vec<bool>;

    fn deref(&self) -> &Vec<bool> {
        &self.0
    }
}

impl ::core::ops::DerefMut for Tsobr4to6 {
    fn deref_mut(&mut self) -> &mut Vec<bool> {
        &mut self.0
    }
}

impl ::core::convert::From<Vec<bool>> for Tsobr4to6 {
    fn from(value: Vec<bool>) -> Self {
        Self(value)
    }
}

impl ::core::convert::From<Tsobr4to6> for Vec<bool> {
    fn from(value: Tsobr4to6) -> Self {
        value.0
    }
}

#[asn(transparent)]

#[derive(Default, Debug, Clone, PartialEq, Hash)]
pub struct Tsobr1to70000(#[asn(sequence_of(size(1..70000), boolean))] pub Vec<bool>);

impl Tsobr1to70000 {
}

impl Tsobr1to70000 {
    pub const fn new(value: Vec<bool>) -> Self {
        Self(value)
    }
}

impl ::core::ops::Deref for Tsobr1to70000 {
    type Target = Vec<bool>;

    fn deref(&self) -> &Vec<bool> {
        &self.0
    }
}

impl ::core::ops::DerefMut for Tsobr1to70000 {
    fn deref_mut(&mut self) -> &mut Vec<bool> {
        &mut self.0
    }
}

impl ::core::convert::From<Vec<bool>> for Tsobr1to70000 {
    fn from(value: Vec<bool>) -> Self {
        Self(value)
    }
}

impl ::core::convert::From<Tsobr1to70000> for Vec<bool> {
    fn from(value: Tsobr1to70000) -> Self {
        value.0
    }
}

#[asn(transparent)]

#[derive(Default, Debug, Clone, PartialEq, Hash)]
pub struct Tsobr2tomax(#[asn(sequence_of(size(2..9223372036854775807), boolean))] pub Vec<bool>);

impl Tsobr2tomax {
}

impl Tsobr2tomax {
    pub const fn new(value: Vec<bool>) -> Self {
        Self(value)
    }
}

impl ::core::ops::Deref for Tsobr2tomax {
    type Target = Vec<bool>;

    fn deref(&self) -> &Vec<bool> {
        &self.0
    }
}

impl ::core::ops::DerefMut for Tsobr2tomax {
    fn deref_mut(&mut self) -> &mut Vec<bool> {
        &mut self.0
    }
}

impl ::core::convert::From<Vec<bool>> for Tsobr2tomax {
    fn from(value: Vec<bool>) -> Self {
        Self(value)
    }
}

impl ::core::convert::From<Tsobr2tomax> for Vec<bool> {
    fn from(value: Tsobr2tomax) -> Self {
        value.0
    }
}

#[asn(transparent)]

#[derive(Default, Debug, Clone, PartialEq, Hash)]
pub struct Tsobf3x(#[asn(sequence_of(size(3,...), boolean))] pub Vec<bool>);

impl Tsobf3x {
}

impl Tsobf3x {
    pub const fn new(value: Vec<bool>) -> Self {
        Self(value)
    }
}

impl ::core::ops::Deref for Tsobf3x {
    type Target = Vec<bool>;

    fn deref(&self) -> &Vec<bool> {
        &self.0
    }
}

impl ::core::ops::DerefMut for Tsobf3x {
    fn deref_mut(&mut self) -> &mut Vec<bool> {
        &mut self.0
    }
}

impl ::core::convert::From<Vec<bool>> for Tsobf3x {
    fn from(value: Vec<bool>) -> Self {
        Self(value)
    }
}

impl ::core::convert::From<Tsobf3x> for Vec<bool> {
    fn from(value: Tsobf3x) -> Self {
        value.0
    }
}

#[asn(transparent)]

#[derive(Default, Debug, Clone, PartialEq, Hash)]
pub struct Tsobr1to4x(#[asn(sequence_of(size(1..4,...), boolean))] pub Vec<bool>);

impl Tsobr1to4x {
}

impl Tsobr1to4x {
    pub const fn new(value: Vec<bool>) -> Self {
        Self(value)
    }
}

impl ::core::ops::Deref for Tsobr1to4x {
    type Target = Vec<bool>;

    fn deref(&self) -> &Vec<bool> {
        &self.0
    }
}

impl ::core::ops::DerefMut for Tsobr1to4x {
    fn deref_mut(&mut self) -> &mut Vec<bool> {
        &mut self.0
    }
}

impl ::core::convert::From<Vec<bool>> for Tsobr1to4x {
    fn from(value: Vec<bool>) -> Self {
        Self(value)
    }
}

impl ::core::convert::From<Tsobr1to4x> for Vec<bool> {
    fn from(value: Tsobr1to4x) -> Self {
        value.0
    }
}
// ---- harness conversions (generated by the zoo build script from the items above) ----
impl FromValue for Tsobany { fn from_value(v: &Value) -> Self { Tsobany(FromValue::from_value(v)) } }
impl ToValue for Tsobany { fn to_value(&self) -> Value { self.0.to_value() } }
impl FromValue for Tsobf1 { fn from_value(v: &Value) -> Self { Tsobf1(FromValue::from_value(v)) } }
impl ToValue for Tsobf1 { fn to_value(&self) -> Value { self.0.to_value() } }
impl FromValue for Tsobf3 { fn from_value(v: &Value) -> Self { Tsobf3(FromValue::from_value(v)) } }
impl ToValue for Tsobf3 { fn to_value(&self) -> Value { self.0.to_value() } }
impl FromValue for Tsobf65535 { fn from_value(v: &Value) -> Self { Tsobf65535(FromValue::from_value(v)) } }
impl ToValue for Tsobf65535 { fn to_value(&self) -> Value { self.0.to_value() } }
impl FromValue for Tsobf65536 { fn from_value(v: &Value) -> Self { Tsobf65536(FromValue::from_value(v)) } }
impl ToValue for Tsobf65536 { fn to_value(&self) -> Value { self.0.to_value() } }
impl FromValue for Tsobr1to4 { fn from_value(v: &Value) -> Self { Tsobr1to4(FromValue::from_value(v)) } }
impl ToValue for Tsobr1to4 { fn to_value(&self) -> Value { self.0.to_value() } }
impl FromValue for Tsobr4to6 { fn from_value(v: &Value) -> Self { Tsobr4to6(FromValue::from_value(v)) } }
impl ToValue for Tsobr4to6 { fn to_value(&self) -> Value { self.0.to_value() } }
impl FromValue for Tsobr1to70000 { fn from_value(v: &Value) -> Self { Tsobr1to70000(FromValue::from_value(v)) } }
impl ToValue for Tsobr1to70000 { fn to_value(&self) -> Value { self.0.to_value() } }
impl FromValue for Tsobr2tomax { fn from_value(v: &Value) -> Self { Tsobr2tomax(FromValue::from_value(v)) } }
impl ToValue for Tsobr2tomax { fn to_value(&self) -> Value { self.0.to_value() } }
impl FromValue for Tsobf3x { fn from_value(v: &Value) -> Self { Tsobf3x(FromValue::from_value(v)) } }
impl ToValue for Tsobf3x { fn to_value(&self) -> Value { self.0.to_value() } }
impl FromValue for Tsobr1to4x { fn from_value(v: &Value) -> Self { Tsobr1to4x(FromValue::from_value(v)) } }
impl ToValue for Tsobr1to4x { fn to_value(&self) -> Value { self.0.to_value() } }

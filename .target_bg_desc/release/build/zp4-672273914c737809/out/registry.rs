#[allow(unused_imports, dead_code, non_camel_case_types, clippy::all)]
pub mod m_ia5q {
    use zoo_core::conv::*;
    include!(concat!(env!("OUT_DIR"), "/m_ia5q.rs"));
}
#[allow(unused_imports, dead_code, non_camel_case_types, clippy::all)]
pub mod m_utfq {
    use zoo_core::conv::*;
    include!(concat!(env!("OUT_DIR"), "/m_utfq.rs"));
}
#[allow(unused_imports, dead_code, non_camel_case_types, clippy::all)]
pub mod m_shsq1 {
    use zoo_core::conv::*;
    include!(concat!(env!("OUT_DIR"), "/m_shsq1.rs"));
}
#[allow(unused_imports, dead_code, non_camel_case_types, clippy::all)]
pub mod m_c05a0 {
    use zoo_core::conv::*;
    include!(concat!(env!("OUT_DIR"), "/m_c05a0.rs"));
}
#[allow(unused_imports, dead_code, non_camel_case_types, clippy::all)]
pub mod m_c05a3 {
    use zoo_core::conv::*;
    include!(concat!(env!("OUT_DIR"), "/m_c05a3.rs"));
}
#[allow(unused_imports, dead_code, non_camel_case_types, clippy::all)]
pub mod m_c05b2 {
    use zoo_core::conv::*;
    include!(concat!(env!("OUT_DIR"), "/m_c05b2.rs"));
}
#[allow(unused_imports, dead_code, non_camel_case_types, clippy::all)]
pub mod m_c05c2 {
    use zoo_core::conv::*;
    include!(concat!(env!("OUT_DIR"), "/m_c05c2.rs"));
}
#[allow(unused_imports, dead_code, non_camel_case_types, clippy::all)]
pub mod m_c05d2 {
    use zoo_core::conv::*;
    include!(concat!(env!("OUT_DIR"), "/m_c05d2.rs"));
}
#[allow(unused_imports, dead_code, non_camel_case_types, clippy::all)]
pub mod m_c05e2 {
    use zoo_core::conv::*;
    include!(concat!(env!("OUT_DIR"), "/m_c05e2.rs"));
}
#[allow(unused_imports, dead_code, non_camel_case_types, clippy::all)]
pub mod m_c05f0 {
    use zoo_core::conv::*;
    include!(concat!(env!("OUT_DIR"), "/m_c05f0.rs"));
}
#[allow(unused_imports, dead_code, non_camel_case_types, clippy::all)]
pub mod m_c05g0 {
    use zoo_core::conv::*;
    include!(concat!(env!("OUT_DIR"), "/m_c05g0.rs"));
}
#[allow(unused_imports, dead_code, non_camel_case_types, clippy::all)]
pub mod m_c05h0 {
    use zoo_core::conv::*;
    include!(concat!(env!("OUT_DIR"), "/m_c05h0.rs"));
}
#[allow(unused_imports, dead_code, non_camel_case_types, clippy::all)]
pub mod m_c05k2 {
    use zoo_core::conv::*;
    include!(concat!(env!("OUT_DIR"), "/m_c05k2.rs"));
}

pub fn registry() -> Vec<Entry> {
    vec![
        Entry { module_index: 6, order: 0, module_id: "ia5q", def: "Tia5any", ops: &Ops::<m_ia5q::Tia5any>(PhantomData) },
        Entry { module_index: 6, order: 1, module_id: "ia5q", def: "Tia5f1", ops: &Ops::<m_ia5q::Tia5f1>(PhantomData) },
        Entry { module_index: 6, order: 2, module_id: "ia5q", def: "Tia5f3", ops: &Ops::<m_ia5q::Tia5f3>(PhantomData) },
        Entry { module_index: 6, order: 3, module_id: "ia5q", def: "Tia5r1to4", ops: &Ops::<m_ia5q::Tia5r1to4>(PhantomData) },
        Entry { module_index: 6, order: 4, module_id: "ia5q", def: "Tia5r4to6", ops: &Ops::<m_ia5q::Tia5r4to6>(PhantomData) },
        Entry { module_index: 6, order: 5, module_id: "ia5q", def: "Tia5r1to70000", ops: &Ops::<m_ia5q::Tia5r1to70000>(PhantomData) },
        Entry { module_index: 6, order: 6, module_id: "ia5q", def: "Tia5r2tomax", ops: &Ops::<m_ia5q::Tia5r2tomax>(PhantomData) },
        Entry { module_index: 6, order: 7, module_id: "ia5q", def: "Tia5f3x", ops: &Ops::<m_ia5q::Tia5f3x>(PhantomData) },
        Entry { module_index: 6, order: 8, module_id: "ia5q", def: "Tia5r1to4x", ops: &Ops::<m_ia5q::Tia5r1to4x>(PhantomData) },
        Entry { module_index: 14, order: 0, module_id: "utfq", def: "Tutfany", ops: &Ops::<m_utfq::Tutfany>(PhantomData) },
        Entry { module_index: 14, order: 1, module_id: "utfq", def: "Tutff1", ops: &Ops::<m_utfq::Tutff1>(PhantomData) },
        Entry { module_index: 14, order: 2, module_id: "utfq", def: "Tutff3", ops: &Ops::<m_utfq::Tutff3>(PhantomData) },
        Entry { module_index: 14, order: 3, module_id: "utfq", def: "Tutfr1to4", ops: &Ops::<m_utfq::Tutfr1to4>(PhantomData) },
        Entry { module_index: 14, order: 4, module_id: "utfq", def: "Tutfr4to6", ops: &Ops::<m_utfq::Tutfr4to6>(PhantomData) },
        Entry { module_index: 14, order: 5, module_id: "utfq", def: "Tutfr1to70000", ops: &Ops::<m_utfq::Tutfr1to70000>(PhantomData) },
        Entry { module_index: 14, order: 6, module_id: "utfq", def: "Tutfr2tomax", ops: &Ops::<m_utfq::Tutfr2tomax>(PhantomData) },
        Entry { module_index: 14, order: 7, module_id: "utfq", def: "Tutff3x", ops: &Ops::<m_utfq::Tutff3x>(PhantomData) },
        Entry { module_index: 14, order: 8, module_id: "utfq", def: "Tutfr1to4x", ops: &Ops::<m_utfq::Tutfr1to4x>(PhantomData) },
        Entry { module_index: 23, order: 0, module_id: "shsq1", def: "Ts3dooe3", ops: &Ops::<m_shsq1::Ts3dooe3>(PhantomData) },
        Entry { module_index: 23, order: 1, module_id: "shsq1", def: "Ts3mdon", ops: &Ops::<m_shsq1::Ts3mdon>(PhantomData) },
        Entry { module_index: 23, order: 2, module_id: "shsq1", def: "Ts3mdoe0", ops: &Ops::<m_shsq1::Ts3mdoe0>(PhantomData) },
        Entry { module_index: 23, order: 3, module_id: "shsq1", def: "Ts3mdoe1", ops: &Ops::<m_shsq1::Ts3mdoe1>(PhantomData) },
        Entry { module_index: 23, order: 4, module_id: "shsq1", def: "Ts3mdoe2", ops: &Ops::<m_shsq1::Ts3mdoe2>(PhantomData) },
        Entry { module_index: 23, order: 5, module_id: "shsq1", def: "Ts3mdoe3", ops: &Ops::<m_shsq1::Ts3mdoe3>(PhantomData) },
        Entry { module_index: 23, order: 6, module_id: "shsq1", def: "Ts3odon", ops: &Ops::<m_shsq1::Ts3odon>(PhantomData) },
        Entry { module_index: 23, order: 7, module_id: "shsq1", def: "Ts3odoe0", ops: &Ops::<m_shsq1::Ts3odoe0>(PhantomData) },
        Entry { module_index: 23, order: 8, module_id: "shsq1", def: "Ts3odoe1", ops: &Ops::<m_shsq1::Ts3odoe1>(PhantomData) },
        Entry { module_index: 23, order: 9, module_id: "shsq1", def: "Ts3odoe2", ops: &Ops::<m_shsq1::Ts3odoe2>(PhantomData) },
        Entry { module_index: 23, order: 10, module_id: "shsq1", def: "Ts3odoe3", ops: &Ops::<m_shsq1::Ts3odoe3>(PhantomData) },
        Entry { module_index: 23, order: 11, module_id: "shsq1", def: "Ts3ddon", ops: &Ops::<m_shsq1::Ts3ddon>(PhantomData) },
        Entry { module_index: 23, order: 12, module_id: "shsq1", def: "Ts3ddoe0", ops: &Ops::<m_shsq1::Ts3ddoe0>(PhantomData) },
        Entry { module_index: 23, order: 13, module_id: "shsq1", def: "Ts3ddoe1", ops: &Ops::<m_shsq1::Ts3ddoe1>(PhantomData) },
        Entry { module_index: 23, order: 14, module_id: "shsq1", def: "Ts3ddoe2", ops: &Ops::<m_shsq1::Ts3ddoe2>(PhantomData) },
        Entry { module_index: 23, order: 15, module_id: "shsq1", def: "Ts3ddoe3", ops: &Ops::<m_shsq1::Ts3ddoe3>(PhantomData) },
        Entry { module_index: 23, order: 16, module_id: "shsq1", def: "Ts3mmdn", ops: &Ops::<m_shsq1::Ts3mmdn>(PhantomData) },
        Entry { module_index: 23, order: 17, module_id: "shsq1", def: "Ts3mmde0", ops: &Ops::<m_shsq1::Ts3mmde0>(PhantomData) },
        Entry { module_index: 23, order: 18, module_id: "shsq1", def: "Ts3mmde1", ops: &Ops::<m_shsq1::Ts3mmde1>(PhantomData) },
        Entry { module_index: 23, order: 19, module_id: "shsq1", def: "Ts3mmde2", ops: &Ops::<m_shsq1::Ts3mmde2>(PhantomData) },
        Entry { module_index: 23, order: 20, module_id: "shsq1", def: "Ts3mmde3", ops: &Ops::<m_shsq1::Ts3mmde3>(PhantomData) },
        Entry { module_index: 23, order: 21, module_id: "shsq1", def: "Ts3omdn", ops: &Ops::<m_shsq1::Ts3omdn>(PhantomData) },
        Entry { module_index: 23, order: 22, module_id: "shsq1", def: "Ts3omde0", ops: &Ops::<m_shsq1::Ts3omde0>(PhantomData) },
        Entry { module_index: 23, order: 23, module_id: "shsq1", def: "Ts3omde1", ops: &Ops::<m_shsq1::Ts3omde1>(PhantomData) },
        Entry { module_index: 23, order: 24, module_id: "shsq1", def: "Ts3omde2", ops: &Ops::<m_shsq1::Ts3omde2>(PhantomData) },
        Entry { module_index: 23, order: 25, module_id: "shsq1", def: "Ts3omde3", ops: &Ops::<m_shsq1::Ts3omde3>(PhantomData) },
        Entry { module_index: 23, order: 26, module_id: "shsq1", def: "Ts3dmdn", ops: &Ops::<m_shsq1::Ts3dmdn>(PhantomData) },
        Entry { module_index: 23, order: 27, module_id: "shsq1", def: "Ts3dmde0", ops: &Ops::<m_shsq1::Ts3dmde0>(PhantomData) },
        Entry { module_index: 23, order: 28, module_id: "shsq1", def: "Ts3dmde1", ops: &Ops::<m_shsq1::Ts3dmde1>(PhantomData) },
        Entry { module_index: 23, order: 29, module_id: "shsq1", def: "Ts3dmde2", ops: &Ops::<m_shsq1::Ts3dmde2>(PhantomData) },
        Entry { module_index: 23, order: 30, module_id: "shsq1", def: "Ts3dmde3", ops: &Ops::<m_shsq1::Ts3dmde3>(PhantomData) },
        Entry { module_index: 23, order: 31, module_id: "shsq1", def: "Ts3modn", ops: &Ops::<m_shsq1::Ts3modn>(PhantomData) },
        Entry { module_index: 23, order: 32, module_id: "shsq1", def: "Ts3mode0", ops: &Ops::<m_shsq1::Ts3mode0>(PhantomData) },
        Entry { module_index: 23, order: 33, module_id: "shsq1", def: "Ts3mode1", ops: &Ops::<m_shsq1::Ts3mode1>(PhantomData) },
        Entry { module_index: 23, order: 34, module_id: "shsq1", def: "Ts3mode2", ops: &Ops::<m_shsq1::Ts3mode2>(PhantomData) },
        Entry { module_index: 23, order: 35, module_id: "shsq1", def: "Ts3mode3", ops: &Ops::<m_shsq1::Ts3mode3>(PhantomData) },
        Entry { module_index: 23, order: 36, module_id: "shsq1", def: "Ts3oodn", ops: &Ops::<m_shsq1::Ts3oodn>(PhantomData) },
        Entry { module_index: 23, order: 37, module_id: "shsq1", def: "Ts3oode0", ops: &Ops::<m_shsq1::Ts3oode0>(PhantomData) },
        Entry { module_index: 23, order: 38, module_id: "shsq1", def: "Ts3oode1", ops: &Ops::<m_shsq1::Ts3oode1>(PhantomData) },
        Entry { module_index: 23, order: 39, module_id: "shsq1", def: "Ts3oode2", ops: &Ops::<m_shsq1::Ts3oode2>(PhantomData) },
        Entry { module_index: 23, order: 40, module_id: "shsq1", def: "Ts3oode3", ops: &Ops::<m_shsq1::Ts3oode3>(PhantomData) },
        Entry { module_index: 23, order: 41, module_id: "shsq1", def: "Ts3dodn", ops: &Ops::<m_shsq1::Ts3dodn>(PhantomData) },
        Entry { module_index: 23, order: 42, module_id: "shsq1", def: "Ts3dode0", ops: &Ops::<m_shsq1::Ts3dode0>(PhantomData) },
        Entry { module_index: 23, order: 43, module_id: "shsq1", def: "Ts3dode1", ops: &Ops::<m_shsq1::Ts3dode1>(PhantomData) },
        Entry { module_index: 23, order: 44, module_id: "shsq1", def: "Ts3dode2", ops: &Ops::<m_shsq1::Ts3dode2>(PhantomData) },
        Entry { module_index: 23, order: 45, module_id: "shsq1", def: "Ts3dode3", ops: &Ops::<m_shsq1::Ts3dode3>(PhantomData) },
        Entry { module_index: 23, order: 46, module_id: "shsq1", def: "Ts3mddn", ops: &Ops::<m_shsq1::Ts3mddn>(PhantomData) },
        Entry { module_index: 23, order: 47, module_id: "shsq1", def: "Ts3mdde0", ops: &Ops::<m_shsq1::Ts3mdde0>(PhantomData) },
        Entry { module_index: 23, order: 48, module_id: "shsq1", def: "Ts3mdde1", ops: &Ops::<m_shsq1::Ts3mdde1>(PhantomData) },
        Entry { module_index: 23, order: 49, module_id: "shsq1", def: "Ts3mdde2", ops: &Ops::<m_shsq1::Ts3mdde2>(PhantomData) },
        Entry { module_index: 23, order: 50, module_id: "shsq1", def: "Ts3mdde3", ops: &Ops::<m_shsq1::Ts3mdde3>(PhantomData) },
        Entry { module_index: 23, order: 51, module_id: "shsq1", def: "Ts3oddn", ops: &Ops::<m_shsq1::Ts3oddn>(PhantomData) },
        Entry { module_index: 23, order: 52, module_id: "shsq1", def: "Ts3odde0", ops: &Ops::<m_shsq1::Ts3odde0>(PhantomData) },
        Entry { module_index: 23, order: 53, module_id: "shsq1", def: "Ts3odde1", ops: &Ops::<m_shsq1::Ts3odde1>(PhantomData) },
        Entry { module_index: 23, order: 54, module_id: "shsq1", def: "Ts3odde2", ops: &Ops::<m_shsq1::Ts3odde2>(PhantomData) },
        Entry { module_index: 23, order: 55, module_id: "shsq1", def: "Ts3odde3", ops: &Ops::<m_shsq1::Ts3odde3>(PhantomData) },
        Entry { module_index: 23, order: 56, module_id: "shsq1", def: "Ts3dddn", ops: &Ops::<m_shsq1::Ts3dddn>(PhantomData) },
        Entry { module_index: 23, order: 57, module_id: "shsq1", def: "Ts3ddde0", ops: &Ops::<m_shsq1::Ts3ddde0>(PhantomData) },
        Entry { module_index: 23, order: 58, module_id: "shsq1", def: "Ts3ddde1", ops: &Ops::<m_shsq1::Ts3ddde1>(PhantomData) },
        Entry { module_index: 23, order: 59, module_id: "shsq1", def: "Ts3ddde2", ops: &Ops::<m_shsq1::Ts3ddde2>(PhantomData) },
        Entry { module_index: 23, order: 60, module_id: "shsq1", def: "Ts3ddde3", ops: &Ops::<m_shsq1::Ts3ddde3>(PhantomData) },
        Entry { module_index: 54, order: 0, module_id: "c05a0", def: "Tsent", ops: &Ops::<m_c05a0::Tsent>(PhantomData) },
        Entry { module_index: 54, order: 1, module_id: "c05a0", def: "Tmsg", ops: &Ops::<m_c05a0::Tmsg>(PhantomData) },
        Entry { module_index: 57, order: 0, module_id: "c05a3", def: "Tsent", ops: &Ops::<m_c05a3::Tsent>(PhantomData) },
        Entry { module_index: 57, order: 1, module_id: "c05a3", def: "Tmsg", ops: &Ops::<m_c05a3::Tmsg>(PhantomData) },
        Entry { module_index: 65, order: 0, module_id: "c05b2", def: "Tsent", ops: &Ops::<m_c05b2::Tsent>(PhantomData) },
        Entry { module_index: 65, order: 1, module_id: "c05b2", def: "Tmsg", ops: &Ops::<m_c05b2::Tmsg>(PhantomData) },
        Entry { module_index: 74, order: 0, module_id: "c05c2", def: "Tsent", ops: &Ops::<m_c05c2::Tsent>(PhantomData) },
        Entry { module_index: 74, order: 1, module_id: "c05c2", def: "Tmsg", ops: &Ops::<m_c05c2::Tmsg>(PhantomData) },
        Entry { module_index: 79, order: 0, module_id: "c05d2", def: "Tsent", ops: &Ops::<m_c05d2::Tsent>(PhantomData) },
        Entry { module_index: 79, order: 1, module_id: "c05d2", def: "Tmsg", ops: &Ops::<m_c05d2::Tmsg>(PhantomData) },
        Entry { module_index: 84, order: 0, module_id: "c05e2", def: "Tsent", ops: &Ops::<m_c05e2::Tsent>(PhantomData) },
        Entry { module_index: 84, order: 1, module_id: "c05e2", def: "Tmsg", ops: &Ops::<m_c05e2::Tmsg>(PhantomData) },
        Entry { module_index: 87, order: 0, module_id: "c05f0", def: "Tsent", ops: &Ops::<m_c05f0::Tsent>(PhantomData) },
        Entry { module_index: 87, order: 1, module_id: "c05f0", def: "Tinner", ops: &Ops::<m_c05f0::Tinner>(PhantomData) },
        Entry { module_index: 87, order: 2, module_id: "c05f0", def: "Tmsg", ops: &Ops::<m_c05f0::Tmsg>(PhantomData) },
        Entry { module_index: 92, order: 0, module_id: "c05g0", def: "Tsent", ops: &Ops::<m_c05g0::Tsent>(PhantomData) },
        Entry { module_index: 92, order: 1, module_id: "c05g0", def: "Tinner", ops: &Ops::<m_c05g0::Tinner>(PhantomData) },
        Entry { module_index: 92, order: 2, module_id: "c05g0", def: "Tmsg", ops: &Ops::<m_c05g0::Tmsg>(PhantomData) },
        Entry { module_index: 96, order: 0, module_id: "c05h0", def: "Tsent", ops: &Ops::<m_c05h0::Tsent>(PhantomData) },
        Entry { module_index: 96, order: 1, module_id: "c05h0", def: "Tinner", ops: &Ops::<m_c05h0::Tinner>(PhantomData) },
        Entry { module_index: 96, order: 2, module_id: "c05h0", def: "Tmsg", ops: &Ops::<m_c05h0::Tmsg>(PhantomData) },
        Entry { module_index: 102, order: 0, module_id: "c05k2", def: "Tsent", ops: &Ops::<m_c05k2::Tsent>(PhantomData) },
        Entry { module_index: 102, order: 1, module_id: "c05k2", def: "Tmsg", ops: &Ops::<m_c05k2::Tmsg>(PhantomData) },
    ]
}
pub const ZOO_TYPES: usize = 102;
pub const ZOO_REJECTED_JSON: &str = "[]";

use asn1rs::prelude::*;

#[asn(transparent)]

#[derive(Default, Debug, Clone, PartialEq, Hash)]
pub struct Tia5any(#[asn(ia5string)] pub String);

impl Tia5any {
}

impl Tia5any {
    pub const fn new(value: String) -> Self {
        Self(value)
    }
}

impl ::core::ops::Deref for Tia5any {
    type Target = String;

    fn deref(&self) -> &String {
        &self.0
    }
}

impl ::core::ops::DerefMut for Tia5any {
    fn deref_mut(&mut self) -> &mut String {
        &mut self.0
    }
}

impl ::core::convert::From<String> for Tia5any {
    fn from(value: String) -> Self {
        Self(value)
    }
}

impl ::core::convert::From<Tia5any> for String {
    fn from(value: Tia5any) -> Self {
        value.0
    }
}

#[asn(transparent)]

#[derive(Default, Debug, Clone, PartialEq, Hash)]
pub struct Tia5f1(#[asn(ia5string(size(1)))] pub String);

impl Tia5f1 {
}

impl Tia5f1 {
    pub const fn new(value: String) -> Self {
        Self(value)
    }
}

impl ::core::ops::Deref for Tia5f1 {
    type Target = String;

    fn deref(&self) -> &String {
        &self.0
    }
}

impl ::core::ops::DerefMut for Tia5f1 {
    fn deref_mut(&mut self) -> &mut String {
        &mut self.0
    }
}

impl ::core::convert::From<String> for Tia5f1 {
    fn from(value: String) -> Self {
        Self(value)
    }
}

impl ::core::convert::From<Tia5f1> for String {
    fn from(value: Tia5f1) -> Self {
        value.0
    }
}

#[asn(transparent)]

#[derive(Default, Debug, Clone, PartialEq, Hash)]
pub struct Tia5f3(#[asn(ia5string(size(3)))] pub String);

impl Tia5f3 {
}

impl Tia5f3 {
    pub const fn new(value: String) -> Self {
        Self(value)
    }
}

impl ::core::ops::Deref for Tia5f3 {
    type Target = String;

    fn deref(&self) -> &String {
        &self.0
    }
}

impl ::core::ops::DerefMut for Tia5f3 {
    fn deref_mut(&mut self) -> &mut String {
        &mut self.0
    }
}

impl ::core::convert::From<String> for Tia5f3 {
    fn from(value: String) -> Self {
        Self(value)
    }
}

impl ::core::convert::From<Tia5f3> for String {
    fn from(value: Tia5f3) -> Self {
        value.0
    }
}

#[asn(transparent)]

#[derive(Default, Debug, Clone, PartialEq, Hash)]
pub struct Tia5f65535(#[asn(ia5string(size(65535)))] pub String);

impl Tia5f65535 {
}

impl Tia5f65535 {
    pub const fn new(value: String) -> Self {
        Self(value)
    }
}

impl ::core::ops::Deref for Tia5f65535 {
    type Target = String;

    fn deref(&self) -> &String {
        &self.0
    }
}

impl ::core::ops::DerefMut for Tia5f65535 {
    fn deref_mut(&mut self) -> &mut String {
        &mut self.0
    }
}

impl ::core::convert::From<String> for Tia5f65535 {
    fn from(value: String) -> Self {
        Self(value)
    }
}

impl ::core::convert::From<Tia5f65535> for String {
    fn from(value: Tia5f65535) -> Self {
        value.0
    }
}

#[asn(transparent)]

#[derive(Default, Debug, Clone, PartialEq, Hash)]
pub struct Tia5f65536(#[asn(ia5string(size(65536)))] pub String);

impl Tia5f65536 {
}

impl Tia5f65536 {
    pub const fn new(value: String) -> Self {
        Self(value)
    }
}

impl ::core::ops::Deref for Tia5f65536 {
    type Target = String;

    fn deref(&self) -> &String {
        &self.0
    }
}

impl ::core::ops::DerefMut for Tia5f65536 {
    fn deref_mut(&mut self) -> &mut String {
        &mut self.0
    }
}

impl ::core::convert::From<String> for Tia5f65536 {
    fn from(value: String) -> Self {
        Self(value)
    }
}

impl ::core::convert::From<Tia5f65536> for String {
    fn from(value: Tia5f65536) -> Self {
        value.0
    }
}

#[asn(transparent)]

#[derive(Default, Debug, Clone, PartialEq, Hash)]
pub struct Tia5r1to4(#[asn(ia5string(size(1..4)))] pub String);

impl Tia5r1to4 {
}

impl Tia5r1to4 {
    pub const fn new(value: String) -> Self {
        Self(value)
    }
}

impl ::core::ops::Deref for Tia5r1to4 {
    type Target = String;

    fn deref(&self) -> &String {
        &self.0
    }
}

impl ::core::ops::DerefMut for Tia5r1to4 {
    fn deref_mut(&mut self) -> &mut String {
        &mut self.0
    }
}

impl ::core::convert::From<String> for Tia5r1to4 {
    fn from(value: String) -> Self {
        Self(value)
    }
}

impl ::core::convert::From<Tia5r1to4> for String {
    fn from(value: Tia5r1to4) -> Self {
        value.0
    }
}

#[asn(transparent)]

#[derive(Default, Debug, Clone, PartialEq, Hash)]
pub struct Tia5r4to6(#[asn(ia5string(size(4..6)))] pub String);

impl Tia5r4to6 {
}

impl Tia5r4to6 {
    pub const fn new(value: String) -> Self {
        Self(value)
    }
}

impl ::core::ops::Deref for Tia5r4to6 {
    type Target = String;

    fn deref(&self) -> &String {
        &self.0
    }
}

impl ::core::ops::DerefMut for Tia5r4to6 {
    fn deref_mut(&mut self) -> &mut String {
        &mut self.0
    }
}

impl ::core::convert::From<String> for Tia5r4to6 {
    fn from(value: String) -> Self {
        Self(value)
    }
}

impl ::core::convert::From<Tia5r4to6> for String {
    fn from(value: Tia5r4to6) -> Self {
        value.0
    }
}

#[asn(transparent)]

#[derive(Default, Debug, Clone, PartialEq, Hash)]
pub struct Tia5r1to70000(#[asn(ia5string(size(1..70000)))] pub String);

impl Tia5r1to70000 {
}

impl Tia5r1to70000 {
    pub const fn new(value: String) -> Self {
        Self(value)
    }
}

impl ::core::ops::Deref for Tia5r1to70000 {
    type Target = String;

    fn deref(&self) -> &String {
        &self.0
    }
}

impl ::core::ops::DerefMut for Tia5r1to70000 {
    fn deref_mut(&mut self) -> &mut String {
        &mut self.0
    }
}

impl ::core::convert::From<String> for Tia5r1to70000 {
    fn from(value: String) -> Self {
        Self(value)
    }
}

impl ::core::convert::From<Tia5r1to70000> for String {
    fn from(value: Tia5r1to70000) -> Self {
        value.0
    }
}

#[asn(transparent)]

#[derive(Default, Debug, Clone, PartialEq, Hash)]
pub struct Tia5r2tomax(#[asn(ia5string(size(2..9223372036854775807)))] pub String);

impl Tia5r2tomax {
}

impl Tia5r2tomax {
    pub const fn new(value: String) -> Self {
        Self(value)
    }
}

impl ::core::ops::Deref for Tia5r2tomax {
    type Target = String;

    fn deref(&self) -> &String {
        &self.0
    }
}

impl ::core::ops::DerefMut for Tia5r2tomax {
    fn deref_mut(&mut self) -> &mut String {
        &mut self.0
    }
}

impl ::core::convert::From<String> for Tia5r2tomax {
    fn from(value: String) -> Self {
        Self(value)
    }
}

impl ::core::convert::From<Tia5r2tomax> for String {
    fn from(value: Tia5r2tomax) -> Self {
        value.0
    }
}

#[asn(transparent)]

#[derive(Default, Debug, Clone, PartialEq, Hash)]
pub struct Tia5f3x(#[asn(ia5string(size(3,...)))] pub String);

impl Tia5f3x {
}

impl Tia5f3x {
    pub const fn new(value: String) -> Self {
        Self(value)
    }
}

impl ::core::ops::Deref for Tia5f3x {
    type Target = String;

    fn deref(&self) -> &String {
        &self.0
    }
}

impl ::core::ops::DerefMut for Tia5f3x {
    fn deref_mut(&mut self) -> &mut String {
        &mut self.0
    }
}

impl ::core::convert::From<String> for Tia5f3x {
    fn from(value: String) -> Self {
        Self(value)
    }
}

impl ::core::convert::From<Tia5f3x> for String {
    fn from(value: Tia5f3x) -> Self {
        value.0
    }
}

#[asn(transparent)]

#[derive(Default, Debug, Clone, PartialEq, Hash)]
pub struct Tia5r1to4x(#[asn(ia5string(size(1..4,...)))] pub String);

impl Tia5r1to4x {
}

impl Tia5r1to4x {
    pub const fn new(value: String) -> Self {
        Self(value)
    }
}

impl ::core::ops::Deref for Tia5r1to4x {
    type Target = String;

    fn deref(&self) -> &String {
        &self.0
    }
}

impl ::core::ops::DerefMut for Tia5r1to4x {
    fn deref_mut(&mut self) -> &mut String {
        &mut self.0
    }
}

impl ::core::convert::From<String> for Tia5r1to4x {
    fn from(value: String) -> Self {
        Self(value)
    }
}

impl ::core::convert::From<Tia5r1to4x> for String {
    fn from(value: Tia5r1to4x) -> Self {
        value.0
    }
}
// ---- harness conversions (generated by the zoo build script from the items above) ----
impl FromValue for Tia5any { fn from_value(v: &Value) -> Self { Tia5any(FromValue::from_value(v)) } }
impl ToValue for Tia5any { fn to_value(&self) -> Value { self.0.to_value() } }
impl FromValue for Tia5f1 { fn from_value(v: &Value) -> Self { Tia5f1(FromValue::from_value(v)) } }
impl ToValue for Tia5f1 { fn to_value(&self) -> Value { self.0.to_value() } }
impl FromValue for Tia5f3 { fn from_value(v: &Value) -> Self { Tia5f3(FromValue::from_value(v)) } }
impl ToValue for Tia5f3 { fn to_value(&self) -> Value { self.0.to_value() } }
impl FromValue for Tia5f65535 { fn from_value(v: &Value) -> Self { Tia5f65535(FromValue::from_value(v)) } }
impl ToValue for Tia5f65535 { fn to_value(&self) -> Value { self.0.to_value() } }
impl FromValue for Tia5f65536 { fn from_value(v: &Value) -> Self { Tia5f65536(FromValue::from_value(v)) } }
impl ToValue for Tia5f65536 { fn to_value(&self) -> Value { self.0.to_value() } }
impl FromValue for Tia5r1to4 { fn from_value(v: &Value) -> Self { Tia5r1to4(FromValue::from_value(v)) } }
impl ToValue for Tia5r1to4 { fn to_value(&self) -> Value { self.0.to_value() } }
impl FromValue for Tia5r4to6 { fn from_value(v: &Value) -> Self { Tia5r4to6(FromValue::from_value(v)) } }
impl ToValue for Tia5r4to6 { fn to_value(&self) -> Value { self.0.to_value() } }
impl FromValue for Tia5r1to70000 { fn from_value(v: &Value) -> Self { Tia5r1to70000(FromValue::from_value(v)) } }
impl ToValue for Tia5r1to70000 { fn to_value(&self) -> Value { self.0.to_value() } }
impl FromValue for Tia5r2tomax { fn from_value(v: &Value) -> Self { Tia5r2tomax(FromValue::from_value(v)) } }
impl ToValue for Tia5r2tomax { fn to_value(&self) -> Value { self.0.to_value() } }
impl FromValue for Tia5f3x { fn from_value(v: &Value) -> Self { Tia5f3x(FromValue::from_value(v)) } }
impl ToValue for Tia5f3x { fn to_value(&self) -> Value { self.0.to_value() } }
impl FromValue for Tia5r1to4x { fn from_value(v: &Value) -> Self { Tia5r1to4x(FromValue::from_value(v)) } }
impl ToValue for Tia5r1to4x { fn to_value(&self) -> Value { self.0.to_value() } }
